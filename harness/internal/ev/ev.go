// Package ev: ndjson event writer and small helpers shared by all drivers.
// The drivers are deliberately dumb: they call the real API and write what they saw.
package ev

import (
	"bufio"
	"encoding/json"
	"fmt"
	"io"
	"math/rand"
	"os"
	"runtime"
	"strconv"
	"strings"

	"github.com/free5gc/nas/logger"
	"github.com/sirupsen/logrus"
)

type Writer struct {
	f *os.File
	w *bufio.Writer
	N int
}

func Create(path string) *Writer {
	f, err := os.Create(path)
	if err != nil {
		Fatal("create %s: %v", path, err)
	}
	return &Writer{f: f, w: bufio.NewWriterSize(f, 1<<20)}
}

func (w *Writer) Emit(v interface{}) {
	b, err := json.Marshal(v)
	if err != nil {
		Fatal("marshal: %v", err)
	}
	w.w.Write(b)
	w.w.WriteByte('\n')
	w.N++
}

func (w *Writer) Flush() { w.w.Flush() }

func (w *Writer) Close() {
	w.w.Flush()
	w.f.Close()
}

func Fatal(format string, a ...interface{}) {
	fmt.Fprintf(os.Stderr, "driver: "+format+"\n", a...)
	os.Exit(3)
}

func Seed() int64 {
	s, err := strconv.ParseInt(os.Getenv("VERIF_SEED"), 10, 64)
	if err != nil {
		return 1
	}
	return s
}

func Rng() *rand.Rand { return rand.New(rand.NewSource(Seed())) }

func Thorough() bool { return os.Getenv("VERIF_TIER") == "thorough" }

func Ints(b []byte) []int {
	o := make([]int, len(b))
	for i, x := range b {
		o[i] = int(x)
	}
	return o
}

// Bytes turns a generated octet list into the slice a driver hands to the library.  Two out of three values (chosen by
// the contents, so that a case behaves the same in a fresh confirming process) are VIEWS of a larger array with non-zero
// octets behind them - the shape of a PDU taken out of a receive buffer; the others have no spare capacity at all.
// No property mentions capacity: results must not depend on what lies behind len.  VERIF_VIEW=0 switches the views off.
func Bytes(a []int) []byte {
	h := len(a)
	for _, x := range a {
		h = h*31 + x
	}
	if viewsOff || h%3 == 0 {
		o := make([]byte, len(a))
		for i, x := range a {
			o[i] = byte(x)
		}
		return o
	}
	const behind = 24
	full := make([]byte, len(a)+behind)
	for i, x := range a {
		full[i] = byte(x)
	}
	for i := len(a); i < len(full); i++ {
		full[i] = byte(0xA5 ^ (i * 29))
		if full[i] == 0 {
			full[i] = 0x5A
		}
	}
	return full[:len(a)]
}

var viewsOff = os.Getenv("VERIF_VIEW") == "0"

// Runes gives text as code points so that TLC never needs string surgery.
func Runes(s string) []int {
	o := []int{}
	for _, r := range s {
		o = append(o, int(r))
	}
	return o
}

// Quiet sends the library's logging to io.Discard and fixes the logging LEVEL of this process: a driver's seeded `record`
// stream (and any run with VERIF_LOGTRACE=1) runs with the logger at trace level, everything else at the library's default.
// The level is configuration the properties do not mention: results must not depend on it, and code that only runs when
// verbose logging is on (dumps, formatting of attacker-supplied text) is exercised by every check's recorded stream.
func Quiet() {
	l := logger.GetLogger()
	l.SetOutput(io.Discard)
	v := os.Getenv("VERIF_LOGTRACE")
	if v == "1" || (v != "0" && len(os.Args) > 1 && strings.HasPrefix(os.Args[1], "record")) {
		l.SetLevel(logrus.TraceLevel)
	}
}

type PanicInfo struct {
	Fn   string `json:"fn"`
	Kind string `json:"kind"`
	Lib  bool   `json:"lib"`
}

// Guard runs f and reports a panic, with the innermost non-runtime frame.
func Guard(f func()) (pi *PanicInfo) {
	defer func() {
		if r := recover(); r != nil {
			pi = &PanicInfo{Kind: fmt.Sprint(r)}
			pcs := make([]uintptr, 64)
			n := runtime.Callers(2, pcs)
			fr := runtime.CallersFrames(pcs[:n])
			for {
				f, more := fr.Next()
				if !strings.HasPrefix(f.Function, "runtime.") && !strings.Contains(f.Function, "internal/ev.Guard") {
					pi.Fn = f.Function
					pi.Lib = strings.HasPrefix(f.Function, "github.com/free5gc/nas")
					// panics raised inside std-lib helpers called by the library: walk up to the first library frame
					if !pi.Lib && !strings.HasPrefix(f.Function, "verifharness") && !strings.HasPrefix(f.Function, "main.") {
						for more {
							f, more = fr.Next()
							if strings.HasPrefix(f.Function, "github.com/free5gc/nas") {
								pi.Fn = f.Function
								pi.Lib = true
								break
							}
							if strings.HasPrefix(f.Function, "main.") || strings.HasPrefix(f.Function, "verifharness") {
								break
							}
						}
					}
					break
				}
				if !more {
					break
				}
			}
		}
	}()
	f()
	return nil
}
