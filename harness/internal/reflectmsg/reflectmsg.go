// Package reflectmsg builds and projects nas messages generically by reflection.
// All 45 message structs and all IE types fall into a handful of field shapes
// (Iei uint8, Len uint8|uint16, Octet uint8|[n]uint8, Buffer []uint8), so no
// per-message code exists in the harness.
package reflectmsg

import (
	"bytes"
	"fmt"
	"reflect"

	"github.com/free5gc/nas"
)

type Slot struct {
	P   bool  `json:"p"`
	Iei int   `json:"iei"`
	Len int   `json:"len"`
	V   []int `json:"v"`
}

type Proj struct {
	Msg    string   `json:"msg"`
	Bodies []string `json:"bodies"`
	Hdr    []int    `json:"hdr"`
	Mand   []Slot   `json:"mand"`
	Opt    []Slot   `json:"opt"`
}

func EmptyProj() Proj {
	return Proj{Bodies: []string{}, Hdr: []int{}, Mand: []Slot{}, Opt: []Slot{}}
}

func projIE(v reflect.Value) Slot {
	s := Slot{P: true, V: []int{}}
	if f := v.FieldByName("Iei"); f.IsValid() {
		s.Iei = int(f.Uint())
	}
	if f := v.FieldByName("Len"); f.IsValid() {
		s.Len = int(f.Uint())
	}
	if f := v.FieldByName("Octet"); f.IsValid() {
		if f.Kind() == reflect.Uint8 {
			s.V = []int{int(f.Uint())}
		} else {
			for i := 0; i < f.Len(); i++ {
				s.V = append(s.V, int(f.Index(i).Uint()))
			}
		}
	} else if f := v.FieldByName("Buffer"); f.IsValid() {
		for i := 0; i < f.Len(); i++ {
			s.V = append(s.V, int(f.Index(i).Uint()))
		}
	}
	return s
}

// ProjectBody projects one message body struct (value, not pointer).
func ProjectBody(body reflect.Value, p *Proj) {
	p.Msg = body.Type().Name()
	for j := 0; j < body.NumField(); j++ {
		bf := body.Field(j)
		if bf.Kind() == reflect.Ptr {
			if bf.IsNil() {
				p.Opt = append(p.Opt, Slot{V: []int{}})
			} else {
				p.Opt = append(p.Opt, projIE(bf.Elem()))
			}
		} else {
			p.Mand = append(p.Mand, projIE(bf))
		}
	}
}

func family(m *nas.Message) (reflect.Value, bool) {
	if m.GmmMessage != nil {
		return reflect.ValueOf(m.GmmMessage).Elem(), true
	}
	if m.GsmMessage != nil {
		return reflect.ValueOf(m.GsmMessage).Elem(), true
	}
	return reflect.Value{}, false
}

// Project: names of all non-nil bodies, header view, and the projection of the first body.
func Project(m *nas.Message) Proj {
	p := EmptyProj()
	fam, ok := family(m)
	if !ok {
		return p
	}
	for i := 0; i < fam.NumField(); i++ {
		f := fam.Field(i)
		if f.Kind() == reflect.Struct { // GmmHeader / GsmHeader
			o := f.FieldByName("Octet")
			for k := 0; k < o.Len(); k++ {
				p.Hdr = append(p.Hdr, int(o.Index(k).Uint()))
			}
			continue
		}
		if f.Kind() != reflect.Ptr || f.IsNil() {
			continue
		}
		p.Bodies = append(p.Bodies, f.Elem().Type().Name())
		if len(p.Bodies) == 1 {
			ProjectBody(f.Elem(), &p)
		}
	}
	// bodies hanging off the OTHER family pointer count as well: a decode populates exactly one body in the whole message
	if m.GmmMessage != nil && m.GsmMessage != nil {
		other := reflect.ValueOf(m.GsmMessage).Elem()
		for i := 0; i < other.NumField(); i++ {
			if f := other.Field(i); f.Kind() == reflect.Ptr && !f.IsNil() {
				p.Bodies = append(p.Bodies, f.Elem().Type().Name())
			}
		}
	}
	return p
}

func setIE(v reflect.Value, s Slot) error {
	if f := v.FieldByName("Iei"); f.IsValid() {
		f.SetUint(uint64(s.Iei))
	}
	if f := v.FieldByName("Len"); f.IsValid() {
		f.SetUint(uint64(s.Len))
	}
	if f := v.FieldByName("Octet"); f.IsValid() {
		if f.Kind() == reflect.Uint8 {
			if len(s.V) != 1 {
				return fmt.Errorf("u8 slot needs 1 octet, got %d", len(s.V))
			}
			f.SetUint(uint64(s.V[0]))
		} else {
			if len(s.V) != f.Len() {
				return fmt.Errorf("array slot needs %d octets, got %d", f.Len(), len(s.V))
			}
			for i := range s.V {
				f.Index(i).SetUint(uint64(s.V[i]))
			}
		}
	} else if f := v.FieldByName("Buffer"); f.IsValid() {
		b := make([]byte, len(s.V))
		for i := range s.V {
			b[i] = byte(s.V[i])
		}
		f.SetBytes(b)
	}
	return nil
}

// Build constructs a nas.Message holding the named body with the given slot values.
// The header view is set equal to the body's own header octets (precondition of C02).
func Build(name string, mand, opt []Slot) (*nas.Message, reflect.Value, error) {
	m := nas.NewMessage()
	gm := nas.NewGmmMessage()
	sm := nas.NewGsmMessage()
	var fam reflect.Value
	var fld reflect.Value
	isGmm := false
	if f := reflect.ValueOf(gm).Elem().FieldByName(name); f.IsValid() {
		fam, fld, isGmm = reflect.ValueOf(gm).Elem(), f, true
		m.GmmMessage = gm
	} else if f := reflect.ValueOf(sm).Elem().FieldByName(name); f.IsValid() {
		fam, fld = reflect.ValueOf(sm).Elem(), f
		m.GsmMessage = sm
	} else {
		return nil, reflect.Value{}, fmt.Errorf("PLUMBING: no message %q in GmmMessage/GsmMessage", name)
	}
	body := reflect.New(fld.Type().Elem())
	fld.Set(body)
	bv := body.Elem()
	mi, oi := 0, 0
	for j := 0; j < bv.NumField(); j++ {
		bf := bv.Field(j)
		if bf.Kind() == reflect.Ptr {
			if oi >= len(opt) {
				return nil, body, fmt.Errorf("PLUMBING: %s has more optional fields than the case", name)
			}
			if opt[oi].P {
				ie := reflect.New(bf.Type().Elem())
				if err := setIE(ie.Elem(), opt[oi]); err != nil {
					return nil, body, fmt.Errorf("PLUMBING: %s opt %d: %v", name, oi, err)
				}
				bf.Set(ie)
			}
			oi++
		} else {
			if mi >= len(mand) {
				return nil, body, fmt.Errorf("PLUMBING: %s has more mandatory fields than the case", name)
			}
			if err := setIE(bf, mand[mi]); err != nil {
				return nil, body, fmt.Errorf("PLUMBING: %s mand %d: %v", name, mi, err)
			}
			mi++
		}
	}
	if mi != len(mand) || oi != len(opt) {
		return nil, body, fmt.Errorf("PLUMBING: %s slot count mismatch (%d/%d mand, %d/%d opt)", name, mi, len(mand), oi, len(opt))
	}
	// header view := the body's own header octets
	hdr := fam.Field(0).FieldByName("Octet")
	for k := 0; k < hdr.Len() && k < len(mand); k++ {
		if len(mand[k].V) == 1 {
			hdr.Index(k).SetUint(uint64(mand[k].V[0]))
		}
	}
	_ = isGmm
	return m, body, nil
}

// Refill writes the slot values into the elements the body ALREADY holds (same set of optional elements; the header octets
// of the first `hdr` mandatory slots are left alone): the message object is edited in place, as a caller does between two
// encodings of one object.
func Refill(body reflect.Value, mand, opt []Slot, hdr int) error {
	bv := body.Elem()
	mi, oi := 0, 0
	for j := 0; j < bv.NumField(); j++ {
		bf := bv.Field(j)
		if bf.Kind() == reflect.Ptr {
			if oi < len(opt) && opt[oi].P && !bf.IsNil() {
				if err := setIE(bf.Elem(), opt[oi]); err != nil {
					return err
				}
			}
			oi++
		} else {
			if mi >= hdr && mi < len(mand) {
				if err := setIE(bf, mand[mi]); err != nil {
					return err
				}
			}
			mi++
		}
	}
	return nil
}

// BodyOf: pointer to the first body the message holds.
func BodyOf(m *nas.Message) (reflect.Value, bool) {
	fam, ok := family(m)
	if !ok {
		return reflect.Value{}, false
	}
	for i := 0; i < fam.NumField(); i++ {
		if f := fam.Field(i); f.Kind() == reflect.Ptr && !f.IsNil() {
			return f, true
		}
	}
	return reflect.Value{}, false
}

// SameShape: the message holds exactly one body, the named one, with exactly the optional elements marked present.
func SameShape(m *nas.Message, name string, opt []Slot) bool {
	p := Project(m)
	if p.Msg != name || len(p.Bodies) != 1 || len(p.Opt) != len(opt) {
		return false
	}
	for i := range opt {
		if p.Opt[i].P != opt[i].P {
			return false
		}
	}
	return true
}

// EncodeBody calls Encode<Name>(buffer) on the body pointer.
func EncodeBody(body reflect.Value, buf *bytes.Buffer) error {
	name := body.Elem().Type().Name()
	meth := body.MethodByName("Encode" + name)
	if !meth.IsValid() {
		return fmt.Errorf("PLUMBING: no method Encode%s", name)
	}
	out := meth.Call([]reflect.Value{reflect.ValueOf(buf)})
	if out[0].IsNil() {
		return nil
	}
	return out[0].Interface().(error)
}

// DecodeBody calls Decode<Name>(&bytes) on a fresh body of the given message name.
func DecodeBody(name string, b []byte) (Proj, error, error) {
	p := EmptyProj()
	var fld reflect.Value
	if f := reflect.ValueOf(nas.NewGmmMessage()).Elem().FieldByName(name); f.IsValid() {
		fld = f
	} else if f := reflect.ValueOf(nas.NewGsmMessage()).Elem().FieldByName(name); f.IsValid() {
		fld = f
	} else {
		return p, nil, fmt.Errorf("PLUMBING: no message %q", name)
	}
	body := reflect.New(fld.Type().Elem())
	meth := body.MethodByName("Decode" + name)
	if !meth.IsValid() {
		return p, nil, fmt.Errorf("PLUMBING: no method Decode%s", name)
	}
	out := meth.Call([]reflect.Value{reflect.ValueOf(&b)})
	if !out[0].IsNil() {
		return p, out[0].Interface().(error), nil
	}
	ProjectBody(body.Elem(), &p)
	p.Bodies = []string{name}
	return p, nil, nil
}

// ScribbleMessage inverts every content octet of every IE of every non-nil body.
func ScribbleMessage(m *nas.Message) {
	fam, ok := family(m)
	if !ok {
		return
	}
	for i := 0; i < fam.NumField(); i++ {
		f := fam.Field(i)
		if f.Kind() != reflect.Ptr || f.IsNil() {
			continue
		}
		body := f.Elem()
		for j := 0; j < body.NumField(); j++ {
			bf := body.Field(j)
			if bf.Kind() == reflect.Ptr {
				if bf.IsNil() {
					continue
				}
				bf = bf.Elem()
			}
			if o := bf.FieldByName("Octet"); o.IsValid() {
				if o.Kind() == reflect.Uint8 {
					o.SetUint(uint64(^uint8(o.Uint())))
				} else {
					for k := 0; k < o.Len(); k++ {
						o.Index(k).SetUint(uint64(^uint8(o.Index(k).Uint())))
					}
				}
			} else if bb := bf.FieldByName("Buffer"); bb.IsValid() {
				for k := 0; k < bb.Len(); k++ {
					bb.Index(k).SetUint(uint64(^uint8(bb.Index(k).Uint())))
				}
				// the owner of a message may also append to its elements: what lies between len and cap of an element
				// belongs to the message and to nothing else
				if bb.Kind() == reflect.Slice && bb.Cap() > bb.Len() {
					ext := bb.Slice(0, bb.Cap())
					for k := bb.Len(); k < ext.Len(); k++ {
						ext.Index(k).SetUint(uint64(^uint8(ext.Index(k).Uint())))
					}
				}
			}
		}
	}
}

// SliceGetters: the bound read accessors (methods Get*, no argument, one []uint8 result) of every element present in the
// first body of m.  What such an accessor returns is the caller's own value; looked up once, before goroutines start.
func SliceGetters(m *nas.Message) []reflect.Value {
	var out []reflect.Value
	fam, ok := family(m)
	if !ok {
		return out
	}
	u8s := reflect.TypeOf([]uint8(nil))
	for i := 0; i < fam.NumField(); i++ {
		f := fam.Field(i)
		if f.Kind() != reflect.Ptr || f.IsNil() {
			continue
		}
		body := f.Elem()
		for j := 0; j < body.NumField(); j++ {
			bf := body.Field(j)
			var p reflect.Value
			if bf.Kind() == reflect.Ptr {
				if bf.IsNil() {
					continue
				}
				p = bf
			} else if bf.CanAddr() {
				p = bf.Addr()
			} else {
				continue
			}
			t := p.Type()
			for k := 0; k < t.NumMethod(); k++ {
				mt := t.Method(k)
				if len(mt.Name) > 3 && mt.Name[:3] == "Get" && mt.Type.NumIn() == 1 && mt.Type.NumOut() == 1 && mt.Type.Out(0) == u8s {
					out = append(out, p.Method(k))
				}
			}
		}
		break
	}
	return out
}
