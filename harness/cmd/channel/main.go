// Driver for X01: one direction of a NAS security context (TS 33.501 6.4 / TS 24.501 4.4) built from the
// library's pieces exactly as a 5G core / UE composes them:
//
//	Protect   = nas.Message.PlainNasEncode -> security.NASEncrypt (in place, COUNT = 0x00 || NAS COUNT)
//	            -> security.NASMacCalculate over SQN || ciphertext
//	            -> nasMessage.SecurityProtected5GSNASMessage (EPD 7E, header type 2, MAC, SQN).Encode ++ ciphertext
//	            -> security.Count.AddOne
//	Unprotect = envelope Decode -> estimate the count from the received SQN and the stored security.Count
//	            (received SQN < stored SQN => overflow + 1) -> NASMacCalculate under the estimate, compare
//	            (mismatch: reject, nothing changes) -> NASEncrypt (decipher) -> PlainNasDecode -> store estimate + 1
//
//	channel replay <histories.json> <out.ndjson>   behaviours chosen by TLC (actions of spec/NasSecureChannel.tla)
//	channel record <out.ndjson>                    seeded behaviours: every algorithm pair, direction, bearer;
//	                                               SQN wrap, overflow carry 0x00FFFF->0x010000, count wrap 0xFFFFFF->0,
//	                                               every single bit of a wire flipped in turn
//
// The driver takes no decision about correctness: it performs each action with the real library and logs the
// wire octets, accept/reject, the delivered plaintext and both counters.  Every comparison is TLC's
// (spec/trace/Trace_X01.tla).
package main

import (
	"bytes"
	"encoding/json"
	"fmt"
	"math/rand"
	"os"
	"path/filepath"

	"verifharness/internal/ev"

	"github.com/free5gc/nas"
	"github.com/free5gc/nas/nasMessage"
	"github.com/free5gc/nas/security"
)

type Act struct {
	Act string `json:"act"`
	I   int    `json:"i"`
	M   int    `json:"m"`
	N   int    `json:"n"`
	F   string `json:"f"`
	B   int    `json:"b"`
	C   int    `json:"c"`
}

type Hist struct {
	Nia    int   `json:"nia"`
	Nea    int   `json:"nea"`
	Bearer int   `json:"bearer"`
	Dir    int   `json:"dir"`
	Kenc   []int `json:"kenc"`
	Kint   []int `json:"kint"`
	Start  int64 `json:"start"`
	Acts   []Act `json:"acts"`
}

// Ev: one action and what was observed (every event carries every key).
type Ev struct {
	Op     string `json:"op"`
	Nia    int    `json:"nia"`
	Nea    int    `json:"nea"`
	Bearer int    `json:"bearer"`
	Dir    int    `json:"dir"`
	Kenc   []int  `json:"kenc"`
	Kint   []int  `json:"kint"`
	Start  int64  `json:"start"`
	I      int    `json:"i"`
	M      int    `json:"m"`
	N      int    `json:"n"`
	F      string `json:"f"`
	B      int    `json:"b"`
	C      int    `json:"c"`
	Plain  []int  `json:"plain"` // Send/Reflect/Skip: the encoded plain message; Deliver: the deciphered octets
	Reenc  []int  `json:"reenc"` // Deliver: the decoded message encoded again
	Wire   []int  `json:"wire"`  // the wire produced / concerned
	Ok     bool   `json:"ok"`    // Deliver: accepted
	Dec    bool   `json:"dec"`   // Deliver: the deciphered octets decoded as a plain NAS message
	Err    string `json:"err"`   // an error of a library call that the composition does not expect
	Panic  bool   `json:"panic"`
	Pfn    string `json:"pfn"`
	Plib   bool   `json:"plib"`
	Sget   int64  `json:"sget"` // sender count after the action: Get / SQN / Overflow
	Ssqn   int64  `json:"ssqn"`
	Sovf   int64  `json:"sovf"`
	Rget   int64  `json:"rget"` // receiver count after the action
	Rsqn   int64  `json:"rsqn"`
	Rovf   int64  `json:"rovf"`
}

var none = []int{}

func blank(op string) Ev {
	return Ev{Op: op, Kenc: none, Kint: none, Plain: none, Reenc: none, Wire: none}
}

// ------------------------------------------------------------------ the message pool
var poolNames = []string{
	"GmmMessage/MinConfigurationUpdateComplete", // 3 octets
	"GmmMessage/MinStatus5GMM",
	"GsmMessage/MinStatus5GSM",
	"GmmMessage/MinIdentityResponse",
	"GsmMessage/MinPDUSessionModificationComplete",
	"GmmMessage/MinAuthenticationReject",
	"GmmMessage/MinDLNASTransport",
	"GmmMessage/MinSecurityModeComplete",
	"GmmMessage/MinULNASTransport",
	"GmmMessage/MinServiceRequest",
	"GsmMessage/MinPDUSessionEstablishmentAccept",
	"GmmMessage/MinRegistrationAccept", // 141 octets
}

var pool []*nas.Message

func loadPool() {
	root := os.Getenv("VERIF_REPO")
	if root == "" {
		root = "/repo"
	}
	for _, n := range poolNames {
		b, err := os.ReadFile(filepath.Join(root, "testdata", n))
		if err != nil {
			ev.Fatal("pool: %v", err)
		}
		m := nas.NewMessage()
		if err := m.PlainNasDecode(&b); err != nil {
			ev.Fatal("pool: %s does not decode: %v", n, err)
		}
		pool = append(pool, m)
	}
}

func msgOf(m int) *nas.Message {
	if m < 0 {
		m = -m
	}
	return pool[m%len(pool)]
}

// ------------------------------------------------------------------ the composition under test
type ctx struct {
	nia, nea, bearer, dir uint8
	kenc, kint            [16]byte
}

const (
	epd5GMM  = 0x7e
	shtIPCip = 0x02
)

// protect builds the wire of msg under cnt (not advanced here) for direction dir.
func protect(c *ctx, cnt *security.Count, dir uint8, msg *nas.Message) (wire, plain []byte, err error) {
	payload, err := msg.PlainNasEncode()
	if err != nil {
		return nil, nil, fmt.Errorf("PlainNasEncode: %w", err)
	}
	plain = append([]byte{}, payload...)
	if err = security.NASEncrypt(c.nea, c.kenc, cnt.Get(), c.bearer, dir, payload); err != nil {
		return nil, plain, fmt.Errorf("NASEncrypt: %w", err)
	}
	macIn := append([]byte{cnt.SQN()}, payload...)
	mac, err := security.NASMacCalculate(c.nia, c.kint, cnt.Get(), c.bearer, dir, macIn)
	if err != nil {
		return nil, plain, fmt.Errorf("NASMacCalculate: %w", err)
	}
	if len(mac) != 4 {
		return nil, plain, fmt.Errorf("NASMacCalculate: %d octets", len(mac))
	}
	env := nasMessage.NewSecurityProtected5GSNASMessage(0)
	env.ExtendedProtocolDiscriminator.SetExtendedProtocolDiscriminator(epd5GMM)
	env.SpareHalfOctetAndSecurityHeaderType.SetSecurityHeaderType(shtIPCip)
	env.MessageAuthenticationCode.SetMAC([4]uint8{mac[0], mac[1], mac[2], mac[3]})
	env.SequenceNumber.SetSQN(cnt.SQN())
	buf := new(bytes.Buffer)
	if err = env.EncodeSecurityProtected5GSNASMessage(buf); err != nil {
		return nil, plain, fmt.Errorf("envelope encode: %w", err)
	}
	wire = append(append([]byte{}, buf.Bytes()...), payload...)
	return wire, plain, nil
}

type rx struct {
	ok, dec      bool
	plain, reenc []byte
	err          string
}

// unprotect is the receiver. rcv is the stored count (expected next); it changes only on acceptance.
func unprotect(c *ctx, rcv *security.Count, wire []byte) (r rx) {
	w := append([]byte{}, wire...)
	env := nasMessage.NewSecurityProtected5GSNASMessage(0)
	if err := env.DecodeSecurityProtected5GSNASMessage(&w); err != nil {
		return r // not an envelope: rejected
	}
	if env.ExtendedProtocolDiscriminator.GetExtendedProtocolDiscriminator() != epd5GMM ||
		env.SpareHalfOctetAndSecurityHeaderType.Octet != shtIPCip {
		return r
	}
	sqn := env.SequenceNumber.GetSQN()
	est := *rcv
	if sqn < est.SQN() {
		est.SetOverflow(est.Overflow() + 1)
	}
	est.SetSQN(sqn)
	payload := append([]byte{}, wire[7:]...)
	mac, err := security.NASMacCalculate(c.nia, c.kint, est.Get(), c.bearer, c.dir, append([]byte{sqn}, payload...))
	if err != nil {
		r.err = "NASMacCalculate: " + err.Error()
		return r
	}
	got := env.MessageAuthenticationCode.GetMAC()
	if !bytes.Equal(mac, got[:]) {
		return r
	}
	r.ok = true
	if err := security.NASEncrypt(c.nea, c.kenc, est.Get(), c.bearer, c.dir, payload); err != nil {
		r.err = "NASEncrypt: " + err.Error()
	}
	r.plain = append([]byte{}, payload...)
	m := nas.NewMessage()
	if err := m.PlainNasDecode(&payload); err == nil {
		r.dec = true
		if b, err := m.PlainNasEncode(); err == nil {
			r.reenc = b
		}
	}
	est.AddOne()
	*rcv = est
	return r
}

// ------------------------------------------------------------------ one behaviour
type sess struct {
	c    ctx
	snd  security.Count
	rcv  security.Count
	net  [][]byte
	w    *ev.Writer
	dead bool
}

func (s *sess) counts(e *Ev) {
	e.Ssqn, e.Sovf = int64(s.snd.SQN()), int64(s.snd.Overflow())
	e.Sget = int64(s.snd.Get())
	e.Rsqn, e.Rovf = int64(s.rcv.SQN()), int64(s.rcv.Overflow())
	e.Rget = int64(s.rcv.Get())
}

func setCount(c *security.Count, v int64) {
	c.Set(uint16((v>>8)&0xffff), uint8(v&0xff))
}

func (s *sess) open(h *Hist) {
	s.c = ctx{nia: uint8(h.Nia), nea: uint8(h.Nea), bearer: uint8(h.Bearer), dir: uint8(h.Dir)}
	copy(s.c.kenc[:], ev.Bytes(h.Kenc))
	copy(s.c.kint[:], ev.Bytes(h.Kint))
	s.snd, s.rcv, s.net, s.dead = security.Count{}, security.Count{}, nil, false
	setCount(&s.snd, h.Start)
	setCount(&s.rcv, h.Start)
	e := blank("TraceReset")
	e.Nia, e.Nea, e.Bearer, e.Dir, e.Kenc, e.Kint, e.Start = h.Nia, h.Nea, h.Bearer, h.Dir, h.Kenc, h.Kint, h.Start
	s.counts(&e)
	s.w.Emit(e)
}

// flip changes one bit of a wire: field f, bit b (hdr/mac/ct: bit b counted from the most significant bit of the
// field's first octet, ct modulo its length; sqn: the bit of weight 2^b).
func flip(w []byte, f string, b int) {
	switch f {
	case "hdr":
		w[(b/8)%2] ^= 0x80 >> uint(b%8)
	case "mac":
		w[2+(b/8)%4] ^= 0x80 >> uint(b%8)
	case "sqn":
		w[6] ^= 1 << uint(b%8)
	case "ct":
		n := (len(w) - 7) * 8
		b %= n
		w[7+b/8] ^= 0x80 >> uint(b%8)
	}
}

func (s *sess) step(a Act) {
	if s.dead {
		return
	}
	e := blank(a.Act)
	e.I, e.M, e.N, e.F, e.B, e.C = a.I, a.M, a.N, a.F, a.B, a.C
	pi := ev.Guard(func() {
		switch a.Act {
		case "Send":
			wire, plain, err := protect(&s.c, &s.snd, s.c.dir, msgOf(a.M))
			e.Plain = ev.Ints(plain)
			if err != nil {
				e.Err = err.Error()
				return
			}
			s.snd.AddOne()
			s.net = append(s.net, wire)
			e.Wire = ev.Ints(wire)
		case "Skip":
			// n messages are protected and lost. The counter is advanced by n real AddOne calls; the first and the
			// last of the lost messages are really protected (the MAC of all n would only cost time: NIA1 is slow).
			var wire, plain []byte
			var err error
			for k := 0; k < a.N; k++ {
				if k == 0 || k == a.N-1 {
					wire, plain, err = protect(&s.c, &s.snd, s.c.dir, msgOf(0))
					if err != nil {
						e.Err = err.Error()
						return
					}
				}
				s.snd.AddOne()
			}
			e.Plain, e.Wire = ev.Ints(plain), ev.Ints(wire) // the last of the lost wires
		case "Reflect":
			var tmp security.Count
			if a.C < 0 { // "whatever the receiver expects next"
				e.C = int(s.rcv.Get())
			}
			setCount(&tmp, int64(e.C))
			wire, plain, err := protect(&s.c, &tmp, 1-s.c.dir, msgOf(a.M))
			e.Plain = ev.Ints(plain)
			if err != nil {
				e.Err = err.Error()
				return
			}
			s.net = append(s.net, wire)
			e.Wire = ev.Ints(wire)
		case "Deliver":
			wire := s.net[0]
			s.net = s.net[1:]
			e.Wire = ev.Ints(wire)
			r := unprotect(&s.c, &s.rcv, wire)
			e.Ok, e.Dec, e.Err = r.ok, r.dec, r.err
			e.Plain, e.Reenc = ev.Ints(r.plain), ev.Ints(r.reenc)
		case "Drop":
			e.Wire = ev.Ints(s.net[a.I-1])
			s.net = append(append([][]byte{}, s.net[:a.I-1]...), s.net[a.I:]...)
		case "Dup":
			cp := append([]byte{}, s.net[a.I-1]...)
			s.net = append(s.net, cp)
			e.Wire = ev.Ints(cp)
		case "Reorder":
			x := s.net[a.I-1]
			rest := append(append([][]byte{}, s.net[:a.I-1]...), s.net[a.I:]...)
			s.net = append([][]byte{x}, rest...)
			e.Wire = ev.Ints(x)
		case "Tamper":
			flip(s.net[a.I-1], a.F, a.B)
			e.Wire = ev.Ints(s.net[a.I-1])
		default:
			ev.Fatal("unknown action %q", a.Act)
		}
	})
	if pi != nil {
		e.Panic, e.Pfn, e.Plib = true, pi.Fn, pi.Lib
		s.dead = true // the state of the session is unknown after a panic: abandon the behaviour
	}
	if e.Plain == nil {
		e.Plain = none
	}
	if e.Reenc == nil {
		e.Reenc = none
	}
	if e.Wire == nil {
		e.Wire = none
	}
	s.counts(&e)
	s.w.Emit(e)
}

func (s *sess) run(h *Hist) {
	s.open(h)
	for _, a := range h.Acts {
		// the driver refuses nothing the model allows; indices outside the network are a harness problem
		if (a.Act == "Deliver" && len(s.net) == 0) ||
			((a.Act == "Drop" || a.Act == "Dup" || a.Act == "Reorder" || a.Act == "Tamper") && (a.I < 1 || a.I > len(s.net))) {
			ev.Fatal("action %+v not possible with %d wires in flight", a, len(s.net))
		}
		s.step(a)
	}
}

func keyOf(rng *rand.Rand) []int {
	k := make([]int, 16)
	for i := range k {
		k[i] = rng.Intn(256)
	}
	return k
}

func replay(in, out string) {
	b, err := os.ReadFile(in)
	if err != nil {
		ev.Fatal("%v", err)
	}
	var hs []Hist
	if err := json.Unmarshal(b, &hs); err != nil {
		ev.Fatal("%v", err)
	}
	rng := ev.Rng()
	s := &sess{w: ev.Create(out)}
	for i := range hs {
		h := &hs[i]
		if len(h.Kenc) != 16 {
			h.Kenc = keyOf(rng)
		}
		if len(h.Kint) != 16 {
			h.Kint = keyOf(rng)
		}
		s.run(h)
	}
	s.w.Close()
}

// ------------------------------------------------------------------ seeded behaviours
var bearers = []int{0, 1, 31}

// starts: just before an SQN wrap, before the 16-bit carry 0x00FFFF -> 0x010000, inside the last overflow
// epoch, just before the wrap of the whole count 0xFFFFFF -> 0, and ordinary values.
var starts = []int64{0, 0xfa, 0x00fffa, 0x00ff00 + 0xfe, 0xfffffa, 0xfffe00 + 0xfc, 0x123400 + 0x80, 0x7fffff - 3}

func record(out string) {
	rng := ev.Rng()
	s := &sess{w: ev.Create(out)}
	reps := 1
	if ev.Thorough() {
		reps = 6
	}
	k := 0
	for rep := 0; rep < reps; rep++ {
		for nia := 0; nia < 4; nia++ {
			for nea := 0; nea < 4; nea++ {
				for dir := 0; dir < 2; dir++ {
					for _, bearer := range bearers {
						h := Hist{Nia: nia, Nea: nea, Bearer: bearer, Dir: dir, Kenc: keyOf(rng), Kint: keyOf(rng)}
						h.Start = starts[(k+rep)%len(starts)]
						if rng.Intn(4) == 0 {
							h.Start = int64(rng.Intn(1 << 24))
						}
						h.Acts = scenario(rng, k+rep)
						s.run(&h)
						k++
					}
				}
			}
		}
	}
	// every single bit of a wire flipped in turn (10-octet wire of the 3-octet message): one behaviour per algorithm pair
	for nia := 0; nia < 4; nia++ {
		for nea := 0; nea < 4; nea++ {
			h := Hist{Nia: nia, Nea: nea, Bearer: bearers[(nia+nea)%3], Dir: (nia + nea/2) % 2, Kenc: keyOf(rng), Kint: keyOf(rng)}
			h.Start = starts[(k+nia)%len(starts)]
			n := 0
			for _, fb := range []struct {
				f string
				n int
			}{{"hdr", 16}, {"mac", 32}, {"sqn", 8}, {"ct", 24}} {
				for b := 0; b < fb.n; b++ {
					h.Acts = append(h.Acts, Act{Act: "Send", M: 0}, Act{Act: "Tamper", I: 1, F: fb.f, B: b}, Act{Act: "Deliver"})
					if n++; n%8 == 0 { // and an untouched one in between
						h.Acts = append(h.Acts, Act{Act: "Send", M: 0}, Act{Act: "Deliver"})
					}
				}
			}
			s.run(&h)
			k++
		}
	}
	s.w.Close()
}

// scenario builds one behaviour; `net` mirrors the number of wires in flight so that every action is possible.
func scenario(rng *rand.Rand, k int) []Act {
	var acts []Act
	net := 0
	send := func() { acts = append(acts, Act{Act: "Send", M: rng.Intn(len(poolNames))}); net++ }
	deliver := func() {
		if net > 0 {
			acts = append(acts, Act{Act: "Deliver"})
			net--
		}
	}
	switch k % 4 {
	case 0: // a network that only delays: 12 messages across whatever boundary the start is next to
		for i := 0; i < 12; i++ {
			send()
			if rng.Intn(3) > 0 {
				deliver()
			}
		}
		for net > 0 {
			deliver()
		}
	case 1: // runs of lost messages around the resynchronisation boundary (255 tolerated, 256 not)
		for _, n := range []int{[]int{1, 2, 254, 255, 255, 256, 257}[rng.Intn(7)], 1 + rng.Intn(255), 255} {
			acts = append(acts, Act{Act: "Skip", N: n})
			send()
			deliver()
			send()
			deliver()
		}
	case 2: // replay, reordering and the mirror direction
		send()
		acts = append(acts, Act{Act: "Dup", I: 1})
		net++
		deliver()
		deliver()
		send()
		send()
		acts = append(acts, Act{Act: "Reorder", I: 2})
		deliver()
		deliver()
		acts = append(acts, Act{Act: "Reflect", M: rng.Intn(len(poolNames)), C: -1}) // the count the receiver expects
		net++
		deliver()
		send()
		deliver()
	default: // bit flips in every field, also repaired ones
		for i := 0; i < 6; i++ {
			send()
			f := []string{"hdr", "mac", "sqn", "ct"}[rng.Intn(4)]
			b := rng.Intn(map[string]int{"hdr": 16, "mac": 32, "sqn": 8, "ct": 4096}[f])
			acts = append(acts, Act{Act: "Tamper", I: net, F: f, B: b})
			if rng.Intn(4) == 0 {
				acts = append(acts, Act{Act: "Tamper", I: net, F: f, B: b}) // flipped back: genuine again
			}
			deliver()
			send()
			deliver()
		}
	}
	return acts
}

func main() {
	ev.Quiet()
	if len(os.Args) < 3 {
		ev.Fatal("usage: channel replay <histories.json> <out.ndjson> | record <out.ndjson>")
	}
	loadPool()
	switch os.Args[1] {
	case "replay":
		if len(os.Args) < 4 {
			ev.Fatal("usage: channel replay <histories.json> <out.ndjson>")
		}
		replay(os.Args[2], os.Args[3])
	case "record":
		record(os.Args[2])
	default:
		ev.Fatal("unknown subcommand")
	}
}
