// Driver for C11: security.Count, the 24-bit NAS COUNT (overflow || sequence number).
//
//	nascount replay <hists.json> <out.ndjson>   histories chosen by TLC (window edges, simulated walks)
//	nascount record <out.ndjson>                seeded histories: every carry, the wrap, long runs, random mixes
//	nascount digest <spec.json> <out.ndjson>    function-table digests per (operation, arguments, chunk)
//	nascount expand <spec.json> <out.ndjson>    every element of one chunk as an Apply event
//
// History events are ONE public call each: the operation, its arguments and, for Get/SQN/Overflow, the
// value returned.  The driver never reads the counter on its own after a call (only the verif raw word,
// which does not touch it, is logged as information): which reads happen, when and in which order is part
// of the history, because a read is an operation too (Get writes the masked value back).
// The driver only calls the real API and writes what it saw; every comparison is made by TLC
// (spec/trace/Trace_C11.tla).
package main

import (
	"encoding/json"
	"os"

	"verifharness/internal/ev"

	"github.com/free5gc/nas/security"
)

type Ev struct {
	Op    string `json:"op"`
	Fn    string `json:"fn"`
	A     int64  `json:"a"`
	B     int64  `json:"b"`
	Pre   int64  `json:"pre"`
	Ret   int64  `json:"ret"`
	Sqn   int64  `json:"sqn"`
	Ovf   int64  `json:"ovf"`
	Get   int64  `json:"get"`
	Sqn2  int64  `json:"sqn2"`
	Ovf2  int64  `json:"ovf2"`
	RawHi int64  `json:"rawhi"`
	RawLo int64  `json:"rawlo"`
	Chunk int64  `json:"chunk"`
	Via   string `json:"via"`
	Sums  []int  `json:"sums"`
	Sums2 []int  `json:"sums2"`
	Sums3 []int  `json:"sums3"`
}

type Op struct {
	Op string `json:"op"`
	A  int64  `json:"a"`
	B  int64  `json:"b"`
}
type Hist struct {
	Via string `json:"via"` // "set" (public Set), "raw" (verif hook), "new" (zero value)
	V   int64  `json:"v"`
	Ops []Op   `json:"ops"`
}

var none = []int{}

type sess struct {
	cnt *security.Count
	w   *ev.Writer
	n   int64 // implementation calls made
}

// observe fills what the three read operations report, SQN/Overflow before and after Get
// (Get is the only read with a write in it).  Used by the stateless Apply events only.
func (s *sess) observe(e *Ev) {
	e.Sqn = int64(s.cnt.SQN())
	e.Ovf = int64(s.cnt.Overflow())
	e.Get = int64(s.cnt.Get())
	e.Sqn2 = int64(s.cnt.SQN())
	e.Ovf2 = int64(s.cnt.Overflow())
	raw := s.cnt.VerifRaw()
	e.RawHi, e.RawLo = int64(raw>>16), int64(raw&0xffff)
	e.Sums, e.Sums2, e.Sums3 = none, none, none
	s.n += 5
}

// rawOnly logs the raw word (information; VerifRaw does not modify the counter)
func (s *sess) rawOnly(e *Ev) {
	raw := s.cnt.VerifRaw()
	e.RawHi, e.RawLo = int64(raw>>16), int64(raw&0xffff)
	e.Sqn, e.Ovf, e.Get, e.Sqn2, e.Ovf2 = -1, -1, -1, -1, -1 // not read
	e.Sums, e.Sums2, e.Sums3 = none, none, none
}

// apply performs one public operation and returns the value the call itself returned (-1 if none).
func apply(c *security.Count, op string, a, b int64) int64 {
	switch op {
	case "Set":
		c.Set(uint16(a), uint8(b))
	case "SetSQN":
		c.SetSQN(uint8(a))
	case "SetOverflow":
		c.SetOverflow(uint16(a))
	case "AddOne":
		c.AddOne()
	case "AddRun": // a increments in a row (stateless Apply / Digest events only)
		for i := int64(0); i < a; i++ {
			c.AddOne()
		}
	case "Get":
		return int64(c.Get())
	case "SQN":
		return int64(c.SQN())
	case "Overflow":
		return int64(c.Overflow())
	default:
		ev.Fatal("unknown op %q", op)
	}
	return -1
}

func (s *sess) reset() {
	s.w.Emit(Ev{Op: "TraceReset", Ret: -1, RawHi: -1, Sums: none, Sums2: none, Sums3: none})
}

func (s *sess) start(via string, v int64) {
	s.reset()
	s.cnt = &security.Count{}
	switch via {
	case "new":
		e := Ev{Op: "New", Ret: -1, Via: via}
		s.rawOnly(&e)
		s.w.Emit(e)
	case "raw":
		s.cnt.VerifSetRaw(uint32(v))
		e := Ev{Op: "SetRaw", A: v, Ret: -1, Via: via}
		s.rawOnly(&e)
		s.w.Emit(e)
	case "set":
		s.do("Set", v>>8, v&0xff)
	default:
		ev.Fatal("unknown start %q", via)
	}
}

func (s *sess) do(op string, a, b int64) {
	e := Ev{Op: op, A: a, B: b}
	e.Ret = apply(s.cnt, op, a, b)
	s.n++
	s.rawOnly(&e)
	s.w.Emit(e)
}

// read patterns: which reads follow a write, and in which order.  The first eight determine the whole value.
var patterns = [][]string{
	{"SQN", "Overflow", "Get", "SQN", "Overflow"},
	{"Get"},
	{"SQN", "Overflow"},
	{"Overflow", "SQN"},
	{"Get", "SQN", "Overflow"},
	{"SQN", "Get", "SQN", "Overflow"},
	{"Overflow", "Get", "Overflow", "SQN"},
	{"Get", "Get", "Overflow", "SQN"},
	{"SQN"},
	{"Overflow"},
	{},
}

const fullPatterns = 8

func (s *sess) reads(k int) {
	for _, r := range patterns[k] {
		s.do(r, 0, 0)
	}
}

var allOps = []string{"Set", "SetSQN", "SetOverflow", "AddOne", "AddOne", "AddOne", "Get", "SQN", "Overflow"}

func record(out string) {
	rng := ev.Rng()
	s := &sess{w: ev.Create(out)}
	thorough := ev.Thorough()
	// (1) every carry (sequence number 255 -> 0 into overflow o+1) and the wrap at 2^24-1, from states reached
	// through the public Set, 256 carries per history; the reads that follow vary with o
	for o := int64(0); o < 65536; o++ {
		if o%256 == 0 {
			s.start("set", o<<8|0xfe)
			s.do("AddOne", 0, 0)
		} else {
			s.do("Set", o, 255)
		}
		s.do("AddOne", 0, 0)
		s.reads(int(o+o/256) % fullPatterns)
	}
	// (2) the same through the raw hook: all of them in thorough, a seeded sample in quick
	for o := int64(0); o < 65536; o++ {
		if !thorough && rng.Intn(16) != 0 && o != 65535 && o != 0 && o != 32767 {
			continue
		}
		s.start("raw", o<<8|0xff)
		s.do("AddOne", 0, 0)
		if o%3 == 0 {
			s.reads(rng.Intn(len(patterns)))
		}
		s.do("AddOne", 0, 0)
		s.reads(int(o) % fullPatterns)
	}
	// (3) runs of 2..300 increments with NO read in between across every kind of boundary (sequence number
	// carry, overflow byte carry, 16-bit sign boundary of the overflow part, the wrap at 2^24), then reads in
	// every order; the run starts 1..n-1 steps before the boundary so that it crosses it
	bounds := []int64{1 << 24, 1 << 16, 0x800000, (int64(rng.Intn(65534)) + 1) << 8, (int64(rng.Intn(255)) + 1) << 16}
	for bi, bnd := range bounds {
		for n := 2; n <= 300; n++ {
			if !thorough && bi >= 1 && n > 12 && (n+bi)%5 != 0 {
				continue
			}
			before := int64(1 + rng.Intn(n-1))
			if n%4 == 0 {
				before = 1 // the boundary is crossed by the first increment
			}
			if n%4 == 1 {
				before = int64(n - 1) // ... by the last but one
			}
			v := bnd - before
			via := "set"
			if (n+bi)%2 == 1 {
				via = "raw"
			}
			s.start(via, v)
			for i := 0; i < n; i++ {
				s.do("AddOne", 0, 0)
			}
			s.reads((n + bi) % fullPatterns)
			s.do("AddOne", 0, 0)
			s.reads((n + bi + 3) % len(patterns))
		}
	}
	// (4) long runs of increments with occasional reads of a random kind, from seeded states and across the wrap
	runs, runLen := 6, 1500
	if thorough {
		runs, runLen = 40, 6000
	}
	for r := 0; r < runs; r++ {
		v := int64(rng.Intn(1 << 24))
		if r == 0 {
			v = 1<<24 - int64(runLen/2)
		}
		via := "set"
		if r%2 == 1 {
			via = "raw"
		}
		s.start(via, v)
		for i := 0; i < runLen; i++ {
			s.do("AddOne", 0, 0)
			if rng.Intn(8) == 0 {
				s.do([]string{"Get", "SQN", "Overflow"}[rng.Intn(3)], 0, 0)
			}
		}
		s.reads(r % fullPatterns)
	}
	// (5) seeded mixes of every operation (reads included, chosen by the seed) with arguments over the full
	// ranges; every fourth history reads everything after every step, the others only what the mix contains
	nh, hl := 1500, 30
	if thorough {
		nh, hl = 8000, 50
	}
	for h := 0; h < nh; h++ {
		switch h % 3 {
		case 0:
			s.start("set", int64(rng.Intn(1<<24)))
		case 1:
			s.start("raw", int64(rng.Intn(1<<24)))
		default:
			s.start("new", 0)
			s.do("Get", 0, 0)
		}
		for i := 0; i < hl; i++ {
			op := allOps[rng.Intn(len(allOps))]
			var a, b int64
			switch op {
			case "Set":
				a, b = pick16(rng.Intn(1<<16), rng.Intn(8)), pick8(rng.Intn(256), rng.Intn(8))
			case "SetSQN":
				a = pick8(rng.Intn(256), rng.Intn(8))
			case "SetOverflow":
				a = pick16(rng.Intn(1<<16), rng.Intn(8))
			}
			s.do(op, a, b)
			if h%4 == 0 {
				s.reads(0)
			} else if rng.Intn(5) == 0 {
				s.reads(rng.Intn(len(patterns)))
			}
		}
		s.reads(h % fullPatterns)
	}
	s.w.Close()
	os.Stderr.WriteString("calls " + itoa(s.n) + "\n")
}

func pick8(r, k int) int64 {
	switch k {
	case 0:
		return 255
	case 1:
		return 0
	}
	return int64(r)
}
func pick16(r, k int) int64 {
	switch k {
	case 0:
		return 65535
	case 1:
		return 0
	case 2:
		return int64(r&1)<<15 | int64(r&0xff) // around the byte lanes
	}
	return int64(r)
}

func itoa(n int64) string { b, _ := json.Marshal(n); return string(b) }

func replay(in, out string) {
	b, err := os.ReadFile(in)
	if err != nil {
		ev.Fatal("%v", err)
	}
	var hs []Hist
	if err := json.Unmarshal(b, &hs); err != nil {
		ev.Fatal("%v", err)
	}
	s := &sess{w: ev.Create(out)}
	for _, h := range hs {
		s.start(h.Via, h.V)
		for _, o := range h.Ops {
			s.do(o.Op, o.A, o.B)
		}
	}
	s.w.Close()
	os.Stderr.WriteString("calls " + itoa(s.n) + "\n")
}

type DSpec struct {
	Chunks    []int64 `json:"chunks"`
	RawChunks []int64 `json:"rawchunks"`
	Ops       []Op    `json:"ops"`
	// expand
	Fn    string `json:"fn"`
	A     int64  `json:"a"`
	B     int64  `json:"b"`
	Chunk int64  `json:"chunk"`
	Via   string `json:"via"`
}

var primes = [3]int64{46337, 46327, 46309}

func place(c *security.Count, via string, x int64) {
	if via == "raw" {
		c.VerifSetRaw(uint32(x))
	} else {
		c.Set(uint16(x>>8), uint8(x&0xff))
	}
}

// digest folds the implementation's function table x |-> value read after op(a, b) from state x
// into weighted sums; it computes sums, never a verdict.
func digest(in, out string) {
	var sp DSpec
	b, err := os.ReadFile(in)
	if err != nil {
		ev.Fatal("%v", err)
	}
	if err := json.Unmarshal(b, &sp); err != nil {
		ev.Fatal("%v", err)
	}
	w := ev.Create(out)
	var calls int64
	one := func(via string, k int64, o Op) {
		var s1, s2, s3 [3]int64
		for x := k << 16; x < (k+1)<<16; x++ {
			var c security.Count
			place(&c, via, x)
			ret := apply(&c, o.Op, o.A, o.B)
			sqn, ovf := int64(c.SQN()), int64(c.Overflow())
			get := int64(c.Get())
			comp := ovf*256 + sqn
			if ret >= 0 {
				// a read: fold the returned value back into the table through the value it projects
				switch o.Op {
				case "Get":
					comp = ret
				case "SQN":
					comp = ovf*256 + ret
				case "Overflow":
					comp = ret*256 + sqn
				}
			}
			comp2 := int64(c.Overflow())*256 + int64(c.SQN()) // the same reads once more, after Get
			for i, p := range primes {
				wt := 1 + x%(p-1)
				s1[i] = (s1[i] + wt*(get%p)) % p
				s2[i] = (s2[i] + wt*(comp%p)) % p
				s3[i] = (s3[i] + wt*(comp2%p)) % p
			}
			calls += 7
		}
		w.Emit(Ev{Op: "Digest", Fn: o.Op, A: o.A, B: o.B, Chunk: k, Via: via, Ret: -1, RawHi: -1,
			Sums: []int{int(s1[0]), int(s1[1]), int(s1[2])}, Sums2: []int{int(s2[0]), int(s2[1]), int(s2[2])}, Sums3: []int{int(s3[0]), int(s3[1]), int(s3[2])}})
	}
	for _, o := range sp.Ops {
		for _, k := range sp.Chunks {
			one("set", k, o)
		}
		for _, k := range sp.RawChunks {
			one("raw", k, o)
		}
	}
	w.Close()
	os.Stderr.WriteString("calls " + itoa(calls) + "\n")
}

func expand(in, out string) {
	var sp DSpec
	b, err := os.ReadFile(in)
	if err != nil {
		ev.Fatal("%v", err)
	}
	if err := json.Unmarshal(b, &sp); err != nil {
		ev.Fatal("%v", err)
	}
	s := &sess{w: ev.Create(out)}
	for x := sp.Chunk << 16; x < (sp.Chunk+1)<<16; x++ {
		s.cnt = &security.Count{}
		place(s.cnt, sp.Via, x)
		e := Ev{Op: "Apply", Fn: sp.Fn, A: sp.A, B: sp.B, Pre: x, Via: sp.Via}
		e.Ret = apply(s.cnt, sp.Fn, sp.A, sp.B)
		s.observe(&e)
		s.w.Emit(e)
	}
	s.w.Close()
}

func main() {
	ev.Quiet()
	if len(os.Args) < 3 {
		ev.Fatal("usage: nascount record|replay|digest|expand ...")
	}
	switch os.Args[1] {
	case "record":
		record(os.Args[2])
	case "replay":
		replay(os.Args[2], os.Args[3])
	case "digest":
		digest(os.Args[2], os.Args[3])
	case "expand":
		expand(os.Args[2], os.Args[3])
	default:
		ev.Fatal("unknown subcommand")
	}
}
