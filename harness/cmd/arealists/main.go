// Driver for C13: S-NSSAI / NSSAI / rejected NSSAI / TAI list / service area list / LADN.
//
//	arealists replay <cases.json> <out.ndjson>   cases chosen by TLC (MC_C13_gen)
//	arealists record <out.ndjson>                seeded random values
//	arealists redo <event.json> <out.ndjson>     repeat one logged call in a fresh process
//	arealists ladnchild <hex>                    (internal) LadnToModels on one input, result on stdout
//
// The driver only calls the library and writes what it saw; text is logged as code points.  Every result is read twice:
// at once (ob/osn/odnn/on) and again from the retained return values after later calls were made (hob/hosn/hodnn/hon).
// LadnToModels can loop forever while appending: an input that contains a zero octet is never run in this process
// but in a child that limits itself (500 ms, 600 MB), under `prlimit --as` and a 1.5 s watchdog as backstops
// (hang:true when the child does not deliver a result).
package main

import (
	"context"
	"encoding/hex"
	"encoding/json"
	"fmt"
	"math/rand"
	"os"
	"os/exec"
	"runtime"
	"time"

	"verifharness/internal/ev"

	"github.com/free5gc/nas/nasConvert"
	"github.com/free5gc/nas/nasType"
	"github.com/free5gc/openapi/models"
)

type Sn struct {
	Sst int   `json:"sst"`
	Sd  []int `json:"sd"`
}

type Map struct {
	Sst  int   `json:"sst"`
	Sd   []int `json:"sd"`
	H    int   `json:"h"`
	Hsst int   `json:"hsst"`
	Hsd  []int `json:"hsd"`
}

type TaiJ struct {
	Mcc []int `json:"mcc"`
	Mnc []int `json:"mnc"`
	Tac []int `json:"tac"`
}

type Ev struct {
	Op    string    `json:"op"`
	W     []int     `json:"w"`     // input octets
	Sn    []Sn      `json:"sn"`    // input S-NSSAI models
	Sn2   []Sn      `json:"sn2"`   // second list (rejected in TA)
	Tai   []TaiJ    `json:"tai"`   // input TAIs (or the PLMN of a service area list in tai[0])
	Areas [][][]int `json:"areas"` // service area restriction: areas -> TAC texts
	K     []int     `json:"k"`     // numbers: cause / allowed flag
	Dnn   []int     `json:"dnn"`   // DNN text
	Ob    []int     `json:"ob"`    // output octets
	Osn   []Map     `json:"osn"`   // output S-NSSAI mappings
	Odnn  [][]int   `json:"odnn"`  // output DNN texts
	On    []int     `json:"on"`    // output numbers
	Err   bool      `json:"err"`
	Panic bool      `json:"panic"`
	Hang  bool      `json:"hang"`
	Pfn   string    `json:"pfn"`
	// the same result read AGAIN from the retained return values after later calls (of the same function with
	// different arguments and of other functions) were made: a result is a value and may not change
	Hob   []int   `json:"hob"`
	Hosn  []Map   `json:"hosn"`
	Hodnn [][]int `json:"hodnn"`
	Hon   []int   `json:"hon"`
	Hc    int     `json:"hc"` // number of later calls made while the result was held
}

type Case struct {
	Fam   string    `json:"fam"`
	W     []int     `json:"w"`
	Sn    []Sn      `json:"sn"`
	Sn2   []Sn      `json:"sn2"`
	Tai   []TaiJ    `json:"tai"`
	Areas [][][]int `json:"areas"`
	K     []int     `json:"k"`
	Dnn   []int     `json:"dnn"`
}

var w *ev.Writer

func str(cps []int) string {
	r := make([]rune, len(cps))
	for i, c := range cps {
		r[i] = rune(c)
	}
	return string(r)
}

func norm(e *Ev) {
	if e.W == nil {
		e.W = []int{}
	}
	if e.Sn == nil {
		e.Sn = []Sn{}
	}
	if e.Sn2 == nil {
		e.Sn2 = []Sn{}
	}
	if e.Tai == nil {
		e.Tai = []TaiJ{}
	}
	if e.Areas == nil {
		e.Areas = [][][]int{}
	}
	if e.K == nil {
		e.K = []int{}
	}
	if e.Dnn == nil {
		e.Dnn = []int{}
	}
	if e.Ob == nil {
		e.Ob = []int{}
	}
	if e.Osn == nil {
		e.Osn = []Map{}
	}
	if e.Odnn == nil {
		e.Odnn = [][]int{}
	}
	if e.On == nil {
		e.On = []int{}
	}
	if e.Hob == nil {
		e.Hob = []int{}
	}
	if e.Hosn == nil {
		e.Hosn = []Map{}
	}
	if e.Hodnn == nil {
		e.Hodnn = [][]int{}
	}
	if e.Hon == nil {
		e.Hon = []int{}
	}
	for i := range e.Sn {
		if e.Sn[i].Sd == nil {
			e.Sn[i].Sd = []int{}
		}
	}
	for i := range e.Sn2 {
		if e.Sn2[i].Sd == nil {
			e.Sn2[i].Sd = []int{}
		}
	}
}

// A call is written in two phases: call() invokes the library and RETAINS whatever it returned (slices, strings,
// structs, exactly as returned, no copy); the reader it gives back projects those retained values into an event.
// emit reads once at once (ob/osn/odnn/on) and queues the event; when `hold` further events have been queued the oldest
// is flushed: one more call of the same function with different arguments and one call of another function are made
// (results dropped), then the retained values are read a second time (hob/hosn/hodnn/hon) and the event is written.
type reader func(e *Ev)

type pend struct {
	e   Ev
	key string
	rd  reader
	seq int
}

type alt struct {
	op, key string
	call    func() reader
}

const hold = 6

var (
	queue  []pend
	alts   = map[string][]alt{} // per function: the two most recent calls with distinct arguments
	recent []alt                // the most recent calls of two distinct functions
	nCalls int
)

func keyOf(e *Ev) string {
	kb, _ := json.Marshal([]interface{}{e.W, e.Sn, e.Sn2, e.Tai, e.Areas, e.K, e.Dnn})
	return string(kb)
}

// enqueue queues an event whose immediate reading is already in e; call == nil: never repeated as a later call
func enqueue(e Ev, rd reader, call func() reader) {
	norm(&e)
	key := keyOf(&e)
	nCalls++
	queue = append(queue, pend{e: e, key: key, rd: rd, seq: nCalls})
	if call != nil {
		a := alt{op: e.Op, key: key, call: call}
		if l := alts[e.Op]; len(l) == 0 || l[0].key != key {
			alts[e.Op] = append([]alt{a}, l...)
			if len(alts[e.Op]) > 2 {
				alts[e.Op] = alts[e.Op][:2]
			}
		}
		if len(recent) == 0 || recent[0].op != e.Op {
			recent = append([]alt{a}, recent...)
			if len(recent) > 2 {
				recent = recent[:2]
			}
		} else {
			recent[0] = a
		}
	}
	for len(queue) > hold {
		flushOne()
	}
}

func emit(e Ev, call func() reader) {
	var rd reader
	if pi := ev.Guard(func() { rd = call(); rd(&e) }); pi != nil {
		if !pi.Lib {
			ev.Fatal("panic outside the library in %s: %s (%s)", e.Op, pi.Kind, pi.Fn)
		}
		e.Panic, e.Pfn, rd = true, pi.Fn, nil
		e.Ob, e.Osn, e.Odnn, e.On, e.Err = nil, nil, nil, nil, false
	}
	enqueue(e, rd, call)
}

func shadow(a alt) {
	ev.Guard(func() { a.call() }) // the result is dropped; a panic here was or will be logged by the call's own event
	nCalls++
}

func flushOne() {
	p := queue[0]
	queue = queue[1:]
	for _, a := range alts[p.e.Op] {
		if a.key != p.key {
			shadow(a)
			break
		}
	}
	for _, a := range recent {
		if a.op != p.e.Op {
			shadow(a)
			break
		}
	}
	if p.rd != nil {
		var h Ev
		if pi := ev.Guard(func() { p.rd(&h) }); pi != nil {
			ev.Fatal("panic while re-reading the held result of %s: %s", p.e.Op, pi.Kind)
		}
		p.e.Hob, p.e.Hosn, p.e.Hodnn, p.e.Hon = h.Ob, h.Osn, h.Odnn, h.On
	}
	p.e.Hc = nCalls - p.seq
	norm(&p.e)
	w.Emit(p.e)
}

func flushAll() {
	for len(queue) > 0 {
		flushOne()
	}
}

func model(s Sn) models.Snssai { return models.Snssai{Sst: int32(s.Sst), Sd: str(s.Sd)} }
func modelsOf(ss []Sn) []models.Snssai {
	o := []models.Snssai{}
	for _, s := range ss {
		o = append(o, model(s))
	}
	return o
}

func taiModels(ts []TaiJ) []models.Tai {
	o := []models.Tai{}
	for _, t := range ts {
		o = append(o, models.Tai{PlmnId: &models.PlmnId{Mcc: str(t.Mcc), Mnc: str(t.Mnc)}, Tac: str(t.Tac)})
	}
	return o
}

// ---------------------------------------------------------------- the observed functions

func snssaiToNas(s Sn) {
	emit(Ev{Op: "SnssaiToNas", Sn: []Sn{s}}, func() reader {
		r := nasConvert.SnssaiToNas(model(s))
		return func(e *Ev) { e.Ob = ev.Ints(r) }
	})
}

func rejectedSnssaiToNas(s Sn, cause int) {
	emit(Ev{Op: "RejectedSnssaiToNas", Sn: []Sn{s}, K: []int{cause}}, func() reader {
		r := nasConvert.RejectedSnssaiToNas(model(s), uint8(cause))
		return func(e *Ev) { e.Ob = ev.Ints(r) }
	})
}

func snssaiToModels(wire []int) {
	emit(Ev{Op: "SnssaiToModels", W: wire}, func() reader {
		var n nasType.SNSSAI
		n.Len = uint8(wire[0])
		copy(n.Octet[:], ev.Bytes(wire[1:]))
		m := nasConvert.SnssaiToModels(&n)
		return func(e *Ev) { e.Osn = []Map{{Sst: int(m.Sst), Sd: ev.Runes(m.Sd), Hsd: []int{}}} }
	})
}

func requestedNssaiToModels(wire []int) {
	emit(Ev{Op: "RequestedNssaiToModels", W: wire}, func() reader {
		var n nasType.RequestedNSSAI
		n.SetLen(uint8(len(wire)))
		n.SetSNSSAIValue(ev.Bytes(wire))
		ms, err := nasConvert.RequestedNssaiToModels(&n)
		return func(e *Ev) {
			e.Err = err != nil
			if err == nil {
				for _, m := range ms {
					x := Map{Sd: []int{}, Hsd: []int{}}
					if m.ServingSnssai != nil {
						x.Sst, x.Sd = int(m.ServingSnssai.Sst), ev.Runes(m.ServingSnssai.Sd)
					} else {
						x.Sst = -1
					}
					if m.HomeSnssai != nil {
						x.H, x.Hsst, x.Hsd = 1, int(m.HomeSnssai.Sst), ev.Runes(m.HomeSnssai.Sd)
					}
					e.Osn = append(e.Osn, x)
				}
			}
		}
	})
}

func rejectedNssaiToNas(a, b []Sn) {
	emit(Ev{Op: "RejectedNssaiToNas", Sn: a, Sn2: b}, func() reader {
		r := nasConvert.RejectedNssaiToNas(modelsOf(a), modelsOf(b))
		return func(e *Ev) { e.Ob, e.On = ev.Ints(r.Buffer), []int{int(r.GetLen())} }
	})
}

func taiListToNas(ts []TaiJ) {
	emit(Ev{Op: "TaiListToNas", Tai: ts}, func() reader {
		r := nasConvert.TaiListToNas(taiModels(ts))
		return func(e *Ev) { e.Ob = ev.Ints(r) }
	})
}

func serviceAreaToNas(plmn TaiJ, allowed int, areas [][][]int) {
	emit(Ev{Op: "PartialServiceAreaListToNas", Tai: []TaiJ{plmn}, K: []int{allowed}, Areas: areas}, func() reader {
		r := models.ServiceAreaRestriction{RestrictionType: models.RestrictionType_NOT_ALLOWED_AREAS}
		if allowed == 1 {
			r.RestrictionType = models.RestrictionType_ALLOWED_AREAS
		}
		for _, a := range areas {
			ar := models.Area{}
			for _, t := range a {
				ar.Tacs = append(ar.Tacs, str(t))
			}
			r.Areas = append(r.Areas, ar)
		}
		o := nasConvert.PartialServiceAreaListToNas(models.PlmnId{Mcc: str(plmn.Mcc), Mnc: str(plmn.Mnc)}, r)
		return func(e *Ev) { e.Ob = ev.Ints(o) }
	})
}

func ladnToNas(dnn []int, ts []TaiJ) {
	emit(Ev{Op: "LadnToNas", Dnn: dnn, Tai: ts}, func() reader {
		r := nasConvert.LadnToNas(str(dnn), taiModels(ts))
		return func(e *Ev) { e.Ob = ev.Ints(r) }
	})
}

type childRes struct {
	Odnn  [][]int `json:"odnn"`
	Panic bool    `json:"panic"`
	Pfn   string  `json:"pfn"`
}

func ladnInProcess(wire []int) childRes {
	var r childRes
	if pi := ev.Guard(func() {
		for _, d := range nasConvert.LadnToModels(ev.Bytes(wire)) {
			r.Odnn = append(r.Odnn, ev.Ints([]byte(d)))
		}
	}); pi != nil {
		if !pi.Lib {
			ev.Fatal("panic outside the library in LadnToModels: %s (%s)", pi.Kind, pi.Fn)
		}
		r = childRes{Panic: true, Pfn: pi.Fn}
	}
	return r
}

func ladnToModels(wire []int) {
	risky := false
	for _, x := range wire {
		if x == 0 {
			risky = true // a zero octet read as a length would never advance the walker
		}
	}
	if !risky {
		emit(Ev{Op: "LadnToModels", W: wire}, func() reader {
			ds := nasConvert.LadnToModels(ev.Bytes(wire))
			return func(e *Ev) {
				for _, d := range ds {
					e.Odnn = append(e.Odnn, ev.Ints([]byte(d)))
				}
			}
		})
		return
	}
	// child process: the result cannot be held across calls of this process; it is logged as read once
	e := Ev{Op: "LadnToModels", W: wire}
	var r childRes
	ctx, cancel := context.WithTimeout(context.Background(), 1500*time.Millisecond)
	out, err := exec.CommandContext(ctx, "prlimit", "--as=4000000000", os.Args[0], "ladnchild", hex.EncodeToString(ev.Bytes(wire))).Output()
	cancel()
	if err != nil || json.Unmarshal(out, &r) != nil {
		e.Hang = true // no result within the watchdog / the memory limit
		r = childRes{}
	}
	e.Odnn, e.Panic, e.Pfn = r.Odnn, r.Panic, r.Pfn
	odnn := r.Odnn
	enqueue(e, func(h *Ev) { h.Odnn = odnn }, nil)
}

func ladnChild(h string) {
	b, err := hex.DecodeString(h)
	if err != nil {
		ev.Fatal("%v", err)
	}
	// self-limits of the child: 500 ms of run time, 600 MB of memory obtained from the system
	time.AfterFunc(500*time.Millisecond, func() { os.Exit(8) })
	go func() {
		var m runtime.MemStats
		for {
			runtime.ReadMemStats(&m)
			if m.Sys > 600<<20 {
				os.Exit(9)
			}
			time.Sleep(5 * time.Millisecond)
		}
	}()
	r := ladnInProcess(ev.Ints(b))
	if r.Odnn == nil {
		r.Odnn = [][]int{}
	}
	o, _ := json.Marshal(r)
	fmt.Println(string(o))
}

func runCase(c Case) {
	switch c.Fam {
	case "snssai":
		snssaiToNas(c.Sn[0])
		for _, k := range c.K {
			rejectedSnssaiToNas(c.Sn[0], k)
		}
		snssaiToModels(c.W)
	case "snssaiwire":
		snssaiToModels(c.W)
	case "nssai", "badnssai":
		requestedNssaiToModels(c.W)
	case "rej":
		rejectedNssaiToNas(c.Sn, c.Sn2)
	case "tai":
		taiListToNas(c.Tai)
	case "sal":
		serviceAreaToNas(c.Tai[0], c.K[0], c.Areas)
	case "ladn":
		ladnToNas(c.Dnn, c.Tai)
	case "ladnind":
		ladnToModels(c.W)
	default:
		ev.Fatal("unknown case family %q", c.Fam)
	}
}

func replay(in, out string) {
	b, err := os.ReadFile(in)
	if err != nil {
		ev.Fatal("%v", err)
	}
	var cs []Case
	if err := json.Unmarshal(b, &cs); err != nil {
		ev.Fatal("%v", err)
	}
	w = ev.Create(out)
	for _, c := range cs {
		runCase(c)
	}
	flushAll()
	w.Close()
}

func redoOne(e Ev) {
	switch e.Op {
	case "SnssaiToNas":
		snssaiToNas(e.Sn[0])
	case "RejectedSnssaiToNas":
		rejectedSnssaiToNas(e.Sn[0], e.K[0])
	case "SnssaiToModels":
		snssaiToModels(e.W)
	case "RequestedNssaiToModels":
		requestedNssaiToModels(e.W)
	case "RejectedNssaiToNas":
		rejectedNssaiToNas(e.Sn, e.Sn2)
	case "TaiListToNas":
		taiListToNas(e.Tai)
	case "PartialServiceAreaListToNas":
		serviceAreaToNas(e.Tai[0], e.K[0], e.Areas)
	case "LadnToNas":
		ladnToNas(e.Dnn, e.Tai)
	case "LadnToModels":
		ladnToModels(e.W)
	default:
		ev.Fatal("redo: unknown op %q", e.Op)
	}
}

// redo: the file holds one event or an array of events; the FIRST is the one asked for (first output line), the others
// (same function, different arguments) are run after it while its result is held.
func redo(in, out string) {
	b, err := os.ReadFile(in)
	if err != nil {
		ev.Fatal("%v", err)
	}
	var es []Ev
	if len(b) > 0 && b[0] == '[' {
		err = json.Unmarshal(b, &es)
	} else {
		var e Ev
		err = json.Unmarshal(b, &e)
		es = []Ev{e}
	}
	if err != nil || len(es) == 0 {
		ev.Fatal("redo: cannot read %s: %v", in, err)
	}
	w = ev.Create(out)
	for _, e := range es {
		redoOne(e)
	}
	flushAll()
	w.Close()
}

// ---------------------------------------------------------------- seeded random values

const hexd = "0123456789abcdef"

func randHexCps(rng *rand.Rand, n int) []int {
	o := make([]int, n)
	for i := range o {
		o[i] = int(hexd[rng.Intn(16)])
		if rng.Intn(8) == 0 && o[i] >= 'a' {
			o[i] -= 32 // upper case is legal hex too
		}
	}
	return o
}

func randDigitsCps(rng *rand.Rand, n int) []int {
	o := make([]int, n)
	for i := range o {
		o[i] = '0' + rng.Intn(10)
	}
	return o
}

func randSn(rng *rand.Rand) Sn {
	s := Sn{Sst: rng.Intn(256), Sd: []int{}}
	if rng.Intn(3) > 0 {
		s.Sd = randHexCps(rng, 6)
	}
	return s
}

func randSns(rng *rand.Rand, n int) []Sn {
	o := []Sn{}
	for i := 0; i < n; i++ {
		o = append(o, randSn(rng))
	}
	return o
}

func randOctets(rng *rand.Rand, n int) []int {
	o := make([]int, n)
	for i := range o {
		o[i] = rng.Intn(256)
	}
	return o
}

const dnnChars = "abcdefghijklmnopqrstuvwxyzABCDEFGHIJKLMNOPQRSTUVWXYZ0123456789.-"

func randDnn(rng *rand.Rand) []int {
	n := 1 + rng.Intn(100)
	if rng.Intn(3) == 0 {
		n = 1 + rng.Intn(12)
	}
	o := make([]int, n)
	for i := range o {
		o[i] = int(dnnChars[rng.Intn(len(dnnChars))])
	}
	return o
}

func randTais(rng *rand.Rand, n int) []TaiJ {
	np := 1 + rng.Intn(3)
	pl := []TaiJ{}
	for i := 0; i < np; i++ {
		pl = append(pl, TaiJ{Mcc: randDigitsCps(rng, 3), Mnc: randDigitsCps(rng, 2+rng.Intn(2))})
	}
	o := []TaiJ{}
	base := rng.Intn(1 << 24)
	for i := 0; i < n; i++ {
		p := pl[rng.Intn(np)]
		hexfmt := []string{"%06x", "%06X"}[rng.Intn(2)] // hexadecimal text is legal in either case
		tac := ev.Runes(fmt.Sprintf(hexfmt, rng.Intn(1<<24)))
		if np == 1 && n%2 == 0 {
			tac = ev.Runes(fmt.Sprintf(hexfmt, (base+i)%(1<<24))) // consecutive TACs
		}
		o = append(o, TaiJ{Mcc: p.Mcc, Mnc: p.Mnc, Tac: tac})
	}
	return o
}

func record(out string) {
	rng := ev.Rng()
	w = ev.Create(out)
	n := 1500
	if ev.Thorough() {
		n = 15000
	}
	lens := []int{1, 2, 4, 5, 8}
	for i := 0; i < n; i++ {
		s := randSn(rng)
		snssaiToNas(s)
		rejectedSnssaiToNas(s, rng.Intn(16))
		// one S-NSSAI with a random listed length, as length + contents
		l := lens[rng.Intn(5)]
		snssaiToModels(append([]int{l}, randOctets(rng, l)...))
		// requested NSSAI: 1..8 well-formed entries
		wire := []int{}
		for k, m := 0, 1+rng.Intn(8); k < m; k++ {
			l := lens[rng.Intn(5)]
			wire = append(append(wire, l), randOctets(rng, l)...)
		}
		requestedNssaiToModels(wire)
		if i%2 == 0 { // malformed: one length octet replaced, or truncated
			bad := append([]int{}, wire...)
			switch rng.Intn(3) {
			case 0:
				bad = bad[:len(bad)-1-rng.Intn(len(bad)/2+1)]
			case 1:
				bad[0] = []int{0, 3, 6, 7, 9, 16, 255}[rng.Intn(7)]
			default:
				bad = append(bad, []int{0, 3, 6, 7, 9, 200}[rng.Intn(6)], 1, 2)
			}
			if len(bad) > 0 {
				requestedNssaiToModels(bad)
			}
		}
		rejectedNssaiToNas(randSns(rng, rng.Intn(5)), randSns(rng, rng.Intn(5)))
		taiListToNas(randTais(rng, 1+rng.Intn(16)))
		// service area list: 1..4 areas, 1..16 TACs in total
		ts := randTais(rng, 1+rng.Intn(16))
		na := 1 + rng.Intn(4)
		areas := make([][][]int, na)
		for k := range areas {
			areas[k] = [][]int{}
		}
		for k, t := range ts {
			j := rng.Intn(na)
			if k < na {
				j = k
			}
			areas[j] = append(areas[j], t.Tac)
		}
		serviceAreaToNas(ts[0], rng.Intn(2), areas)
		ladnToNas(randDnn(rng), randTais(rng, 1+rng.Intn(4)))
		// LADN indication: 0..4 DNNs
		ind := []int{}
		for k, m := 0, rng.Intn(5); k < m; k++ {
			d := randDnn(rng)
			ind = append(append(ind, len(d)), d...)
		}
		ladnToModels(ind)
	}
	flushAll()
	w.Close()
}

func main() {
	ev.Quiet()
	if len(os.Args) < 3 {
		ev.Fatal("usage: arealists replay|record|redo ...")
	}
	switch os.Args[1] {
	case "record":
		record(os.Args[2])
	case "replay":
		replay(os.Args[2], os.Args[3])
	case "redo":
		redo(os.Args[2], os.Args[3])
	case "ladnchild":
		ladnChild(os.Args[2])
	default:
		ev.Fatal("unknown subcommand")
	}
}
