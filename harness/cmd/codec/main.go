// Driver for the message codec family (C01-C05, C10).
//
//	codec run <cases.ndjson> <out.ndjson> <journal>
//
// Every case is executed on the real API and one observation is written per case.
// The driver takes no verdict about values; it observes results, panics, allocation.
package main

import (
	"bufio"
	"bytes"
	"encoding/json"
	"fmt"
	"math/rand"
	"os"
	"runtime"
	"runtime/metrics"
	"sync/atomic"
	"time"

	"verifharness/internal/ev"
	rm "verifharness/internal/reflectmsg"

	"github.com/free5gc/nas"
	"github.com/free5gc/nas/logger"
	"github.com/sirupsen/logrus"
)

type Case struct {
	K     string    `json:"k"`
	Entry string    `json:"entry"`
	Inp   []int     `json:"inp"`
	Inp2  []int     `json:"inp2"`
	Pre2  []int     `json:"pre2"` // dec2x: values put into the receiving message's SecurityHeader view before the decode
	M     string    `json:"m"`
	Mand  []rm.Slot `json:"mand"`
	Opt   []rm.Slot `json:"opt"`
	Via   string    `json:"via"`
	Pre   int       `json:"pre"`
	Sht   int       `json:"sht"` // encdisp: the message's SecurityHeader view carries this security header type (state left by earlier security processing)
	Hz    bool      `json:"hz"`  // puree: the message's outer header view has its first octet (EPD) cleared before encoding
	Fam   string    `json:"fam"`
	Mt    int       `json:"mt"`
	Count int       `json:"count"`
	Max   int       `json:"max"`
	Big   int       `json:"big"`  // keep inp out of the event when longer than this
	Lean  bool      `json:"lean"` // C01: no projection in the event, precise allocation measurement
}

type DecLean struct {
	Op    string `json:"op"`
	Entry string `json:"entry"`
	Bm    string `json:"bm"`
	N     int    `json:"n"`
	Inp   []int  `json:"inp"`
	Ok    bool   `json:"ok"`
	Panic bool   `json:"panic"`
	Pfn   string `json:"pfn"`
	Alloc int64  `json:"alloc"`
}

func lean(e Dec) DecLean {
	return DecLean{e.Op, e.Entry, e.Bm, e.N, e.Inp, e.Ok, e.Panic, e.Pfn, e.Alloc}
}

// exactAlloc re-runs a decode between two stop-the-world readings (all per-P caches flushed):
// the cheap counter of runDec lags by up to one allocation-cache refill and may carry
// the allocations of earlier calls, so a suspicious reading is re-measured precisely.
func exactAlloc(entry string, inp []byte, bm string) int64 {
	var cp *[]byte
	if inp != nil {
		c := append([]byte{}, inp...)
		if h := windowHash(inp); h%8 == 3 && len(inp) <= 4096 && !parMode && recvBuf != nil { // the same shape as in runDec
			copy(recvBuf, inp)
			c = recvBuf[:len(inp)]
			defer func() {
				for i := 0; i < len(inp)+64 && i < len(recvBuf); i++ {
					recvBuf[i] = 0xA5
				}
			}()
		}
		cp = &c
	}
	m := nas.NewMessage()
	var ms0, ms1 runtime.MemStats
	runtime.ReadMemStats(&ms0)
	ev.Guard(func() {
		if entry == "body" {
			rm.DecodeBody(bm, *cp)
		} else {
			decodeEntry(m, entry, cp)
		}
	})
	runtime.ReadMemStats(&ms1)
	return int64(ms1.TotalAlloc - ms0.TotalAlloc)
}

func runDecLean(entry string, inp []byte, big int, bm string) DecLean {
	e := lean(runDec(entry, inp, big, bm, false))
	if !e.Panic && e.Alloc > (16*int64(e.N)+3*65536+8192)/4 {
		e.Alloc = exactAlloc(entry, inp, bm)
	}
	return e
}

type Dec struct {
	Op    string `json:"op"`
	Entry string `json:"entry"`
	Bm    string `json:"bm"`
	N     int    `json:"n"`
	Inp   []int  `json:"inp"`
	Ok    bool   `json:"ok"`
	Panic bool   `json:"panic"`
	Pfn   string `json:"pfn"`
	Alloc int64  `json:"alloc"`
	rm.Proj
}

var allocSample = []metrics.Sample{{Name: "/gc/heap/allocs:bytes"}}

func allocated() int64 {
	metrics.Read(allocSample)
	return int64(allocSample[0].Value.Uint64())
}

func decodeEntry(m *nas.Message, entry string, b *[]byte) error {
	switch entry {
	case "plain":
		return m.PlainNasDecode(b)
	case "gmm":
		return m.GmmMessageDecode(b)
	case "gsm":
		return m.GsmMessageDecode(b)
	}
	ev.Fatal("unknown entry %q", entry)
	return nil
}

func runDec(entry string, inp []byte, big int, bm string, proj bool) Dec {
	e := Dec{Op: "Dec", Entry: entry, Bm: bm, N: len(inp), Inp: []int{}, Proj: rm.EmptyProj()}
	if len(inp) <= big {
		e.Inp = ev.Ints(inp)
	}
	var cp *[]byte
	if inp != nil {
		c := spare(inp)
		if len(inp) < 8 { // short inputs with NOTHING behind them (capacity = length): a reslice past the end panics here
			c = make([]byte, len(inp))
			copy(c, inp)
		}
		// one input in eight is a window at the head of a large receive buffer (capacity 8 MiB): work and memory are bounded by
		// the LENGTH of the input, whatever lies behind it
		if h := windowHash(inp); h%8 == 3 && len(inp) <= 4096 && !parMode {
			if recvBuf == nil {
				recvBuf = make([]byte, 8<<20)
				for i := range recvBuf {
					recvBuf[i] = 0xA5
				}
			}
			copy(recvBuf, inp)
			c = recvBuf[:len(inp)]
			defer func() { // restore the sentinel behind / under the window for the next user
				for i := 0; i < len(inp)+64 && i < len(recvBuf); i++ {
					recvBuf[i] = 0xA5
				}
			}()
		}
		cp = &c
	}
	m := nas.NewMessage()
	var err error
	a0 := allocated()
	var bp rm.Proj
	pi := ev.Guard(func() {
		if entry == "body" {
			var perr error
			bp, err, perr = rm.DecodeBody(bm, *cp)
			if perr != nil {
				ev.Fatal("%v", perr)
			}
		} else {
			err = decodeEntry(m, entry, cp)
		}
	})
	e.Alloc = allocated() - a0
	if pi != nil {
		e.Panic, e.Pfn = true, pi.Fn+": "+pi.Kind
		if !pi.Lib {
			ev.Fatal("panic outside the library: %s %s", pi.Fn, pi.Kind)
		}
		return e
	}
	e.Ok = err == nil
	if e.Ok && proj {
		if entry == "body" {
			e.Proj = bp
		} else {
			disturb(entry, inp)
			e.Proj = rm.Project(m)
		}
	}
	return e
}

var recvBuf []byte
var parMode bool // set by the concurrent modes: the receive buffer is one per process

func windowHash(inp []byte) int {
	h := len(inp)
	for _, x := range inp {
		h = (h*31 + int(x)) & 0xffffff
	}
	return h
}

// spare returns a copy of inp that is a view of a LARGER array: 64 octets of spare capacity behind it, filled with a
// sentinel.  A decoder that looks at capacity instead of length reads the sentinel as if it were input.
func spare(inp []byte) []byte {
	big := make([]byte, len(inp)+64)
	copy(big, inp)
	for i := len(inp); i < len(big); i++ {
		big[i] = 0xA5
	}
	return big[:len(inp)]
}

// disturb: the same input is decoded once more into ANOTHER fresh nas.Message whose every content octet is then inverted.
// A decoded message owns its bodies and elements: if a constructor hands out a shared or pooled instance, the first
// message - projected only after this - shows the second one's octets.
func disturb(entry string, inp []byte) {
	ev.Guard(func() {
		m2 := nas.NewMessage()
		c2 := append([]byte{}, inp...)
		if decodeEntry(m2, entry, &c2) == nil {
			rm.ScribbleMessage(m2)
		}
	})
}

// prev is the message of an earlier case.  Between producing a result and reading it the driver makes an
// unrelated library call on prev (the caller of a pure function may do anything in between): a result that
// aliases library-owned memory (pooled or cached buffers) is then observed changed.
var prev *nas.Message
var interleaving = true // off in the parallel mode: prev is deliberately not shared between goroutines

func interleave() {
	if !interleaving || prev == nil {
		return
	}
	ev.Guard(func() {
		if out, err := prev.PlainNasEncode(); err == nil {
			m := nas.NewMessage()
			_ = m.PlainNasDecode(&out)
		}
	})
}

func remember(m *nas.Message) {
	if interleaving && m != nil && (m.GmmMessage != nil || m.GsmMessage != nil) {
		prev = m
	}
}

type RT struct {
	Op    string    `json:"op"`
	M     string    `json:"m"`
	Via   string    `json:"via"`
	Mand  []rm.Slot `json:"mand"`
	Opt   []rm.Slot `json:"opt"`
	EncOk bool      `json:"encok"`
	Bytes []int     `json:"bytes"`
	DecOk bool      `json:"decok"`
	Panic bool      `json:"panic"`
	Pfn   string    `json:"pfn"`
	D     rm.Proj   `json:"d"`
}

func runRT(c Case) RT {
	e := RT{Op: "RT", M: c.M, Via: c.Via, Mand: c.Mand, Opt: c.Opt, Bytes: []int{}, D: rm.EmptyProj()}
	m, body, err := rm.Build(c.M, c.Mand, c.Opt)
	if err != nil {
		ev.Fatal("%v", err)
	}
	// every second value reaches the encoder in an object that has been encoded (and decoded into) before with OTHER contents
	// of the same shape and the same header octets, and was then edited in place: the encoding is that of the value the
	// object holds now
	if w := weight(c.Mand) + weight(c.Opt); c.Via != "body" && w%2 == 0 {
		hdr := 3
		if m.GsmMessage != nil {
			hdr = 4
		}
		pm, po := otherContents(c.Mand, hdr), otherContents(c.Opt, 0)
		if m0, body0, err0 := rm.Build(c.M, pm, po); err0 == nil {
			var first []byte
			ev.Guard(func() { first, _ = m0.PlainNasEncode() })
			if w%4 == 2 || first == nil {
				// variant A: the object that was encoded is edited in place
				if rm.Refill(body0, c.Mand, c.Opt, hdr) == nil {
					m, body = m0, body0
				}
			} else {
				// variant B: the object that RECEIVED those octets is edited in place (when it holds the same set of elements)
				m1 := nas.NewMessage()
				var derr error
				ev.Guard(func() { cp := append([]byte{}, first...); derr = m1.PlainNasDecode(&cp) })
				if b1, ok := rm.BodyOf(m1); derr == nil && ok && rm.SameShape(m1, c.M, c.Opt) && rm.Refill(b1, c.Mand, c.Opt, hdr) == nil {
					m, body = m1, b1
				}
			}
		}
	}
	var out []byte
	var eerr error
	pi := ev.Guard(func() {
		if c.Via == "body" {
			buf := new(bytes.Buffer)
			eerr = rm.EncodeBody(body, buf)
			out = buf.Bytes()
		} else {
			out, eerr = m.PlainNasEncode()
		}
	})
	if pi != nil {
		e.Panic, e.Pfn = true, pi.Fn+": "+pi.Kind
		return e
	}
	e.EncOk = eerr == nil
	if !e.EncOk {
		return e
	}
	interleave()
	e.Bytes = ev.Ints(out)
	if c.Via != "body" {
		defer remember(m)
	}
	pi = ev.Guard(func() {
		if c.Via == "body" {
			p, derr, perr := rm.DecodeBody(c.M, append([]byte{}, out...))
			if perr != nil {
				ev.Fatal("%v", perr)
			}
			e.DecOk = derr == nil
			e.D = p
		} else {
			m2 := nas.NewMessage()
			cp := append([]byte{}, out...)
			derr := m2.PlainNasDecode(&cp)
			e.DecOk = derr == nil
			for i := range cp { // the caller reuses its receive buffer: the decoded message must not notice
				cp[i] = ^cp[i]
			}
			if e.DecOk {
				e.D = rm.Project(m2)
			}
		}
	})
	if pi != nil {
		e.Panic, e.Pfn = true, pi.Fn+": "+pi.Kind
	}
	return e
}

// weight: a number that depends on the shape of a slot list only (deterministic choice of a variant per case)
func weight(ss []rm.Slot) int {
	w := 0
	for i, s := range ss {
		if s.P {
			w += 1 + i
		}
		w += 3 * len(s.V)
	}
	return w
}

// otherContents: the same slots with other contents (lengths, identifiers and the first `hdr` slots untouched)
func otherContents(ss []rm.Slot, hdr int) []rm.Slot {
	out := make([]rm.Slot, len(ss))
	for i, s := range ss {
		out[i] = s
		out[i].V = append([]int{}, s.V...)
		if i < hdr {
			continue
		}
		if len(s.V) >= 2 {
			for k := range out[i].V {
				out[i].V[k] = 255 - s.V[k]
			}
		} else if len(s.V) == 1 && !(s.Iei == 0 && s.V[0] >= 128 && hdr == 0) {
			out[i].V[0] = s.V[0] ^ 0x05
		}
	}
	return out
}

type Re struct {
	Op    string  `json:"op"`
	Inp   []int   `json:"inp"`
	Ok    bool    `json:"ok"`
	Panic bool    `json:"panic"`
	Pfn   string  `json:"pfn"`
	D1    rm.Proj `json:"d1"`
	E1Ok  bool    `json:"e1ok"`
	E1    []int   `json:"e1"`
	D2Ok  bool    `json:"d2ok"`
	D2    rm.Proj `json:"d2"`
	E2Ok  bool    `json:"e2ok"`
	E2    []int   `json:"e2"`
}

func runRe(inp []byte) Re {
	e := Re{Op: "Re", Inp: ev.Ints(inp), D1: rm.EmptyProj(), D2: rm.EmptyProj(), E1: []int{}, E2: []int{}}
	pi := ev.Guard(func() {
		m := nas.NewMessage()
		cp := append([]byte{}, inp...)
		if err := m.PlainNasDecode(&cp); err != nil {
			return
		}
		e.Ok = true
		e.D1 = rm.Project(m)
		e1, err := m.PlainNasEncode()
		if err != nil {
			return
		}
		interleave()
		e.E1Ok, e.E1 = true, ev.Ints(e1)
		defer remember(m)
		m2 := nas.NewMessage()
		cp2 := append([]byte{}, e1...)
		if err := m2.PlainNasDecode(&cp2); err != nil {
			return
		}
		e.D2Ok, e.D2 = true, rm.Project(m2)
		e2, err := m2.PlainNasEncode()
		if err != nil {
			return
		}
		interleave()
		e.E2Ok, e.E2 = true, ev.Ints(e2)
	})
	if pi != nil {
		e.Panic, e.Pfn = true, pi.Fn+": "+pi.Kind
	}
	return e
}

type PureD struct {
	Op       string  `json:"op"`
	Entry    string  `json:"entry"`
	Inp      []int   `json:"inp"`
	Ok       bool    `json:"ok"`
	Panic    bool    `json:"panic"`
	Pfn      string  `json:"pfn"`
	InpAfter []int   `json:"inp_after"` // the slice handed to the decoder, after the call
	D1       rm.Proj `json:"d1"`        // projection right after decoding
	DScr     rm.Proj `json:"d_scr"`     // projection after every input octet was inverted
	InpScr   []int   `json:"inp_scr"`   // input slice after every message octet was inverted (expected: inverted input)
	DTwice   rm.Proj `json:"d_twice"`   // projection of a second, independent decode
}

func runPureD(entry string, inp []byte, bm string) PureD {
	e := PureD{Op: "PureD", Entry: entry, Inp: ev.Ints(inp), InpAfter: []int{}, InpScr: []int{}, D1: rm.EmptyProj(), DScr: rm.EmptyProj(), DTwice: rm.EmptyProj()}
	if entry == "body" {
		// a body decoder called directly (the security-protected envelope): input unchanged, two decodes agree
		pi := ev.Guard(func() {
			cp := make([]byte, len(inp))
			copy(cp, inp)
			p1, err, perr := rm.DecodeBody(bm, cp)
			if perr != nil {
				ev.Fatal("%v", perr)
			}
			e.InpAfter = ev.Ints(cp)
			e.Ok = err == nil
			if e.Ok {
				e.D1, e.DScr = p1, p1
			}
			for i := range cp {
				cp[i] = ^cp[i]
			}
			e.InpScr = ev.Ints(cp)
			if p2, err2, _ := rm.DecodeBody(bm, spare(inp)); err2 == nil {
				e.DTwice = p2
			}
		})
		if pi != nil {
			e.Panic, e.Pfn = true, pi.Fn+": "+pi.Kind
		}
		return e
	}
	pi := ev.Guard(func() {
		cp := make([]byte, len(inp)) // capacity = length exactly: nothing behind the input
		copy(cp, inp)
		m := nas.NewMessage()
		err := decodeEntry(m, entry, &cp)
		e.InpAfter = ev.Ints(cp)
		e.Ok = err == nil
		// accepted or rejected: what the call left in the message (the complete message, or the part that was decoded before
		// the error) shares no memory with the input
		e.D1 = rm.Project(m)
		for i := range cp {
			cp[i] = ^cp[i]
		}
		e.DScr = rm.Project(m)
		rm.ScribbleMessage(m)
		e.InpScr = ev.Ints(cp)
		interleave()
		m2 := nas.NewMessage()
		cp2 := spare(inp) // same octets, other memory around them: the result is a function of the octets only
		// ... and of nothing else: the second decode runs with the library's logger at trace level
		lg := logger.GetLogger()
		lvl := lg.GetLevel()
		lg.SetLevel(logrus.TraceLevel)
		defer lg.SetLevel(lvl)
		err2 := decodeEntry(m2, entry, &cp2)
		e.DTwice = rm.Project(m2)
		if err2 == nil {
			remember(m2)
		}
	})
	if pi != nil {
		e.Panic, e.Pfn = true, pi.Fn+": "+pi.Kind
	}
	return e
}

type PureE struct {
	Op     string    `json:"op"`
	M      string    `json:"m"`
	Mand   []rm.Slot `json:"mand"`
	Opt    []rm.Slot `json:"opt"`
	Pre    int       `json:"pre"`
	Ok     bool      `json:"ok"`
	Panic  bool      `json:"panic"`
	Pfn    string    `json:"pfn"`
	Prefix []int     `json:"prefix"` // first Pre octets of the buffer after encoding
	Tail   []int     `json:"tail"`   // what encoding appended
	After  rm.Proj   `json:"after"`  // message projection after encoding
	Again  []int     `json:"again"`  // a second encoding into a fresh buffer
	Held   []int     `json:"held"`   // the first PlainNasEncode result, read again after a DIFFERENT message was encoded
	Hdr0   []int     `json:"hdr0"`   // the message's outer header view before any encoding
}

func pat(i int) byte { return byte((i*37 + 11) % 256) }

func runPureE(c Case) PureE {
	e := PureE{Op: "PureE", M: c.M, Mand: c.Mand, Opt: c.Opt, Pre: c.Pre, Prefix: []int{}, Tail: []int{}, Again: []int{}, Held: []int{}, Hdr0: []int{}, After: rm.EmptyProj()}
	m, _, err := rm.Build(c.M, c.Mand, c.Opt)
	if err != nil {
		ev.Fatal("%v", err)
	}
	if c.Hz { // a message assembled by hand: only the message type of the outer header view is set
		if m.GmmMessage != nil {
			m.GmmMessage.GmmHeader.Octet[0] = 0
		} else if m.GsmMessage != nil {
			m.GsmMessage.GsmHeader.Octet[0] = 0
		}
	}
	e.Hdr0 = rm.Project(m).Hdr
	if e.Hdr0 == nil {
		e.Hdr0 = []int{}
	}
	pi := ev.Guard(func() {
		pre := make([]byte, c.Pre)
		for i := range pre {
			pre[i] = pat(i + 1)
		}
		buf := bytes.NewBuffer(pre)
		var eerr error
		if m.GmmMessage != nil {
			eerr = m.GmmMessageEncode(buf)
		} else {
			eerr = m.GsmMessageEncode(buf)
		}
		e.Ok = eerr == nil
		all := buf.Bytes()
		if len(all) >= c.Pre {
			e.Prefix = ev.Ints(all[:c.Pre])
			e.Tail = ev.Ints(all[c.Pre:])
		} else {
			e.Prefix = ev.Ints(all)
		}
		// a second encoding into a buffer that was used before (Reset) and has spare capacity, behind the same prefix: what
		// encoding appends does not depend on the buffer's history or capacity, and the prefix survives there as well
		buf2 := new(bytes.Buffer)
		buf2.Grow(8192)
		buf2.Write(bytes.Repeat([]byte{0x5a}, 300))
		buf2.Reset()
		buf2.Write(pre)
		var e2 error
		if m.GmmMessage != nil {
			e2 = m.GmmMessageEncode(buf2)
		} else {
			e2 = m.GsmMessageEncode(buf2)
		}
		if all2 := buf2.Bytes(); e2 == nil && len(all2) >= c.Pre && bytes.Equal(all2[:c.Pre], pre) {
			e.Again = ev.Ints(all2[c.Pre:])
		} else {
			e.Again = ev.Ints(all2)
		}
		if out2, err2 := m.PlainNasEncode(); err2 == nil {
			// same shape, different contents: a message built from the same case with every content octet inverted
			if other, _, berr := rm.Build(c.M, c.Mand, c.Opt); berr == nil {
				rm.ScribbleMessage(other)
				_, _ = other.PlainNasEncode()
			}
			interleave()
			e.Held = ev.Ints(out2)
		}
		e.After = rm.Project(m) // after ALL encodings (family entry, reused buffer, PlainNasEncode): none of them writes into the message
	})
	if pi != nil {
		e.Panic, e.Pfn = true, pi.Fn+": "+pi.Kind
	}
	if pi == nil && e.Ok && len(kept) < 20000 && keptOctets+len(e.Tail) <= 48<<20 {
		kept = append(kept, keptEnc{int(atomic.LoadInt64(&cur)), m, e.Tail, time.Now()})
		keptOctets += len(e.Tail)
	}
	return e
}

// keptEnc: a message that was encoded (PureE), kept as it is, to be encoded once more LATER (case kind "later"): the octets
// are a function of the message, not of the moment of the call
type keptEnc struct {
	idx  int // index of the case that built it
	m    *nas.Message
	tail []int
	at   time.Time
}

var kept []keptEnc
var keptOctets int

type PureLater struct {
	Op    string  `json:"op"`
	N     int     `json:"n"`     // messages encoded again
	Wait  int     `json:"wait"`  // milliseconds between the first encoding of the last of them and this case
	Which []int   `json:"which"` // case indexes whose later encoding differs from the first (or fails)
	First [][]int `json:"first"`
	Later [][]int `json:"later"`
}

func runLater() PureLater {
	e := PureLater{Op: "PureLater", N: len(kept), Which: []int{}, First: [][]int{}, Later: [][]int{}}
	if len(kept) == 0 {
		return e
	}
	if d := time.Since(kept[len(kept)-1].at); d < 1100*time.Millisecond {
		time.Sleep(1100*time.Millisecond - d) // across a boundary of the wall clock's seconds
	}
	e.Wait = int(time.Since(kept[len(kept)-1].at) / time.Millisecond)
	for _, k := range kept {
		var now []int
		ev.Guard(func() {
			buf := new(bytes.Buffer)
			var err error
			if k.m.GmmMessage != nil {
				err = k.m.GmmMessageEncode(buf)
			} else {
				err = k.m.GsmMessageEncode(buf)
			}
			if err == nil {
				now = ev.Ints(buf.Bytes())
			}
		})
		same := now != nil && len(now) == len(k.tail)
		for i := 0; same && i < len(now); i++ {
			same = now[i] == k.tail[i]
		}
		if !same && len(e.Which) < 20 {
			if now == nil {
				now = []int{}
			}
			e.Which, e.First, e.Later = append(e.Which, k.idx), append(e.First, k.tail), append(e.Later, now)
		}
	}
	kept, keptOctets = nil, 0
	return e
}

type EncDisp struct {
	Op    string `json:"op"`
	Fam   string `json:"fam"`
	Mt    int    `json:"mt"`
	M     string `json:"m"`
	Ok    bool   `json:"ok"`
	Panic bool   `json:"panic"`
	Pfn   string `json:"pfn"`
	Bytes []int  `json:"bytes"`
	// the family's own encoder called directly: into a fresh buffer (f) and into a buffer that already holds octets (p;
	// Bytesp is what the call appended).  Which encoder runs - or that none does - is decided by the message type alone.
	Okf, Okp, Panicf, Panicp bool
	Bytesf, Bytesp           []int
	PrefixKept               bool
	// ... and once more into a fresh buffer AFTER the call into the filled one (r); the header view before the first and
	// after the last call: the same message type routes to the same encoder every time, and encoding leaves the view alone
	Okr, Panicr  bool
	Bytesr       []int
	HdrB4, HdrAf []int
}

// encode dispatch: a message whose header view carries message type Mt and whose body is M (or none)
func runEncDisp(c Case) (e EncDisp) {
	e = EncDisp{Op: "EncDisp", Fam: c.Fam, Mt: c.Mt, M: c.M, Bytes: []int{}}
	var m *nas.Message
	if c.M != "" {
		var err error
		m, _, err = rm.Build(c.M, c.Mand, c.Opt)
		if err != nil {
			ev.Fatal("%v", err)
		}
	} else {
		m = nas.NewMessage()
		if c.Fam == "gmm" {
			m.GmmMessage = nas.NewGmmMessage()
		} else if c.Fam == "gsm" {
			m.GsmMessage = nas.NewGsmMessage()
		}
	}
	if m.GmmMessage != nil {
		m.GmmMessage.GmmHeader.SetMessageType(uint8(c.Mt))
	} else if m.GsmMessage != nil {
		m.GsmMessage.GsmHeader.SetMessageType(uint8(c.Mt))
	}
	if c.Sht != 0 { // what the outer security header view holds does not decide whether there is a body to encode
		m.SecurityHeader.ProtocolDiscriminator = 0x7E
		m.SecurityHeader.SecurityHeaderType = uint8(c.Sht)
		m.SecurityHeader.MessageAuthenticationCode = 0x01020304
		m.SecurityHeader.SequenceNumber = 9
	}
	hdrView := func() []int {
		if m.GmmMessage != nil {
			return ev.Ints(m.GmmMessage.GmmHeader.Octet[:])
		} else if m.GsmMessage != nil {
			return ev.Ints(m.GsmMessage.GsmHeader.Octet[:])
		}
		return []int{}
	}
	e.HdrB4 = hdrView()
	pi := ev.Guard(func() {
		out, err := m.PlainNasEncode()
		e.Ok = err == nil
		if e.Ok {
			e.Bytes = ev.Ints(out)
		}
	})
	if pi != nil {
		e.Panic, e.Pfn = true, pi.Fn+": "+pi.Kind
	}
	e.Bytesf, e.Bytesp, e.Bytesr, e.PrefixKept = []int{}, []int{}, []int{}, true
	e.Okf, e.Okp, e.Panicf, e.Panicp = e.Ok, e.Ok, e.Panic, e.Panic
	defer func() {
		if m.GmmMessage == nil && m.GsmMessage == nil {
			e.Okr, e.Panicr = e.Ok, e.Panic
		}
		e.HdrAf = hdrView()
	}()
	direct := func(buf *bytes.Buffer) error {
		if m.GmmMessage != nil {
			return m.GmmMessageEncode(buf)
		}
		return m.GsmMessageEncode(buf)
	}
	if m.GmmMessage != nil || m.GsmMessage != nil {
		if pi := ev.Guard(func() {
			buf := new(bytes.Buffer)
			err := direct(buf)
			e.Okf, e.Panicf = err == nil, false
			if e.Okf {
				e.Bytesf = ev.Ints(buf.Bytes())
			}
		}); pi != nil {
			e.Okf, e.Panicf = false, true
		}
		if pi := ev.Guard(func() {
			pre := []byte{0x7E, 0x02, 0xDE, 0xAD, 0xBE, 0xEF, 0x07}
			buf := bytes.NewBuffer(append([]byte{}, pre...))
			err := direct(buf)
			e.Okp, e.Panicp = err == nil, false
			all := buf.Bytes()
			e.PrefixKept = len(all) >= len(pre) && bytes.Equal(all[:len(pre)], pre)
			if e.Okp && e.PrefixKept {
				e.Bytesp = ev.Ints(all[len(pre):])
			}
		}); pi != nil {
			e.Okp, e.Panicp = false, true
		}
		if pi := ev.Guard(func() {
			buf := new(bytes.Buffer)
			err := direct(buf)
			e.Okr, e.Panicr = err == nil, false
			if e.Okr {
				e.Bytesr = ev.Ints(buf.Bytes())
			}
		}); pi != nil {
			e.Okr, e.Panicr = false, true
		}
	}
	return e
}

var cur, curStart int64

// execCase runs one case on the real API and hands every observation to emit.
func execCase(c Case, rng *rand.Rand, emit func(interface{})) {
	if c.Big == 0 {
		c.Big = 1 << 30
	}
	switch c.K {
	case "dec":
		var inp []byte
		if c.Inp != nil {
			inp = ev.Bytes(c.Inp)
		}
		if c.Lean {
			emit(runDecLean(c.Entry, inp, c.Big, c.M))
		} else {
			emit(runDec(c.Entry, inp, c.Big, c.M, true))
		}
	case "later":
		emit(runLater())
	case "dechold": // Inp is decoded; then Inp2 is decoded into ANOTHER fresh nas.Message (and re-encoded) while the first message is
		// held; the event describes the FIRST decode, projected only afterwards: a decoded message owns its bodies and elements
		m := nas.NewMessage()
		first := ev.Bytes(c.Inp)
		e := Dec{Op: "Dec", Entry: c.Entry, N: len(c.Inp), Inp: c.Inp, Proj: rm.EmptyProj()}
		var err error
		pi := ev.Guard(func() { err = decodeEntry(m, c.Entry, &first) })
		if pi != nil {
			e.Panic, e.Pfn = true, pi.Fn+": "+pi.Kind
			emit(e)
			break
		}
		ev.Guard(func() {
			for r := 0; r < 2; r++ {
				m2 := nas.NewMessage()
				second := ev.Bytes(c.Inp2)
				if decodeEntry(m2, c.Entry, &second) == nil {
					_, _ = m2.PlainNasEncode()
				}
			}
		})
		if e.Ok = err == nil; e.Ok {
			disturb(c.Entry, first)
			e.Proj = rm.Project(m)
		}
		emit(e)
	case "dec2x": // the receiving nas.Message is NOT fresh: it has decoded Inp (possibly of the other family) before and / or its
		// embedded SecurityHeader view was filled in by the caller (Pre = [EPD, security header type]), as a security layer does
		// before handing the plain message on.  Routing looks at the octets of Inp2 only.  Event DecX: accept / reject and the
		// routed body are judged; what remains of the OTHER family's earlier message is not.
		m := nas.NewMessage()
		if c.Inp != nil {
			first := ev.Bytes(c.Inp)
			ev.Guard(func() { _ = decodeEntry(m, c.Entry, &first) })
		}
		if len(c.Pre2) == 2 {
			m.SecurityHeader.ProtocolDiscriminator = uint8(c.Pre2[0])
			m.SecurityHeader.SecurityHeaderType = uint8(c.Pre2[1])
		}
		e := Dec{Op: "DecX", Entry: c.Entry, N: len(c.Inp2), Inp: c.Inp2, Proj: rm.EmptyProj()}
		second := ev.Bytes(c.Inp2)
		var err error
		pi := ev.Guard(func() { err = decodeEntry(m, c.Entry, &second) })
		if pi != nil {
			e.Panic, e.Pfn = true, pi.Fn+": "+pi.Kind
		} else if e.Ok = err == nil; e.Ok {
			e.Proj = rm.Project(m)
		}
		emit(e)
	case "dec2": // object reuse: Inp2 is decoded into the same nas.Message right after Inp; the event describes the second decode
		m := nas.NewMessage()
		first := ev.Bytes(c.Inp)
		ev.Guard(func() { _ = decodeEntry(m, c.Entry, &first) })
		e := Dec{Op: "Dec", Entry: c.Entry, N: len(c.Inp2), Inp: c.Inp2, Proj: rm.EmptyProj()}
		second := ev.Bytes(c.Inp2)
		var err error
		pi := ev.Guard(func() { err = decodeEntry(m, c.Entry, &second) })
		if pi != nil {
			e.Panic, e.Pfn = true, pi.Fn+": "+pi.Kind
		} else if e.Ok = err == nil; e.Ok {
			e.Proj = rm.Project(m)
		}
		emit(e)
	case "rt":
		emit(runRT(c))
	case "re":
		emit(runRe(ev.Bytes(c.Inp)))
	case "pured":
		emit(runPureD(c.Entry, ev.Bytes(c.Inp), c.M))
	case "puree":
		emit(runPureE(c))
	case "encdisp":
		emit(runEncDisp(c))
	case "rand": // Count seeded random inputs of length up to Max with the first octets biased to valid headers
		for k := 0; k < c.Count; k++ {
			emit(runDecLean(c.Entry, randInput(rng, c.Max, c.Inp), c.Big, c.M))
			atomic.StoreInt64(&curStart, time.Now().UnixNano())
		}
	default:
		ev.Fatal("unknown case kind %q", c.K)
	}
}

func readCases(path string) []Case {
	in, err := os.Open(path)
	if err != nil {
		ev.Fatal("%v", err)
	}
	defer in.Close()
	sc := bufio.NewScanner(in)
	sc.Buffer(make([]byte, 1<<20), 1<<28)
	var out []Case
	for sc.Scan() {
		var c Case
		if err := json.Unmarshal(sc.Bytes(), &c); err != nil {
			ev.Fatal("case %d: %v", len(out), err)
		}
		out = append(out, c)
	}
	return out
}

// Shared: a read-only use of a message decoded before the goroutines started (C19).
type Shared struct {
	Op    string  `json:"op"`
	Inp   []int   `json:"inp"`
	Ok    bool    `json:"ok"`
	Panic bool    `json:"panic"`
	Pfn   string  `json:"pfn"`
	Bytes []int   `json:"bytes"`
	D     rm.Proj `json:"d"`
}

// runPar: N goroutines, each walking the whole case list from its own starting point with its own
// writer; a few messages decoded up front are shared and only read (projected, re-encoded).
func runPar(cases []Case, prefix string, n int, rounds int) {
	parMode = true
	interleaving = false
	type sh struct {
		inp []byte
		m   *nas.Message
	}
	var shared []sh
	for _, c := range cases {
		if c.K == "dec" && c.Entry == "plain" && len(shared) < 8 {
			m := nas.NewMessage()
			b := ev.Bytes(c.Inp)
			if err := m.PlainNasDecode(&b); err == nil {
				shared = append(shared, sh{ev.Bytes(c.Inp), m})
			}
		}
	}
	done := make(chan int, n)
	seed := ev.Seed()
	for g := 0; g < n; g++ {
		go func(g int) {
			w := ev.Create(fmt.Sprintf("%s.%d.ndjson", prefix, g))
			rng := rand.New(rand.NewSource(seed*1000 + int64(g)))
			for r := 0; r < rounds; r++ {
				off := rng.Intn(len(cases))
				for i := range cases {
					c := cases[(i+off)%len(cases)]
					if c.K == "rand" {
						continue
					}
					execCase(c, rng, w.Emit)
					if len(shared) > 0 && rng.Intn(4) == 0 {
						s := shared[rng.Intn(len(shared))]
						e := Shared{Op: "Shared", Inp: ev.Ints(s.inp), Bytes: []int{}, D: rm.EmptyProj()}
						pi := ev.Guard(func() {
							e.D = rm.Project(s.m)
							out, err := s.m.PlainNasEncode()
							e.Ok = err == nil
							if e.Ok {
								e.Bytes = ev.Ints(out)
							}
						})
						if pi != nil {
							e.Panic, e.Pfn = true, pi.Fn+": "+pi.Kind
						}
						w.Emit(e)
					}
					if rng.Intn(8) == 0 {
						runtime.Gosched()
					}
				}
			}
			w.Close()
			done <- w.N
		}(g)
	}
	total := 0
	for g := 0; g < n; g++ {
		total += <-done
	}
	fmt.Println("events", total)
}

func main() {
	ev.Quiet()
	if len(os.Args) >= 6 && os.Args[1] == "runpar" {
		// codec runpar <cases.ndjson> <outprefix> <goroutines> <rounds>
		var n, rounds int
		fmt.Sscan(os.Args[4], &n)
		fmt.Sscan(os.Args[5], &rounds)
		runPar(readCases(os.Args[2]), os.Args[3], n, rounds)
		return
	}
	if len(os.Args) < 5 || os.Args[1] != "run" {
		ev.Fatal("usage: codec run <cases.ndjson> <out.ndjson> <journal> | codec runpar <cases> <outprefix> <N> <rounds>")
	}
	cases := readCases(os.Args[2])
	w := ev.Create(os.Args[3])
	jf, err := os.Create(os.Args[4])
	if err != nil {
		ev.Fatal("%v", err)
	}
	limit := 20 * time.Second
	go func() { // watchdog: a case that does not return is a hang
		for {
			time.Sleep(250 * time.Millisecond)
			st := atomic.LoadInt64(&curStart)
			if st != 0 && time.Since(time.Unix(0, st)) > limit {
				fmt.Fprintf(jf, "HANG %d\n", atomic.LoadInt64(&cur))
				w.Flush()
				os.Exit(4)
			}
		}
	}()
	runtime.GC()
	rng := ev.Rng()
	for i, c := range cases {
		atomic.StoreInt64(&cur, int64(i))
		atomic.StoreInt64(&curStart, time.Now().UnixNano())
		fmt.Fprintf(jf, "START %d\n", i)
		execCase(c, rng, func(v interface{}) { w.Emit(v) })
	}
	atomic.StoreInt64(&curStart, 0)
	w.Close()
	fmt.Fprintf(jf, "END %d\n", len(cases))
	jf.Close()
}

// randInput: header prefix (if given) followed by random octets; lengths spread over 0..max
func randInput(rng *rand.Rand, max int, hdr []int) []byte {
	n := rng.Intn(max + 1)
	switch rng.Intn(4) {
	case 0:
		n = rng.Intn(64)
	case 1:
		n = rng.Intn(2000)
	}
	b := make([]byte, n)
	rng.Read(b)
	for i := 0; i < len(hdr) && i < n; i++ {
		b[i] = byte(hdr[i])
	}
	return b
}
