package main

func hist(in, out string)  {}
func record08(out string) {}
