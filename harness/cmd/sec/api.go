package main

// C08: call histories on real payload buffers.  Every call is logged with copies of the payload (message),
// the key and the result taken before and after; no comparison is made here except "did the bytes change"
// inside the full guard cube, whose 2 x 256 x 65 536 calls are logged as one event per (call, algorithm).

import (
	"bytes"
	"encoding/json"
	"math/rand"
	"os"

	"verifharness/internal/ev"

	"github.com/free5gc/nas/security"
)

// HOp is one operation of a history (chosen by TLC: MC_C08_gen, or by the seeded recorder).
type HOp struct {
	Op     string `json:"op"`
	Cell   int    `json:"cell"`
	Alg    int    `json:"alg"`
	Key    int    `json:"key"` // identifier: 0 zero, 1 ones, >= 2 seeded random
	Cnt    int    `json:"cnt"`
	Bearer int    `json:"bearer"`
	Dir    int    `json:"dir"`
	Len    int    `json:"len"`
	Pat    int    `json:"pat"` // payload = Len-octet prefix of base sequence Pat (0 zero, 1 ones, >= 2 seeded random)
	Nil    bool   `json:"nil"`
	// exact material (re-run of an observed history); overrides the identifiers
	KeyB  []int `json:"keyb,omitempty"`
	CntB  []int `json:"cntb,omitempty"`
	DataB []int `json:"datab,omitempty"`
}

// Ev8 is one observed event of a history; every event carries every key, "op" first.
type Ev8 struct {
	Op       string `json:"op"`
	Cell     int    `json:"cell"`
	Alg      int    `json:"alg"`
	Key      []int  `json:"key"`
	Cnt      []int  `json:"cnt"`
	Bearer   int    `json:"bearer"`
	Dir      int    `json:"dir"`
	Nil      bool   `json:"nil"`
	Before   []int  `json:"before"`
	After    []int  `json:"after"`
	KeyAfter []int  `json:"key_after"`
	Mac      []int  `json:"mac"`
	MacNil   bool   `json:"macnil"`
	Err      bool   `json:"err"`
	Panic    bool   `json:"panic"`
	Pfn      string `json:"pfn"`
	Plib     bool   `json:"plib"`
	Call     string `json:"call"`
	Acc      []int  `json:"acc"`
	Chg      []int  `json:"chg"`
	Pan      []int  `json:"pan"`
	Held     []int  `json:"held"` // the MAC slice returned by the last successful Mac call (since inverted by the harness), re-read after this call
}

func blank(op string) Ev8 {
	return Ev8{Op: op, Key: []int{}, Cnt: []int{}, Before: []int{}, After: []int{}, KeyAfter: []int{}, Mac: []int{}, Acc: []int{}, Chg: []int{}, Pan: []int{}, Held: []int{}}
}

type world struct {
	rng   *rand.Rand
	w     *ev.Writer
	keys  map[int][]byte
	cnts  map[int][]byte
	bases map[int][]byte
	cells map[int][]byte // the real payload buffers (nil slice = nil payload)
	bigs  map[int][]byte // the larger array a payload buffer is a view of (absent: no spare capacity)
	held  []byte         // the last returned MAC slice: the caller owns it, has written into it, and keeps it
}

func newWorld(rng *rand.Rand, w *ev.Writer) *world {
	return &world{rng: rng, w: w, keys: map[int][]byte{}, cnts: map[int][]byte{}, bases: map[int][]byte{}, cells: map[int][]byte{}, bigs: map[int][]byte{}}
}

func (s *world) material(m map[int][]byte, id, n int) []byte {
	if b, ok := m[id]; ok && len(b) >= n {
		return b
	}
	b := make([]byte, n)
	switch id {
	case 0:
	case 1:
		for i := range b {
			b[i] = 0xff
		}
	default:
		old := m[id]
		copy(b, old)
		s.rng.Read(b[len(old):]) // extend, keeping the prefix: patterns are prefix-closed
	}
	m[id] = b
	return b
}

func (s *world) reset() {
	s.cells = map[int][]byte{}
	s.bigs = map[int][]byte{}
	s.held = nil
	s.w.Emit(blank("TraceReset"))
}

func (s *world) do(o HOp) {
	e := blank(o.Op)
	e.Cell, e.Alg, e.Bearer, e.Dir = o.Cell, o.Alg, o.Bearer, o.Dir
	switch o.Op {
	case "Load":
		if o.Nil {
			s.cells[o.Cell] = nil
			e.Nil = true
		} else {
			var p []byte
			if o.DataB != nil {
				p = ev.Bytes(o.DataB)
			} else {
				p = append([]byte{}, s.material(s.bases, o.Pat, o.Len)[:o.Len]...)
			}
			// two payload buffers out of three are VIEWS of a larger array (a PDU inside a receive buffer) with non-zero octets
			// behind them, the others have no spare capacity at all; nothing behind the payload is ever read or written
			if h := len(p)*7 + o.Cell + o.Pat; h%3 != 0 {
				big := make([]byte, len(p)+24)
				copy(big, p)
				for i := len(p); i < len(big); i++ {
					big[i] = 0xA5
				}
				p = big[:len(p)]
				s.bigs[o.Cell] = big
			} else {
				p = append(make([]byte, 0, len(p)), p...)
				delete(s.bigs, o.Cell)
			}
			s.cells[o.Cell] = p
			e.Before, e.After = ev.Ints(p), ev.Ints(p)
		}
		s.w.Emit(e)
		return
	case "Encrypt", "Mac":
	default:
		ev.Fatal("unknown history op %q", o.Op)
	}
	var key [16]byte
	if o.KeyB != nil {
		copy(key[:], ev.Bytes(o.KeyB))
	} else {
		copy(key[:], s.material(s.keys, o.Key, 16))
	}
	cb := s.material(s.cnts, o.Cnt, 4)
	if o.CntB != nil {
		cb = ev.Bytes(o.CntB)
	}
	count := uint32(cb[0])<<24 | uint32(cb[1])<<16 | uint32(cb[2])<<8 | uint32(cb[3])
	buf, ok := s.cells[o.Cell]
	if !ok {
		ev.Fatal("history uses cell %d before loading it", o.Cell)
	}
	keyBefore := key
	e.Key, e.Cnt = ev.Ints(keyBefore[:]), ev.Ints(cb)
	e.Nil = buf == nil
	e.Before = ev.Ints(buf)
	var err error
	var mac []byte
	pi := ev.Guard(func() {
		if o.Op == "Encrypt" {
			err = security.NASEncrypt(uint8(o.Alg), key, count, uint8(o.Bearer), uint8(o.Dir), buf)
		} else {
			mac, err = security.NASMacCalculate(uint8(o.Alg), key, count, uint8(o.Bearer), uint8(o.Dir), buf)
		}
	})
	e.After = ev.Ints(buf)
	if big, ok := s.bigs[o.Cell]; ok && buf != nil {
		for i := len(buf); i < len(big); i++ {
			if big[i] != 0xA5 { // written behind the payload: the caller's buffer as it is now, sentinel region included
				e.After = ev.Ints(big)
				for j := len(buf); j < len(big); j++ {
					big[j] = 0xA5
				}
				break
			}
		}
	}
	e.KeyAfter = ev.Ints(key[:])
	e.MacNil = mac == nil
	e.Mac = ev.Ints(mac)
	e.Held = ev.Ints(s.held) // what the previously returned MAC slice holds after this call
	if o.Op == "Mac" {
		// a result is a value the caller owns: write into it (invert every octet) and keep hold of it
		for i := range mac {
			mac[i] = ^mac[i]
		}
		s.held = mac
	}
	if pi != nil {
		e.Panic, e.Pfn, e.Plib = true, pi.Fn, pi.Lib
	} else {
		e.Err = err != nil
	}
	s.w.Emit(e)
}

func hist(in, out string) {
	b, err := os.ReadFile(in)
	if err != nil {
		ev.Fatal("%v", err)
	}
	var hs [][]HOp
	if err := json.Unmarshal(b, &hs); err != nil {
		ev.Fatal("%v", err)
	}
	s := newWorld(ev.Rng(), ev.Create(out))
	for _, h := range hs {
		s.reset()
		for _, o := range h {
			s.do(o)
		}
	}
	s.w.Close()
}

// cube runs one (call, algorithm) slice of the guard cube: every bearer 0..255 x direction 0..255.
func (s *world) cube(call string, alg int) {
	e := blank("Cube")
	e.Call, e.Alg = call, alg
	var key [16]byte
	s.rng.Read(key[:])
	count := s.rng.Uint32()
	e.Key = ev.Ints(key[:])
	e.Cnt = []int{int(count >> 24), int(count >> 16 & 255), int(count >> 8 & 255), int(count & 255)}
	orig := []byte{0x5a, 0x01, 0xfe, 0xa5, 0x33}
	e.Before = ev.Ints(orig)
	buf := make([]byte, len(orig))
	for b := 0; b < 256; b++ {
		for d := 0; d < 256; d++ {
			copy(buf, orig)
			var err error
			pi := ev.Guard(func() {
				if call == "Encrypt" {
					err = security.NASEncrypt(uint8(alg), key, count, uint8(b), uint8(d), buf)
				} else {
					var m []byte
					m, err = security.NASMacCalculate(uint8(alg), key, count, uint8(b), uint8(d), buf)
					for i := range m { // the caller owns the result
						m[i] = ^m[i]
					}
				}
			})
			code := b*256 + d
			if pi != nil {
				e.Pan = append(e.Pan, code)
				continue
			}
			if err == nil {
				e.Acc = append(e.Acc, code)
			}
			if !bytes.Equal(buf, orig) {
				e.Chg = append(e.Chg, code)
			}
		}
	}
	e.After = ev.Ints(orig)
	s.w.Emit(e)
}

func record08(out string) {
	rng := ev.Rng()
	s := newWorld(rng, ev.Create(out))
	// the full guard cube
	s.reset()
	for alg := 0; alg < 256; alg++ {
		s.cube("Encrypt", alg)
		s.cube("Mac", alg)
	}
	// seeded histories: few points per history so that points repeat on different cells and lengths
	nh, maxLen := 1200, 80
	if ev.Thorough() {
		nh, maxLen = 20000, 400
	}
	for h := 0; h < nh; h++ {
		s.reset()
		ncell := 1 + rng.Intn(3)
		npts := 1 + rng.Intn(3)
		pts := make([]HOp, npts)
		for i := range pts {
			pts[i] = HOp{Alg: rng.Intn(4), Key: rng.Intn(5), Cnt: rng.Intn(4), Bearer: rng.Intn(32), Dir: rng.Intn(2)}
			if rng.Intn(3) > 0 {
				pts[i].Alg = 1 + rng.Intn(3)
			}
		}
		load := func(c int) {
			n := rng.Intn(maxLen)
			if rng.Intn(3) == 0 {
				n = rng.Intn(9)
			}
			if rng.Intn(25) == 0 {
				s.do(HOp{Op: "Load", Cell: c, Nil: true})
				return
			}
			s.do(HOp{Op: "Load", Cell: c, Len: n, Pat: rng.Intn(4)})
		}
		for c := 1; c <= ncell; c++ {
			load(c)
		}
		steps := 4 + rng.Intn(14)
		for k := 0; k < steps; k++ {
			o := pts[rng.Intn(npts)]
			o.Cell = 1 + rng.Intn(ncell)
			switch r := rng.Intn(20); {
			case r < 11:
				o.Op = "Encrypt"
			case r < 16:
				o.Op = "Mac"
			case r < 17:
				load(o.Cell)
				continue
			case r < 18: // invalid parameter
				o.Op = []string{"Encrypt", "Mac"}[rng.Intn(2)]
				switch rng.Intn(3) {
				case 0:
					o.Bearer = 32 + rng.Intn(224)
				case 1:
					o.Dir = 2 + rng.Intn(254)
				default:
					o.Alg = 4 + rng.Intn(252)
				}
			default:
				o.Op = "Encrypt"
			}
			s.do(o)
		}
	}
	s.w.Close()
}
