// Driver for C06 / C07 / C08: the NAS security functions.
//
//	sec replay <cases.json> <out.ndjson>      cases chosen by TLC (MC_C06_gen / MC_C07_gen lattice) run on the real functions
//	sec record cipher|mac <out.ndjson>        seeded random calls of the ciphering / integrity entry points
//	sec hist <histories.json> <out.ndjson>    C08: call histories on real payload buffers (chosen by TLC)
//	sec record08 <out.ndjson>                 C08: the full guard cube and seeded histories
//	sec cube Encrypt|Mac <alg> <out.ndjson>   C08: one slice of the guard cube
//
// The driver only calls the library and writes what it saw; every verdict is taken by TLC.
package main

import (
	"encoding/json"
	"math/rand"
	"os"
	"strconv"

	"verifharness/internal/ev"

	"github.com/free5gc/nas/security"
	"github.com/free5gc/nas/security/snow3g"
	"github.com/free5gc/nas/security/zuc"
)

// Case is one point of the TLC-generated lattice. Empty key / cnt: draw from the seeded generator.
type Case struct {
	Op     string `json:"op"`
	Alg    int    `json:"alg"`
	Key    []int  `json:"key"`
	Cnt    []int  `json:"cnt"`
	Bearer int    `json:"bearer"`
	Dir    int    `json:"dir"`
	Nbits  int    `json:"nbits"`
	Dpat   int    `json:"dpat"`
	Data   []int  `json:"data,omitempty"` // exact input (re-run of an observed call); overrides dpat
	Grp    int    `json:"grp"`            // > 0: a call sequence under identical parameters; random key / COUNT drawn once per group
	Seq    int    `json:"seq"`
}

// Ev is one observed call (C06 / C07 schema; every event carries every key).
type Ev struct {
	Op     string `json:"op"`
	Alg    int    `json:"alg"`
	Key    []int  `json:"key"`
	Cnt    []int  `json:"cnt"`
	Bearer int    `json:"bearer"`
	Dir    int    `json:"dir"`
	Data   []int  `json:"data"`
	Nbits  int    `json:"nbits"`
	Out    []int  `json:"out"`
	Err    bool   `json:"err"`
	Panic  bool   `json:"panic"`
	Pfn    string `json:"pfn"`
	Plib   bool   `json:"plib"`
	// A returned slice is a value the caller owns.  After an event is logged the harness inverts every octet of the
	// returned slice in place and keeps it; after the NEXT call it re-reads it: Prev = what the previous call returned
	// (as logged), Held = what that slice holds now (first heldMax octets of each).
	Prev []int `json:"prev"`
	Held []int `json:"held"`
}

const heldMax = 256

// runner carries what one driver process remembers between calls.
type runner struct {
	rng      *rand.Rand
	grpKey   map[int][]int
	grpCnt   map[int][]int
	prevLog  []byte             // the previous call's result as logged
	prevRead func() []byte      // re-reads the slice the previous call returned
	place    func(n int) []byte // nil: a private array per call; else where the payload of n octets (plus what may be checked behind it) lies
}

func newRunner(rng *rand.Rand) *runner {
	return &runner{rng: rng, grpKey: map[int][]int{}, grpCnt: map[int][]int{}}
}

func clip(b []byte) []byte {
	if len(b) > heldMax {
		return b[:heldMax]
	}
	return b
}

func u32(b []int) uint32 {
	return uint32(b[0])<<24 | uint32(b[1])<<16 | uint32(b[2])<<8 | uint32(b[3])
}

func wordsOf(b []byte) (w [4]uint32) {
	for i := 0; i < 4; i++ {
		w[i] = uint32(b[4*i])<<24 | uint32(b[4*i+1])<<16 | uint32(b[4*i+2])<<8 | uint32(b[4*i+3])
	}
	return
}

func bytesOfWords(ws []uint32) []byte {
	o := make([]byte, 0, 4*len(ws))
	for _, w := range ws {
		o = append(o, byte(w>>24), byte(w>>16), byte(w>>8), byte(w))
	}
	return o
}

func pattern(rng *rand.Rand, n, dpat int) []byte {
	b := make([]byte, n)
	switch {
	case dpat == 0:
	case dpat == 1:
		for i := range b {
			b[i] = 0xff
		}
	case dpat == 2:
		rng.Read(b)
	default: // 3+k: single bit k set
		k := dpat - 3
		if k/8 < n {
			b[k/8] = 1 << uint(7-k%8)
		}
	}
	return b
}

// runCase executes one call and returns the observation.
func (r *runner) runCase(c Case) Ev {
	rng := r.rng
	key := c.Key
	if len(key) == 0 {
		if k, ok := r.grpKey[c.Grp]; ok && c.Grp > 0 {
			key = k
		} else {
			k := make([]byte, 16)
			rng.Read(k)
			key = ev.Ints(k)
			r.grpKey[c.Grp] = key
		}
	}
	cnt := c.Cnt
	if len(cnt) == 0 {
		if k, ok := r.grpCnt[c.Grp]; ok && c.Grp > 0 {
			cnt = k
		} else {
			k := make([]byte, 4)
			rng.Read(k)
			cnt = ev.Ints(k)
			r.grpCnt[c.Grp] = cnt
		}
	}
	var k16 [16]byte
	copy(k16[:], ev.Bytes(key))
	count := u32(cnt)
	nbytes := (c.Nbits + 7) / 8
	mac := c.Op == "NIA" || c.Op == "NASMacCalculate"
	raw := c.Op == "GetKeyStream" || c.Op == "Zuc"
	var data []byte
	if raw {
		data = pattern(rng, 16, c.Dpat) // the IV
	} else {
		data = pattern(rng, nbytes, c.Dpat)
		if mac && c.Nbits%8 != 0 {
			// integrity: the message is exactly nbits bits, pad bits of the last octet are zero (domain of the standard)
			data[nbytes-1] &= 0xff << uint(8-c.Nbits%8)
		}
	}
	if c.Data != nil {
		data = ev.Bytes(c.Data)
	}
	e := Ev{Op: c.Op, Alg: c.Alg, Key: key, Cnt: cnt, Bearer: c.Bearer, Dir: c.Dir, Data: ev.Ints(data), Nbits: c.Nbits, Out: []int{}, Prev: []int{}, Held: []int{}}
	// the message / payload is a VIEW of a larger array (part of a receive buffer): 24 octets of 0xA5 lie behind it.  What the
	// functions compute depends on the first len octets only, and nothing behind them is written.
	var big []byte
	if r.place != nil {
		// concurrent runs (C19): the goroutine's region of an arena all goroutines share - behind the payload of an even
		// goroutine lies, without a gap, the payload of its odd neighbour (len(big) == len(data): nothing behind is ours to look at)
		big = r.place(len(data))
	} else {
		// ... that starts at any of the eight octet offsets of an aligned word (a sub-slice of a frame: frame[1:], frame[6:])
		off := (3*nbytes + c.Bearer + 5*c.Alg + c.Dir) % 8
		big = make([]byte, off+len(data)+24)[off:]
	}
	copy(big, data)
	for i := len(data); i < len(big); i++ {
		big[i] = 0xA5
	}
	in := big[:len(data)]
	var out []byte
	var words []uint32 // the raw generators return words
	var err error
	pi := ev.Guard(func() {
		switch c.Op {
		case "NEA":
			e.Op = []string{"", "NEA1", "NEA2", "NEA3"}[c.Alg]
			switch c.Alg {
			case 1:
				out, err = security.NEA1(k16, count, uint32(c.Bearer), uint32(c.Dir), in, uint32(c.Nbits))
			case 2:
				out, err = security.NEA2(k16, count, uint8(c.Bearer), uint8(c.Dir), in)
			case 3:
				out, err = security.NEA3(k16, count, uint8(c.Bearer), uint8(c.Dir), in, uint32(c.Nbits))
			}
		case "NASEncrypt":
			err = security.NASEncrypt(uint8(c.Alg), k16, count, uint8(c.Bearer), uint8(c.Dir), in)
			out = in
		case "NIA":
			e.Op = []string{"", "NIA1", "NIA2", "NIA3"}[c.Alg]
			switch c.Alg {
			case 1:
				out, err = security.NIA1(k16, count, byte(c.Bearer), uint32(c.Dir), in, uint64(c.Nbits))
			case 2:
				out, err = security.NIA2(k16, count, uint8(c.Bearer), uint8(c.Dir), in)
			case 3:
				out, err = security.NIA3(k16, count, uint8(c.Bearer), uint8(c.Dir), in, uint32(c.Nbits))
			}
		case "NASMacCalculate":
			out, err = security.NASMacCalculate(uint8(c.Alg), k16, count, uint8(c.Bearer), uint8(c.Dir), in)
		case "GetKeyStream":
			words = snow3g.GetKeyStream(wordsOf(k16[:]), wordsOf(data), c.Nbits/32)
			out = bytesOfWords(words)
		case "Zuc":
			words = zuc.Zuc(k16[:], in, uint32(c.Nbits/32))
			out = bytesOfWords(words)
		default:
			ev.Fatal("unknown op %q", c.Op)
		}
	})
	// what does the slice returned by the previous call hold now?
	if r.prevRead != nil {
		e.Prev, e.Held = ev.Ints(clip(r.prevLog)), ev.Ints(clip(r.prevRead()))
	}
	r.prevLog, r.prevRead = nil, nil
	if pi != nil {
		e.Panic, e.Pfn, e.Plib = true, pi.Fn, pi.Lib
		return e
	}
	for i := len(data); i < len(big); i++ {
		if big[i] != 0xA5 { // written behind the caller's slice: reported as a wrong result of this call (the event's output is voided)
			out = append([]byte{}, 0xBA, 0xD0, 0x0B, 0xEF, byte(i-len(data)))
			if c.Op == "NASEncrypt" {
				in = out
			}
			words = nil
			break
		}
	}
	e.Err = err != nil
	if out != nil {
		e.Out = ev.Ints(out)
	}
	// the caller owns the result: write into it (invert every octet), keep it for the next call
	if words != nil {
		r.prevLog = append([]byte{}, out...)
		for i := range words {
			words[i] = ^words[i]
		}
		w := words
		r.prevRead = func() []byte { return bytesOfWords(w) }
	} else if out != nil {
		r.prevLog = append([]byte{}, out...)
		for i := range out {
			out[i] = ^out[i]
		}
		o := out
		if r.place != nil && c.Op == "NASEncrypt" {
			o = append([]byte{}, out...) // the payload lies in the goroutine's arena region, which the next case fills anew
		}
		r.prevRead = func() []byte { return o }
	}
	return e
}

func replay(in, out string) {
	b, err := os.ReadFile(in)
	if err != nil {
		ev.Fatal("%v", err)
	}
	var cs []Case
	if err := json.Unmarshal(b, &cs); err != nil {
		ev.Fatal("%v", err)
	}
	r := newRunner(ev.Rng())
	w := ev.Create(out)
	for _, c := range cs {
		w.Emit(r.runCase(c))
	}
	w.Close()
}

func randBits(rng *rand.Rand) int {
	switch r := rng.Intn(100); {
	case r < 55:
		return rng.Intn(300)
	case r < 90:
		return 300 + rng.Intn(2200)
	case r < 98:
		return 2500 + rng.Intn(6000)
	default:
		if ev.Thorough() {
			return 8192 + rng.Intn(16*1024*8-8192+1)
		}
		return 8192 + rng.Intn(8192)
	}
}

func record(kind, out string) {
	rng := ev.Rng()
	r := newRunner(rng)
	w := ev.Create(out)
	n := 1200
	if ev.Thorough() {
		n = 25000
	}
	var ops []string
	if kind == "cipher" {
		ops = []string{"NEA", "NEA", "NASEncrypt", "NASEncrypt", "GetKeyStream", "Zuc"}
	} else {
		ops = []string{"NIA", "NASMacCalculate"}
	}
	var last *Ev
	for i := 0; i < n; i++ {
		c := Case{Op: ops[rng.Intn(len(ops))], Alg: 1 + rng.Intn(3), Bearer: rng.Intn(32), Dir: rng.Intn(2), Nbits: randBits(rng), Dpat: 2}
		switch rng.Intn(8) {
		case 0:
			c.Cnt = []int{255, 255, 255, 255}
		case 1:
			c.Cnt = []int{0, 0, 0, 0}
		}
		if last != nil && rng.Intn(4) == 0 {
			// the same parameters as the previous call (a new length close to the old one, new data; for the raw
			// generators also the same IV): results must not depend on the call before
			c.Op, c.Alg, c.Key, c.Cnt, c.Bearer, c.Dir = caseOp(last.Op), last.Alg, last.Key, last.Cnt, last.Bearer, last.Dir
			c.Nbits = last.Nbits + rng.Intn(80) - 40
			if c.Nbits < 0 {
				c.Nbits = rng.Intn(40)
			}
		}
		switch c.Op {
		case "NASEncrypt", "NASMacCalculate":
			c.Nbits = 8 * (c.Nbits / 8)
		case "GetKeyStream", "Zuc":
			c.Alg = 0
			c.Nbits = 32 * (c.Nbits / 64)
			if last != nil && caseOp(last.Op) == c.Op && c.Key != nil && len(last.Data) == 16 {
				c.Data = last.Data
				c.Nbits = 32 * (last.Nbits/32 + rng.Intn(5) - 2)
				if c.Nbits < 0 {
					c.Nbits = 32
				}
			}
		case "NEA", "NIA":
			if c.Alg == 2 {
				c.Nbits = 8 * (c.Nbits / 8)
			}
		}
		e := r.runCase(c)
		last = &e
		w.Emit(e)
	}
	w.Close()
}

// caseOp maps a logged operation name back to the case vocabulary.
func caseOp(op string) string {
	switch op {
	case "NEA1", "NEA2", "NEA3":
		return "NEA"
	case "NIA1", "NIA2", "NIA3":
		return "NIA"
	}
	return op
}

func main() {
	ev.Quiet()
	if len(os.Args) < 3 {
		ev.Fatal("usage: sec replay|record|hist|record08 ...")
	}
	switch os.Args[1] {
	case "replay":
		replay(os.Args[2], os.Args[3])
	case "record":
		record(os.Args[2], os.Args[3])
	case "hist":
		hist(os.Args[2], os.Args[3])
	case "record08":
		record08(os.Args[2])
	case "cube": // sec cube Encrypt|Mac <alg> <out>: one slice of the guard cube (re-run of an observation)
		alg, _ := strconv.Atoi(os.Args[3])
		s := newWorld(ev.Rng(), ev.Create(os.Args[4]))
		s.reset()
		s.cube(os.Args[2], alg)
		s.w.Close()
	default:
		ev.Fatal("unknown subcommand")
	}
}
