// Driver for C06 / C07 / C08: the NAS security functions.
//
//	sec replay <cases.json> <out.ndjson>      cases chosen by TLC (MC_C06_gen / MC_C07_gen lattice) run on the real functions
//	sec record cipher|mac <out.ndjson>        seeded random calls of the ciphering / integrity entry points
//	sec hist <histories.json> <out.ndjson>    C08: call histories on real payload buffers (chosen by TLC)
//	sec record08 <out.ndjson>                 C08: the full guard cube and seeded histories
//	sec cube Encrypt|Mac <alg> <out.ndjson>   C08: one slice of the guard cube
//
// The driver only calls the library and writes what it saw; every verdict is taken by TLC.
package main

import (
	"encoding/json"
	"math/rand"
	"os"
	"strconv"

	"verifharness/internal/ev"

	"github.com/free5gc/nas/security"
	"github.com/free5gc/nas/security/snow3g"
	"github.com/free5gc/nas/security/zuc"
)

// Case is one point of the TLC-generated lattice. Empty key / cnt: draw from the seeded generator.
type Case struct {
	Op     string `json:"op"`
	Alg    int    `json:"alg"`
	Key    []int  `json:"key"`
	Cnt    []int  `json:"cnt"`
	Bearer int    `json:"bearer"`
	Dir    int    `json:"dir"`
	Nbits  int    `json:"nbits"`
	Dpat   int    `json:"dpat"`
	Data   []int  `json:"data,omitempty"` // exact input (re-run of an observed call); overrides dpat
}

// Ev is one observed call (C06 / C07 schema; every event carries every key).
type Ev struct {
	Op     string `json:"op"`
	Alg    int    `json:"alg"`
	Key    []int  `json:"key"`
	Cnt    []int  `json:"cnt"`
	Bearer int    `json:"bearer"`
	Dir    int    `json:"dir"`
	Data   []int  `json:"data"`
	Nbits  int    `json:"nbits"`
	Out    []int  `json:"out"`
	Err    bool   `json:"err"`
	Panic  bool   `json:"panic"`
	Pfn    string `json:"pfn"`
	Plib   bool   `json:"plib"`
}

func u32(b []int) uint32 {
	return uint32(b[0])<<24 | uint32(b[1])<<16 | uint32(b[2])<<8 | uint32(b[3])
}

func wordsOf(b []byte) (w [4]uint32) {
	for i := 0; i < 4; i++ {
		w[i] = uint32(b[4*i])<<24 | uint32(b[4*i+1])<<16 | uint32(b[4*i+2])<<8 | uint32(b[4*i+3])
	}
	return
}

func bytesOfWords(ws []uint32) []byte {
	o := make([]byte, 0, 4*len(ws))
	for _, w := range ws {
		o = append(o, byte(w>>24), byte(w>>16), byte(w>>8), byte(w))
	}
	return o
}

func pattern(rng *rand.Rand, n, dpat int) []byte {
	b := make([]byte, n)
	switch {
	case dpat == 0:
	case dpat == 1:
		for i := range b {
			b[i] = 0xff
		}
	case dpat == 2:
		rng.Read(b)
	default: // 3+k: single bit k set
		k := dpat - 3
		if k/8 < n {
			b[k/8] = 1 << uint(7-k%8)
		}
	}
	return b
}

// runCase executes one call and returns the observation.
func runCase(rng *rand.Rand, c Case) Ev {
	key := c.Key
	if len(key) == 0 {
		k := make([]byte, 16)
		rng.Read(k)
		key = ev.Ints(k)
	}
	cnt := c.Cnt
	if len(cnt) == 0 {
		k := make([]byte, 4)
		rng.Read(k)
		cnt = ev.Ints(k)
	}
	var k16 [16]byte
	copy(k16[:], ev.Bytes(key))
	count := u32(cnt)
	nbytes := (c.Nbits + 7) / 8
	mac := c.Op == "NIA" || c.Op == "NASMacCalculate"
	raw := c.Op == "GetKeyStream" || c.Op == "Zuc"
	var data []byte
	if raw {
		data = pattern(rng, 16, c.Dpat) // the IV
	} else {
		data = pattern(rng, nbytes, c.Dpat)
		if mac && c.Nbits%8 != 0 {
			// integrity: the message is exactly nbits bits, pad bits of the last octet are zero (domain of the standard)
			data[nbytes-1] &= 0xff << uint(8-c.Nbits%8)
		}
	}
	if c.Data != nil {
		data = ev.Bytes(c.Data)
	}
	e := Ev{Op: c.Op, Alg: c.Alg, Key: key, Cnt: cnt, Bearer: c.Bearer, Dir: c.Dir, Data: ev.Ints(data), Nbits: c.Nbits, Out: []int{}}
	in := append([]byte{}, data...)
	var out []byte
	var err error
	pi := ev.Guard(func() {
		switch c.Op {
		case "NEA":
			e.Op = []string{"", "NEA1", "NEA2", "NEA3"}[c.Alg]
			switch c.Alg {
			case 1:
				out, err = security.NEA1(k16, count, uint32(c.Bearer), uint32(c.Dir), in, uint32(c.Nbits))
			case 2:
				out, err = security.NEA2(k16, count, uint8(c.Bearer), uint8(c.Dir), in)
			case 3:
				out, err = security.NEA3(k16, count, uint8(c.Bearer), uint8(c.Dir), in, uint32(c.Nbits))
			}
		case "NASEncrypt":
			err = security.NASEncrypt(uint8(c.Alg), k16, count, uint8(c.Bearer), uint8(c.Dir), in)
			out = in
		case "NIA":
			e.Op = []string{"", "NIA1", "NIA2", "NIA3"}[c.Alg]
			switch c.Alg {
			case 1:
				out, err = security.NIA1(k16, count, byte(c.Bearer), uint32(c.Dir), in, uint64(c.Nbits))
			case 2:
				out, err = security.NIA2(k16, count, uint8(c.Bearer), uint8(c.Dir), in)
			case 3:
				out, err = security.NIA3(k16, count, uint8(c.Bearer), uint8(c.Dir), in, uint32(c.Nbits))
			}
		case "NASMacCalculate":
			out, err = security.NASMacCalculate(uint8(c.Alg), k16, count, uint8(c.Bearer), uint8(c.Dir), in)
		case "GetKeyStream":
			out = bytesOfWords(snow3g.GetKeyStream(wordsOf(k16[:]), wordsOf(data), c.Nbits/32))
		case "Zuc":
			out = bytesOfWords(zuc.Zuc(k16[:], in, uint32(c.Nbits/32)))
		default:
			ev.Fatal("unknown op %q", c.Op)
		}
	})
	if pi != nil {
		e.Panic, e.Pfn, e.Plib = true, pi.Fn, pi.Lib
		return e
	}
	e.Err = err != nil
	if out != nil {
		e.Out = ev.Ints(out)
	}
	return e
}

func replay(in, out string) {
	b, err := os.ReadFile(in)
	if err != nil {
		ev.Fatal("%v", err)
	}
	var cs []Case
	if err := json.Unmarshal(b, &cs); err != nil {
		ev.Fatal("%v", err)
	}
	rng := ev.Rng()
	w := ev.Create(out)
	for _, c := range cs {
		w.Emit(runCase(rng, c))
	}
	w.Close()
}

func randBits(rng *rand.Rand) int {
	switch r := rng.Intn(100); {
	case r < 55:
		return rng.Intn(300)
	case r < 90:
		return 300 + rng.Intn(2200)
	case r < 98:
		return 2500 + rng.Intn(6000)
	default:
		if ev.Thorough() {
			return 8192 + rng.Intn(16*1024*8-8192+1)
		}
		return 8192 + rng.Intn(8192)
	}
}

func record(kind, out string) {
	rng := ev.Rng()
	w := ev.Create(out)
	n := 1200
	if ev.Thorough() {
		n = 25000
	}
	var ops []string
	if kind == "cipher" {
		ops = []string{"NEA", "NEA", "NASEncrypt", "NASEncrypt", "GetKeyStream", "Zuc"}
	} else {
		ops = []string{"NIA", "NASMacCalculate"}
	}
	for i := 0; i < n; i++ {
		c := Case{Op: ops[rng.Intn(len(ops))], Alg: 1 + rng.Intn(3), Bearer: rng.Intn(32), Dir: rng.Intn(2), Nbits: randBits(rng), Dpat: 2}
		switch c.Op {
		case "NASEncrypt", "NASMacCalculate":
			c.Nbits = 8 * (c.Nbits / 8)
		case "GetKeyStream", "Zuc":
			c.Alg = 0
			c.Nbits = 32 * (c.Nbits / 64)
		case "NEA", "NIA":
			if c.Alg == 2 {
				c.Nbits = 8 * (c.Nbits / 8)
			}
		}
		switch rng.Intn(8) {
		case 0:
			c.Cnt = []int{255, 255, 255, 255}
		case 1:
			c.Cnt = []int{0, 0, 0, 0}
		}
		w.Emit(runCase(rng, c))
	}
	w.Close()
}

func main() {
	ev.Quiet()
	if len(os.Args) < 3 {
		ev.Fatal("usage: sec replay|record|hist|record08 ...")
	}
	switch os.Args[1] {
	case "replay":
		replay(os.Args[2], os.Args[3])
	case "record":
		record(os.Args[2], os.Args[3])
	case "hist":
		hist(os.Args[2], os.Args[3])
	case "record08":
		record08(os.Args[2])
	case "cube": // sec cube Encrypt|Mac <alg> <out>: one slice of the guard cube (re-run of an observation)
		alg, _ := strconv.Atoi(os.Args[3])
		s := newWorld(ev.Rng(), ev.Create(os.Args[4]))
		s.reset()
		s.cube(os.Args[2], alg)
		s.w.Close()
	default:
		ev.Fatal("unknown subcommand")
	}
}
