// Driver for C14: helpers that interpret UE-supplied IE contents never panic or hang.
//
//	helpers14 replay <cases.json> <out.ndjson> [-part k/P] [-from N]   TLC-generated boundary strings, one Call event each
//	helpers14 record <out.ndjson> [-part k/P] [-from N]                seeded random strings (octets up to 300, texts up to 24)
//	helpers14 sweep  <out.ndjson> [-part k/P] [-from N]                exhaustive sweeps as compact Chunk / Digest events
//	helpers14 hist   <hist.json> <out.ndjson> [-part k/P] [-from N]    histories on ONE reused value: Set contents / Get
//	helpers14 probe  <out.ndjson> <helper> <hex>                       one call under the watchdog (hang confirmation)
//
// Every call runs under recover; a watchdog (2 s without progress) records a hang for the input in
// flight, flushes, prints "RESUME <next item>" and exits with status 7 (a stuck call cannot be
// cancelled and LadnToModels' stuck loop allocates without bound).  The orchestrator restarts
// from the next work item.  VERIF_C14_SKIPHANG=1: inputs of the recorded LadnToModels hang class
// (a zero length octet reached by its loop) are not executed but recorded as "skipped".
// The driver observes; classes and verdicts are TLC's (spec/trace/Trace_C14.tla).
package main

import (
	"encoding/hex"
	"encoding/json"
	"fmt"
	"io"
	"log"
	"math/rand"
	"os"
	"regexp"
	"runtime"
	"strconv"
	"strings"
	"sync/atomic"
	"syscall"
	"time"

	"verifharness/internal/ev"

	"github.com/free5gc/nas/nasConvert"
	"github.com/free5gc/nas/nasType"
)

const (
	cVal = iota
	cErr
	cEmpty
	cPanic
	cHang
	cSkip
)

var clsName = []string{"val", "err", "empty", "panic", "hang", "skipped"}

type helper struct {
	name   string
	text   bool
	maxLen int
	f      func(b []byte) int
}

func strClass(s string) int {
	if s == "" {
		return cEmpty
	}
	return cVal
}

func errClass(err error) int {
	if err != nil {
		return cErr
	}
	return cVal
}

func mobileID(b []byte) *nasType.MobileIdentity5GS {
	m := &nasType.MobileIdentity5GS{}
	m.SetLen(uint16(len(b)))
	copy(m.Buffer, b)
	return m
}

// getters of nasType.MobileIdentity5GS by name, also used on a reused value (hist)
var midGetters = map[string]func(m *nasType.MobileIdentity5GS) int{}

func getter(name string, f func(m *nasType.MobileIdentity5GS) int) helper {
	midGetters[name] = f
	return helper{name: name, maxLen: 300, f: func(b []byte) int { return f(mobileID(b)) }}
}

var helpers = []helper{
	{name: "SuciToStringWithError", maxLen: 300, f: func(b []byte) int {
		s, _, err := nasConvert.SuciToStringWithError(b)
		if err != nil {
			return cErr
		}
		return strClass(s)
	}},
	{name: "SuciToString", maxLen: 300, f: func(b []byte) int { s, _ := nasConvert.SuciToString(b); return strClass(s) }},
	{name: "NaiToString", maxLen: 300, f: func(b []byte) int { return strClass(nasConvert.NaiToString(b)) }},
	{name: "GutiToStringWithError", maxLen: 300, f: func(b []byte) int { _, _, err := nasConvert.GutiToStringWithError(b); return errClass(err) }},
	{name: "GutiToString", maxLen: 300, f: func(b []byte) int { _, s := nasConvert.GutiToString(b); return strClass(s) }},
	{name: "PeiToStringWithError", maxLen: 300, f: func(b []byte) int { _, err := nasConvert.PeiToStringWithError(b); return errClass(err) }},
	{name: "PeiToString", maxLen: 300, f: func(b []byte) int { return strClass(nasConvert.PeiToString(b)) }},
	{name: "RequestedNssaiToModels", maxLen: 255, f: func(b []byte) int {
		var n nasType.RequestedNSSAI
		n.SetLen(uint8(len(b)))
		n.SetSNSSAIValue(b)
		l, err := nasConvert.RequestedNssaiToModels(&n)
		if err != nil {
			return cErr
		}
		if len(l) == 0 {
			return cEmpty
		}
		return cVal
	}},
	{name: "SnssaiToModels", maxLen: 255, f: func(b []byte) int {
		var s nasType.SNSSAI
		s.SetLen(uint8(len(b)))
		copy(s.Octet[:], b)
		_ = nasConvert.SnssaiToModels(&s)
		return cVal
	}},
	{name: "LadnToModels", maxLen: 808, f: func(b []byte) int {
		if len(nasConvert.LadnToModels(b)) == 0 {
			return cEmpty
		}
		return cVal
	}},
	{name: "UESecurityCapabilityToByteArray", maxLen: 300, f: func(b []byte) int { nasConvert.UESecurityCapabilityToByteArray(b); return cVal }},
	{name: "PSIToBooleanArray", maxLen: 300, f: func(b []byte) int { nasConvert.PSIToBooleanArray(b); return cVal }},
	{name: "UpuAckToModels", maxLen: 300, f: func(b []byte) int { _, err := nasConvert.UpuAckToModels(b); return errClass(err) }},
	{name: "DNN.GetDNN", maxLen: 255, f: func(b []byte) int {
		var d nasType.DNN
		d.SetLen(uint8(len(b)))
		copy(d.Buffer, b)
		return strClass(d.GetDNN())
	}},
	{name: "DecodeLocalTimeZone", maxLen: 300, f: func(b []byte) int {
		var z nasType.LocalTimeZone
		if len(b) > 0 {
			z.SetTimeZone(b[0])
		}
		_ = nasConvert.DecodeLocalTimeZone(z)
		return cVal
	}},
	{name: "DecodeDaylightSavingTime", maxLen: 300, f: func(b []byte) int {
		var z nasType.NetworkDaylightSavingTime
		z.SetLen(1)
		if len(b) > 0 {
			z.Octet = b[0]
		}
		_ = nasConvert.DecodeDaylightSavingTime(z)
		return cVal
	}},
	{name: "DecodeUniversalTimeAndLocalTimeZone", maxLen: 300, f: func(b []byte) int {
		var u nasType.UniversalTimeAndLocalTimeZone
		copy(u.Octet[:], b)
		_ = nasConvert.DecodeUniversalTimeAndLocalTimeZone(u)
		return cVal
	}},
	{name: "PlmnIDToString", maxLen: 300, f: func(b []byte) int { return strClass(nasConvert.PlmnIDToString(b)) }},
	getter("GetTypeOfIdentity", func(m *nasType.MobileIdentity5GS) int { _, err := m.GetTypeOfIdentity(); return errClass(err) }),
	getter("GetMobileIdentity", func(m *nasType.MobileIdentity5GS) int {
		s, _, err := m.GetMobileIdentity()
		if err != nil {
			return cErr
		}
		return strClass(s)
	}),
	getter("GetSUCI", func(m *nasType.MobileIdentity5GS) int { return strClass(m.GetSUCI()) }),
	getter("GetPlmnID", func(m *nasType.MobileIdentity5GS) int { return strClass(m.GetPlmnID()) }),
	getter("GetMCC", func(m *nasType.MobileIdentity5GS) int { return strClass(m.GetMCC()) }),
	getter("GetMNC", func(m *nasType.MobileIdentity5GS) int { return strClass(m.GetMNC()) }),
	getter("Get5GGUTI", func(m *nasType.MobileIdentity5GS) int { return strClass(m.Get5GGUTI()) }),
	getter("GetAmfID", func(m *nasType.MobileIdentity5GS) int { return strClass(m.GetAmfID()) }),
	getter("GetAmfRegionID", func(m *nasType.MobileIdentity5GS) int { return strClass(m.GetAmfRegionID()) }),
	getter("GetAmfSetID", func(m *nasType.MobileIdentity5GS) int { return strClass(m.GetAmfSetID()) }),
	getter("GetAmfPointer", func(m *nasType.MobileIdentity5GS) int { return strClass(m.GetAmfPointer()) }),
	getter("Get5GTMSI", func(m *nasType.MobileIdentity5GS) int { return strClass(m.Get5GTMSI()) }),
	getter("GetIMEI", func(m *nasType.MobileIdentity5GS) int { return strClass(m.GetIMEI()) }),
	getter("GetIMEISV", func(m *nasType.MobileIdentity5GS) int { return strClass(m.GetIMEISV()) }),
	getter("Get5GSTMSI", func(m *nasType.MobileIdentity5GS) int {
		s, _, err := m.Get5GSTMSI()
		if err != nil {
			return cErr
		}
		return strClass(s)
	}),
	// ---- text inputs
	{name: "GutiToNasWithError", text: true, maxLen: 64, f: func(b []byte) int { _, err := nasConvert.GutiToNasWithError(string(b)); return errClass(err) }},
	{name: "GutiToNas", text: true, maxLen: 64, f: func(b []byte) int {
		g := nasConvert.GutiToNas(string(b))
		for _, o := range g.Octet {
			if o != 0 {
				return cVal
			}
		}
		return cEmpty
	}},
	{name: "AmfIdToNasWithError", text: true, maxLen: 64, f: func(b []byte) int { _, _, _, err := nasConvert.AmfIdToNasWithError(string(b)); return errClass(err) }},
	{name: "AmfIdToNas", text: true, maxLen: 64, f: func(b []byte) int {
		r, s, p := nasConvert.AmfIdToNas(string(b))
		if r == 0 && s == 0 && p == 0 {
			return cEmpty
		}
		return cVal
	}},
}

// ---- observation of panics: innermost library frame and normalised message, cached by call stack
type pinfo struct{ fn, kind string }

const libPrefix = "github.com/free5gc/nas/"

var (
	pcCache = map[[10]uintptr]*pinfo{}
	digits  = regexp.MustCompile(`[0-9]+`)
)

func panicInfo(r interface{}) *pinfo {
	var key [10]uintptr
	runtime.Callers(3, key[:])
	if pi, ok := pcCache[key]; ok {
		return pi
	}
	pcs := make([]uintptr, 64)
	n := runtime.Callers(3, pcs)
	fr := runtime.CallersFrames(pcs[:n])
	fn := ""
	for {
		f, more := fr.Next()
		if strings.HasPrefix(f.Function, libPrefix) {
			fn = strings.TrimPrefix(f.Function, libPrefix)
			break
		}
		if strings.HasPrefix(f.Function, "main.") || strings.HasPrefix(f.Function, "verifharness") || !more {
			break
		}
	}
	if fn == "" {
		ev.Fatal("panic outside the library: %v", r)
	}
	pi := &pinfo{fn: fn, kind: digits.ReplaceAllString(fmt.Sprint(r), "N")}
	pcCache[key] = pi
	return pi
}

// ---- the call in flight, for the watchdog
var (
	tick     atomic.Int64
	curItem  atomic.Int64
	curH     atomic.Int32
	curLen   atomic.Int32
	curBuf   [1024]byte
	skipHang = os.Getenv("VERIF_C14_SKIPHANG") == "1"
)

// recorded behaviour of LadnToModels on the unchanged tree: its loop spins on a zero length octet
func ladnRecordedHang(b []byte) bool {
	for off := 1; off < len(b); {
		l := int(b[off])
		if l == 0 {
			return true
		}
		if off+l > len(b) {
			return false
		}
		off += l
	}
	return false
}

func call(hi int, b []byte) (code int, pi *pinfo) {
	h := &helpers[hi]
	if skipHang && h.name == "LadnToModels" && ladnRecordedHang(b) {
		return cSkip, nil
	}
	curH.Store(int32(hi))
	copy(curBuf[:], b)
	curLen.Store(int32(len(b)))
	tick.Add(1)
	defer func() {
		if r := recover(); r != nil {
			code, pi = cPanic, panicInfo(r)
		}
	}()
	return h.f(b[:len(b):len(b)]), nil
}

// ---- events
type Sig struct {
	Fn   string `json:"fn"`
	Kind string `json:"kind"`
	N    int    `json:"n"`
	Ex   []int  `json:"ex"`
}
type Ev struct {
	Op     string `json:"op"`
	H      string `json:"h"`
	Text   bool   `json:"text"`
	In     []int  `json:"in"`
	Free   int    `json:"free"`
	Alpha  []int  `json:"alpha"`
	Cls    string `json:"cls"`
	Fn     string `json:"fn"`
	Kind   string `json:"kind"`
	Codes  []int  `json:"codes"`
	Sigs   []Sig  `json:"sigs"`
	Counts []int  `json:"counts"`
}

func blank(op string, hi int, in []byte) Ev {
	h := &helpers[hi]
	e := Ev{Op: op, H: h.name, Text: h.text, Alpha: []int{}, Codes: []int{}, Sigs: []Sig{}, Counts: []int{}}
	if h.text {
		e.In = ev.Runes(string(in))
	} else {
		e.In = ev.Ints(in)
	}
	return e
}

var w *ev.Writer

func callEvent(hi int, b []byte) {
	code, pi := call(hi, b)
	e := blank("Call", hi, b)
	e.Cls = clsName[code]
	if pi != nil {
		e.Fn, e.Kind = pi.fn, pi.kind
	}
	w.Emit(e)
}

type sigAcc struct {
	idx map[*pinfo]int
	l   []Sig
}

func (s *sigAcc) add(pi *pinfo, ex []byte) int {
	if s.idx == nil {
		s.idx = map[*pinfo]int{}
	}
	j, ok := s.idx[pi]
	if !ok {
		j = len(s.l)
		s.idx[pi] = j
		s.l = append(s.l, Sig{Fn: pi.fn, Kind: pi.kind, Ex: ev.Ints(ex)})
	}
	s.l[j].N++
	return j
}

// all one-symbol (free=1) or two-symbol (free=2) extensions of prefix, with per-input codes
func chunkEvent(hi int, prefix []byte, free int, alpha []rune) {
	h := &helpers[hi]
	e := blank("Chunk", hi, prefix)
	e.Free = free
	var syms [][]byte
	if h.text {
		for _, r := range alpha {
			syms = append(syms, []byte(string(r)))
			e.Alpha = append(e.Alpha, int(r))
		}
	} else {
		for v := 0; v < 256; v++ {
			syms = append(syms, []byte{byte(v)})
		}
	}
	var acc sigAcc
	buf := make([]byte, 0, len(prefix)+8)
	one := func(ext ...[]byte) {
		buf = append(buf[:0], prefix...)
		for _, x := range ext {
			buf = append(buf, x...)
		}
		code, pi := call(hi, buf)
		if code == cPanic {
			code = 10 + acc.add(pi, buf)
		}
		e.Codes = append(e.Codes, code)
	}
	for _, a := range syms {
		if free == 1 {
			one(a)
		} else {
			for _, b := range syms {
				one(a, b)
			}
		}
	}
	if acc.l != nil {
		e.Sigs = acc.l
	}
	w.Emit(e)
}

// all two-symbol extensions of prefix (65 536 for octets), folded into counts and panic signatures
func digestEvent(hi int, prefix []byte, alpha []rune) {
	h := &helpers[hi]
	e := blank("Digest", hi, prefix)
	e.Free = 2
	counts := make([]int, 6)
	var acc sigAcc
	var syms [][]byte
	if h.text {
		for _, r := range alpha {
			syms = append(syms, []byte(string(r)))
			e.Alpha = append(e.Alpha, int(r))
		}
	} else {
		for v := 0; v < 256; v++ {
			syms = append(syms, []byte{byte(v)})
		}
	}
	buf := make([]byte, 0, len(prefix)+8)
	for _, a := range syms {
		for _, b := range syms {
			buf = append(append(append(buf[:0], prefix...), a...), b...)
			code, pi := call(hi, buf)
			counts[code]++
			if code == cPanic {
				acc.add(pi, buf)
			}
		}
	}
	e.Counts = counts
	if acc.l != nil {
		e.Sigs = acc.l
	}
	w.Emit(e)
}

// ---- work items and the watchdog
type item func()

func runItems(items []item, from int) {
	done := make(chan struct{})
	go func() {
		for i := from; i < len(items); i++ {
			curItem.Store(int64(i))
			items[i]()
		}
		close(done)
	}()
	last, lastChange := tick.Load(), time.Now()
	for {
		select {
		case <-done:
			return
		case <-time.After(100 * time.Millisecond):
		}
		var ms runtime.MemStats
		runtime.ReadMemStats(&ms)
		runaway := ms.HeapAlloc > 1<<30 // a stuck loop that allocates without bound: do not wait for the address-space limit
		if t := tick.Load(); t != last && !runaway {
			last, lastChange = t, time.Now()
			continue
		}
		if runaway || time.Since(lastChange) > 2*time.Second {
			hi := int(curH.Load())
			in := append([]byte{}, curBuf[:curLen.Load()]...)
			e := blank("Call", hi, in)
			e.Cls = "hang"
			w.Emit(e)
			w.Close()
			fmt.Fprintf(os.Stderr, "RESUME %d\n", curItem.Load()+1)
			os.Exit(7)
		}
	}
}

// ---- histories on one reused value
type HStep struct {
	Op   string `json:"op"` // "Set" | "Get"
	Mode string `json:"mode"`
	In   []int  `json:"in"`
	H    string `json:"h"`
}
type Hist struct {
	Obj   string  `json:"obj"`
	Steps []HStep `json:"steps"`
}

// a value of one of the IE types; contents are stored by assigning the exported fields ("buffer")
// or through SetLen + the contents setter / copy ("setters", what the decoders do)
type object struct {
	kind  string
	mid   nasType.MobileIdentity5GS
	dnn   nasType.DNN
	nssai nasType.RequestedNSSAI
	cur   []byte
}

func (o *object) set(mode string, b []byte) {
	c := append(make([]byte, 0, len(b)), b...) // own copy, capacity = length
	o.cur = c
	switch o.kind {
	case "MobileIdentity5GS":
		if mode == "buffer" {
			o.mid.Len, o.mid.Buffer = uint16(len(c)), c
		} else {
			o.mid.SetLen(uint16(len(c)))
			o.mid.SetMobileIdentity5GSContents(c)
		}
	case "DNN":
		if mode == "buffer" {
			o.dnn.Len, o.dnn.Buffer = uint8(len(c)), c
		} else {
			o.dnn.SetLen(uint8(len(c)))
			copy(o.dnn.Buffer, c)
		}
	case "RequestedNSSAI":
		if mode == "buffer" {
			o.nssai.Len, o.nssai.Buffer = uint8(len(c)), c
		} else {
			o.nssai.SetLen(uint8(len(c)))
			o.nssai.SetSNSSAIValue(c)
		}
	default:
		ev.Fatal("unknown kind of value %q", o.kind)
	}
}

func (o *object) get(name string) int {
	switch o.kind {
	case "MobileIdentity5GS":
		f, ok := midGetters[name]
		if !ok {
			ev.Fatal("unknown getter %q", name)
		}
		return f(&o.mid)
	case "DNN":
		return strClass(o.dnn.GetDNN())
	case "RequestedNSSAI":
		l, err := nasConvert.RequestedNssaiToModels(&o.nssai)
		if err != nil {
			return cErr
		}
		if len(l) == 0 {
			return cEmpty
		}
		return cVal
	}
	ev.Fatal("unknown kind of value %q", o.kind)
	return 0
}

func guardedGet(o *object, hi int, name string) (code int, pi *pinfo) {
	curH.Store(int32(hi))
	copy(curBuf[:], o.cur)
	curLen.Store(int32(len(o.cur)))
	tick.Add(1)
	defer func() {
		if r := recover(); r != nil {
			code, pi = cPanic, panicInfo(r)
		}
	}()
	return o.get(name), nil
}

func runHist(hs Hist, byName map[string]int) {
	reset := Ev{Op: "TraceReset", In: []int{}, Alpha: []int{}, Codes: []int{}, Sigs: []Sig{}, Counts: []int{}}
	w.Emit(reset)
	o := &object{kind: hs.Obj}
	for _, st := range hs.Steps {
		switch st.Op {
		case "Set":
			if len(st.In) > 255 {
				ev.Fatal("history contents longer than an 8-bit-length IE")
			}
			o.set(st.Mode, ev.Bytes(st.In))
			e := reset
			e.Op, e.H, e.In, e.Cls = "Set", hs.Obj, st.In, st.Mode
			w.Emit(e)
		case "Get":
			hi, ok := byName[st.H]
			if !ok {
				ev.Fatal("unknown getter %q", st.H)
			}
			code, pi := guardedGet(o, hi, st.H)
			e := reset
			e.Op, e.H, e.Cls = "Get", st.H, clsName[code]
			if pi != nil {
				e.Fn, e.Kind = pi.fn, pi.kind
			}
			w.Emit(e)
		default:
			ev.Fatal("unknown history step %q", st.Op)
		}
	}
}

type Case struct {
	H    string `json:"h"`
	Text bool   `json:"text"`
	In   []int  `json:"in"`
}

func inputBytes(h *helper, in []int) []byte {
	if h.text {
		r := make([]rune, len(in))
		for i, c := range in {
			r[i] = rune(c)
		}
		return []byte(string(r))
	}
	return ev.Bytes(in)
}

var textAlphabet = []rune{'0', '9', 'a', 'F', 'g', 'é'}
var boundaryFirst = []byte{0, 1, 2, 3, 4, 5, 8, 9, 11, 17, 33, 127, 128, 242, 244, 255}

func sweepItems(hi int, rng *rand.Rand) []item {
	h := &helpers[hi]
	var items []item
	if h.text {
		// all texts of length 0..6 over the alphabet: lengths 0, 1 as calls, 2..6 as two-symbol chunks
		items = append(items, func() {
			callEvent(hi, nil)
			for _, r := range textAlphabet {
				callEvent(hi, []byte(string(r)))
			}
		})
		var prefixes func(p []rune, depth int)
		prefixes = func(p []rune, depth int) {
			pp := append([]rune{}, p...)
			if depth == 4 { // length 6: counts and panic signatures only
				items = append(items, func() { digestEvent(hi, []byte(string(pp)), textAlphabet) })
				return
			}
			items = append(items, func() { chunkEvent(hi, []byte(string(pp)), 2, textAlphabet) })
			for _, r := range textAlphabet {
				prefixes(append(pp, r), depth+1)
			}
		}
		prefixes(nil, 0)
		return items
	}
	items = append(items, func() { callEvent(hi, nil) })
	items = append(items, func() { chunkEvent(hi, nil, 1, nil) })
	// length 2: all 65 536 as one digest; per-input codes (class comparison) for the boundary first octets
	items = append(items, func() { digestEvent(hi, nil, nil) })
	for _, b0 := range boundaryFirst {
		p := []byte{b0}
		items = append(items, func() { chunkEvent(hi, p, 1, nil) })
	}
	// length 3: seeded chunks with per-input codes (class comparison) ...
	nc := 24
	if ev.Thorough() {
		nc = 160
	}
	for i := 0; i < nc; i++ {
		p := []byte{byte(rng.Intn(256)), byte(rng.Intn(256))}
		if i%3 == 0 {
			p[0] = boundaryFirst[rng.Intn(len(boundaryFirst))]
		}
		items = append(items, func() { chunkEvent(hi, p, 1, nil) })
	}
	// ... and digests: thorough all 16 777 216 strings, quick first octet over the boundary values
	if ev.Thorough() {
		for b0 := 0; b0 < 256; b0++ {
			p := []byte{byte(b0)}
			items = append(items, func() { digestEvent(hi, p, nil) })
		}
	} else {
		for _, b0 := range boundaryFirst {
			p := []byte{b0}
			items = append(items, func() { digestEvent(hi, p, nil) })
		}
	}
	return items
}

// caseShiftText: a text whose BYTE length is one of the lengths the text helpers accept (so it passes a length guard) but
// which contains runes whose upper/lower-case mapping, normalisation or re-encoding has a different byte length (Kelvin
// sign 3->1, dotted capital I 2->1, long s 2->1, ohm / angstrom 3->2, capital sharp s 3->2, A with stroke 2->3), a
// four-octet rune, NUL (texts stay valid UTF-8: events log texts as code points) - a guard checked on one form of the text and an index
// applied to another is only seen with such input.
var shiftRunes = []rune{0x212A, 0x0130, 0x017F, 0x2126, 0x212B, 0x1E9E, 0x023A, 0x023E, 0x1F600, 0, 0xFF21, 0x0660}

func caseShiftText(h *helper, rng *rand.Rand) []byte {
	target := []int{6, 19, 20, 5, 7, 12, 21}[rng.Intn(7)]
	var b []byte
	nd := []int{0, 3, 5, 11}[rng.Intn(4)] // leading plain digits (MCC / MNC / AMF id positions stay valid)
	for i := 0; i < nd && len(b) < target; i++ {
		b = append(b, byte('0'+rng.Intn(10)))
	}
	for len(b) < target {
		switch k := rng.Intn(5); {
		case k <= 2:
			rb := []byte(string(shiftRunes[rng.Intn(len(shiftRunes))]))
			if len(b)+len(rb) <= target {
				b = append(b, rb...)
			} else {
				b = append(b, byte('0'+rng.Intn(10)))
			}
		default:
			b = append(b, "0123456789abcdefABCDEF"[rng.Intn(22)])
		}
	}
	if len(b) > h.maxLen {
		b = b[:h.maxLen]
	}
	return b
}

// caseShiftFamily: deterministic companion of caseShiftText - for every accepted byte length, every number of leading plain
// digits and every rune of shiftRunes: the digits, then that rune repeated as often as fits, padded with digits at the end.
func caseShiftFamily(h *helper) [][]byte {
	var out [][]byte
	for _, target := range []int{6, 19, 20} {
		for nd := 0; nd < target && nd <= 12; nd++ {
			for _, r := range shiftRunes {
				rb := []byte(string(r))
				b := []byte("20893012345678"[:nd])
				for len(b)+len(rb) <= target {
					b = append(b, rb...)
				}
				for len(b) < target {
					b = append(b, '7')
				}
				if len(b) <= h.maxLen {
					out = append(out, b)
				}
			}
		}
	}
	return out
}

func randomInput(h *helper, rng *rand.Rand) []byte {
	if h.text {
		n := rng.Intn(25)
		pool := []rune("0123456789abcdefABCDEF0123456789gz- éЖ")
		if rng.Intn(3) == 0 { // near-valid: digits and hex only, plausible lengths
			pool = []rune("0123456789abcdefABCDEF")
			n = []int{0, 2, 4, 5, 6, 7, 8, 18, 19, 20, 21}[rng.Intn(11)]
		}
		if rng.Intn(4) == 0 {
			return caseShiftText(h, rng)
		}
		r := make([]rune, n)
		for i := range r {
			r[i] = pool[rng.Intn(len(pool))]
		}
		b := []byte(string(r))
		if len(b) > h.maxLen {
			b = b[:h.maxLen]
		}
		return b
	}
	var n int
	switch rng.Intn(4) {
	case 0:
		n = rng.Intn(6)
	case 1:
		n = rng.Intn(24)
	default:
		n = rng.Intn(h.maxLen + 1)
	}
	if rng.Intn(5) == 0 { // a well-formed list of many length-prefixed entries (lengths valid for every list walker)
		forms := []int{1, 2, 4, 5, 8}
		var b []byte
		for k := rng.Intn(41); k > 0; k-- {
			l := forms[rng.Intn(len(forms))]
			if len(b)+1+l > h.maxLen {
				break
			}
			b = append(b, byte(l))
			for i := 0; i < l; i++ {
				b = append(b, byte(1+rng.Intn(255)))
			}
		}
		return b
	}
	b := make([]byte, n)
	switch rng.Intn(3) {
	case 0: // arbitrary octets
		rng.Read(b)
	case 1: // length-prefixed entries with small lengths (list walkers), arbitrary payload
		for i := 0; i < n; {
			l := rng.Intn(10)
			b[i] = byte(l)
			i++
			for k := 0; k < l && i < n; k++ {
				b[i] = byte(1 + rng.Intn(255))
				i++
			}
		}
	default: // identity-like: plausible type octet, BCD-ish payload
		rng.Read(b)
		if n > 0 {
			b[0] = boundaryFirst[rng.Intn(len(boundaryFirst))]
		}
		for i := 1; i < n; i++ {
			if rng.Intn(4) > 0 {
				b[i] = byte(rng.Intn(10))<<4 | byte(rng.Intn(10))
			}
		}
	}
	return b
}

func main() {
	ev.Quiet()
	log.SetOutput(io.Discard) // AmfIdToNas reports through the standard logger
	args := os.Args[1:]
	if len(args) < 2 {
		ev.Fatal("usage: helpers14 replay|record|sweep|probe ...")
	}
	mode := args[0]
	part, parts, from := 0, 1, 0
	var pos []string
	for i := 1; i < len(args); i++ {
		switch args[i] {
		case "-part":
			fmt.Sscanf(args[i+1], "%d/%d", &part, &parts)
			i++
		case "-from":
			from, _ = strconv.Atoi(args[i+1])
			i++
		default:
			pos = append(pos, args[i])
		}
	}
	// contain a runaway allocation (LadnToModels appends without bound while it spins)
	lim := syscall.Rlimit{Cur: 6 << 30, Max: 6 << 30}
	_ = syscall.Setrlimit(syscall.RLIMIT_AS, &lim)
	mine := func(hi int) bool { return hi%parts == part }
	byName := map[string]int{}
	for i := range helpers {
		byName[helpers[i].name] = i
	}
	var items []item
	switch mode {
	case "replay":
		b, err := os.ReadFile(pos[0])
		if err != nil {
			ev.Fatal("%v", err)
		}
		var cs []Case
		if err := json.Unmarshal(b, &cs); err != nil {
			ev.Fatal("%v", err)
		}
		w = ev.Create(pos[1])
		for _, c := range cs {
			hi, ok := byName[c.H]
			if !ok {
				ev.Fatal("unknown helper %q", c.H)
			}
			if !mine(hi) {
				continue
			}
			in := inputBytes(&helpers[hi], c.In)
			if len(in) > helpers[hi].maxLen { // longer than the information element can carry
				continue
			}
			items = append(items, func() { callEvent(hi, in) })
		}
	case "hist":
		b, err := os.ReadFile(pos[0])
		if err != nil {
			ev.Fatal("%v", err)
		}
		var hs []Hist
		if err := json.Unmarshal(b, &hs); err != nil {
			ev.Fatal("%v", err)
		}
		w = ev.Create(pos[1])
		for i := range hs {
			if i%parts != part {
				continue
			}
			h := hs[i]
			items = append(items, func() { runHist(h, byName) })
		}
	case "record":
		w = ev.Create(pos[0])
		n := 300
		if ev.Thorough() {
			n = 3000
		}
		for hi := range helpers {
			if !mine(hi) {
				continue
			}
			rng := rand.New(rand.NewSource(ev.Seed()*1000 + int64(hi)))
			if helpers[hi].text {
				for _, in := range caseShiftFamily(&helpers[hi]) {
					hh, in2 := hi, in
					items = append(items, func() { callEvent(hh, in2) })
				}
			}
			for k := 0; k < n; k++ {
				in := randomInput(&helpers[hi], rng)
				hh := hi
				items = append(items, func() { callEvent(hh, in) })
			}
		}
	case "sweep":
		w = ev.Create(pos[0])
		for hi := range helpers {
			if !mine(hi) {
				continue
			}
			rng := rand.New(rand.NewSource(ev.Seed()*7919 + int64(hi)))
			items = append(items, sweepItems(hi, rng)...)
		}
	case "probe":
		w = ev.Create(pos[0])
		hi, ok := byName[pos[1]]
		if !ok {
			ev.Fatal("unknown helper %q", pos[1])
		}
		in, err := hex.DecodeString(pos[2])
		if err != nil {
			ev.Fatal("%v", err)
		}
		skipHang = false
		items = append(items, func() { callEvent(hi, in) })
	default:
		ev.Fatal("unknown subcommand %q", mode)
	}
	runItems(items, from)
	w.Close()
}
