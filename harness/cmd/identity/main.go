// Driver for C12: identities between wire and text.
//
//	identity replay <cases.json> <out.ndjson>   cases chosen by TLC (MC_C12_gen): every function of observe_at is called on each
//	identity record <out.ndjson>                all 65 536 set x pointer pairs / all 65 536 two-octet tails + seeded random identities
//	identity digest <out.ndjson>                (thorough) weighted sums of the function tables over all 2^24 AMF identifiers
//	identity expand <table> <chunk> <out.ndjson> every element of one digest chunk as ordinary events
//	identity digest1 <table> <chunk> <out.ndjson> one digest chunk;  identity redo <event.json> <out.ndjson> repeat one logged call
//
// The driver only calls the library and writes what it saw; text is logged as code points.  Every result is read twice:
// at once (ots/ob/on) and again from the retained return values after later calls were made (hts/hb/hn).
package main

import (
	"encoding/json"
	"fmt"
	"io"
	"log"
	"math/rand"
	"os"
	"strconv"

	"verifharness/internal/ev"

	"github.com/free5gc/nas/nasConvert"
	"github.com/free5gc/nas/nasType"
	"github.com/free5gc/openapi/models"
)

type Ev struct {
	Op    string  `json:"op"`
	Ts    [][]int `json:"ts"`  // input texts
	B     []int   `json:"b"`   // input octets
	N     []int   `json:"n"`   // input numbers
	Ots   [][]int `json:"ots"` // output texts
	Ob    []int   `json:"ob"`  // output octets
	On    []int   `json:"on"`  // output numbers
	Err   bool    `json:"err"`
	Panic bool    `json:"panic"`
	Pfn   string  `json:"pfn"`
	// the same result read AGAIN from the retained return values after later calls (of the same function with
	// different arguments and of other functions) were made: a result is a value and may not change
	Hts [][]int `json:"hts"`
	Hb  []int   `json:"hb"`
	Hn  []int   `json:"hn"`
	Hc  int     `json:"hc"` // number of later calls made while the result was held
	// reading is pure: io=1 the octets handed to the library (the slice / the element's Buffer it was given, not a copy)
	// read back after the hold period; io=2 additionally the result of calling the same getter once more on the SAME element
	Io  int     `json:"io"`
	Ib  []int   `json:"ib"`
	Rts [][]int `json:"rts"`
}

type Case struct {
	Fam string  `json:"fam"`
	W   []int   `json:"w"`
	N   []int   `json:"n"`
	Ts  [][]int `json:"ts"`
}

var w *ev.Writer

func str(cps []int) string {
	r := make([]rune, len(cps))
	for i, c := range cps {
		r[i] = rune(c)
	}
	return string(r)
}

func texts(ss ...string) [][]int {
	o := [][]int{}
	for _, s := range ss {
		o = append(o, ev.Runes(s))
	}
	return o
}

// A call is written in two phases: call() invokes the library and RETAINS whatever it returned (slices, strings,
// structs, exactly as returned, no copy); the reader it gives back projects those retained values into an event.
// emit reads once at once (ots/ob/on) and queues the event; when hold further events have been queued the oldest is
// flushed: one more call of the same function with different arguments and one call of another function are made
// (results dropped), then the retained values are read a second time (hts/hb/hn) and the event is written.
type reader func(e *Ev)

type pend struct {
	e   Ev
	key string
	rd  reader
	seq int
}

type alt struct {
	op, key string
	call    func() reader
}

const hold = 6

var (
	queue  []pend
	alts   = map[string][]alt{} // per function: the two most recent calls with distinct arguments
	recent []alt                // the most recent calls of two distinct functions
	nCalls int
	kept   = map[int]*nasType.MobileIdentity5GS{} // refill: one long-lived element per contents length
)

func fill(e *Ev) {
	if e.Ts == nil {
		e.Ts = [][]int{}
	}
	if e.B == nil {
		e.B = []int{}
	}
	if e.N == nil {
		e.N = []int{}
	}
	if e.Ots == nil {
		e.Ots = [][]int{}
	}
	if e.Ob == nil {
		e.Ob = []int{}
	}
	if e.On == nil {
		e.On = []int{}
	}
	if e.Hts == nil {
		e.Hts = [][]int{}
	}
	if e.Hb == nil {
		e.Hb = []int{}
	}
	if e.Hn == nil {
		e.Hn = []int{}
	}
	if e.Ib == nil {
		e.Ib = []int{}
	}
	if e.Rts == nil {
		e.Rts = [][]int{}
	}
}

func emit(op string, ts [][]int, b []int, n []int, call func() reader) {
	e := Ev{Op: op, Ts: ts, B: b, N: n}
	fill(&e)
	kb, _ := json.Marshal([]interface{}{e.Ts, e.B, e.N})
	key := string(kb)
	var rd reader
	if pi := ev.Guard(func() { rd = call(); rd(&e) }); pi != nil {
		if !pi.Lib {
			ev.Fatal("panic outside the library in %s: %s (%s)", op, pi.Kind, pi.Fn)
		}
		e.Panic, e.Pfn, rd = true, pi.Fn, nil
		e.Ots, e.Ob, e.On, e.Err = nil, nil, nil, false
	}
	nCalls++
	queue = append(queue, pend{e: e, key: key, rd: rd, seq: nCalls})
	a := alt{op: op, key: key, call: call}
	if l := alts[op]; len(l) == 0 || l[0].key != key {
		alts[op] = append([]alt{a}, l...)
		if len(alts[op]) > 2 {
			alts[op] = alts[op][:2]
		}
	}
	if len(recent) == 0 || recent[0].op != op {
		recent = append([]alt{a}, recent...)
		if len(recent) > 2 {
			recent = recent[:2]
		}
	} else {
		recent[0] = a
	}
	for len(queue) > hold {
		flushOne()
	}
}

func shadow(a alt) {
	ev.Guard(func() { a.call() }) // the result is dropped; a panic here was or will be logged by the call's own event
	nCalls++
}

func flushOne() {
	p := queue[0]
	queue = queue[1:]
	for _, a := range alts[p.e.Op] {
		if a.key != p.key {
			shadow(a)
			break
		}
	}
	for _, a := range recent {
		if a.op != p.e.Op {
			shadow(a)
			break
		}
	}
	if p.rd != nil {
		var h Ev
		if pi := ev.Guard(func() { p.rd(&h) }); pi != nil {
			ev.Fatal("panic while re-reading the held result of %s: %s", p.e.Op, pi.Kind)
		}
		p.e.Hts, p.e.Hb, p.e.Hn = h.Ots, h.Ob, h.On
		p.e.Io, p.e.Ib, p.e.Rts = h.Io, h.Ib, h.Rts
	}
	p.e.Hc = nCalls - p.seq
	fill(&p.e)
	w.Emit(p.e)
}

func flushAll() {
	for len(queue) > 0 {
		flushOne()
	}
}

// ---------------------------------------------------------------- the observed functions

func plmnCalls(mcc, mnc string, wire []int) {
	if mcc != "" {
		emit("PlmnIDToNas", texts(mcc, mnc), nil, nil, func() reader {
			r := nasConvert.PlmnIDToNas(models.PlmnId{Mcc: mcc, Mnc: mnc})
			return func(e *Ev) { e.Ob = ev.Ints(r) }
		})
		emit("RT.PlmnText", texts(mcc, mnc), nil, nil, func() reader {
			r := nasConvert.PlmnIDToString(nasConvert.PlmnIDToNas(models.PlmnId{Mcc: mcc, Mnc: mnc}))
			return func(e *Ev) { e.Ots = texts(r) }
		})
	}
	if wire != nil {
		emit("PlmnIDToString", nil, wire, nil, func() reader {
			in := ev.Bytes(wire)
			r := nasConvert.PlmnIDToString(in)
			return func(e *Ev) { e.Ots = texts(r); e.Io, e.Ib = 1, ev.Ints(in) }
		})
		emit("RT.PlmnWire", nil, wire, nil, func() reader {
			s := nasConvert.PlmnIDToString(ev.Bytes(wire))
			r := nasConvert.PlmnIDToNas(models.PlmnId{Mcc: s[:3], Mnc: s[3:]})
			return func(e *Ev) { e.Ob = ev.Ints(r) }
		})
	}
}

func amfToModels(n []int) {
	emit("AmfIdToModels", nil, nil, n, func() reader {
		r := nasConvert.AmfIdToModels(uint8(n[0]), uint16(n[1]), uint8(n[2]))
		return func(e *Ev) { e.Ots = texts(r) }
	})
}

func amfToNas(t string) {
	emit("AmfIdToNasWithError", texts(t), nil, nil, func() reader {
		r, s, p, err := nasConvert.AmfIdToNasWithError(t)
		return func(e *Ev) { e.On, e.Err = []int{int(r), int(s), int(p)}, err != nil }
	})
}

func amfRT(n []int, t string) {
	if n != nil {
		emit("RT.AmfNum", nil, nil, n, func() reader {
			r, s, p, err := nasConvert.AmfIdToNasWithError(nasConvert.AmfIdToModels(uint8(n[0]), uint16(n[1]), uint8(n[2])))
			return func(e *Ev) { e.On, e.Err = []int{int(r), int(s), int(p)}, err != nil }
		})
	}
	if t != "" {
		emit("RT.AmfText", texts(t), nil, nil, func() reader {
			r, s, p, err := nasConvert.AmfIdToNasWithError(t)
			back := ""
			if err == nil {
				back = nasConvert.AmfIdToModels(r, s, p)
			}
			return func(e *Ev) {
				e.Err = err != nil
				if err == nil {
					e.Ots = texts(back)
				}
			}
		})
	}
}

func gutiToString(wire []int) {
	emit("GutiToStringWithError", nil, wire, nil, func() reader {
		in := ev.Bytes(wire)
		guami, guti, err := nasConvert.GutiToStringWithError(in)
		return func(e *Ev) {
			e.Io, e.Ib = 1, ev.Ints(in)
			e.Err = err != nil
			if err == nil {
				mcc, mnc := "", ""
				if guami.PlmnId != nil {
					mcc, mnc = guami.PlmnId.Mcc, guami.PlmnId.Mnc
				}
				e.Ots = texts(guti, mcc, mnc, guami.AmfId)
			}
		}
	})
}

func gutiToNas(t string) {
	emit("GutiToNasWithError", texts(t), nil, nil, func() reader {
		g, err := nasConvert.GutiToNasWithError(t)
		return func(e *Ev) {
			e.Err = err != nil
			if err == nil {
				e.Ob, e.On = ev.Ints(g.Octet[:]), []int{int(g.Len)}
			}
		}
	})
}

func gutiRT(wire []int, t string) {
	if t != "" {
		emit("RT.GutiText", texts(t), nil, nil, func() reader {
			g, err := nasConvert.GutiToNasWithError(t)
			back := ""
			if err == nil {
				_, back, err = nasConvert.GutiToStringWithError(g.Octet[:])
			}
			return func(e *Ev) {
				e.Err = err != nil
				if err == nil {
					e.Ots = texts(back)
				}
			}
		})
	}
	if wire != nil {
		emit("RT.GutiWire", nil, wire, nil, func() reader {
			_, t2, err := nasConvert.GutiToStringWithError(ev.Bytes(wire))
			var g nasType.GUTI5G
			if err == nil {
				g, err = nasConvert.GutiToNasWithError(t2)
			}
			return func(e *Ev) {
				e.Err = err != nil
				if err == nil {
					e.Ob = ev.Ints(g.Octet[:])
				}
			}
		})
	}
}

// again runs a repeated reading under panic capture (a library panic there is logged as the text "<panic>")
func again(f func() [][]int) [][]int {
	var r [][]int
	if pi := ev.Guard(func() { r = f() }); pi != nil {
		if !pi.Lib {
			ev.Fatal("panic outside the library in a repeated reading: %s (%s)", pi.Kind, pi.Fn)
		}
		return texts("<panic>")
	}
	return r
}

func mi(wire []int) *nasType.MobileIdentity5GS {
	return &nasType.MobileIdentity5GS{Len: uint16(len(wire)), Buffer: ev.Bytes(wire)}
}

// refill: ONE long-lived element per contents length, refilled IN PLACE through the library's own setter before every
// reading (the element of a message that is kept and updated): a rendering is a function of the element's present octets,
// whatever was rendered from the same element before.
func refill(wire []int) *nasType.MobileIdentity5GS {
	a := kept[len(wire)]
	if a == nil {
		a = &nasType.MobileIdentity5GS{}
		a.SetLen(uint16(len(wire)))
		kept[len(wire)] = a
	}
	a.SetMobileIdentity5GSContents(ev.Bytes(wire))
	return a
}

func miGetter(name string, wire []int, f func(a *nasType.MobileIdentity5GS) string) {
	emit("MI."+name, nil, wire, nil, func() reader {
		r := f(refill(wire))
		return func(e *Ev) { e.Ots = texts(r) }
	})
	emit("MI."+name, nil, wire, nil, func() reader {
		a := mi(wire)
		r := f(a)
		return func(e *Ev) {
			e.Ots = texts(r)
			e.Io, e.Ib, e.Rts = 2, ev.Ints(a.Buffer), again(func() [][]int { return texts(f(a)) })
		}
	})
}

func miCommon(wire []int) {
	emit("MI.GetTypeOfIdentity", nil, wire, nil, func() reader {
		s, err := refill(wire).GetTypeOfIdentity()
		return func(e *Ev) { e.Ots, e.Err = texts(s), err != nil }
	})
	emit("MI.GetMobileIdentity", nil, wire, nil, func() reader {
		id, typ, err := refill(wire).GetMobileIdentity()
		return func(e *Ev) { e.Ots, e.Err = texts(id, typ), err != nil }
	})
	emit("MI.GetTypeOfIdentity", nil, wire, nil, func() reader {
		a := mi(wire)
		s, err := a.GetTypeOfIdentity()
		return func(e *Ev) {
			e.Ots, e.Err = texts(s), err != nil
			e.Io, e.Ib, e.Rts = 2, ev.Ints(a.Buffer), again(func() [][]int { s2, _ := a.GetTypeOfIdentity(); return texts(s2) })
		}
	})
	emit("MI.GetMobileIdentity", nil, wire, nil, func() reader {
		a := mi(wire)
		id, typ, err := a.GetMobileIdentity()
		return func(e *Ev) {
			e.Ots, e.Err = texts(id, typ), err != nil
			e.Io, e.Ib, e.Rts = 2, ev.Ints(a.Buffer), again(func() [][]int { i2, t2, _ := a.GetMobileIdentity(); return texts(i2, t2) })
		}
	})
}

func miGuti(wire []int) {
	miCommon(wire)
	miGetter("Get5GGUTI", wire, (*nasType.MobileIdentity5GS).Get5GGUTI)
	miGetter("GetPlmnID", wire, (*nasType.MobileIdentity5GS).GetPlmnID)
	miGetter("GetMCC", wire, (*nasType.MobileIdentity5GS).GetMCC)
	miGetter("GetMNC", wire, (*nasType.MobileIdentity5GS).GetMNC)
	miGetter("GetAmfID", wire, (*nasType.MobileIdentity5GS).GetAmfID)
	miGetter("GetAmfRegionID", wire, (*nasType.MobileIdentity5GS).GetAmfRegionID)
	miGetter("GetAmfSetID", wire, (*nasType.MobileIdentity5GS).GetAmfSetID)
	miGetter("GetAmfPointer", wire, (*nasType.MobileIdentity5GS).GetAmfPointer)
	miGetter("Get5GTMSI", wire, (*nasType.MobileIdentity5GS).Get5GTMSI)
}

func miSTmsi(wire []int) {
	miCommon(wire)
	emit("MI.Get5GSTMSI", nil, wire, nil, func() reader {
		a := mi(wire)
		s, typ, err := a.Get5GSTMSI()
		return func(e *Ev) {
			e.Ots, e.Err = texts(s, typ), err != nil
			e.Io, e.Ib, e.Rts = 2, ev.Ints(a.Buffer), again(func() [][]int { s2, t2, _ := a.Get5GSTMSI(); return texts(s2, t2) })
		}
	})
	miGetter("GetAmfSetID", wire, (*nasType.MobileIdentity5GS).GetAmfSetID)
	miGetter("GetAmfPointer", wire, (*nasType.MobileIdentity5GS).GetAmfPointer)
	miGetter("Get5GTMSI", wire, (*nasType.MobileIdentity5GS).Get5GTMSI)
}

func suciCalls(wire []int) {
	emit("SuciToStringWithError", nil, wire, nil, func() reader {
		in := ev.Bytes(wire)
		s, plmn, err := nasConvert.SuciToStringWithError(in)
		return func(e *Ev) { e.Ots, e.Err = texts(s, plmn), err != nil; e.Io, e.Ib = 1, ev.Ints(in) }
	})
	miCommon(wire)
	miGetter("GetSUCI", wire, (*nasType.MobileIdentity5GS).GetSUCI)
	if len(wire) > 0 && wire[0]>>4 == 0 { // the PLMN getters apply to the IMSI format only
		miGetter("GetPlmnID", wire, (*nasType.MobileIdentity5GS).GetPlmnID)
		miGetter("GetMCC", wire, (*nasType.MobileIdentity5GS).GetMCC)
		miGetter("GetMNC", wire, (*nasType.MobileIdentity5GS).GetMNC)
	}
}

func peiCalls(wire []int) {
	emit("PeiToStringWithError", nil, wire, nil, func() reader {
		in := ev.Bytes(wire)
		s, err := nasConvert.PeiToStringWithError(in)
		return func(e *Ev) { e.Ots, e.Err = texts(s), err != nil; e.Io, e.Ib = 1, ev.Ints(in) }
	})
	miCommon(wire)
	miGetter("GetIMEI", wire, (*nasType.MobileIdentity5GS).GetIMEI)
	miGetter("GetIMEISV", wire, (*nasType.MobileIdentity5GS).GetIMEISV)
}

func runCase(c Case) {
	switch c.Fam {
	case "plmn":
		plmnCalls(str(c.Ts[0]), str(c.Ts[1]), c.W)
	case "amf":
		amfToModels(c.N)
		amfToNas(str(c.Ts[0]))
		amfRT(c.N, str(c.Ts[0]))
	case "badamf":
		amfToNas(str(c.Ts[0]))
	case "guti":
		gutiToString(c.W)
		gutiToNas(str(c.Ts[0]))
		gutiRT(c.W, str(c.Ts[0]))
		miGuti(c.W)
	case "badguti":
		gutiToNas(str(c.Ts[0]))
	case "stmsi":
		miSTmsi(c.W)
	case "suci":
		suciCalls(c.W)
	case "pei":
		peiCalls(c.W)
	default:
		ev.Fatal("unknown case family %q", c.Fam)
	}
}

func replay(in, out string) {
	b, err := os.ReadFile(in)
	if err != nil {
		ev.Fatal("%v", err)
	}
	var cs []Case
	if err := json.Unmarshal(b, &cs); err != nil {
		ev.Fatal("%v", err)
	}
	w = ev.Create(out)
	for _, c := range cs {
		runCase(c)
	}
	flushAll()
	w.Close()
}

// ---------------------------------------------------------------- seeded random identities

func digits(rng *rand.Rand, n int) []int {
	o := make([]int, n)
	for i := range o {
		o[i] = rng.Intn(10)
	}
	return o
}

func digitStr(d []int) string {
	s := ""
	for _, x := range d {
		s += strconv.Itoa(x)
	}
	return s
}

func randPlmnWire(rng *rand.Rand) []int {
	d := digits(rng, 6)
	m3 := d[5]
	if rng.Intn(2) == 0 {
		m3 = 15
	}
	return []int{d[1]<<4 | d[0], m3<<4 | d[2], d[4]<<4 | d[3]}
}

func randOctets(rng *rand.Rand, n int) []int {
	o := make([]int, n)
	for i := range o {
		switch rng.Intn(6) {
		case 0:
			o[i] = 0
		case 1:
			o[i] = 255
		default:
			o[i] = rng.Intn(256)
		}
	}
	return o
}

const hexd = "0123456789abcdef"
const hexD = "0123456789ABCDEF"

func randHex(rng *rand.Rand, n int, upper bool) string {
	s := ""
	for i := 0; i < n; i++ {
		if upper && rng.Intn(2) == 0 {
			s += string(hexD[rng.Intn(16)])
		} else {
			s += string(hexd[rng.Intn(16)])
		}
	}
	return s
}

func mutate(rng *rand.Rand, t string) string {
	junk := "gzGZ -+_.:/xX\x00é"
	r := []rune(t)
	switch rng.Intn(6) {
	case 0:
		if len(r) > 0 {
			return string(r[:rng.Intn(len(r))])
		}
		return "x"
	case 1:
		return t + randHex(rng, 1+rng.Intn(3), false)
	case 2:
		return ""
	default:
		if len(r) == 0 {
			return "g"
		}
		j := []rune(junk)
		r[rng.Intn(len(r))] = j[rng.Intn(len(j))]
		return string(r)
	}
}

func record(out string) {
	rng := ev.Rng()
	w = ev.Create(out)
	// all 1024 x 64 set/pointer pairs, and all 65 536 two-octet tails of the text; region seeded
	for s := 0; s < 1024; s++ {
		for p := 0; p < 64; p++ {
			amfToModels([]int{rng.Intn(256), s, p})
		}
	}
	for k := 0; k < 65536; k++ {
		amfToNas(fmt.Sprintf("%02x%04x", rng.Intn(256), k))
	}
	n := 1500
	if ev.Thorough() {
		n = 12000
	}
	for i := 0; i < n; i++ {
		// PLMN
		mnc := digitStr(digits(rng, 2+rng.Intn(2)))
		plmnCalls(digitStr(digits(rng, 3)), mnc, randPlmnWire(rng))
		// AMF id round trips, upper/lower case text
		a := []int{rng.Intn(256), rng.Intn(1024), rng.Intn(64)}
		amfRT(a, randHex(rng, 6, true))
		// 5G-GUTI
		gw := append(append(append([]int{0xf2}, randPlmnWire(rng)...), randOctets(rng, 3)...), randOctets(rng, 4)...)
		gt := digitStr(digits(rng, 5+rng.Intn(2))) + randHex(rng, 14, i%4 == 0)
		gutiToString(gw)
		gutiToNas(gt)
		gutiRT(gw, gt)
		miGuti(gw)
		if i%3 == 0 {
			gutiToNas(mutate(rng, gt))
			amfToNas(mutate(rng, randHex(rng, 6, false)))
		}
		// 5G-S-TMSI
		miSTmsi(append([]int{0xf4}, randOctets(rng, 6)...))
		// SUCI, IMSI format
		ri := digits(rng, 1+rng.Intn(4))
		for len(ri) < 4 {
			ri = append(ri, 15)
		}
		sw := append([]int{0x01}, randPlmnWire(rng)...)
		sw = append(sw, ri[1]<<4|ri[0], ri[3]<<4|ri[2])
		scheme := 0
		if rng.Intn(2) == 0 {
			scheme = rng.Intn(16)
		}
		sw = append(sw, scheme, rng.Intn(256))
		if scheme == 0 {
			m := digits(rng, 1+rng.Intn(10))
			if len(m)%2 == 1 {
				m = append(m, 15)
			}
			for k := 0; k < len(m); k += 2 {
				sw = append(sw, m[k+1]<<4|m[k])
			}
		} else {
			sw = append(sw, randOctets(rng, 1+rng.Intn(48))...)
		}
		suciCalls(sw)
		if i%5 == 0 { // NAI format
			suciCalls(append([]int{0x11}, randOctets(rng, 1+rng.Intn(40))...))
		}
		// PEI
		nd, typ := 15, 3
		if rng.Intn(2) == 0 {
			nd, typ = 16, 5
		}
		d := digits(rng, nd)
		pw := []int{d[0]<<4 | (nd%2)<<3 | typ}
		for k := 1; k < nd; k += 2 {
			hi := 15
			if k+1 < nd {
				hi = d[k+1]
			}
			pw = append(pw, hi<<4|d[k])
		}
		peiCalls(pw)
	}
	flushAll()
	w.Close()
}

// ---------------------------------------------------------------- digests over all 2^24 AMF identifiers (DESIGN 4.3)

var primes = [3]int{46337, 46327, 46309}

func pack(s string, from, n int) int {
	v, m := 0, 1
	for j := 0; j < n; j++ {
		if from+j < len(s) {
			v += int(s[from+j]%128) * m
		}
		m *= 128
	}
	return v
}

// table value of element i (i = 24-bit number region|set|pointer, resp. the number whose 6 hex digits are the text)
func tableValue(table, i int) int {
	switch table {
	case 1, 2:
		t := nasConvert.AmfIdToModels(uint8(i>>16), uint16(i>>6)&1023, uint8(i&63))
		return pack(t, (table-1)*3, 3)
	case 3:
		r, s, p, err := nasConvert.AmfIdToNasWithError(fmt.Sprintf("%06x", i))
		if err != nil {
			return 1 << 30
		}
		return int(r) + 256*int(p) + 16384*int(s)
	case 4, 5:
		a := &nasType.MobileIdentity5GS{Len: 11, Buffer: []byte{0xf2, 0x02, 0xf8, 0x39, byte(i >> 16), byte(i >> 8), byte(i), 0, 0, 0, 0}}
		if table == 4 {
			return pack(a.GetAmfSetID(), 0, 4)
		}
		return pack(a.GetAmfPointer(), 0, 4)
	}
	ev.Fatal("unknown table %d", table)
	return 0
}

const nTables = 5

func digestChunk(table, chunk int) {
	var s [3]int
	for i := chunk << 16; i < (chunk+1)<<16; i++ {
		v := tableValue(table, i)
		for k, p := range primes {
			s[k] = (s[k] + (i%p+1)*(v%p)) % p
		}
	}
	flushAll()
	e := Ev{Op: "Digest", N: []int{table, chunk}, On: s[:], Hn: s[:]}
	fill(&e)
	w.Emit(e)
}

func digest(out string) {
	w = ev.Create(out)
	for table := 1; table <= nTables; table++ {
		for chunk := 0; chunk < 256; chunk++ {
			digestChunk(table, chunk)
		}
	}
	w.Close()
}

func digest1(table, chunk int, out string) {
	w = ev.Create(out)
	digestChunk(table, chunk)
	w.Close()
}

// redo repeats one logged call (same operation, same input) in this fresh process
// redoOne repeats one logged call (same operation, same input); the helpers may emit further operations
func redoOne(e Ev) {
	t := func(i int) string {
		if i < len(e.Ts) {
			return str(e.Ts[i])
		}
		return ""
	}
	switch {
	case e.Op == "PlmnIDToNas" || e.Op == "RT.PlmnText":
		plmnCalls(t(0), t(1), nil)
	case e.Op == "PlmnIDToString" || e.Op == "RT.PlmnWire":
		plmnCalls("", "", e.B)
	case e.Op == "AmfIdToModels":
		amfToModels(e.N)
	case e.Op == "AmfIdToNasWithError":
		amfToNas(t(0))
	case e.Op == "RT.AmfNum":
		amfRT(e.N, "")
	case e.Op == "RT.AmfText":
		amfRT(nil, t(0))
	case e.Op == "GutiToStringWithError":
		gutiToString(e.B)
	case e.Op == "GutiToNasWithError":
		gutiToNas(t(0))
	case e.Op == "RT.GutiText":
		gutiRT(nil, t(0))
	case e.Op == "RT.GutiWire":
		gutiRT(e.B, "")
	case e.Op == "SuciToStringWithError" || e.Op == "MI.GetSUCI":
		suciCalls(e.B)
	case e.Op == "PeiToStringWithError" || e.Op == "MI.GetIMEI" || e.Op == "MI.GetIMEISV":
		peiCalls(e.B)
	case e.Op == "MI.Get5GSTMSI":
		miSTmsi(e.B)
	case e.Op == "Digest":
		digestChunk(e.N[0], e.N[1])
	case len(e.Op) > 3 && e.Op[:3] == "MI.":
		miGuti(e.B)
		miSTmsi(e.B)
	default:
		ev.Fatal("redo: unknown op %q", e.Op)
	}
}

// redo repeats logged calls in this fresh process: the file holds one event or an array of events; the FIRST is the
// one asked for, the others (same function, different arguments) are run after it while its result is held.
func redo(in, out string) { redoMode(in, out, false) }

// redoAfter: the LAST event of the file is the one asked for; the others are run BEFORE it in this process (a result may
// depend on what the same long-lived element or the library's own state saw earlier); the output keeps the last matching line.
func redoAfter(in, out string) { redoMode(in, out, true) }

func redoMode(in, out string, last bool) {
	b, err := os.ReadFile(in)
	if err != nil {
		ev.Fatal("%v", err)
	}
	var es []Ev
	if len(b) > 0 && b[0] == '[' {
		err = json.Unmarshal(b, &es)
	} else {
		var e Ev
		err = json.Unmarshal(b, &e)
		es = []Ev{e}
	}
	if err != nil || len(es) == 0 {
		ev.Fatal("redo: cannot read %s: %v", in, err)
	}
	w = ev.Create(out)
	want := es[0]
	if last {
		want = es[len(es)-1]
	}
	keep := want.Op
	wantKey, _ := json.Marshal([]interface{}{want.Ts, want.B, want.N, want.Io})
	for _, e := range es {
		redoOne(e)
	}
	flushAll()
	w.Close()
	// filter the output file down to the requested operation (first occurrence)
	lines, err := os.ReadFile(out)
	if err != nil {
		ev.Fatal("%v", err)
	}
	res := []byte{}
	start := 0
	for i := 0; i <= len(lines); i++ {
		if i == len(lines) || lines[i] == '\n' {
			ln := lines[start:i]
			start = i + 1
			var x Ev
			if len(ln) > 0 && json.Unmarshal(ln, &x) == nil && x.Op == keep {
				fill(&x)
				k, _ := json.Marshal([]interface{}{x.Ts, x.B, x.N, x.Io})
				if !last && len(res) == 0 {
					res = append(append(res, ln...), '\n')
				} else if last && string(k) == string(wantKey) {
					res = append(append([]byte{}, ln...), '\n')
				}
			}
		}
	}
	if err := os.WriteFile(out, res, 0o644); err != nil {
		ev.Fatal("%v", err)
	}
}

func expand(table, chunk int, out string) {
	w = ev.Create(out)
	for i := chunk << 16; i < (chunk+1)<<16; i++ {
		switch table {
		case 1, 2:
			amfToModels([]int{i >> 16, (i >> 6) & 1023, i & 63})
		case 3:
			amfToNas(fmt.Sprintf("%06x", i))
		default:
			b := []int{0xf2, 0x02, 0xf8, 0x39, i >> 16, (i >> 8) & 255, i & 255, 0, 0, 0, 0}
			miGetter("GetAmfSetID", b, (*nasType.MobileIdentity5GS).GetAmfSetID)
			miGetter("GetAmfPointer", b, (*nasType.MobileIdentity5GS).GetAmfPointer)
		}
	}
	flushAll()
	w.Close()
}

func main() {
	ev.Quiet()
	log.SetOutput(io.Discard)
	if len(os.Args) < 3 {
		ev.Fatal("usage: identity replay|record|digest|expand ...")
	}
	switch os.Args[1] {
	case "record":
		record(os.Args[2])
	case "replay":
		replay(os.Args[2], os.Args[3])
	case "digest":
		digest(os.Args[2])
	case "redo":
		redo(os.Args[2], os.Args[3])
	case "redoafter":
		redoAfter(os.Args[2], os.Args[3])
	case "digest1":
		t, _ := strconv.Atoi(os.Args[2])
		c, _ := strconv.Atoi(os.Args[3])
		digest1(t, c, os.Args[4])
	case "expand":
		t, _ := strconv.Atoi(os.Args[2])
		c, _ := strconv.Atoi(os.Args[3])
		expand(t, c, os.Args[4])
	default:
		ev.Fatal("unknown subcommand")
	}
}
