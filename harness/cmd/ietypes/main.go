// Driver for C09: the Get<Field>/Set<Field> accessor pairs of the nasType information elements.
//
//	ietypes replay <cases.json> <out.ndjson>          cases chosen by TLC: per field, priors x values
//	ietypes record <cases.json> <out.ndjson> <n>      n seeded random (field, prior, value) cases
//	ietypes digest <jobs.json>  <out.ndjson>          per (field, value[, first octet]): the function table over
//	                                                  all 256 priors of the touched octet folded into sums
//
// Types come from the generated registry (reg_gen.go, plumbing: written at check time from the list
// of type names).  The element's storage is reached through its exported fields Iei, Len, Octet,
// Buffer; accessors are called through reflection.  The driver writes prior contents, calls the
// getter, the setter, reads everything back and calls the getter again.  It never compares:
// every verdict is made by TLC (spec/trace/Trace_C09.tla).  A missing type, accessor or an
// unexpected signature is a plumbing error (exit 3), never an observation.
package main

import (
	"encoding/json"
	"os"
	"reflect"
	"strconv"

	"verifharness/internal/ev"
)

type Elem struct {
	Iei int   `json:"iei"`
	Len int   `json:"len"`
	Oct []int `json:"oct"`
}
type Group struct {
	L      int               `json:"L"`
	Priors []Elem            `json:"priors"`
	Values []json.RawMessage `json:"values"`
}
type Case struct {
	Ti     int     `json:"ti"`
	Fi     int     `json:"fi"`
	Type   string  `json:"type"`
	Field  string  `json:"field"`
	Kind   string  `json:"kind"`
	R1     int     `json:"r1"` // last contents row the field touches (-1: unknown / open-ended); record draws buffer sizes from r1+1 on
	Groups []Group `json:"groups"`
}

type Ev struct {
	Op    string `json:"op"`
	Ti    int    `json:"ti"`
	Fi    int    `json:"fi"`
	Type  string `json:"type"`
	Field string `json:"field"`
	Piei  int    `json:"piei"`
	Plen  int    `json:"plen"`
	Poct  []int  `json:"poct"`
	V     int    `json:"v"`
	Vs    []int  `json:"vs"`
	G0    int    `json:"g0"`
	Gs0   []int  `json:"gs0"`
	Qiei  int    `json:"qiei"`
	Qlen  int    `json:"qlen"`
	Qoct  []int  `json:"qoct"`
	G1    int    `json:"g1"`
	Gs1   []int  `json:"gs1"`
	Panic string `json:"panic"`
	P1    int    `json:"p1"`
	L     int    `json:"L"`
	Sums  []int  `json:"sums"`
	Sums2 []int  `json:"sums2"`
}

var none = []int{}

// binding gives direct access to the storage of one element value and to one accessor pair.
type binding struct {
	rv     reflect.Value // pointer to the struct
	iei    *uint8
	len8   *uint8
	len16  *uint16
	oct1   *uint8
	arr    []byte   // aliases Octet [n]uint8
	buf    *[]uint8 // Buffer
	get    reflect.Value
	set    reflect.Value
	argT   reflect.Type
	scalar bool
	g8     func() uint8
	s8     func(uint8)
	g16    func() uint16
	s16    func(uint16)
}

func bind(typ, field string) *binding {
	mk, ok := Types[typ]
	if !ok {
		ev.Fatal("plumbing: type %s is not in the registry", typ)
	}
	b := &binding{rv: reflect.ValueOf(mk())}
	e := b.rv.Elem()
	if f := e.FieldByName("Iei"); f.IsValid() {
		b.iei = f.Addr().Interface().(*uint8)
	}
	if f := e.FieldByName("Len"); f.IsValid() {
		switch p := f.Addr().Interface().(type) {
		case *uint8:
			b.len8 = p
		case *uint16:
			b.len16 = p
		default:
			ev.Fatal("plumbing: %s.Len has an unexpected type", typ)
		}
	}
	if f := e.FieldByName("Octet"); f.IsValid() {
		if f.Kind() == reflect.Array {
			b.arr = f.Slice(0, f.Len()).Bytes()
		} else {
			b.oct1 = f.Addr().Interface().(*uint8)
		}
	} else if f := e.FieldByName("Buffer"); f.IsValid() {
		b.buf = f.Addr().Interface().(*[]uint8)
	} else {
		ev.Fatal("plumbing: %s has neither Octet nor Buffer", typ)
	}
	b.get = b.rv.MethodByName("Get" + field)
	b.set = b.rv.MethodByName("Set" + field)
	if !b.get.IsValid() || !b.set.IsValid() {
		ev.Fatal("plumbing: accessor pair %s.Get%s/Set%s does not exist in the tree under test", typ, field, field)
	}
	if b.set.Type().NumIn() != 1 || b.get.Type().NumOut() != 1 || b.get.Type().NumIn() != 0 || b.set.Type().In(0) != b.get.Type().Out(0) {
		ev.Fatal("plumbing: unexpected signature of %s.Get%s/Set%s", typ, field, field)
	}
	b.argT = b.set.Type().In(0)
	switch b.argT.Kind() {
	case reflect.Uint8:
		b.scalar = true
		b.g8, b.s8 = b.get.Interface().(func() uint8), b.set.Interface().(func(uint8))
	case reflect.Uint16:
		b.scalar = true
		b.g16, b.s16 = b.get.Interface().(func() uint16), b.set.Interface().(func(uint16))
	case reflect.Array, reflect.Slice:
		if b.argT.Elem().Kind() != reflect.Uint8 {
			ev.Fatal("plumbing: unexpected argument type of %s.Set%s", typ, field)
		}
	default:
		ev.Fatal("plumbing: unexpected argument type %s of %s.Set%s", b.argT, typ, field)
	}
	return b
}

func (b *binding) write(p *Elem) {
	if b.iei != nil {
		*b.iei = uint8(p.Iei)
	}
	if b.len8 != nil {
		*b.len8 = uint8(p.Len)
	}
	if b.len16 != nil {
		*b.len16 = uint16(p.Len)
	}
	switch {
	case b.oct1 != nil:
		*b.oct1 = uint8(p.Oct[0])
	case b.arr != nil:
		if len(p.Oct) != len(b.arr) {
			ev.Fatal("plumbing: contents of %d octets for an element of %d", len(p.Oct), len(b.arr))
		}
		for i, x := range p.Oct {
			b.arr[i] = uint8(x)
		}
	default:
		nb := make([]uint8, len(p.Oct))
		for i, x := range p.Oct {
			nb[i] = uint8(x)
		}
		*b.buf = nb
	}
}

func (b *binding) read() (iei, ln int, oct []int) {
	iei, ln = -1, -1
	if b.iei != nil {
		iei = int(*b.iei)
	}
	if b.len8 != nil {
		ln = int(*b.len8)
	}
	if b.len16 != nil {
		ln = int(*b.len16)
	}
	switch {
	case b.oct1 != nil:
		oct = []int{int(*b.oct1)}
	case b.arr != nil:
		oct = ev.Ints(b.arr)
	default:
		oct = ev.Ints(*b.buf)
	}
	return
}

func (b *binding) callGet() (int, []int) {
	switch {
	case b.g8 != nil:
		return int(b.g8()), none
	case b.g16 != nil:
		return int(b.g16()), none
	}
	r := b.get.Call(nil)[0]
	out := make([]int, r.Len())
	for i := range out {
		out[i] = int(r.Index(i).Uint())
	}
	return -1, out
}

func (b *binding) callSet(v int, vs []int, overlap bool) {
	switch {
	case b.s8 != nil:
		b.s8(uint8(v))
		return
	case b.s16 != nil:
		b.s16(uint16(v))
		return
	}
	var a reflect.Value
	if b.argT.Kind() == reflect.Array {
		if len(vs) != b.argT.Len() {
			ev.Fatal("plumbing: value of %d octets for an argument %s", len(vs), b.argT)
		}
		a = reflect.New(b.argT).Elem()
		for i, x := range vs {
			a.Index(i).SetUint(uint64(x))
		}
	} else if overlap {
		// the argument is a slice of the element's OWN buffer (the first octets, which hold the value): a setter copies with
		// the semantics of copy(), whatever the overlap
		a = reflect.ValueOf((*b.buf)[:len(vs)])
	} else {
		bs := make([]uint8, len(vs))
		for i, x := range vs {
			bs[i] = uint8(x)
		}
		a = reflect.ValueOf(bs)
		defer func() { // the caller re-uses its buffer after the call: a setter stores a COPY of its argument
			for i := range bs {
				bs[i] = ^bs[i]
			}
		}()
	}
	b.set.Call([]reflect.Value{a})
}

// one case: write prior, get, set, read back, get
func (b *binding) run(c *Case, p *Elem, v int, vs []int) Ev {
	overlap := false
	if b.buf != nil && b.argT.Kind() == reflect.Slice && c.Kind != "len" && len(vs) > 0 && len(p.Oct) >= len(vs) {
		h := len(p.Oct)
		for _, x := range vs {
			h = h*31 + x
		}
		if h%3 == 0 { // prior contents whose first octets ARE the value; the value is handed over as that very slice
			p2 := *p
			p2.Oct = append([]int{}, p.Oct...)
			copy(p2.Oct, vs)
			p, overlap = &p2, true
		}
	}
	e := Ev{Op: "Set", Ti: c.Ti, Fi: c.Fi, Type: c.Type, Field: c.Field, Piei: p.Iei, Plen: p.Len, Poct: p.Oct,
		V: v, Vs: vs, G0: -1, Gs0: none, G1: -1, Gs1: none, P1: -1, L: len(p.Oct), Sums: none, Sums2: none}
	b.write(p)
	pi := ev.Guard(func() {
		e.G0, e.Gs0 = b.callGet()
		b.callSet(v, vs, overlap)
	})
	e.Qiei, e.Qlen, e.Qoct = b.read()
	if c.Kind == "len" && b.buf != nil {
		// SetLen of a Buffer-backed element is the allocator (Buffer = make([]uint8, Len)): its effect on the
		// contents is not part of the property; only the new size is logged
		e.L, e.Qoct = len(e.Qoct), none
	}
	if pi == nil {
		pi = ev.Guard(func() { e.G1, e.Gs1 = b.callGet() })
	}
	if pi != nil {
		if !pi.Lib {
			ev.Fatal("panic outside the library in %s: %s", pi.Fn, pi.Kind)
		}
		e.Panic = pi.Fn
	}
	return e
}

func value(kind string, raw json.RawMessage) (int, []int) {
	if kind == "array" || kind == "slice" {
		vs := []int{}
		if err := json.Unmarshal(raw, &vs); err != nil {
			ev.Fatal("bad octet-string value %s: %v", raw, err)
		}
		return -1, vs
	}
	var v int
	if err := json.Unmarshal(raw, &v); err != nil {
		ev.Fatal("bad value %s: %v", raw, err)
	}
	return v, none
}

func load(path string) []Case {
	b, err := os.ReadFile(path)
	if err != nil {
		ev.Fatal("%v", err)
	}
	var cs []Case
	if err := json.Unmarshal(b, &cs); err != nil {
		ev.Fatal("%v", err)
	}
	return cs
}

func replay(in, out string) {
	cs := load(in)
	w := ev.Create(out)
	calls := 0
	for i := range cs {
		c := &cs[i]
		b := bind(c.Type, c.Field)
		for gi := range c.Groups {
			g := &c.Groups[gi]
			for pi := range g.Priors {
				for _, raw := range g.Values {
					v, vs := value(c.Kind, raw)
					w.Emit(b.run(c, &g.Priors[pi], v, vs))
					calls += 3
				}
			}
		}
	}
	w.Close()
	os.Stderr.WriteString("calls " + strconv.Itoa(calls) + "\n")
}

// record: seeded random priors and values for random fields (sizes from the case list)
func record(in, out string, n int) {
	cs := load(in)
	rng := ev.Rng()
	w := ev.Create(out)
	binds := make([]*binding, len(cs))
	for k := 0; k < n; k++ {
		i := rng.Intn(len(cs))
		c := &cs[i]
		if binds[i] == nil {
			binds[i] = bind(c.Type, c.Field)
		}
		b := binds[i]
		g := &c.Groups[rng.Intn(len(c.Groups))]
		L := g.L + rng.Intn(2)*rng.Intn(4)
		if b.buf == nil {
			L = g.L
		} else if c.R1 >= 0 && rng.Intn(4) == 0 {
			// every size from "the field's last row is just present" upwards: an accessor of an optional trailing octet works as
			// soon as that octet exists, whatever else follows
			L = c.R1 + 1 + rng.Intn(maxInt(1, g.L-c.R1+3))
		} else if b.len16 != nil && rng.Intn(6) == 0 {
			// elements with a two-octet length hold more than 255 octets: sizes around the one-octet boundary and beyond
			L = []int{254, 255, 256, 257, 258, 300, 511, 512, 513, 1000, 4096}[rng.Intn(11)]
		}
		p := Elem{Iei: -1, Len: -1, Oct: make([]int, L)}
		fill := func() int {
			switch rng.Intn(6) {
			case 0:
				return 0
			case 1:
				return 255
			}
			return rng.Intn(256)
		}
		if b.iei != nil {
			p.Iei = fill()
		}
		if b.len8 != nil {
			p.Len = fill()
		}
		if b.len16 != nil {
			p.Len = fill()<<8 | fill()
		}
		if (b.len8 != nil || b.len16 != nil) && rng.Intn(3) == 0 {
			p.Len = rng.Intn(20) // the small values a length really takes
		}
		for j := range p.Oct {
			p.Oct[j] = fill()
		}
		v, vs := -1, none
		switch {
		case b.g8 != nil:
			v = fill()
		case b.g16 != nil:
			v = fill()<<8 | fill()
		case b.argT.Kind() == reflect.Array:
			vs = make([]int, b.argT.Len())
		default:
			switch rng.Intn(4) {
			case 0:
				vs = make([]int, L) // exactly the element's present size
			case 1:
				vs = make([]int, maxInt(0, L-1-rng.Intn(3)))
			default:
				vs = make([]int, rng.Intn(L+3))
			}
		}
		for j := range vs {
			vs[j] = fill()
		}
		w.Emit(b.run(c, &p, v, vs))
	}
	w.Close()
	os.Stderr.WriteString("calls " + strconv.Itoa(3*n) + "\n")
}

func maxInt(a, b int) int {
	if a > b {
		return a
	}
	return b
}

// order: a fresh process in which the accessor of case `first` is the FIRST library call, followed by one case of every
// accessor (priors all-ones and 0x55, the case's first value).  Whatever the library computes lazily on first use (tables,
// caches, masks) is then initialised by that accessor: every other accessor must still read and write its own bits.
func order(in, out string, first int) {
	cs := load(in)
	w := ev.Create(out)
	pick := func(c *Case, want int) (*Elem, int, []int) {
		g := &c.Groups[0]
		p := &g.Priors[0]
		for i := range g.Priors {
			all := len(g.Priors[i].Oct) > 0
			for _, o := range g.Priors[i].Oct {
				if o != want {
					all = false
				}
			}
			if all {
				p = &g.Priors[i]
				break
			}
		}
		v, vs := value(c.Kind, g.Values[0])
		return p, v, vs
	}
	calls := 0
	idx := []int{first}
	for i := range cs {
		if i != first {
			idx = append(idx, i)
		}
	}
	for _, i := range idx {
		c := &cs[i]
		if len(c.Groups) == 0 || len(c.Groups[0].Priors) == 0 || len(c.Groups[0].Values) == 0 {
			continue
		}
		b := bind(c.Type, c.Field)
		for _, want := range []int{255, 85} {
			p, v, vs := pick(c, want)
			w.Emit(b.run(c, p, v, vs))
			calls += 3
		}
	}
	w.Close()
	os.Stderr.WriteString("calls " + strconv.Itoa(calls) + "\n")
}

type Job struct {
	Ti     int    `json:"ti"`
	Fi     int    `json:"fi"`
	Type   string `json:"type"`
	Field  string `json:"field"`
	R0     int    `json:"r0"`
	R1     int    `json:"r1"`
	L      int    `json:"L"`
	Values []int  `json:"values"`
	P1s    []int  `json:"p1s"` // first-octet values for two-octet fields, [-1] otherwise
}

var primes = [3]int64{46337, 46327, 46309}

// OtherOctet is the fixed content of the octets a digest does not vary (the same formula is in Trace_C09.tla).
func OtherOctet(j int) int { return (165 + 37*j) % 256 }

func digest(in, out string) {
	b, err := os.ReadFile(in)
	if err != nil {
		ev.Fatal("%v", err)
	}
	var jobs []Job
	if err := json.Unmarshal(b, &jobs); err != nil {
		ev.Fatal("%v", err)
	}
	w := ev.Create(out)
	calls := 0
	for _, j := range jobs {
		bd := bind(j.Type, j.Field)
		if !bd.scalar || j.R0 < 0 {
			ev.Fatal("plumbing: digest job for a non-bit field %s.%s", j.Type, j.Field)
		}
		c := Case{Ti: j.Ti, Fi: j.Fi, Type: j.Type, Field: j.Field}
		p := Elem{Iei: -1, Len: -1, Oct: make([]int, j.L)}
		if bd.iei != nil {
			p.Iei = 90
		}
		if bd.len8 != nil {
			p.Len = 195
		}
		if bd.len16 != nil {
			p.Len = 50085
		}
		for _, v := range j.Values {
			for _, p1 := range j.P1s {
				var s1, s2 [3]int64
				broken := ""
				for x := 0; x < 256 && broken == ""; x++ {
					for k := range p.Oct {
						p.Oct[k] = OtherOctet(k)
					}
					if p1 >= 0 {
						p.Oct[j.R0] = p1
					}
					p.Oct[j.R1] = x
					bd.write(&p)
					var g int
					pi := ev.Guard(func() {
						bd.callSet(v, none, false)
						g, _ = bd.callGet()
					})
					if pi != nil {
						if !pi.Lib {
							ev.Fatal("panic outside the library in %s: %s", pi.Fn, pi.Kind)
						}
						broken = pi.Fn // no table to fold: the sums are void, TLC rejects them and the chunk is expanded
						break
					}
					qiei, qlen, qoct := bd.read()
					if len(qoct) != j.L {
						broken = "resized"
						break
					}
					var main, other int64
					if j.R0 == j.R1 {
						main = int64(qoct[j.R0])*256 + int64(g)
					} else {
						main = (int64(qoct[j.R0])*256+int64(qoct[j.R1]))*1024 + int64(g)
					}
					for k, o := range qoct {
						if k < j.R0 || k > j.R1 {
							other += int64(k+1) * int64(o)
						}
					}
					if qiei >= 0 {
						other += 3 * int64(qiei)
					}
					if qlen >= 0 {
						other += 5 * int64(qlen)
					}
					for i, pr := range primes {
						wt := int64(1 + x)
						s1[i] = (s1[i] + wt*(main%pr)) % pr
						s2[i] = (s2[i] + wt*(other%pr)) % pr
					}
					calls += 2
				}
				if broken != "" {
					s1, s2 = [3]int64{-1, -1, -1}, [3]int64{-1, -1, -1}
				}
				w.Emit(Ev{Op: "Digest", Ti: c.Ti, Fi: c.Fi, Type: c.Type, Field: c.Field, Piei: p.Iei, Plen: p.Len, Poct: none, V: v, Vs: none,
					G0: -1, Gs0: none, Qoct: none, G1: -1, Gs1: none, P1: p1, L: j.L, Panic: broken,
					Sums: []int{int(s1[0]), int(s1[1]), int(s1[2])}, Sums2: []int{int(s2[0]), int(s2[1]), int(s2[2])}})
			}
		}
	}
	w.Close()
	os.Stderr.WriteString("calls " + strconv.Itoa(calls) + "\n")
}

func main() {
	ev.Quiet()
	if len(os.Args) < 4 {
		ev.Fatal("usage: ietypes replay|record|digest <in.json> <out.ndjson> [n]")
	}
	switch os.Args[1] {
	case "replay":
		replay(os.Args[2], os.Args[3])
	case "record":
		n, _ := strconv.Atoi(os.Args[4])
		record(os.Args[2], os.Args[3], n)
	case "order":
		k, _ := strconv.Atoi(os.Args[4])
		order(os.Args[2], os.Args[3], k)
	case "digest":
		digest(os.Args[2], os.Args[3])
	default:
		ev.Fatal("unknown subcommand")
	}
}
