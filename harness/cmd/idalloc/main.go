// Driver for C20: the policy-section ID allocator.
//   idalloc record <out.ndjson>            seeded random histories incl. drain phases
//   idalloc replay <hist.json> <out.ndjson>  histories chosen by TLC (edge replay)
package main

import (
	"encoding/json"
	"os"
	"time"

	"verifharness/internal/ev"

	"github.com/free5gc/nas/uePolicyContainer"
)

type Ev struct {
	Op   string  `json:"op"`
	Min  int64   `json:"min"`
	Max  int64   `json:"max"`
	A    int64   `json:"a"`
	B    int64   `json:"b"`
	ID   int64   `json:"id"`
	Err  bool    `json:"err"`
	Off  int64   `json:"off"`
	Used []int64 `json:"used"`
	Hang bool    `json:"hang"`
}

type Op struct {
	Op string `json:"op"`
	A  int64  `json:"a"`
	B  int64  `json:"b"`
	ID int64  `json:"id"`
}
type Hist struct {
	Min int64 `json:"min"`
	Max int64 `json:"max"`
	Ops []Op  `json:"ops"`
}

type sess struct {
	g     *uePolicyContainer.IDGenerator
	w     *ev.Writer
	snap  bool
	dead  bool // the current history was abandoned after a call that did not return
	hangs int
}

// call runs one allocator call under a watchdog: a call that does not return within 2 s is
// logged as hang (no identifier was produced) and the rest of the history is abandoned.
func (s *sess) call(f func() (int64, error)) (id int64, err error, hang bool) {
	type res struct {
		id  int64
		err error
	}
	ch := make(chan res, 1)
	go func() {
		id, err := f()
		ch <- res{id, err}
	}()
	select {
	case r := <-ch:
		return r.id, r.err, false
	case <-time.After(2 * time.Second):
		s.dead = true
		s.hangs++
		return 0, nil, true
	}
}

func (s *sess) fill(e *Ev) {
	if s.snap {
		_, _, off, used := s.g.VerifSnapshot()
		e.Off, e.Used = off, used
	} else {
		e.Off, e.Used = -1, []int64{}
	}
}

func (s *sess) newGen(min, max int64) {
	if s.hangs >= 3 {
		s.w.Close()
		os.Exit(0) // enough evidence; every leaked call still spins on a CPU
	}
	s.dead = false
	s.g = uePolicyContainer.NewGenerator(min, max)
	s.w.Emit(Ev{Op: "TraceReset", Used: []int64{}})
	e := Ev{Op: "New", Min: min, Max: max}
	s.fill(&e)
	s.w.Emit(e)
}
func (s *sess) alloc() (int64, bool) {
	if s.dead {
		return 0, false
	}
	id, err, hang := s.call(s.g.Allocate)
	e := Ev{Op: "Allocate", ID: id, Err: err != nil || hang, Hang: hang}
	if hang {
		e.Off, e.Used = -1, []int64{}
	} else {
		s.fill(&e)
	}
	s.w.Emit(e)
	return id, err == nil && !hang
}
func (s *sess) allocR(a, b int64) (int64, bool) {
	if s.dead {
		return 0, false
	}
	id, err, hang := s.call(func() (int64, error) { return s.g.Allocate_inRange(a, b) })
	e := Ev{Op: "AllocateInRange", A: a, B: b, ID: id, Err: err != nil || hang, Hang: hang}
	if hang {
		e.Off, e.Used = -1, []int64{}
	} else {
		s.fill(&e)
	}
	s.w.Emit(e)
	return id, err == nil && !hang
}
func (s *sess) free(id int64) {
	if s.dead {
		return
	}
	s.g.FreeID(id)
	e := Ev{Op: "FreeID", ID: id}
	s.fill(&e)
	s.w.Emit(e)
}

func record(out string) {
	rng := ev.Rng()
	s := &sess{w: ev.Create(out), snap: true}
	nh := 300
	if ev.Thorough() {
		nh = 3000
	}
	for h := 0; h < nh; h++ {
		min := int64(rng.Intn(5))
		size := int64(1 + rng.Intn(7))
		switch {
		case h%10 == 3:
			size = int64(1 + rng.Intn(64))
		case h%50 == 7:
			size = int64(200 + rng.Intn(1800))
			min = int64(rng.Intn(70000))
		}
		max := min + size - 1
		s.snap = size <= 64
		s.newGen(min, max)
		live := map[int64]bool{}
		steps := 40 + rng.Intn(40)
		if size > 64 {
			steps = int(size) + 100
		}
		for k := 0; k < steps; k++ {
			switch r := rng.Intn(12); {
			case r < 5:
				if id, ok := s.alloc(); ok {
					live[id] = true
				}
			case r < 7:
				a := int64(rng.Intn(int(size) + 3))
				b := int64(rng.Intn(int(size) + 3))
				switch rng.Intn(6) {
				case 0, 1: // arguments given as identifiers rather than offsets
					a, b = a+min, b+min
				case 2: // negative arguments
					a = -1 - int64(rng.Intn(int(size)+2))
				}
				if id, ok := s.allocR(a, b); ok {
					live[id] = true
				}
			case r < 11:
				var id int64
				if len(live) > 0 && rng.Intn(4) > 0 {
					for x := range live {
						id = x
						break
					}
				} else {
					id = min - 1 + int64(rng.Intn(int(size)+2))
				}
				s.free(id)
				delete(live, id)
			default:
				// drain: allocate until the allocator reports exhaustion (at most size+1 calls)
				for i := int64(0); i <= size; i++ {
					id, ok := s.alloc()
					if !ok {
						break
					}
					live[id] = true
				}
			}
		}
		// final drain so that every freed identifier must come back
		for i := int64(0); i <= size; i++ {
			if _, ok := s.alloc(); !ok {
				break
			}
		}
	}
	s.w.Close()
}

func replay(in, out string) {
	b, err := os.ReadFile(in)
	if err != nil {
		ev.Fatal("%v", err)
	}
	var hs []Hist
	if err := json.Unmarshal(b, &hs); err != nil {
		ev.Fatal("%v", err)
	}
	s := &sess{w: ev.Create(out), snap: true}
	for _, h := range hs {
		s.newGen(h.Min, h.Max)
		for _, o := range h.Ops {
			switch o.Op {
			case "Allocate":
				s.alloc()
			case "AllocateInRange":
				s.allocR(o.A, o.B)
			case "FreeID":
				s.free(o.ID)
			default:
				ev.Fatal("unknown op %q", o.Op)
			}
		}
	}
	s.w.Close()
}

func main() {
	ev.Quiet()
	if len(os.Args) < 3 {
		ev.Fatal("usage")
	}
	switch os.Args[1] {
	case "record":
		record(os.Args[2])
	case "replay":
		replay(os.Args[2], os.Args[3])
	default:
		ev.Fatal("unknown subcommand")
	}
}
