// Driver for C20: the policy-section ID allocator.
//
//	idalloc record <out.ndjson>            seeded random histories incl. drain phases
//	idalloc replay <hist.json> <out.ndjson>  histories chosen by TLC (edge replay)
package main

import (
	"encoding/json"
	"math/rand"
	"os"
	"time"

	"verifharness/internal/ev"

	"github.com/free5gc/nas/uePolicyContainer"
)

type Ev struct {
	Op   string  `json:"op"`
	Min  int64   `json:"min"`
	Max  int64   `json:"max"`
	A    int64   `json:"a"`
	B    int64   `json:"b"`
	ID   int64   `json:"id"`
	Err  bool    `json:"err"`
	Off  int64   `json:"off"`
	Used []int64 `json:"used"`
	Hang bool    `json:"hang"`
}

type Op struct {
	Op string `json:"op"`
	A  int64  `json:"a"`
	B  int64  `json:"b"`
	ID int64  `json:"id"`
}
type Hist struct {
	Min int64 `json:"min"`
	Max int64 `json:"max"`
	Ops []Op  `json:"ops"`
}

type sess struct {
	g     *uePolicyContainer.IDGenerator
	w     *ev.Writer
	snap  bool
	dead  bool // the current history was abandoned after a call that did not return
	hangs int
	// state-guided steering (no verdict): the identifiers this driver holds, compared after every call with the allocator's
	// own table (hook VerifSnapshot).  When they disagree the driver immediately makes the public calls that would expose
	// the disagreement - an in-range allocation at a held identifier the table has lost, a drain to exhaustion when the table
	// keeps an identifier that was freed - and TLC judges those calls like any other.
	mine    map[int64]bool
	min     int64
	size    int64
	probes  int
	probing bool
	guided  bool // steering on (seeded histories of `record` only; replayed TLC behaviours are executed exactly as generated)
}

func (s *sess) steer() {
	if !s.guided || !s.snap || s.dead || s.probing || s.probes >= 6 || s.mine == nil {
		return
	}
	_, _, _, used := s.g.VerifSnapshot()
	tab := map[int64]bool{}
	for _, o := range used {
		tab[o+s.min] = true
	}
	s.probing = true
	defer func() { s.probing = false }()
	for id := range s.mine {
		if !tab[id] { // held by the caller, unknown to the table: ask for exactly this identifier
			s.probes++
			o := id - s.min
			s.allocR(o, o+1)
			return
		}
	}
	for id := range tab {
		if !s.mine[id] && s.size <= 64 { // freed (or never handed out) but still in the table: is it allocatable again?
			s.probes++
			for i := int64(0); i <= s.size; i++ {
				if _, ok := s.alloc(); !ok {
					break
				}
			}
			return
		}
	}
}

// call runs one allocator call under a watchdog: a call that does not return within 2 s is
// logged as hang (no identifier was produced) and the rest of the history is abandoned.
func (s *sess) call(f func() (int64, error)) (id int64, err error, hang bool) {
	type res struct {
		id  int64
		err error
	}
	ch := make(chan res, 1)
	go func() {
		id, err := f()
		ch <- res{id, err}
	}()
	select {
	case r := <-ch:
		return r.id, r.err, false
	case <-time.After(2 * time.Second):
		s.dead = true
		s.hangs++
		return 0, nil, true
	}
}

func (s *sess) fill(e *Ev) {
	if s.snap {
		_, _, off, used := s.g.VerifSnapshot()
		e.Off, e.Used = off, used
	} else {
		e.Off, e.Used = -1, []int64{}
	}
}

func (s *sess) newGen(min, max int64) {
	if s.hangs >= 3 {
		s.w.Close()
		os.Exit(0) // enough evidence; every leaked call still spins on a CPU
	}
	s.dead = false
	s.mine, s.min, s.size, s.probes = map[int64]bool{}, min, max-min+1, 0
	s.g = uePolicyContainer.NewGenerator(min, max)
	s.w.Emit(Ev{Op: "TraceReset", Used: []int64{}})
	e := Ev{Op: "New", Min: min, Max: max}
	s.fill(&e)
	s.w.Emit(e)
}
func (s *sess) alloc() (int64, bool) {
	if s.dead {
		return 0, false
	}
	id, err, hang := s.call(s.g.Allocate)
	e := Ev{Op: "Allocate", ID: id, Err: err != nil || hang, Hang: hang}
	if hang {
		e.Off, e.Used = -1, []int64{}
	} else {
		s.fill(&e)
	}
	s.w.Emit(e)
	if err == nil && !hang {
		s.mine[id] = true
	}
	s.steer()
	return id, err == nil && !hang
}
func (s *sess) allocR(a, b int64) (int64, bool) {
	if s.dead {
		return 0, false
	}
	id, err, hang := s.call(func() (int64, error) { return s.g.Allocate_inRange(a, b) })
	e := Ev{Op: "AllocateInRange", A: a, B: b, ID: id, Err: err != nil || hang, Hang: hang}
	if hang {
		e.Off, e.Used = -1, []int64{}
	} else {
		s.fill(&e)
	}
	s.w.Emit(e)
	if err == nil && !hang {
		s.mine[id] = true
	}
	s.steer()
	return id, err == nil && !hang
}
func (s *sess) free(id int64) {
	if s.dead {
		return
	}
	s.g.FreeID(id)
	e := Ev{Op: "FreeID", ID: id}
	s.fill(&e)
	s.w.Emit(e)
	delete(s.mine, id)
	s.steer()
}

func record(out string) {
	rng := ev.Rng()
	s := &sess{w: ev.Create(out), snap: true, guided: true}
	nh := 300
	if ev.Thorough() {
		nh = 3000
	}
	for h := 0; h < nh; h++ {
		min := int64(rng.Intn(5))
		size := int64(1 + rng.Intn(7))
		switch {
		case h%10 == 3:
			size = int64(1 + rng.Intn(64))
		case h%50 == 7:
			size = int64(200 + rng.Intn(1800))
			min = int64(rng.Intn(70000))
		}
		max := min + size - 1
		s.snap = size <= 64
		s.newGen(min, max)
		live := map[int64]bool{}
		steps := 40 + rng.Intn(40)
		if size > 64 {
			steps = int(size) + 100
		}
		for k := 0; k < steps; k++ {
			switch r := rng.Intn(12); {
			case r < 5:
				if id, ok := s.alloc(); ok {
					live[id] = true
				}
			case r < 7:
				a := int64(rng.Intn(int(size) + 3))
				b := int64(rng.Intn(int(size) + 3))
				switch rng.Intn(6) {
				case 0, 1: // arguments given as identifiers rather than offsets
					a, b = a+min, b+min
				case 2: // negative arguments
					a = -1 - int64(rng.Intn(int(size)+2))
				}
				if id, ok := s.allocR(a, b); ok {
					live[id] = true
				}
			case r < 11:
				var id int64
				if len(live) > 0 && rng.Intn(4) > 0 {
					for x := range live {
						id = x
						break
					}
				} else {
					id = min - 1 + int64(rng.Intn(int(size)+2))
				}
				s.free(id)
				delete(live, id)
			default:
				// drain: allocate until the allocator reports exhaustion (at most size+1 calls)
				for i := int64(0); i <= size; i++ {
					id, ok := s.alloc()
					if !ok {
						break
					}
					live[id] = true
				}
			}
		}
		// final drain so that every freed identifier must come back
		for i := int64(0); i <= size; i++ {
			if _, ok := s.alloc(); !ok {
				break
			}
		}
	}
	wide(s, rng)
	long(s, rng)
	s.w.Close()
}

// wide: allocators spanning MORE than 2^16 (and 2^24) identifiers, driven at the offsets where a narrowed key, index or
// counter would wrap (.., 255, 256, 65535, 65536, 65537, .., size-1): targeted allocate-in-range / free / allocate again
// patterns, then seeded random operations over the same boundary set.  Abstract verdict only (no snapshot of the table).
func wide(s *sess, rng *rand.Rand) {
	type rg struct{ min, size int64 }
	rs := []rg{{0, 70000}, {1, 65537}, {1000, 131073}, {-70000, 70100}, {2147483647 - 66000, 66000}}
	if ev.Thorough() {
		rs = append(rs, rg{5, 16777216 + 9}, rg{0, 65536}, rg{-5, 65541}, rg{100000, 262145})
	}
	for _, r := range rs {
		min, size := r.min, r.size
		s.snap = false
		s.newGen(min, min+size-1)
		var offs []int64
		for _, o := range []int64{0, 1, 2, 254, 255, 256, 257, 65534, 65535, 65536, 65537, 65538, 131071, 131072, 16777215, 16777216, 16777217, size - 2, size - 1} {
			if o >= 0 && o < size {
				offs = append(offs, o)
			}
		}
		live := map[int64]bool{}
		allocR := func(a, b int64) {
			if id, ok := s.allocR(a, b); ok {
				live[id] = true
			}
		}
		for _, o := range offs {
			allocR(o, o+3)
		}
		for i := len(offs) - 1; i >= 0; i-- {
			o := offs[i]
			s.free(min + o)
			delete(live, min+o)
			allocR(0, 5)   // must not hand out a live identifier near the start
			allocR(o, o+3) // the freed one is allocatable again
			if id, ok := s.alloc(); ok {
				live[id] = true
			}
		}
		for k := 0; k < 120; k++ {
			o := offs[rng.Intn(len(offs))] + int64(rng.Intn(3)) - 1
			switch rng.Intn(5) {
			case 0, 1:
				if rng.Intn(3) == 0 {
					allocR(o+min, o+min+int64(rng.Intn(4))) // arguments given as identifiers
				} else {
					allocR(o, o+int64(rng.Intn(4)))
				}
			case 2, 3:
				id := min + o
				if len(live) > 0 && rng.Intn(2) == 0 {
					for x := range live {
						id = x
						break
					}
				}
				s.free(id)
				delete(live, id)
			default:
				if id, ok := s.alloc(); ok {
					live[id] = true
				}
			}
		}
	}
}

// long: thousands of operations on ONE small allocator (allocate / free churn, in-range allocations in between, a drain
// to exhaustion every few hundred steps): behaviour that changes only after N calls (deferred clean-up, counters, caches).
func long(s *sess, rng *rand.Rand) {
	nh, steps := 2, 6000
	if ev.Thorough() {
		nh, steps = 6, 40000
	}
	for h := 0; h < nh; h++ {
		min := int64(h % 2)
		size := int64(8 + 8*(h%3))
		s.snap = true
		s.newGen(min, min+size-1)
		var live []int64
		drop := func(id int64) {
			for i, x := range live {
				if x == id {
					live = append(live[:i], live[i+1:]...)
					return
				}
			}
		}
		for k := 0; k < steps; k++ {
			switch r := rng.Intn(40); {
			case r < 9:
				if id, ok := s.alloc(); ok {
					live = append(live, id)
				}
			case r < 29:
				if len(live) > 0 {
					id := live[rng.Intn(len(live))]
					s.free(id)
					drop(id)
				}
			case r < 39: // as often as the plain allocation: whichever call comes first after N frees may be this one
				a := int64(rng.Intn(int(size)))
				if id, ok := s.allocR(a, a+int64(rng.Intn(int(size)))); ok {
					live = append(live, id)
				}
			default:
				if k%7 == 0 {
					for i := int64(0); i <= size; i++ {
						id, ok := s.alloc()
						if !ok {
							break
						}
						live = append(live, id)
					}
				}
			}
			if k%1024 == 1023 || k%1000 == 999 { // right after a round number of calls: an in-range allocation, then a drain
				a := int64(rng.Intn(int(size)))
				if id, ok := s.allocR(a, a+3); ok {
					live = append(live, id)
				}
				for i := int64(0); i <= size; i++ {
					id, ok := s.alloc()
					if !ok {
						break
					}
					live = append(live, id)
				}
			}
		}
	}
}

func replay(in, out string) {
	b, err := os.ReadFile(in)
	if err != nil {
		ev.Fatal("%v", err)
	}
	var hs []Hist
	if err := json.Unmarshal(b, &hs); err != nil {
		ev.Fatal("%v", err)
	}
	s := &sess{w: ev.Create(out), snap: true}
	for _, h := range hs {
		s.newGen(h.Min, h.Max)
		for _, o := range h.Ops {
			switch o.Op {
			case "Allocate":
				s.alloc()
			case "AllocateInRange":
				s.allocR(o.A, o.B)
			case "FreeID":
				s.free(o.ID)
			default:
				ev.Fatal("unknown op %q", o.Op)
			}
		}
	}
	s.w.Close()
}

func main() {
	ev.Quiet()
	if len(os.Args) < 3 {
		ev.Fatal("usage")
	}
	switch os.Args[1] {
	case "record":
		record(os.Args[2])
	case "replay":
		replay(os.Args[2], os.Args[3])
	default:
		ev.Fatal("unknown subcommand")
	}
}
