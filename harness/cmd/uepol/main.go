// Driver for C18: the UE policy container codec (uePolicyContainer).
//
//	uepol replay <cases.json> <out.ndjson>   cases chosen by TLC (structures, PLMN rows, malformed inputs)
//	uepol record <out.ndjson>                seeded random structures, PLMN pairs and octet strings
//
// The driver is dumb: it builds the structures the way the API intends (Len fields left zero, the
// outer IE length set from the marshalled contents by its setter), calls the real functions under
// ev.Guard and a watchdog, and writes what it saw.  Every verdict is TLC's (Trace_C18).
package main

import (
	"bytes"
	"encoding/json"
	"os"
	"time"

	"verifharness/internal/ev"

	upc "github.com/free5gc/nas/uePolicyContainer"
)

// ---------------------------------------------------------------- structures as chosen by the generator
type PartS struct {
	Ty int   `json:"ty"`
	C  []int `json:"c"`
}
type InsS struct {
	Upsc  int     `json:"upsc"`
	Parts []PartS `json:"parts"`
}
type SubS struct {
	Mcc int    `json:"mcc"`
	Mnc int    `json:"mnc"`
	Ins []InsS `json:"ins"`
}
type ResS struct {
	Upsc  int `json:"upsc"`
	Ord   int `json:"ord"`
	Cause int `json:"cause"`
}
type SubResS struct {
	Mcc int    `json:"mcc"`
	Mnc int    `json:"mnc"`
	Rs  []ResS `json:"rs"`
}
type St struct {
	Pti  int       `json:"pti"`
	Type int       `json:"type"`
	Iei  int       `json:"iei"`
	Subs []SubS    `json:"subs"`
	Srs  []SubResS `json:"srs"`
	Cm   []int     `json:"cm"` // [] or [iei, nssui]
}

// ---------------------------------------------------------------- projections of real structures
type PartP struct {
	Len int   `json:"len"`
	Ty  int   `json:"ty"`
	C   []int `json:"c"`
}
type InsP struct {
	Len   int     `json:"len"`
	Upsc  int     `json:"upsc"`
	Parts []PartP `json:"parts"`
}
type SubP struct {
	Len  int    `json:"len"`
	Plmn []int  `json:"plmn"`
	Ins  []InsP `json:"ins"`
}
type ResP struct {
	Upsc  int `json:"upsc"`
	Ord   int `json:"ord"`
	Cause int `json:"cause"`
}
type SubResP struct {
	Len  int    `json:"len"`
	Plmn []int  `json:"plmn"`
	Rs   []ResP `json:"rs"`
}
type Proj struct {
	Pti   int       `json:"pti"`
	Type  int       `json:"type"`
	Iei   int       `json:"iei"`
	Len   int       `json:"len"`
	Subs  []SubP    `json:"subs"`
	Srs   []SubResP `json:"srs"`
	Cm    []int     `json:"cm"`
	Ins   []InsP    `json:"ins"`
	Parts []PartP   `json:"parts"`
	Rs    []ResP    `json:"rs"`
}

func emptyProj() Proj {
	return Proj{Subs: []SubP{}, Srs: []SubResP{}, Cm: []int{}, Ins: []InsP{}, Parts: []PartP{}, Rs: []ResP{}}
}

func projParts(ps upc.UEPolicySectionContents) []PartP {
	o := []PartP{}
	for _, p := range ps {
		o = append(o, PartP{Len: int(p.GetLen()), Ty: int(p.UEPolicyPartType.GetPartType()), C: ev.Ints(p.GetPartContent())})
	}
	return o
}
func projIns(is upc.UEPolicySectionManagementSubListContents) []InsP {
	o := []InsP{}
	for _, i := range is {
		o = append(o, InsP{Len: int(i.GetLen()), Upsc: int(i.GetUpsc()), Parts: projParts(i.UEPolicySectionContents)})
	}
	return o
}
func deref(p *int) int {
	if p == nil {
		return -1
	}
	return *p
}
func projSubs(ss upc.UEPolicySectionManagementListContent) ([]SubP, [][]int) {
	o, mm := []SubP{}, [][]int{}
	for _, s := range ss {
		o = append(o, SubP{Len: int(s.GetLen()), Plmn: []int{int(s.PlmnDigit1), int(s.PlmnDigit2), int(s.PlmnDigit3)},
			Ins: projIns(s.UEPolicySectionManagementSubListContents)})
		mm = append(mm, []int{deref(s.Mcc), deref(s.Mnc)})
	}
	return o, mm
}
func projRs(rs upc.UEPolicySectionManagementSubResultContents) []ResP {
	o := []ResP{}
	for _, r := range rs {
		o = append(o, ResP{Upsc: int(r.GetUpsc()), Ord: int(r.FailInstructionOrder), Cause: int(r.Cause)})
	}
	return o
}
func projSrs(ss upc.UEPolicySectionManagementResultContent) ([]SubResP, [][]int) {
	o, mm := []SubResP{}, [][]int{}
	for _, s := range ss {
		o = append(o, SubResP{Len: int(s.GetLen()), Plmn: []int{int(s.PlmnDigit1), int(s.PlmnDigit2), int(s.PlmnDigit3)},
			Rs: projRs(s.UEPolicySectionManagementSubResultContents)})
		mm = append(mm, []int{deref(s.Mcc), deref(s.Mnc)})
	}
	return o, mm
}

// ---------------------------------------------------------------- guarded calls
// run f under ev.Guard with a 2 s watchdog; on expiry the goroutine is abandoned
func guarded(f func()) (pi *ev.PanicInfo, hang bool) {
	done := make(chan *ev.PanicInfo, 1)
	go func() { done <- ev.Guard(f) }()
	t := time.NewTimer(2 * time.Second)
	defer t.Stop()
	select {
	case pi = <-done:
		return pi, false
	case <-t.C:
		return nil, true
	}
}

type Obs struct {
	Panic bool   `json:"panic"`
	Lib   bool   `json:"lib"`
	Fn    string `json:"fn"`
	Kind  string `json:"kind"`
	Hang  bool   `json:"hang"`
}

func obs(pi *ev.PanicInfo, hang bool) Obs {
	o := Obs{Hang: hang}
	if pi != nil {
		o.Panic, o.Lib, o.Fn, o.Kind = true, pi.Lib, pi.Fn, pi.Kind
	}
	return o
}

// ---------------------------------------------------------------- decoding entry points
type decRes struct {
	p   Proj
	mm  [][]int
	err bool
}

// the decode pipeline the API intends: the message decoder delivers the IE contents as octets,
// the nested list is recovered by the contents' own UnmarshalBinary
// richMsg: the encoding of a well-formed message of the given type with every optional part present (built through the API)
func richMsg(typ byte) []byte {
	var out []byte
	ev.Guard(func() {
		u := upc.NewUePolDeliverySer()
		u.SetHeaderPTI(0x33)
		u.SetHeaderMessageType(typ)
		switch typ {
		case upc.MsgTypeManageUEPolicyCommand:
			c := upc.NewManageUEPolicyCommand(typ)
			c.PTI.SetPTI(0x33)
			lc, _ := buildSubs([]SubS{{Mcc: 466, Mnc: 92, Ins: []InsS{{Upsc: 7, Parts: []PartS{{Ty: 1, C: []int{9, 8, 7}}}}}}})
			cb, err := lc.MarshalBinary()
			if err != nil {
				return
			}
			c.UEPolicySectionManagementList.SetIei(0x77)
			c.UEPolicySectionManagementList.SetLen(uint16(len(cb)))
			c.UEPolicySectionManagementList.SetUEPolicySectionManagementListContent(cb)
			c.UEPolicyNetworkClassmark = upc.NewUEPolicyNetworkClassmark()
			c.UEPolicyNetworkClassmark.SetIei(0x42)
			_ = c.UEPolicyNetworkClassmark.SetNSSUI(1)
			u.ManageUEPolicyCommand = c
		case upc.MsgTypeManageUEPolicyComplete:
			c := upc.NewManageUEPolicyComplete(typ)
			c.PTI.SetPTI(0x33)
			u.ManageUEPolicyComplete = c
		case upc.MsgTypeManageUEPolicyReject:
			c := upc.NewManageUEPolicyReject(typ)
			c.PTI.SetPTI(0x33)
			rc, _ := buildSrs([]SubResS{{Mcc: 466, Mnc: 92, Rs: []ResS{{Upsc: 7, Ord: 1, Cause: 111}}}})
			cb, err := rc.MarshalBinary()
			if err != nil {
				return
			}
			c.UEPolicySectionManagementResult.SetIei(0x78)
			c.UEPolicySectionManagementResult.SetLen(uint16(len(cb)))
			c.UEPolicySectionManagementResult.SetUEPolicySectionManagementResultContent(cb)
			u.ManageUEPolicyReject = c
		default:
			return
		}
		if b, err := u.UePolDeliverySerEncode(); err == nil {
			out = b
		}
	})
	return out
}

func decodeOp(op string, b []byte) decRes {
	r := decRes{p: emptyProj(), mm: [][]int{}}
	switch op {
	case "DecodeMsg":
		d := upc.NewUePolDeliverySer()
		// every second input (by length) is decoded into a container that has ALREADY received a rich message of the same type
		// (a command with sublists and classmark, a reject with results, a complete): the caller keeps one container between
		// messages, and what it reads afterwards is the new message only.  (Another TYPE would leave that type's stale body
		// pointer behind, about which the property says nothing: no such case is made.)
		if len(b) >= 2 && len(b)%2 == 1 {
			if pre := richMsg(b[1]); pre != nil {
				_ = d.UePolDeliverySerDecode(pre)
			}
		}
		if e := d.UePolDeliverySerDecode(b); e != nil {
			r.err = true
			return r
		}
		r.p.Type = int(d.GetHeaderMessageType())
		r.p.Pti = int(d.GetHeaderPTI())
		switch {
		case d.ManageUEPolicyCommand != nil:
			c := d.ManageUEPolicyCommand
			r.p.Pti = int(c.PTI.GetPTI())
			r.p.Type = int(c.UePolicyDeliveryServiceMsgType.Octet)
			r.p.Iei = int(c.UEPolicySectionManagementList.GetIei())
			r.p.Len = int(c.UEPolicySectionManagementList.GetLen())
			var lc upc.UEPolicySectionManagementListContent
			if e := lc.UnmarshalBinary(c.UEPolicySectionManagementList.GetUEPolicySectionManagementListContent()); e != nil {
				r.err = true
				return r
			}
			r.p.Subs, r.mm = projSubs(lc)
			if c.UEPolicyNetworkClassmark != nil {
				k := c.UEPolicyNetworkClassmark
				r.p.Cm = []int{int(k.GetIei()), int(k.GetLen()), int(k.GetNSSUI()), int(k.GetSpare())}
			}
		case d.ManageUEPolicyComplete != nil:
			c := d.ManageUEPolicyComplete
			r.p.Pti = int(c.PTI.GetPTI())
			r.p.Type = int(c.UePolicyDeliveryServiceMsgType.Octet)
		case d.ManageUEPolicyReject != nil:
			c := d.ManageUEPolicyReject
			r.p.Pti = int(c.PTI.GetPTI())
			r.p.Type = int(c.UePolicyDeliveryServiceMsgType.Octet)
			r.p.Iei = int(c.UEPolicySectionManagementResult.GetIei())
			r.p.Len = int(c.UEPolicySectionManagementResult.GetLen())
			var rc upc.UEPolicySectionManagementResultContent
			if e := rc.UnmarshalBinary(c.UEPolicySectionManagementResult.GetUEPolicySectionManagementResultContent()); e != nil {
				r.err = true
				return r
			}
			r.p.Srs, r.mm = projSrs(rc)
		}
	case "ListUnmarshal":
		var l upc.UEPolicySectionManagementList
		if e := l.UnmarshalBinary(bytes.NewBuffer(b)); e != nil {
			r.err = true
			return r
		}
		r.p.Iei, r.p.Len = int(l.GetIei()), int(l.GetLen())
		var lc upc.UEPolicySectionManagementListContent
		if e := lc.UnmarshalBinary(l.GetUEPolicySectionManagementListContent()); e != nil {
			r.err = true
			return r
		}
		r.p.Subs, r.mm = projSubs(lc)
	case "ContentUnmarshal":
		var lc upc.UEPolicySectionManagementListContent
		if e := lc.UnmarshalBinary(b); e != nil {
			r.err = true
			return r
		}
		r.p.Subs, r.mm = projSubs(lc)
	case "InstrsUnmarshal":
		var is upc.UEPolicySectionManagementSubListContents
		if e := is.UnmarshalBinary(b); e != nil {
			r.err = true
			return r
		}
		r.p.Ins = projIns(is)
	case "PartsUnmarshal":
		var ps upc.UEPolicySectionContents
		if e := ps.UnmarshalBinary(b); e != nil {
			r.err = true
			return r
		}
		r.p.Parts = projParts(ps)
	case "ResultUnmarshal":
		var l upc.UEPolicySectionManagementResult
		if e := l.UnmarshalBinary(bytes.NewBuffer(b)); e != nil {
			r.err = true
			return r
		}
		r.p.Iei, r.p.Len = int(l.GetIei()), int(l.GetLen())
		var rc upc.UEPolicySectionManagementResultContent
		if e := rc.UnmarshalBinary(l.GetUEPolicySectionManagementResultContent()); e != nil {
			r.err = true
			return r
		}
		r.p.Srs, r.mm = projSrs(rc)
	case "RContentUnmarshal":
		var rc upc.UEPolicySectionManagementResultContent
		if e := rc.UnmarshalBinary(b); e != nil {
			r.err = true
			return r
		}
		r.p.Srs, r.mm = projSrs(rc)
	case "ResultsUnmarshal":
		var rs upc.UEPolicySectionManagementSubResultContents
		if e := rs.UnmarshalBinary(b); e != nil {
			r.err = true
			return r
		}
		r.p.Rs = projRs(rs)
	default:
		ev.Fatal("unknown decode op %q", op)
	}
	return r
}

var allOps = []string{"DecodeMsg", "ListUnmarshal", "ContentUnmarshal", "InstrsUnmarshal", "PartsUnmarshal",
	"ResultUnmarshal", "RContentUnmarshal", "ResultsUnmarshal"}

type DecEv struct {
	Op   string  `json:"op"`
	In   []int   `json:"in"`
	Err  bool    `json:"err"`
	Proj Proj    `json:"proj"`
	Mm   [][]int `json:"mm"`
	Obs
}

// an entry point that has hung three times is not called again in this process (each hang leaves a
// spinning goroutine behind and costs the watchdog period; three observations are enough for a verdict)
var hangs = map[string]int{}

func (s *sess) decode(op string, b []byte) {
	if hangs[op] >= 3 {
		return
	}
	in := append([]byte{}, b...) // the call gets its own copy
	var r decRes
	pi, hang := guarded(func() { r = decodeOp(op, in) })
	if hang {
		hangs[op]++
	}
	e := DecEv{Op: op, In: ev.Ints(b), Obs: obs(pi, hang), Proj: emptyProj(), Mm: [][]int{}}
	if pi == nil && !hang {
		e.Err, e.Proj, e.Mm = r.err, r.p, r.mm
	}
	s.w.Emit(e)
}

// ---------------------------------------------------------------- building through the API
type BuildEv struct {
	Op    string  `json:"op"`
	St    St      `json:"st"`
	Perr  bool    `json:"perr"` // a SetPlmnDigit call reported an error
	Eerr  bool    `json:"eerr"`
	Enc   []int   `json:"enc"`
	Built Proj    `json:"built"`
	Derr  bool    `json:"derr"`
	Dec   Proj    `json:"dec"`
	Dmm   [][]int `json:"dmm"`
	Bmm   [][]int `json:"bmm"`  // MCC / MNC the BUILT entries report (read after the whole list was built and encoded)
	Lerr  bool    `json:"lerr"` // stand-alone IE MarshalBinary / UnmarshalBinary
	Lenc  []int   `json:"lenc"`
	Ldec  Proj    `json:"ldec"`
	Obs
}

func buildSubs(ss []SubS) (upc.UEPolicySectionManagementListContent, bool) {
	var lc upc.UEPolicySectionManagementListContent
	perr := false
	// lists whose first PLMN has an even MCC are built the way a loop with ONE working variable does it: the same sublist value
	// is given the next PLMN and fresh contents and appended again (AppendSublist stores by value) - earlier entries keep theirs
	reuse := len(ss) >= 2 && ss[0].Mcc%2 == 0
	var work upc.UEPolicySectionManagementSubList
	for _, s := range ss {
		var fresh upc.UEPolicySectionManagementSubList
		sl := &fresh
		if reuse {
			sl = &work
			sl.UEPolicySectionManagementSubListContents = nil
		}
		if e := sl.SetPlmnDigit(s.Mcc, s.Mnc); e != nil {
			perr = true
		}
		for _, i := range s.Ins {
			var in upc.Instruction
			in.SetUpsc(uint16(i.Upsc))
			for _, p := range i.Parts {
				var pt upc.UEPolicyPart
				pt.UEPolicyPartType.SetPartType(byte(p.Ty))
				pt.SetPartContent(ev.Bytes(p.C))
				in.UEPolicySectionContents.AppendUEPolicyPart(&pt)
			}
			sl.UEPolicySectionManagementSubListContents.AppendInstruction(in)
		}
		lc.AppendSublist(*sl)
	}
	return lc, perr
}

func buildSrs(ss []SubResS) (upc.UEPolicySectionManagementResultContent, bool) {
	var rc upc.UEPolicySectionManagementResultContent
	perr := false
	reuse := len(ss) >= 2 && ss[0].Mcc%2 == 0 // as in buildSubs: one working variable for all entries
	var work upc.UEPolicySectionManagementSubResult
	for _, s := range ss {
		var fresh upc.UEPolicySectionManagementSubResult
		sr := &fresh
		if reuse {
			sr = &work
			sr.UEPolicySectionManagementSubResultContents = nil
		}
		if e := sr.SetPlmnDigit(s.Mcc, s.Mnc); e != nil {
			perr = true
		}
		for _, r := range s.Rs {
			x := upc.NewResult()
			x.SetUpsc(uint16(r.Upsc))
			x.FailInstructionOrder = uint16(r.Ord)
			x.Cause = uint8(r.Cause)
			sr.UEPolicySectionManagementSubResultContents.AppendResult(x)
		}
		rc.AppendSublist(*sr)
	}
	return rc, perr
}

// live is ONE structure that stays alive between calls: built once, encoded, grown, encoded again
type live struct {
	lc   upc.UEPolicySectionManagementListContent
	rc   upc.UEPolicySectionManagementResultContent
	perr bool
}

func newLive(st St) *live {
	L := &live{}
	switch uint8(st.Type) {
	case upc.MsgTypeManageUEPolicyCommand:
		L.lc, L.perr = buildSubs(st.Subs)
	case upc.MsgTypeManageUEPolicyReject:
		L.rc, L.perr = buildSrs(st.Srs)
	}
	return L
}

func (s *sess) build(st St) []byte {
	var L *live
	if pi, hang := guarded(func() { L = newLive(st) }); pi != nil || hang {
		e := BuildEv{Op: "Build", St: st, Enc: []int{}, Built: emptyProj(), Dec: emptyProj(), Dmm: [][]int{}, Bmm: [][]int{}, Lenc: []int{}, Ldec: emptyProj(), Obs: obs(pi, hang)}
		s.w.Emit(e)
		return nil
	}
	return s.encode("Build", st, L)
}

// encode puts the live contents into a message the way the API intends (contents marshalled, IE length
// set from them with its setter), encodes the message and decodes the octets again
func (s *sess) encode(opname string, st St, L *live) []byte {
	if hangs["Build"] >= 3 {
		return nil
	}
	e := BuildEv{Op: opname, St: st, Enc: []int{}, Built: emptyProj(), Dec: emptyProj(), Dmm: [][]int{}, Bmm: [][]int{}, Lenc: []int{}, Ldec: emptyProj()}
	var enc []byte
	pi, hang := guarded(func() {
		u := upc.NewUePolDeliverySer()
		u.SetHeaderPTI(uint8(st.Pti))
		u.SetHeaderMessageType(uint8(st.Type))
		b := emptyProj()
		b.Pti, b.Type = st.Pti, st.Type
		var lenc []byte
		var lerr error
		ldec := emptyProj()
		switch uint8(st.Type) {
		case upc.MsgTypeManageUEPolicyCommand:
			c := upc.NewManageUEPolicyCommand(uint8(st.Type))
			c.PTI.SetPTI(uint8(st.Pti))
			e.Perr = L.perr
			cb, err := L.lc.MarshalBinary()
			if err != nil {
				e.Eerr = true
				return
			}
			c.UEPolicySectionManagementList.SetIei(uint8(st.Iei))
			c.UEPolicySectionManagementList.SetLen(uint16(len(cb)))
			c.UEPolicySectionManagementList.SetUEPolicySectionManagementListContent(cb)
			if len(st.Cm) == 2 {
				c.UEPolicyNetworkClassmark = upc.NewUEPolicyNetworkClassmark()
				c.UEPolicyNetworkClassmark.SetIei(uint8(st.Cm[0]))
				if err := c.UEPolicyNetworkClassmark.SetNSSUI(uint8(st.Cm[1])); err != nil {
					e.Eerr = true
					return
				}
			}
			u.ManageUEPolicyCommand = c
			b.Iei, b.Len = int(c.UEPolicySectionManagementList.GetIei()), int(c.UEPolicySectionManagementList.GetLen())
			b.Subs, e.Bmm = projSubs(L.lc)
			if k := c.UEPolicyNetworkClassmark; k != nil {
				b.Cm = []int{int(k.GetIei()), int(k.GetLen()), int(k.GetNSSUI()), int(k.GetSpare())}
			}
			// the IE's own MarshalBinary / UnmarshalBinary
			lenc, lerr = c.UEPolicySectionManagementList.MarshalBinary()
			if lerr == nil {
				var l2 upc.UEPolicySectionManagementList
				if lerr = l2.UnmarshalBinary(bytes.NewBuffer(lenc)); lerr == nil {
					ldec.Iei, ldec.Len = int(l2.GetIei()), int(l2.GetLen())
					var lc2 upc.UEPolicySectionManagementListContent
					if lerr = lc2.UnmarshalBinary(l2.GetUEPolicySectionManagementListContent()); lerr == nil {
						ldec.Subs, _ = projSubs(lc2)
					}
				}
			}
		case upc.MsgTypeManageUEPolicyComplete:
			c := upc.NewManageUEPolicyComplete(uint8(st.Type))
			c.PTI.SetPTI(uint8(st.Pti))
			u.ManageUEPolicyComplete = c
		case upc.MsgTypeManageUEPolicyReject:
			c := upc.NewManageUEPolicyReject(uint8(st.Type))
			c.PTI.SetPTI(uint8(st.Pti))
			e.Perr = L.perr
			cb, err := L.rc.MarshalBinary()
			if err != nil {
				e.Eerr = true
				return
			}
			c.UEPolicySectionManagementResult.SetIei(uint8(st.Iei))
			c.UEPolicySectionManagementResult.SetLen(uint16(len(cb)))
			c.UEPolicySectionManagementResult.SetUEPolicySectionManagementResultContent(cb)
			u.ManageUEPolicyReject = c
			b.Iei, b.Len = int(c.UEPolicySectionManagementResult.GetIei()), int(c.UEPolicySectionManagementResult.GetLen())
			b.Srs, e.Bmm = projSrs(L.rc)
			lenc, lerr = c.UEPolicySectionManagementResult.MarshalBinary()
			if lerr == nil {
				var l2 upc.UEPolicySectionManagementResult
				if lerr = l2.UnmarshalBinary(bytes.NewBuffer(lenc)); lerr == nil {
					ldec.Iei, ldec.Len = int(l2.GetIei()), int(l2.GetLen())
					var rc2 upc.UEPolicySectionManagementResultContent
					if lerr = rc2.UnmarshalBinary(l2.GetUEPolicySectionManagementResultContent()); lerr == nil {
						ldec.Srs, _ = projSrs(rc2)
					}
				}
			}
		}
		out, err := u.UePolDeliverySerEncode()
		if err != nil {
			e.Eerr = true
			return
		}
		enc = out
		disturbEncode(out) // the result is HELD while other messages go through the encoder; it is read only afterwards
		e.Enc, e.Built = ev.Ints(out), b
		e.Lerr, e.Lenc, e.Ldec = lerr != nil, ev.Ints(lenc), ldec
		r := decodeOp("DecodeMsg", append([]byte{}, out...))
		e.Derr, e.Dec, e.Dmm = r.err, r.p, r.mm
	})
	e.Obs = obs(pi, hang)
	if hang {
		hangs["Build"]++
	}
	if pi != nil || hang { // partial results of an aborted call are not observations
		e.Enc, e.Built, e.Dec, e.Dmm, e.Bmm, e.Lenc, e.Ldec = []int{}, emptyProj(), emptyProj(), [][]int{}, [][]int{}, []int{}, emptyProj()
		enc = nil
	}
	s.w.Emit(e)
	return enc
}

// disturbEncode: while `held` (the slice an encode call returned, not a copy) is kept, two other messages are encoded: a
// MANAGE UE POLICY COMPLETE and a message of the held one's own type and size with every content octet inverted.
// An encoding is a value: a result that is a view into pooled or cached storage has changed by the time it is read.
func disturbEncode(held []byte) {
	ev.Guard(func() {
		d := upc.NewUePolDeliverySer()
		d.SetHeaderMessageType(upc.MsgTypeManageUEPolicyComplete)
		d.ManageUEPolicyComplete = upc.NewManageUEPolicyComplete(upc.MsgTypeManageUEPolicyComplete)
		d.ManageUEPolicyComplete.PTI.SetPTI(0xa5)
		_, _ = d.UePolDeliverySerEncode()
		x := upc.NewUePolDeliverySer()
		if x.UePolDeliverySerDecode(append([]byte{}, held...)) != nil {
			return
		}
		inv := func(b []byte) []byte {
			o := make([]byte, len(b))
			for i := range b {
				o[i] = ^b[i]
			}
			return o
		}
		if c := x.ManageUEPolicyCommand; c != nil {
			c.UEPolicySectionManagementList.SetUEPolicySectionManagementListContent(inv(c.UEPolicySectionManagementList.GetUEPolicySectionManagementListContent()))
		}
		if c := x.ManageUEPolicyReject; c != nil {
			c.UEPolicySectionManagementResult.SetUEPolicySectionManagementResultContent(inv(c.UEPolicySectionManagementResult.GetUEPolicySectionManagementResultContent()))
		}
		_, _ = x.UePolDeliverySerEncode()
	})
}

// ---------------------------------------------------------------- histories on one live object
type HOp struct {
	Op    string          `json:"op"` // enc | grow | adopt
	Level string          `json:"level"`
	S     int             `json:"s"` // 1-based sublist / subresult
	I     int             `json:"i"` // 1-based instruction
	Item  json.RawMessage `json:"item"`
}
type HistEv struct {
	Op    string          `json:"op"` // TraceReset | HNew | HGrow | HAdopt
	HKind string          `json:"hkind"`
	Val   json.RawMessage `json:"val"`
	Level string          `json:"level"`
	S     int             `json:"s"`
	I     int             `json:"i"`
	Item  json.RawMessage `json:"item"`
	Ok    bool            `json:"ok"`
	Obs
}

var nullJSON = json.RawMessage("[]")

const histPti, histIei = 9, 77

func (s *sess) history(kind string, val json.RawMessage, ops []HOp) {
	s.w.Emit(HistEv{Op: "TraceReset", HKind: kind, Val: nullJSON, Item: nullJSON})
	st := St{Pti: histPti, Iei: histIei, Subs: []SubS{}, Srs: []SubResS{}, Cm: []int{}}
	full := st
	if kind == "list" {
		st.Type, full.Type = 1, 1
		if err := json.Unmarshal(val, &full.Subs); err != nil {
			ev.Fatal("history val: %v", err)
		}
	} else {
		st.Type, full.Type = 3, 3
		if err := json.Unmarshal(val, &full.Srs); err != nil {
			ev.Fatal("history val: %v", err)
		}
	}
	normSt(&full)
	var L *live
	pi, hang := guarded(func() { L = newLive(full) })
	s.w.Emit(HistEv{Op: "HNew", HKind: kind, Val: val, Item: nullJSON, Ok: pi == nil && !hang && !L.perr, Obs: obs(pi, hang)})
	if pi != nil || hang {
		return
	}
	var wire []byte
	for _, o := range ops {
		switch o.Op {
		case "enc":
			wire = s.encode("HEnc", st, L)
			if wire == nil {
				return // the encoding failed: the event says so, the history ends
			}
		case "adopt":
			// the received octets are decoded and the decoded structure becomes the live one
			ok := false
			pi, hang := guarded(func() {
				d := upc.NewUePolDeliverySer()
				if e := d.UePolDeliverySerDecode(append([]byte{}, wire...)); e != nil {
					return
				}
				N := &live{}
				if kind == "list" && d.ManageUEPolicyCommand != nil {
					if e := N.lc.UnmarshalBinary(d.ManageUEPolicyCommand.UEPolicySectionManagementList.GetUEPolicySectionManagementListContent()); e != nil {
						return
					}
				} else if kind == "result" && d.ManageUEPolicyReject != nil {
					if e := N.rc.UnmarshalBinary(d.ManageUEPolicyReject.UEPolicySectionManagementResult.GetUEPolicySectionManagementResultContent()); e != nil {
						return
					}
				} else {
					return
				}
				L, ok = N, true
			})
			s.w.Emit(HistEv{Op: "HAdopt", HKind: kind, Val: nullJSON, Item: nullJSON, Ok: ok, Obs: obs(pi, hang)})
			if !ok {
				return
			}
		case "grow":
			ok := false
			pi, hang := guarded(func() {
				switch o.Level {
				case "part":
					var p PartS
					if json.Unmarshal(o.Item, &p) != nil || o.S < 1 || o.S > len(L.lc) || o.I < 1 || o.I > len(L.lc[o.S-1].UEPolicySectionManagementSubListContents) {
						return
					}
					var pt upc.UEPolicyPart
					pt.UEPolicyPartType.SetPartType(byte(p.Ty))
					pt.SetPartContent(ev.Bytes(p.C))
					L.lc[o.S-1].UEPolicySectionManagementSubListContents[o.I-1].UEPolicySectionContents.AppendUEPolicyPart(&pt)
				case "ins":
					var i InsS
					if json.Unmarshal(o.Item, &i) != nil || o.S < 1 || o.S > len(L.lc) {
						return
					}
					one, _ := buildSubs([]SubS{{Mcc: 100, Mnc: 10, Ins: []InsS{i}}})
					L.lc[o.S-1].UEPolicySectionManagementSubListContents.AppendInstruction(one[0].UEPolicySectionManagementSubListContents[0])
				case "sub":
					var x SubS
					if json.Unmarshal(o.Item, &x) != nil {
						return
					}
					one, perr := buildSubs([]SubS{x})
					if perr {
						return
					}
					L.lc.AppendSublist(one[0])
				case "res":
					var r ResS
					if json.Unmarshal(o.Item, &r) != nil || o.S < 1 || o.S > len(L.rc) {
						return
					}
					one, _ := buildSrs([]SubResS{{Mcc: 100, Mnc: 10, Rs: []ResS{r}}})
					L.rc[o.S-1].UEPolicySectionManagementSubResultContents.AppendResult(one[0].UEPolicySectionManagementSubResultContents[0])
				case "sres":
					var x SubResS
					if json.Unmarshal(o.Item, &x) != nil {
						return
					}
					one, perr := buildSrs([]SubResS{x})
					if perr {
						return
					}
					L.rc.AppendSublist(one[0])
				default:
					return
				}
				ok = true
			})
			// a step the live structure does not admit (the element it names is missing - lost by an earlier adopt, say) is an
			// observation (ok = false); the trace specification knows whether the abstract value admits the step
			s.w.Emit(HistEv{Op: "HGrow", HKind: kind, Val: nullJSON, Level: o.Level, S: o.S, I: o.I, Item: o.Item, Ok: ok, Obs: obs(pi, hang)})
			if !ok {
				return
			}
		default:
			ev.Fatal("unknown history op %q", o.Op)
		}
	}
}

// ---------------------------------------------------------------- PLMN rows
type PlmnEv struct {
	Op    string  `json:"op"`
	Which string  `json:"which"` // sub | res
	Axis  string  `json:"axis"`  // mcc: fixed is the MCC and vary the MNCs; mnc: the other way round
	Fixed int     `json:"fixed"`
	Vary  []int   `json:"vary"`
	Errs  []bool  `json:"errs"`
	Octs  [][]int `json:"octs"` // PlmnDigit1..3 after SetPlmnDigit
	Rt    [][]int `json:"rt"`   // Mcc, Mnc recovered by marshal + unmarshal
	Rto   [][]int `json:"rto"`  // PLMN octets recovered by marshal + unmarshal
	Obs
}

func (s *sess) plmnRow(which, axis string, fixed int, vary []int) {
	if hangs["PlmnRow"] >= 3 {
		return
	}
	e := PlmnEv{Op: "PlmnRow", Which: which, Axis: axis, Fixed: fixed, Vary: vary, Errs: []bool{}, Octs: [][]int{}, Rt: [][]int{}, Rto: [][]int{}}
	pi, hang := guarded(func() {
		for vi, v := range vary {
			mcc, mnc := fixed, v
			if axis == "mnc" {
				mcc, mnc = v, fixed
			}
			// every second entry: the object already carries ANOTHER PLMN (2- and 3-digit MNCs alternate) when the row's PLMN is set
			prevM := [][2]int{{310, 410}, {208, 93}, {901, 70}, {999, 999}}[(vi/2)%4]
			if which == "sub" {
				var sl upc.UEPolicySectionManagementSubList
				if vi%2 == 1 {
					_ = sl.SetPlmnDigit(prevM[0], prevM[1])
				}
				err := sl.SetPlmnDigit(mcc, mnc)
				e.Errs = append(e.Errs, err != nil)
				e.Octs = append(e.Octs, []int{int(sl.PlmnDigit1), int(sl.PlmnDigit2), int(sl.PlmnDigit3)})
				rt, rto := []int{-1, -1}, []int{-1, -1, -1}
				if err == nil {
					if b, e1 := sl.MarshalBinary(); e1 == nil {
						var lc upc.UEPolicySectionManagementListContent
						if e2 := lc.UnmarshalBinary(b); e2 == nil && len(lc) == 1 {
							rt = []int{deref(lc[0].Mcc), deref(lc[0].Mnc)}
							rto = []int{int(lc[0].PlmnDigit1), int(lc[0].PlmnDigit2), int(lc[0].PlmnDigit3)}
						}
					}
				}
				e.Rt, e.Rto = append(e.Rt, rt), append(e.Rto, rto)
			} else {
				var sr upc.UEPolicySectionManagementSubResult
				if vi%2 == 1 {
					_ = sr.SetPlmnDigit(prevM[0], prevM[1])
				}
				err := sr.SetPlmnDigit(mcc, mnc)
				e.Errs = append(e.Errs, err != nil)
				e.Octs = append(e.Octs, []int{int(sr.PlmnDigit1), int(sr.PlmnDigit2), int(sr.PlmnDigit3)})
				rt, rto := []int{-1, -1}, []int{-1, -1, -1}
				if err == nil {
					if b, e1 := sr.MarshalBinary(); e1 == nil {
						var rc upc.UEPolicySectionManagementResultContent
						if e2 := rc.UnmarshalBinary(b); e2 == nil && len(rc) == 1 {
							rt = []int{deref(rc[0].Mcc), deref(rc[0].Mnc)}
							rto = []int{int(rc[0].PlmnDigit1), int(rc[0].PlmnDigit2), int(rc[0].PlmnDigit3)}
						}
					}
				}
				e.Rt, e.Rto = append(e.Rt, rt), append(e.Rto, rto)
			}
		}
	})
	e.Obs = obs(pi, hang)
	if hang {
		hangs["PlmnRow"]++
	}
	if pi != nil || hang {
		e.Errs, e.Octs, e.Rt, e.Rto = []bool{}, [][]int{}, [][]int{}, [][]int{}
	}
	s.w.Emit(e)
	// a row that panicked names no (MCC, MNC): each of its entries is observed once more as a row of its own
	if pi != nil && !hang && len(vary) > 1 {
		for _, v := range vary {
			s.plmnRow(which, axis, fixed, []int{v})
		}
	}
}

// ---------------------------------------------------------------- cases
type Job struct {
	Ops     []string `json:"ops"`
	Base    []int    `json:"base"`
	Cuts    []int    `json:"cuts"`    // decode base[:cut]
	Patches [][]int  `json:"patches"` // [pos0, value]: the 16-bit field at offset pos0 replaced by value
}
type Case struct {
	K     string          `json:"k"` // build | plmn | dec | hist
	Kind  string          `json:"kind"`
	Val   json.RawMessage `json:"val"`
	Ops   []HOp           `json:"ops"`
	St    *St             `json:"st"`
	Jobs  []Job           `json:"jobs"`
	Which string          `json:"which"`
	Axis  string          `json:"axis"`
	Fixed int             `json:"fixed"`
	Vary  []int           `json:"vary"`
}

type sess struct{ w *ev.Writer }

func (s *sess) runJobs(jobs []Job) {
	for _, j := range jobs {
		base := ev.Bytes(j.Base)
		for _, c := range j.Cuts {
			if c < 0 || c > len(base) {
				ev.Fatal("cut %d outside base of %d octets", c, len(base))
			}
			for _, op := range j.Ops {
				s.decode(op, base[:c])
			}
		}
		for _, p := range j.Patches {
			if len(p) != 2 || p[0] < 0 || p[0]+1 >= len(base) {
				ev.Fatal("bad patch %v for base of %d octets", p, len(base))
			}
			m := append([]byte{}, base...)
			m[p[0]], m[p[0]+1] = byte(p[1]>>8), byte(p[1])
			for _, op := range j.Ops {
				s.decode(op, m)
			}
		}
	}
}

func normSt(st *St) {
	if st.Subs == nil {
		st.Subs = []SubS{}
	}
	if st.Srs == nil {
		st.Srs = []SubResS{}
	}
	if st.Cm == nil {
		st.Cm = []int{}
	}
	for i := range st.Subs {
		if st.Subs[i].Ins == nil {
			st.Subs[i].Ins = []InsS{}
		}
		for j := range st.Subs[i].Ins {
			if st.Subs[i].Ins[j].Parts == nil {
				st.Subs[i].Ins[j].Parts = []PartS{}
			}
			for k := range st.Subs[i].Ins[j].Parts {
				if st.Subs[i].Ins[j].Parts[k].C == nil {
					st.Subs[i].Ins[j].Parts[k].C = []int{}
				}
			}
		}
	}
	for i := range st.Srs {
		if st.Srs[i].Rs == nil {
			st.Srs[i].Rs = []ResS{}
		}
	}
}

func replay(in, out string) {
	b, err := os.ReadFile(in)
	if err != nil {
		ev.Fatal("%v", err)
	}
	var cs []Case
	if err := json.Unmarshal(b, &cs); err != nil {
		ev.Fatal("%v", err)
	}
	s := &sess{w: ev.Create(out)}
	for _, c := range cs {
		switch c.K {
		case "build":
			if c.St == nil {
				ev.Fatal("build case without st")
			}
			normSt(c.St)
			s.build(*c.St)
			s.runJobs(c.Jobs)
		case "dec":
			s.runJobs(c.Jobs)
		case "hist":
			s.history(c.Kind, c.Val, c.Ops)
		case "plmn":
			if c.Vary == nil {
				c.Vary = []int{}
			}
			s.plmnRow(c.Which, c.Axis, c.Fixed, c.Vary)
		default:
			ev.Fatal("unknown case kind %q", c.K)
		}
	}
	s.w.Close()
}

// ---------------------------------------------------------------- recorded (driver-chosen, seeded) runs
func bigParts() []int {
	if ev.Thorough() {
		return []int{32750, 32761, 32768, 40000, 65000, 65519}
	}
	return []int{32761, 33000}
}

func record(out string) {
	rng := ev.Rng()
	s := &sess{w: ev.Create(out)}
	n := 400
	if ev.Thorough() {
		n = 4000
	}
	rb := func(k int) []int {
		o := make([]int, k)
		for i := range o {
			o[i] = rng.Intn(256)
		}
		return o
	}
	content := func() []int {
		switch rng.Intn(12) {
		case 0:
			return rb(300)
		case 1, 2, 3:
			return []int{}
		default:
			return rb(1 + rng.Intn(6))
		}
	}
	plmn := func() (int, int) { return 100 + rng.Intn(900), 10 + rng.Intn(990) }
	var encs [][]byte
	for i := 0; i < n; i++ {
		st := St{Pti: rng.Intn(256), Type: 1 + rng.Intn(3), Iei: rng.Intn(256), Subs: []SubS{}, Srs: []SubResS{}, Cm: []int{}}
		if rng.Intn(25) == 0 {
			st.Type = []int{0, 4, 5, 6, 7, 200, 255}[rng.Intn(7)]
		}
		switch st.Type {
		case 1:
			for a := rng.Intn(4); a > 0; a-- {
				sub := SubS{Ins: []InsS{}}
				sub.Mcc, sub.Mnc = plmn()
				for b := rng.Intn(4); b > 0; b-- {
					in := InsS{Upsc: rng.Intn(65536), Parts: []PartS{}}
					for c := rng.Intn(4); c > 0; c-- {
						in.Parts = append(in.Parts, PartS{Ty: rng.Intn(256), C: content()})
					}
					sub.Ins = append(sub.Ins, in)
				}
				st.Subs = append(st.Subs, sub)
			}
			if rng.Intn(3) == 0 {
				st.Cm = []int{rng.Intn(256), rng.Intn(2)}
			}
		case 3:
			for a := rng.Intn(4); a > 0; a-- {
				sr := SubResS{Rs: []ResS{}}
				sr.Mcc, sr.Mnc = plmn()
				for b := rng.Intn(4); b > 0; b-- {
					sr.Rs = append(sr.Rs, ResS{Upsc: rng.Intn(65536), Ord: rng.Intn(65536), Cause: 111})
				}
				st.Srs = append(st.Srs, sr)
			}
		}
		if enc := s.build(st); len(enc) > 0 && len(enc) < 200 {
			encs = append(encs, enc)
		}
	}
	// one part so large that the lengths of part, instruction and sublist cross 2^15 (a signed 16-bit length would be negative)
	// and, in thorough, approach 2^16
	for _, n := range bigParts() {
		c := make([]int, n)
		for i := range c {
			c[i] = (i*7 + 3) % 256
		}
		s.build(St{Pti: 1, Type: 1, Iei: 0x77, Srs: []SubResS{}, Cm: []int{},
			Subs: []SubS{{Mcc: 208, Mnc: 93, Ins: []InsS{{Upsc: 5, Parts: []PartS{{Ty: 1, C: c}}}}}}})
	}
	// histories on one live object: encode, append fresh items, encode again; adopt decoded octets
	mustJSON := func(v interface{}) json.RawMessage {
		b, err := json.Marshal(v)
		if err != nil {
			ev.Fatal("%v", err)
		}
		return b
	}
	for h := 0; h < n/4; h++ {
		var ops []HOp
		encd := false
		maybeEnc := func() {
			if rng.Intn(3) > 0 {
				ops = append(ops, HOp{Op: "enc"})
				encd = true
				if rng.Intn(3) == 0 {
					ops = append(ops, HOp{Op: "adopt"})
					if rng.Intn(2) == 0 {
						ops = append(ops, HOp{Op: "enc"})
					}
				}
			}
		}
		if h%2 == 0 {
			subs := []SubS{}
			for a := rng.Intn(3); a > 0; a-- {
				sub := SubS{Ins: []InsS{}}
				sub.Mcc, sub.Mnc = plmn()
				for b := rng.Intn(3); b > 0; b-- {
					in := InsS{Upsc: rng.Intn(65536), Parts: []PartS{}}
					for c := rng.Intn(3); c > 0; c-- {
						in.Parts = append(in.Parts, PartS{Ty: rng.Intn(256), C: content()})
					}
					sub.Ins = append(sub.Ins, in)
				}
				subs = append(subs, sub)
			}
			val := mustJSON(subs)
			for g := rng.Intn(4); g > 0; g-- {
				maybeEnc()
				lv := rng.Intn(3)
				if lv == 0 && len(subs) > 0 {
					si := rng.Intn(len(subs))
					if k := len(subs[si].Ins); k > 0 {
						ii := rng.Intn(k)
						it := PartS{Ty: rng.Intn(256), C: content()}
						subs[si].Ins[ii].Parts = append(subs[si].Ins[ii].Parts, it)
						ops = append(ops, HOp{Op: "grow", Level: "part", S: si + 1, I: ii + 1, Item: mustJSON(it)})
						continue
					}
				}
				if lv <= 1 && len(subs) > 0 {
					si := rng.Intn(len(subs))
					it := InsS{Upsc: rng.Intn(65536), Parts: []PartS{}}
					if rng.Intn(2) == 0 {
						it.Parts = append(it.Parts, PartS{Ty: rng.Intn(256), C: content()})
					}
					subs[si].Ins = append(subs[si].Ins, it)
					ops = append(ops, HOp{Op: "grow", Level: "ins", S: si + 1, Item: mustJSON(it)})
					continue
				}
				it := SubS{Ins: []InsS{}}
				it.Mcc, it.Mnc = plmn()
				subs = append(subs, it)
				ops = append(ops, HOp{Op: "grow", Level: "sub", Item: mustJSON(it)})
			}
			_ = encd
			ops = append(ops, HOp{Op: "enc"})
			s.history("list", val, ops)
		} else {
			srs := []SubResS{}
			for a := rng.Intn(3); a > 0; a-- {
				sr := SubResS{Rs: []ResS{}}
				sr.Mcc, sr.Mnc = plmn()
				for b := rng.Intn(3); b > 0; b-- {
					sr.Rs = append(sr.Rs, ResS{Upsc: rng.Intn(65536), Ord: rng.Intn(65536), Cause: 111})
				}
				srs = append(srs, sr)
			}
			val := mustJSON(srs)
			for g := rng.Intn(4); g > 0; g-- {
				maybeEnc()
				if rng.Intn(2) == 0 && len(srs) > 0 {
					si := rng.Intn(len(srs))
					it := ResS{Upsc: rng.Intn(65536), Ord: rng.Intn(65536), Cause: 111}
					srs[si].Rs = append(srs[si].Rs, it)
					ops = append(ops, HOp{Op: "grow", Level: "res", S: si + 1, Item: mustJSON(it)})
					continue
				}
				it := SubResS{Rs: []ResS{}}
				it.Mcc, it.Mnc = plmn()
				srs = append(srs, it)
				ops = append(ops, HOp{Op: "grow", Level: "sres", Item: mustJSON(it)})
			}
			ops = append(ops, HOp{Op: "enc"})
			s.history("result", val, ops)
		}
	}
	// PLMN: random pairs inside and around the domain
	for i := 0; i < n/20; i++ {
		vary := make([]int, 40)
		for k := range vary {
			vary[k] = rng.Intn(1100)
		}
		which, axis := []string{"sub", "res"}[i%2], []string{"mcc", "mnc"}[(i/2)%2]
		fixed := rng.Intn(1000)
		s.plmnRow(which, axis, fixed, vary)
	}
	// octet strings: random, and damaged real encodings, offered to every decoding entry point
	for i := 0; i < 3*n; i++ {
		var b []byte
		switch r := rng.Intn(10); {
		case r < 3 || len(encs) == 0:
			b = ev.Bytes(rb(rng.Intn(28)))
			if len(b) > 1 && rng.Intn(2) == 0 {
				b[1] = byte(1 + rng.Intn(3))
			}
			if rng.Intn(2) == 0 { // small length fields make deeper parses likely
				for k := 0; k+1 < len(b); k += 1 + rng.Intn(4) {
					b[k] = 0
				}
			}
		default:
			e := encs[rng.Intn(len(encs))]
			b = append([]byte{}, e...)
			lo := []int{0, 2, 5}[rng.Intn(3)] // whole message, the IE, the IE contents
			if lo < len(b) {
				b = b[lo:]
			}
			for k := rng.Intn(3); k >= 0 && len(b) > 0; k-- {
				switch rng.Intn(4) {
				case 0:
					b[rng.Intn(len(b))] = byte(rng.Intn(256))
				case 1:
					b[rng.Intn(len(b))] = byte(rng.Intn(4))
				case 2:
					b = b[:rng.Intn(len(b)+1)]
				default:
					// keep
				}
			}
		}
		for _, op := range allOps {
			s.decode(op, b)
		}
	}
	s.w.Close()
}

func main() {
	ev.Quiet()
	if len(os.Args) < 3 {
		ev.Fatal("usage: uepol record <out> | replay <cases.json> <out>")
	}
	switch os.Args[1] {
	case "record":
		record(os.Args[2])
	case "replay":
		if len(os.Args) < 4 {
			ev.Fatal("usage: uepol replay <cases.json> <out>")
		}
		replay(os.Args[2], os.Args[3])
	default:
		ev.Fatal("unknown subcommand")
	}
}
