// Package f15: the per-operation functions of harness/cmd/qos (C15: QoS rules and QoS flow descriptions) for the
// concurrent driver (C19).  Copied from cmd/qos/main.go (value builders, projections, roundTrip, unmarshal, the case
// loop of replay); the writer is the per-goroutine sink, the watchdog period is longer (many goroutines share the
// processors), and the case payload is parsed once at load time.  Event shapes are identical: the traces are validated
// by spec/trace/Trace_C15.tla.
package f15

import (
	"encoding/json"
	"net"
	"os"
	"time"

	"verifharness/internal/ev"

	"github.com/free5gc/nas/nasType"
)

// Sink receives the events of one goroutine.
type Sink interface{ Emit(v interface{}) }

// Runner runs cases for one goroutine.
type Runner struct{ W Sink }

// Watchdog is the period after which a call counts as not returning.
var Watchdog = 2 * time.Second

type Comp struct {
	T int   `json:"t"`
	F []int `json:"f"`
}
type Filter struct {
	ID    int    `json:"id"`
	Dir   int    `json:"dir"`
	Comps []Comp `json:"comps"`
}
type Rule struct {
	ID      int      `json:"id"`
	Op      int      `json:"op"`
	DQR     bool     `json:"dqr"`
	Filters []Filter `json:"filters"`
	Prec    int      `json:"prec"`
	Seg     bool     `json:"seg"`
	QFI     int      `json:"qfi"`
}
type Param struct {
	ID int   `json:"id"`
	F  []int `json:"f"`
}
type Desc struct {
	QFI    int     `json:"qfi"`
	Op     int     `json:"op"`
	Params []Param `json:"params"`
}

type Case struct {
	Kind  string          `json:"kind"` // "rules" | "descs" | "rbytes" | "dbytes"
	X     json.RawMessage `json:"x"`
	Muts  [][]int         `json:"muts"` // [position (1-based), value]
	Cuts  bool            `json:"cuts"` // every proper prefix
	Bytes []int           `json:"bytes"`

	rules []Rule // X parsed at load time
	descs []Desc
}

// one flat schema for all events; x/back hold rules or descriptions depending on op
type Ev struct {
	Op     string      `json:"op"`
	X      interface{} `json:"x"`
	MErr   bool        `json:"merr"`
	Bytes  []int       `json:"bytes"`
	UErr   bool        `json:"uerr"`
	Back   interface{} `json:"back"`
	M2Err  bool        `json:"m2err"`
	Bytes2 []int       `json:"bytes2"`
	Panic  bool        `json:"panic"`
	PLib   bool        `json:"plib"`
	PFn    string      `json:"pfn"`
	Hang   bool        `json:"hang"`
}

// ---------------------------------------------------------------- building the real values
func b8(f []int, i int) byte { return byte(f[i]) }

func buildComp(c Comp) nasType.PacketFilterComponent {
	f := c.F
	switch c.T {
	case 0x01:
		return &nasType.PacketFilterMatchAll{}
	case 0x10:
		return &nasType.PacketFilterIPv4RemoteAddress{Address: net.IP(ev.Bytes(f[0:4])), Mask: net.IPMask(ev.Bytes(f[4:8]))}
	case 0x11:
		return &nasType.PacketFilterIPv4LocalAddress{Address: net.IP(ev.Bytes(f[0:4])), Mask: net.IPMask(ev.Bytes(f[4:8]))}
	case 0x30:
		return &nasType.PacketFilterProtocolIdentifier{Value: b8(f, 0)}
	case 0x40:
		return &nasType.PacketFilterSingleLocalPort{Value: uint16(f[0])}
	case 0x41:
		return &nasType.PacketFilterLocalPortRange{LowLimit: uint16(f[0]), HighLimit: uint16(f[1])}
	case 0x50:
		return &nasType.PacketFilterSingleRemotePort{Value: uint16(f[0])}
	case 0x51:
		return &nasType.PacketFilterRemotePortRange{LowLimit: uint16(f[0]), HighLimit: uint16(f[1])}
	case 0x60:
		return &nasType.PacketFilterSecurityParameterIndex{Index: uint32(f[0])<<16 | uint32(f[1])}
	case 0x70:
		return &nasType.PacketFilterServiceClass{Class: b8(f, 0), Mask: b8(f, 1)}
	case 0x80:
		return &nasType.PacketFilterFlowLabel{Label: uint32(f[0])}
	case 0x81:
		return &nasType.PacketFilterDestinationMACAddress{MAC: net.HardwareAddr(ev.Bytes(f[0:6]))}
	case 0x82:
		return &nasType.PacketFilterSourceMACAddress{MAC: net.HardwareAddr(ev.Bytes(f[0:6]))}
	case 0x83:
		return &nasType.PacketFilterCTagVID{VID: uint16(f[0])}
	case 0x84:
		return &nasType.PacketFilterSTagVID{VID: uint16(f[0])}
	case 0x85:
		return &nasType.PacketFilterCTagPCPDEI{Value: b8(f, 0)}
	case 0x86:
		return &nasType.PacketFilterSTagPCPDEI{Value: b8(f, 0)}
	case 0x87:
		return &nasType.PacketFilterEtherType{EtherType: uint16(f[0])}
	}
	ev.Fatal("case with unknown component type %d", c.T)
	return nil
}

func projComp(c nasType.PacketFilterComponent) Comp {
	switch v := c.(type) {
	case *nasType.PacketFilterMatchAll:
		return Comp{0x01, []int{}}
	case *nasType.PacketFilterIPv4RemoteAddress:
		return Comp{0x10, append(ev.Ints(v.Address), ev.Ints(v.Mask)...)}
	case *nasType.PacketFilterIPv4LocalAddress:
		return Comp{0x11, append(ev.Ints(v.Address), ev.Ints(v.Mask)...)}
	case *nasType.PacketFilterProtocolIdentifier:
		return Comp{0x30, []int{int(v.Value)}}
	case *nasType.PacketFilterSingleLocalPort:
		return Comp{0x40, []int{int(v.Value)}}
	case *nasType.PacketFilterLocalPortRange:
		return Comp{0x41, []int{int(v.LowLimit), int(v.HighLimit)}}
	case *nasType.PacketFilterSingleRemotePort:
		return Comp{0x50, []int{int(v.Value)}}
	case *nasType.PacketFilterRemotePortRange:
		return Comp{0x51, []int{int(v.LowLimit), int(v.HighLimit)}}
	case *nasType.PacketFilterSecurityParameterIndex:
		return Comp{0x60, []int{int(v.Index >> 16), int(v.Index & 0xffff)}}
	case *nasType.PacketFilterServiceClass:
		return Comp{0x70, []int{int(v.Class), int(v.Mask)}}
	case *nasType.PacketFilterFlowLabel:
		return Comp{0x80, []int{int(v.Label)}}
	case *nasType.PacketFilterDestinationMACAddress:
		return Comp{0x81, ev.Ints(v.MAC)}
	case *nasType.PacketFilterSourceMACAddress:
		return Comp{0x82, ev.Ints(v.MAC)}
	case *nasType.PacketFilterCTagVID:
		return Comp{0x83, []int{int(v.VID)}}
	case *nasType.PacketFilterSTagVID:
		return Comp{0x84, []int{int(v.VID)}}
	case *nasType.PacketFilterCTagPCPDEI:
		return Comp{0x85, []int{int(v.Value)}}
	case *nasType.PacketFilterSTagPCPDEI:
		return Comp{0x86, []int{int(v.Value)}}
	case *nasType.PacketFilterEtherType:
		return Comp{0x87, []int{int(v.EtherType)}}
	}
	return Comp{-1, []int{}}
}

func buildRules(rs []Rule) nasType.QoSRules {
	out := nasType.QoSRules{}
	for _, r := range rs {
		q := nasType.QoSRule{Identifier: uint8(r.ID), Operation: nasType.QoSRuleOperationCode(r.Op), DQR: r.DQR,
			Precedence: uint8(r.Prec), Segregation: r.Seg, QFI: uint8(r.QFI)}
		for _, pf := range r.Filters {
			p := nasType.PacketFilter{Identifier: uint8(pf.ID), Direction: nasType.PacketFilterDirection(pf.Dir)}
			for _, c := range pf.Comps {
				p.Components = append(p.Components, buildComp(c))
			}
			q.PacketFilterList = append(q.PacketFilterList, p)
		}
		out = append(out, q)
	}
	return out
}

func projRules(q nasType.QoSRules) []Rule {
	out := []Rule{}
	for _, r := range q {
		x := Rule{ID: int(r.Identifier), Op: int(r.Operation), DQR: r.DQR, Prec: int(r.Precedence), Seg: r.Segregation, QFI: int(r.QFI), Filters: []Filter{}}
		for _, pf := range r.PacketFilterList {
			f := Filter{ID: int(pf.Identifier), Dir: int(pf.Direction), Comps: []Comp{}}
			for _, c := range pf.Components {
				f.Comps = append(f.Comps, projComp(c))
			}
			x.Filters = append(x.Filters, f)
		}
		out = append(out, x)
	}
	return out
}

func buildParam(p Param) nasType.QoSFlowParameter {
	f := p.F
	switch p.ID {
	case 1:
		return &nasType.QoSFlow5QI{FiveQI: b8(f, 0)}
	case 2:
		return &nasType.QoSFlowGFBRUplink{Unit: nasType.QoSFlowBitRateUnit(f[0]), Value: uint16(f[1])}
	case 3:
		return &nasType.QoSFlowGFBRDownlink{Unit: nasType.QoSFlowBitRateUnit(f[0]), Value: uint16(f[1])}
	case 4:
		return &nasType.QoSFlowMFBRUplink{Unit: nasType.QoSFlowBitRateUnit(f[0]), Value: uint16(f[1])}
	case 5:
		return &nasType.QoSFlowMFBRDownlink{Unit: nasType.QoSFlowBitRateUnit(f[0]), Value: uint16(f[1])}
	case 6:
		return &nasType.QoSFlowAveragingWindow{AverageWindow: uint16(f[0])}
	case 7:
		return &nasType.QoSFlowEBI{EBI: b8(f, 0)}
	}
	ev.Fatal("case with unknown parameter identifier %d", p.ID)
	return nil
}

func projParam(p nasType.QoSFlowParameter) Param {
	switch v := p.(type) {
	case *nasType.QoSFlow5QI:
		return Param{1, []int{int(v.FiveQI)}}
	case *nasType.QoSFlowGFBRUplink:
		return Param{2, []int{int(v.Unit), int(v.Value)}}
	case *nasType.QoSFlowGFBRDownlink:
		return Param{3, []int{int(v.Unit), int(v.Value)}}
	case *nasType.QoSFlowMFBRUplink:
		return Param{4, []int{int(v.Unit), int(v.Value)}}
	case *nasType.QoSFlowMFBRDownlink:
		return Param{5, []int{int(v.Unit), int(v.Value)}}
	case *nasType.QoSFlowAveragingWindow:
		return Param{6, []int{int(v.AverageWindow)}}
	case *nasType.QoSFlowEBI:
		return Param{7, []int{int(v.EBI)}}
	}
	return Param{-1, []int{}}
}

func buildDescs(ds []Desc) nasType.QoSFlowDescs {
	out := nasType.QoSFlowDescs{}
	for _, d := range ds {
		q := nasType.QoSFlowDesc{QFI: uint8(d.QFI), OperationCode: nasType.QoSFlowOperationCode(d.Op)}
		for _, p := range d.Params {
			q.Parameters = append(q.Parameters, buildParam(p))
		}
		out = append(out, q)
	}
	return out
}

func projDescs(q nasType.QoSFlowDescs) []Desc {
	out := []Desc{}
	for _, d := range q {
		x := Desc{QFI: int(d.QFI), Op: int(d.OperationCode), Params: []Param{}}
		for _, p := range d.Parameters {
			x.Params = append(x.Params, projParam(p))
		}
		out = append(out, x)
	}
	return out
}

// ---------------------------------------------------------------- calls
func guarded(f func()) (pi *ev.PanicInfo, hang bool) {
	done := make(chan *ev.PanicInfo, 1)
	go func() { done <- ev.Guard(f) }()
	select {
	case pi = <-done:
		return pi, false
	case <-time.After(Watchdog):
		return nil, true
	}
}

type codec struct {
	name      string
	marshal   func(x interface{}) ([]byte, error) // x: []Rule or []Desc
	unmarshal func(b []byte) (interface{}, error) // projection of the result
	remarshal func(b []byte) (interface{}, []byte, error, error)
	empty     func() interface{}
}

var rulesCodec = codec{
	name: "Rules",
	marshal: func(x interface{}) ([]byte, error) {
		q := buildRules(x.([]Rule))
		return q.MarshalBinary()
	},
	unmarshal: func(b []byte) (interface{}, error) {
		var q nasType.QoSRules
		err := q.UnmarshalBinary(b)
		return projRules(q), err
	},
	remarshal: func(b []byte) (interface{}, []byte, error, error) {
		var q nasType.QoSRules
		err := q.UnmarshalBinary(b)
		pr := projRules(q)
		if err != nil {
			return pr, nil, err, nil
		}
		b2, err2 := q.MarshalBinary()
		return pr, b2, nil, err2
	},
	empty: func() interface{} { return []Rule{} },
}

var descsCodec = codec{
	name: "Descs",
	marshal: func(x interface{}) ([]byte, error) {
		q := buildDescs(x.([]Desc))
		return q.MarshalBinary()
	},
	unmarshal: func(b []byte) (interface{}, error) {
		var q nasType.QoSFlowDescs
		err := q.UnmarshalBinary(b)
		return projDescs(q), err
	},
	remarshal: func(b []byte) (interface{}, []byte, error, error) {
		var q nasType.QoSFlowDescs
		err := q.UnmarshalBinary(b)
		pr := projDescs(q)
		if err != nil {
			return pr, nil, err, nil
		}
		b2, err2 := q.MarshalBinary()
		return pr, b2, nil, err2
	},
	empty: func() interface{} { return []Desc{} },
}

func newEv(op string, c codec) Ev {
	return Ev{Op: c.name + op, X: c.empty(), Bytes: []int{}, Back: c.empty(), Bytes2: []int{}}
}

func setPanic(e *Ev, pi *ev.PanicInfo, hang bool) {
	e.Hang = hang
	if pi != nil {
		e.Panic, e.PLib, e.PFn = true, pi.Lib, pi.Fn
	}
}

// roundTrip: Marshal(x), Unmarshal of the result, Marshal again.
func roundTrip(w Sink, c codec, x interface{}) []byte {
	e := newEv("RoundTrip", c)
	e.X = x
	var m []byte
	var merr error
	pi, hang := guarded(func() { m, merr = c.marshal(x) })
	setPanic(&e, pi, hang)
	if hang || pi != nil {
		w.Emit(e)
		return nil
	}
	e.MErr = merr != nil
	e.Bytes = ev.Ints(m)
	if merr != nil {
		w.Emit(e)
		return nil
	}
	var back interface{}
	var b2 []byte
	var uerr, m2err error
	pi, hang = guarded(func() { back, b2, uerr, m2err = c.remarshal(append([]byte{}, m...)) })
	setPanic(&e, pi, hang)
	if !hang && pi == nil {
		e.Back, e.UErr, e.M2Err, e.Bytes2 = back, uerr != nil, m2err != nil, ev.Ints(b2)
	}
	w.Emit(e)
	return m
}

func unmarshal(w Sink, c codec, b []byte) {
	e := newEv("Unmarshal", c)
	e.Bytes = ev.Ints(b)
	var back interface{}
	var uerr error
	pi, hang := guarded(func() { back, uerr = c.unmarshal(append([]byte{}, b...)) })
	setPanic(&e, pi, hang)
	if !hang && pi == nil {
		e.Back, e.UErr = back, uerr != nil
	}
	w.Emit(e)
}


// Load reads a case file (the format cmd/qos replays) and parses the values, so that running a case only reads it.
func Load(path string) []Case {
	raw, err := os.ReadFile(path)
	if err != nil {
		ev.Fatal("%v", err)
	}
	var cases []Case
	if err := json.Unmarshal(raw, &cases); err != nil {
		ev.Fatal("%v", err)
	}
	for i := range cases {
		cs := &cases[i]
		switch cs.Kind {
		case "rules":
			if err := json.Unmarshal(cs.X, &cs.rules); err != nil {
				ev.Fatal("%v", err)
			}
		case "descs":
			if err := json.Unmarshal(cs.X, &cs.descs); err != nil {
				ev.Fatal("%v", err)
			}
		case "rbytes", "dbytes":
		default:
			ev.Fatal("unknown case kind %q", cs.Kind)
		}
	}
	return cases
}

// Key names the operation kind of a case: the kind, and for values the component / parameter types they contain,
// so that all goroutines marshal the same component types (with different field values) at the same time.
func (c *Case) Key() string { return c.Kind }

// Run executes one case (the loop body of cmd/qos replay).
func (r *Runner) Run(cs *Case) {
	w := r.W
	var c codec
	var x interface{}
	switch cs.Kind {
	case "rules":
		c, x = rulesCodec, cs.rules
	case "descs":
		c, x = descsCodec, cs.descs
	case "rbytes":
		unmarshal(w, rulesCodec, ev.Bytes(cs.Bytes))
		return
	case "dbytes":
		unmarshal(w, descsCodec, ev.Bytes(cs.Bytes))
		return
	}
	m := roundTrip(w, c, x)
	if m == nil {
		return
	}
	if cs.Cuts {
		for n := 0; n < len(m); n++ {
			unmarshal(w, c, m[:n])
		}
	}
	for _, mu := range cs.Muts {
		if len(mu) != 2 || mu[0] < 1 || mu[0] > len(m) {
			ev.Fatal("bad replacement %v for a form of %d octets", mu, len(m))
		}
		d := append([]byte{}, m...)
		d[mu[0]-1] = byte(mu[1])
		unmarshal(w, c, d)
	}
}
