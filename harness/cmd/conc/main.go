// Driver for C19 (families other than the message codec): the conversions, identity and list converters, QoS rules /
// flow descriptions, PCO / PSI, the UE policy container and the security functions, called from N goroutines at once.
//
//	conc runpar <manifest.json> <outprefix> <goroutines> <rounds> <aligned|staggered|alternate>
//
// The manifest names one case file per family - the SAME case formats the families' own drivers replay
// (cmd/conv17, cmd/identity, cmd/arealists, cmd/qos, cmd/pco, cmd/uepol, cmd/sec) - and cuts each file into blocks
// of cases of one operation kind:
//
//	{"families":[{"name":"f17","cases":"/path/cases.json","blocks":[[0,40],[40,95]]}, ...]}
//
// Every goroutine runs every case of every block once per round, through its own runner and into its own buffers
// (written to <outprefix>.<family>.<g>.ndjson at the end, with <...>.idx listing "case-index events" per executed
// case).  The events have exactly the shapes of the families' drivers (the per-operation functions are copies, see
// f12 .. fsec), so each goroutine's trace is validated by the family's trace specification.
//
// Schedules.  aligned: all goroutines work on the same block at the same time (a barrier between blocks), each
// starting at its own seeded offset inside the block, so that the same library function runs concurrently on
// DIFFERENT argument values.  staggered: no barrier, goroutine g starts at its own block, so that different
// operations overlap.  alternate: even rounds aligned, odd rounds staggered.  Seeded runtime.Gosched() yields
// between cases.  Nothing in the harness is shared and written after the goroutines start, except the barrier.
// With 1 goroutine this is a plain sequential run (used to confirm a mismatch against the sequential behaviour).
//
// The driver only calls the library and writes what it saw; every verdict about a value is TLC's.
package main

import (
	"bytes"
	"encoding/json"
	"fmt"
	"math/rand"
	"os"
	"runtime"
	"sync"
	"time"

	"verifharness/cmd/conc/f12"
	"verifharness/cmd/conc/f13"
	"verifharness/cmd/conc/f15"
	"verifharness/cmd/conc/f16"
	"verifharness/cmd/conc/f17"
	"verifharness/cmd/conc/f18"
	"verifharness/cmd/conc/fsec"
	"verifharness/internal/ev"
)

type famSpec struct {
	Name   string   `json:"name"`
	Cases  string   `json:"cases"`
	Blocks [][2]int `json:"blocks"`
}

type manifest struct {
	Families []famSpec `json:"families"`
}

// sink: the event buffer of one (goroutine, family)
type sink struct {
	buf bytes.Buffer
	n   int
	idx bytes.Buffer
}

func (s *sink) Emit(v interface{}) {
	b, err := json.Marshal(v)
	if err != nil {
		ev.Fatal("marshal: %v", err)
	}
	s.buf.Write(b)
	s.buf.WriteByte('\n')
	s.n++
}

// family: loaded cases (read-only once the goroutines run) and a constructor of per-goroutine runners
type family struct {
	name   string
	n      int
	runner func(s *sink) func(i int)
}

func load(spec famSpec) *family {
	switch spec.Name {
	case "f17":
		cs := f17.Load(spec.Cases)
		return &family{"f17", len(cs), func(s *sink) func(int) {
			r := &f17.Runner{W: s}
			return func(i int) { r.Run(&cs[i]) }
		}}
	case "f12":
		cs := f12.Load(spec.Cases)
		return &family{"f12", len(cs), func(s *sink) func(int) {
			r := &f12.Runner{W: s}
			return func(i int) { r.Run(&cs[i]) }
		}}
	case "f13":
		cs := f13.Load(spec.Cases)
		return &family{"f13", len(cs), func(s *sink) func(int) {
			r := &f13.Runner{W: s}
			return func(i int) { r.Run(&cs[i]) }
		}}
	case "f15":
		cs := f15.Load(spec.Cases)
		return &family{"f15", len(cs), func(s *sink) func(int) {
			r := &f15.Runner{W: s}
			return func(i int) { r.Run(&cs[i]) }
		}}
	case "f16":
		cs := f16.Load(spec.Cases)
		return &family{"f16", len(cs), func(s *sink) func(int) {
			r := &f16.Runner{W: s}
			return func(i int) { r.Run(&cs[i]) }
		}}
	case "f18":
		cs := f18.Load(spec.Cases)
		return &family{"f18", len(cs), func(s *sink) func(int) {
			r := f18.NewRunner(s)
			return func(i int) { r.Run(&cs[i]) }
		}}
	case "f06", "f07": // ciphering / integrity: same runner, separate traces (Trace_C06 / Trace_C07)
		cs := fsec.Load(spec.Cases)
		name := spec.Name
		return &family{name, len(cs), func(s *sink) func(int) {
			r := &fsec.Runner{W: s, Rng: rand.New(rand.NewSource(1))}
			return func(i int) { r.Run(&cs[i]) }
		}}
	}
	if f := loadExtra(spec); f != nil {
		return f
	}
	ev.Fatal("unknown family %q", spec.Name)
	return nil
}

type block struct{ fam, lo, hi int }

type barrier struct {
	mu    sync.Mutex
	c     *sync.Cond
	n     int
	count int
	gen   int
}

func newBarrier(n int) *barrier {
	b := &barrier{n: n}
	b.c = sync.NewCond(&b.mu)
	return b
}

func (b *barrier) wait() {
	b.mu.Lock()
	gen := b.gen
	b.count++
	if b.count == b.n {
		b.gen++
		b.count = 0
		b.c.Broadcast()
	} else {
		for gen == b.gen {
			b.c.Wait()
		}
	}
	b.mu.Unlock()
}

func runPar(m manifest, prefix string, n, rounds int, mode string) {
	var fams []*family
	var blocks []block
	for fi, spec := range m.Families {
		f := load(spec)
		fams = append(fams, f)
		for _, b := range spec.Blocks {
			if b[0] < 0 || b[1] > f.n || b[0] >= b[1] {
				ev.Fatal("family %s: bad block %v for %d cases", spec.Name, b, f.n)
			}
			blocks = append(blocks, block{fi, b[0], b[1]})
		}
	}
	if len(blocks) == 0 {
		ev.Fatal("no blocks")
	}
	seed := ev.Seed()
	// the block order of every round: the same for all goroutines, fixed before they start
	order := make([][]int, rounds)
	prng := rand.New(rand.NewSource(seed*7919 + int64(n)))
	for r := range order {
		order[r] = prng.Perm(len(blocks))
	}
	bar := newBarrier(n)
	var wg sync.WaitGroup
	counts := make([]int, n)
	for g := 0; g < n; g++ {
		wg.Add(1)
		go func(g int) {
			defer wg.Done()
			rng := rand.New(rand.NewSource(seed*1000 + int64(g)))
			sinks := make([]*sink, len(fams))
			run := make([]func(int), len(fams))
			for i, f := range fams {
				sinks[i] = &sink{}
				run[i] = f.runner(sinks[i])
			}
			do := func(b block) {
				size := b.hi - b.lo
				off := rng.Intn(size)
				s := sinks[b.fam]
				for k := 0; k < size; k++ {
					i := b.lo + (off+k)%size
					before := s.n
					run[b.fam](i)
					fmt.Fprintf(&s.idx, "%d %d\n", i, s.n-before)
					if rng.Intn(8) == 0 {
						runtime.Gosched()
					}
				}
			}
			for r := 0; r < rounds; r++ {
				aligned := mode == "aligned" || (mode == "alternate" && r%2 == 0)
				ord := order[r]
				if aligned {
					for _, bi := range ord {
						bar.wait()
						do(blocks[bi])
					}
				} else {
					start := (g * 7) % len(ord)
					for k := range ord {
						do(blocks[ord[(start+k)%len(ord)]])
					}
				}
			}
			for i, f := range fams {
				base := fmt.Sprintf("%s.%s.%d", prefix, f.name, g)
				if err := os.WriteFile(base+".ndjson", sinks[i].buf.Bytes(), 0o644); err != nil {
					ev.Fatal("%v", err)
				}
				if err := os.WriteFile(base+".idx", sinks[i].idx.Bytes(), 0o644); err != nil {
					ev.Fatal("%v", err)
				}
				counts[g] += sinks[i].n
			}
		}(g)
	}
	wg.Wait()
	total := 0
	for _, c := range counts {
		total += c
	}
	fmt.Println("events", total)
}

func main() {
	ev.Quiet()
	if len(os.Args) < 7 || os.Args[1] != "runpar" {
		ev.Fatal("usage: conc runpar <manifest.json> <outprefix> <goroutines> <rounds> <aligned|staggered|alternate>")
	}
	raw, err := os.ReadFile(os.Args[2])
	if err != nil {
		ev.Fatal("%v", err)
	}
	var m manifest
	if err := json.Unmarshal(raw, &m); err != nil {
		ev.Fatal("manifest: %v", err)
	}
	var n, rounds int
	fmt.Sscan(os.Args[4], &n)
	fmt.Sscan(os.Args[5], &rounds)
	mode := os.Args[6]
	if n < 1 || rounds < 1 || (mode != "aligned" && mode != "staggered" && mode != "alternate") {
		ev.Fatal("bad arguments")
	}
	// many goroutines share few processors under the race detector: a call only counts as not returning after 20 s
	f15.Watchdog, f16.Watchdog, f18.Watchdog = 20*time.Second, 20*time.Second, 20*time.Second
	runPar(m, os.Args[3], n, rounds, mode)
}
