// Driver for C19 (families other than the message codec): the conversions, identity and list converters, QoS rules /
// flow descriptions, PCO / PSI, the UE policy container, the security functions and (build tag c19ie, with the generated
// registry of IE types) the IE field accessors, called from N goroutines at once.
//
//	conc runpar <manifest.json> <outprefix> <goroutines> <rounds> <aligned|staggered|alternate>
//	conc runseq <family> <cases.json> <order.idx> <out.ndjson>      one family, one goroutine, the cases in the given order
//
// The manifest names one case file per family - the SAME case formats the families' own drivers replay
// (cmd/conv17, cmd/identity, cmd/arealists, cmd/qos, cmd/pco, cmd/uepol, cmd/sec, cmd/ietypes) - and cuts each file into blocks
// of cases of one operation kind:
//
//	{"families":[{"name":"f17","cases":"/path/cases.json","blocks":[[0,40],[40,95]]}, ...]}
//
// Every goroutine runs every case of every block once per round, through its own runner and into its own buffers
// (written to <outprefix>.<family>.<g>.ndjson at the end, with <...>.idx listing the executed cases in order, one
// "case-index events-written-meanwhile" per line).  The events have exactly the shapes of the families' drivers: the
// packages f12 .. fsec are generated from the drivers' sources by tools/conc_sync.py (per-goroutine Runner instead of
// package-level writer / state), so each goroutine's trace is validated by the family's trace specification.
//
// runseq repeats the exact case order of one goroutine (its .idx file; or any list of case indexes) single-threaded in
// this fresh process: the sequential run a concurrent trace is compared with, and - with the order 0, 1, 2, ... - the
// run that must equal the family driver's own `replay` of the same case file event by event (drift guard).
//
// Schedules.  aligned: all goroutines work on the same block at the same time (a barrier between blocks), each
// starting at its own seeded offset inside the block, so that the same library function runs concurrently on
// DIFFERENT argument values.  staggered: no barrier, goroutine g starts at its own block, so that different
// operations overlap.  alternate: even rounds aligned, odd rounds staggered.  Seeded runtime.Gosched() yields
// between cases.  Nothing in the harness is shared and written after the goroutines start, except the barrier words
// and each worker's own heartbeat (read by the monitor: a case that does not return for 30 s ends the process with
// exit code 4 and <outprefix>.hang).  The harness also avoids everything that would ORDER the goroutines between two
// library calls in the eyes of the race detector: no mutex / condition barrier, no helper goroutine per call, no
// encoding/json or fmt (sync.Pool) while the goroutines work - events are kept as values and marshalled at the end -
// and the library's logger is set below its lowest level (package nopool explains).
//
// The driver only calls the library and writes what it saw; every verdict about a value is TLC's.
package main

import (
	"bytes"
	"encoding/json"
	"fmt"
	"math/rand"
	"os"
	"runtime"
	"sync"
	"sync/atomic"
	"time"

	"verifharness/cmd/conc/f12"
	"verifharness/cmd/conc/f13"
	"verifharness/cmd/conc/f14"
	"verifharness/cmd/conc/f15"
	"verifharness/cmd/conc/f16"
	"verifharness/cmd/conc/f17"
	"verifharness/cmd/conc/f18"
	"verifharness/cmd/conc/fsec"
	"verifharness/internal/ev"

	"github.com/free5gc/nas/logger"
	"github.com/sirupsen/logrus"
)

type famSpec struct {
	Name   string   `json:"name"`
	Cases  string   `json:"cases"`
	Blocks [][2]int `json:"blocks"`
}

type manifest struct {
	Families []famSpec `json:"families"`
}

// sink: the events of one (goroutine, family), kept as values while the goroutines work and marshalled afterwards
// (encoding/json and fmt keep scratch state in sync.Pools, which would order the goroutines, see package nopool)
type sink struct {
	evs []interface{}
	idx []int // case index, events written meanwhile (pairs)
}

func (s *sink) Emit(v interface{}) { s.evs = append(s.evs, v) }

func (s *sink) ndjson() []byte {
	var buf bytes.Buffer
	for _, v := range s.evs {
		b, err := json.Marshal(v)
		if err != nil {
			ev.Fatal("marshal: %v", err)
		}
		buf.Write(b)
		buf.WriteByte('\n')
	}
	return buf.Bytes()
}

func (s *sink) index() []byte {
	var buf bytes.Buffer
	for i := 0; i+1 < len(s.idx); i += 2 {
		fmt.Fprintf(&buf, "%d %d\n", s.idx[i], s.idx[i+1])
	}
	return buf.Bytes()
}

// family: loaded cases (read-only once the goroutines run) and a constructor of per-goroutine runners
type family struct {
	name   string
	n      int
	runner func(s *sink, g, n int) runner
}

// runner: the per-goroutine view of one family (run case i; write out what is still held back)
type runner struct {
	run    func(i int)
	finish func()
}

func load(spec famSpec) *family {
	switch spec.Name {
	case "f17":
		cs := f17.Load(spec.Cases)
		return &family{"f17", len(cs), func(s *sink, g, n int) runner {
			r := f17.NewRunner(s)
			return runner{func(i int) { r.Run(&cs[i]) }, r.Finish}
		}}
	case "f12":
		cs := f12.Load(spec.Cases)
		return &family{"f12", len(cs), func(s *sink, g, n int) runner {
			r := f12.NewRunner(s)
			return runner{func(i int) { r.Run(&cs[i]) }, r.Finish}
		}}
	case "f13":
		cs := f13.Load(spec.Cases)
		return &family{"f13", len(cs), func(s *sink, g, n int) runner {
			r := f13.NewRunner(s)
			return runner{func(i int) { r.Run(&cs[i]) }, r.Finish}
		}}
	case "f14": // helpers on UE-supplied contents (C14): malformed contents from all goroutines at once
		cs := f14.Load(spec.Cases)
		return &family{"f14", len(cs), func(s *sink, g, n int) runner {
			r := f14.NewRunner(s)
			return runner{func(i int) { r.Run(&cs[i]) }, r.Finish}
		}}
	case "f15":
		cs := f15.Load(spec.Cases)
		return &family{"f15", len(cs), func(s *sink, g, n int) runner {
			r := f15.NewRunner(s)
			return runner{func(i int) { r.Run(&cs[i]) }, r.Finish}
		}}
	case "f15s": // parsed QoS values shared by all goroutines, which only read them (projection, MarshalBinary)
		cs := f15.Load(spec.Cases)
		shared := make([]*f15.SharedObj, len(cs))
		for i := range cs {
			shared[i] = f15.Share(&cs[i])
		}
		return &family{"f15s", len(cs), func(s *sink, g, n int) runner {
			r := f15.NewRunner(s)
			return runner{func(i int) { r.RunShared(shared[i]) }, r.Finish}
		}}
	case "f16":
		cs := f16.Load(spec.Cases)
		return &family{"f16", len(cs), func(s *sink, g, n int) runner {
			r := f16.NewRunner(s)
			return runner{func(i int) { r.Run(&cs[i]) }, r.Finish}
		}}
	case "f18":
		cs := f18.Load(spec.Cases)
		return &family{"f18", len(cs), func(s *sink, g, n int) runner {
			r := f18.NewRunner(s)
			return runner{func(i int) { r.Run(&cs[i]) }, r.Finish}
		}}
	case "f06", "f07", "f08": // ciphering / integrity / guards and NULL algorithms: same runner, separate traces (Trace_C06 / Trace_C07 / Trace_C19sec)
		cs := fsec.Load(spec.Cases)
		var arena *fsec.Arena // the payloads of all goroutines lie in one array, those of neighbours without a gap
		var once sync.Once
		return &family{spec.Name, len(cs), func(s *sink, g, n int) runner {
			r := fsec.NewRunner(s)
			if n > 1 {
				once.Do(func() { arena = fsec.NewArena(cs, n) })
				arena.Place(r, g)
			}
			return runner{func(i int) { r.Run(&cs[i]) }, r.Finish}
		}}
	}
	if spec.Name == "fmsg" { // shared decoded messages, see shared.go
		return loadShared(spec)
	}
	if f := loadExtra(spec); f != nil {
		return f
	}
	ev.Fatal("unknown family %q", spec.Name)
	return nil
}

type block struct{ fam, lo, hi int }

// barrier k is passed once all n goroutines have arrived at it.  It is built from atomics on words that belong to
// barrier k alone: a mutex/condition barrier would hand a fast goroutine's LATER work (it has meanwhile finished the block
// and touched the same mutex again at the next barrier) to a goroutine that is still waking up, i.e. order the two blocks
// by happens-before and hide an unsynchronised access from the race detector.  Here a waiter only acquires what the last
// arrival released at barrier k, which is work done before the block.
type barrier struct {
	n     int32
	count []int32
	open  []int32
}

func newBarrier(n, uses int) *barrier {
	return &barrier{n: int32(n), count: make([]int32, uses), open: make([]int32, uses)}
}

func (b *barrier) wait(k int) {
	if atomic.AddInt32(&b.count[k], 1) == b.n {
		atomic.StoreInt32(&b.open[k], 1)
		return
	}
	for atomic.LoadInt32(&b.open[k]) == 0 {
		runtime.Gosched()
	}
}

// beat: what a worker is doing, for the monitor (one cache line per worker; the monitor only reads)
type beat struct {
	since int64 // unix nanoseconds at which the current case was started, 0: not inside a case
	fam   int32
	cas   int32
	_     [48]byte
}

// monitor ends the process with exit code 4 and <prefix>.hang when a case has not returned for `limit`
// (the family drivers' per-call watchdog goroutines are not used here, see guarded in f15 / f16 / f18)
func monitor(beats []beat, fams []*family, prefix string, limit time.Duration) {
	for {
		time.Sleep(500 * time.Millisecond)
		now := time.Now().UnixNano()
		for g := range beats {
			t := atomic.LoadInt64(&beats[g].since)
			if t != 0 && now-t > int64(limit) {
				fi, ci := atomic.LoadInt32(&beats[g].fam), atomic.LoadInt32(&beats[g].cas)
				msg := fmt.Sprintf("{\"goroutine\":%d,\"family\":%q,\"case\":%d,\"seconds\":%d}\n", g, fams[fi].name, ci, int(limit/time.Second))
				os.WriteFile(prefix+".hang", []byte(msg), 0o644)
				os.Exit(4)
			}
		}
	}
}

func runPar(m manifest, prefix string, n, rounds int, mode string) {
	var fams []*family
	var blocks []block
	for fi, spec := range m.Families {
		f := load(spec)
		fams = append(fams, f)
		for _, b := range spec.Blocks {
			if b[0] < 0 || b[1] > f.n || b[0] >= b[1] {
				ev.Fatal("family %s: bad block %v for %d cases", spec.Name, b, f.n)
			}
			blocks = append(blocks, block{fi, b[0], b[1]})
		}
	}
	if len(blocks) == 0 {
		ev.Fatal("no blocks")
	}
	seed := ev.Seed()
	// the block order of every round: the same for all goroutines, fixed before they start
	order := make([][]int, rounds)
	prng := rand.New(rand.NewSource(seed*7919 + int64(n)))
	for r := range order {
		order[r] = prng.Perm(len(blocks))
	}
	bar := newBarrier(n, rounds*len(blocks)+2)
	beats := make([]beat, n)
	go monitor(beats, fams, prefix, 30*time.Second)
	var wg sync.WaitGroup
	counts := make([]int, n)
	for g := 0; g < n; g++ {
		wg.Add(1)
		go func(g int) {
			defer wg.Done()
			rng := rand.New(rand.NewSource(seed*1000 + int64(g)))
			sinks := make([]*sink, len(fams))
			run := make([]runner, len(fams))
			for i, f := range fams {
				sinks[i] = &sink{}
				run[i] = f.runner(sinks[i], g, n)
			}
			me := &beats[g]
			do := func(b block) {
				size := b.hi - b.lo
				off := rng.Intn(size)
				s := sinks[b.fam]
				for k := 0; k < size; k++ {
					i := b.lo + (off+k)%size
					before := len(s.evs)
					atomic.StoreInt32(&me.fam, int32(b.fam))
					atomic.StoreInt32(&me.cas, int32(i))
					atomic.StoreInt64(&me.since, time.Now().UnixNano())
					run[b.fam].run(i)
					atomic.StoreInt64(&me.since, 0)
					s.idx = append(s.idx, i, len(s.evs)-before)
					if rng.Intn(8) == 0 {
						runtime.Gosched()
					}
				}
			}
			nbar := 0
			bar.wait(nbar) // all goroutines exist before any of them calls the library
			nbar++
			for r := 0; r < rounds; r++ {
				aligned := mode == "aligned" || (mode == "alternate" && r%2 == 0)
				ord := order[r]
				if aligned {
					for _, bi := range ord {
						bar.wait(nbar)
						nbar++
						do(blocks[bi])
					}
				} else {
					start := (g * 7) % len(ord)
					for k := range ord {
						do(blocks[ord[(start+k)%len(ord)]])
					}
				}
			}
			for i := range fams {
				run[i].finish()
			}
			bar.wait(rounds*len(blocks) + 1) // every library call has been made: only now the events are marshalled
			for i, f := range fams {
				base := fmt.Sprintf("%s.%s.%d", prefix, f.name, g)
				if err := os.WriteFile(base+".ndjson", sinks[i].ndjson(), 0o644); err != nil {
					ev.Fatal("%v", err)
				}
				if err := os.WriteFile(base+".idx", sinks[i].index(), 0o644); err != nil {
					ev.Fatal("%v", err)
				}
				counts[g] += len(sinks[i].evs)
			}
		}(g)
	}
	wg.Wait()
	total := 0
	for _, c := range counts {
		total += c
	}
	fmt.Println("events", total)
}

// runSeq: one family, one goroutine, the given order of cases
func runSeq(name, cases, order, out string) {
	f := load(famSpec{Name: name, Cases: cases})
	raw, err := os.ReadFile(order)
	if err != nil {
		ev.Fatal("%v", err)
	}
	s := &sink{}
	r := f.runner(s, 0, 1)
	for _, ln := range bytes.Split(raw, []byte("\n")) {
		if len(bytes.TrimSpace(ln)) == 0 {
			continue
		}
		var i int
		if _, err := fmt.Sscan(string(ln), &i); err != nil || i < 0 || i >= f.n {
			ev.Fatal("bad case index %q for %d cases", ln, f.n)
		}
		r.run(i)
	}
	r.finish()
	if err := os.WriteFile(out, s.ndjson(), 0o644); err != nil {
		ev.Fatal("%v", err)
	}
	fmt.Println("events", len(s.evs))
}

func main() {
	ev.Quiet()
	// the library's log calls take the logger's mutex when the level is enabled: another harness-made ordering of goroutines
	logger.GetLogger().SetLevel(logrus.PanicLevel)
	if len(os.Args) == 6 && os.Args[1] == "runseq" {
		runSeq(os.Args[2], os.Args[3], os.Args[4], os.Args[5])
		return
	}
	if len(os.Args) < 7 || os.Args[1] != "runpar" {
		ev.Fatal("usage: conc runpar <manifest.json> <outprefix> <goroutines> <rounds> <aligned|staggered|alternate> | conc runseq <family> <cases.json> <order.idx> <out.ndjson>")
	}
	raw, err := os.ReadFile(os.Args[2])
	if err != nil {
		ev.Fatal("%v", err)
	}
	var m manifest
	if err := json.Unmarshal(raw, &m); err != nil {
		ev.Fatal("manifest: %v", err)
	}
	var n, rounds int
	fmt.Sscan(os.Args[4], &n)
	fmt.Sscan(os.Args[5], &rounds)
	mode := os.Args[6]
	if n < 1 || rounds < 1 || (mode != "aligned" && mode != "staggered" && mode != "alternate") {
		ev.Fatal("bad arguments")
	}
	runPar(m, os.Args[3], n, rounds, mode)
}
