// Package f17: the per-operation functions of harness/cmd/conv17 (C17: timers, session AMBR, time zone / DST /
// universal time, network names) as methods of a per-goroutine Runner, for the concurrent driver (C19).
// Copied from cmd/conv17/main.go; the only change is that the package-level writer became the Runner's
// own sink, so that nothing in the harness is shared between goroutines.  Event shapes are identical:
// the traces are validated by spec/trace/Trace_C17.tla.
package f17

import (
	"encoding/json"
	"os"
	"strconv"
	"time"
	_ "time/tzdata"

	"verifharness/internal/ev"

	"github.com/free5gc/nas/nasConvert"
	"github.com/free5gc/nas/nasType"
	"github.com/free5gc/openapi/models"
)

type Ev struct {
	Op   string `json:"op"`
	D    int    `json:"d"`
	Q    int    `json:"q"`
	Dst  int    `json:"dst"`
	Txt  []int  `json:"txt"`
	In   []int  `json:"in"`
	St   []int  `json:"st"`
	Un   []int  `json:"un"`
	Dlv  int    `json:"dlv"`
	Dlu  string `json:"dlu"`
	Ulv  int    `json:"ulv"`
	Ulu  string `json:"ulu"`
	Dir  string `json:"dir"`
	Lo   int    `json:"lo"`
	Out  []int  `json:"out"`
	Otxt []int  `json:"otxt"`
	Pan  string `json:"pan"`
	Kind string `json:"kind"`
}

func blank(op string) Ev {
	return Ev{Op: op, Txt: []int{}, In: []int{}, St: []int{}, Un: []int{}, Out: []int{}, Otxt: []int{}}
}

type Case struct {
	Op   string `json:"op"`
	D    int    `json:"d"`
	Q    int    `json:"q"`
	Dst  int    `json:"dst"`
	Text []int  `json:"text"`
	O    json.RawMessage `json:"o"`
	St   *struct {
		Y, Mo, D, H, Mi, S, Q int
	} `json:"st"`
	Dlv  int    `json:"dlv"`
	Dlu  string `json:"dlu"`
	Ulv  int    `json:"ulv"`
	Ulu  string `json:"ulu"`
	Kind string `json:"kind"`
	Name []int  `json:"name"`
}

// Sink receives the events of one goroutine.
type Sink interface{ Emit(v interface{}) }

// Runner runs cases for one goroutine.
type Runner struct{ W Sink }

func guard(e *Ev, f func()) {
	if pi := ev.Guard(f); pi != nil {
		if !pi.Lib {
			ev.Fatal("panic outside the library in %s: %s", pi.Fn, pi.Kind)
		}
		e.Pan = pi.Fn + "|" + pi.Kind
	}
}

func str(cp []int) string {
	r := make([]rune, len(cp))
	for i, c := range cp {
		r[i] = rune(c)
	}
	return string(r)
}

func (r *Runner) timer2(d int) {
	e := blank("T2")
	e.D = d
	guard(&e, func() { e.Out = []int{int(nasConvert.GPRSTimer2ToNas(d))} })
	r.W.Emit(e)
}

func (r *Runner) timer3(d int) {
	e := blank("T3")
	e.D = d
	guard(&e, func() { e.Out = []int{int(nasConvert.GPRSTimer3ToNas(d))} })
	r.W.Emit(e)
}

func (r *Runner) timerChunk(op string, lo, n int) {
	e := blank(op)
	e.Lo = lo
	out := make([]int, 0, n)
	guard(&e, func() {
		for d := lo; d < lo+n; d++ {
			if op == "T2C" {
				out = append(out, int(nasConvert.GPRSTimer2ToNas(d)))
			} else {
				out = append(out, int(nasConvert.GPRSTimer3ToNas(d)))
			}
		}
	})
	e.Out = out
	r.W.Emit(e)
}

func ambrOctets(dlv int, dlu string, ulv int, ulu string) []int {
	a := nasConvert.ModelsToSessionAMBR(&models.Ambr{
		Uplink:   strconv.Itoa(ulv) + " " + ulu,
		Downlink: strconv.Itoa(dlv) + " " + dlu,
	})
	return ev.Ints(a.Octet[:])
}

func (r *Runner) ambr(dlv int, dlu string, ulv int, ulu string) {
	e := blank("AMBR")
	e.Dlv, e.Dlu, e.Ulv, e.Ulu = dlv, dlu, ulv, ulu
	guard(&e, func() { e.Out = ambrOctets(dlv, dlu, ulv, ulu) })
	r.W.Emit(e)
}

// one direction ranges over lo..lo+n-1, the other keeps its value
func (r *Runner) ambrChunk(dir string, lo, n int, dlv int, dlu string, ulv int, ulu string) {
	e := blank("AMBRC")
	e.Dir, e.Lo, e.Dlv, e.Dlu, e.Ulv, e.Ulu = dir, lo, dlv, dlu, ulv, ulu
	out := make([]int, 0, 6*n)
	guard(&e, func() {
		for v := lo; v < lo+n; v++ {
			if dir == "dl" {
				out = append(out, ambrOctets(v, dlu, ulv, ulu)...)
			} else {
				out = append(out, ambrOctets(dlv, dlu, v, ulu)...)
			}
		}
	})
	e.Out = out
	r.W.Emit(e)
}

func (r *Runner) zoneEnc(q, dst int, text []int) {
	s := str(text)
	e := blank("TZ")
	e.Q, e.Dst, e.Txt = q, dst, text
	guard(&e, func() {
		z := nasConvert.EncodeLocalTimeZoneToNas(s)
		e.Out = []int{int(z.GetTimeZone())}
	})
	r.W.Emit(e)
	e2 := blank("DST")
	e2.Q, e2.Dst, e2.Txt = q, dst, text
	guard(&e2, func() {
		z := nasConvert.EncodeDaylightSavingTimeToNas(s)
		e2.Out = []int{int(z.GetLen()), int(z.Getvalue())}
	})
	r.W.Emit(e2)
}

func (r *Runner) zoneDec(o int) {
	e := blank("TZDec")
	e.In = []int{o}
	guard(&e, func() {
		var z nasType.LocalTimeZone
		z.SetTimeZone(uint8(o))
		e.Otxt = ev.Runes(nasConvert.DecodeLocalTimeZone(z))
	})
	r.W.Emit(e)
}

func (r *Runner) dstDec(v int) {
	e := blank("DSTDec")
	e.In = []int{v}
	guard(&e, func() {
		var z nasType.NetworkDaylightSavingTime
		z.SetLen(1)
		z.Setvalue(uint8(v))
		e.Otxt = ev.Runes(nasConvert.DecodeDaylightSavingTime(z))
	})
	r.W.Emit(e)
}

func unixParts(t time.Time) []int {
	u := t.Unix()
	d := u / 86400
	s := u % 86400
	if s < 0 {
		s += 86400
		d--
	}
	return []int{int(d), int(s)}
}

func fields(t time.Time) []int {
	_, off := t.Zone()
	return []int{t.Year(), int(t.Month()), t.Day(), t.Hour(), t.Minute(), t.Second(), off}
}

func utOctets(u nasType.UniversalTimeAndLocalTimeZone) []int {
	return []int{int(u.GetYear()), int(u.GetMonth()), int(u.GetDay()), int(u.GetHour()), int(u.GetMinute()), int(u.GetSecond()), int(u.GetTimeZone())}
}

// encode a time, then decode the octets the library produced
func (r *Runner) universal(t time.Time) {
	e := blank("UT")
	e.St, e.Un = fields(t), unixParts(t)
	var enc nasType.UniversalTimeAndLocalTimeZone
	guard(&e, func() {
		enc = nasConvert.EncodeUniversalTimeAndLocalTimeZoneToNas(t)
		e.Out = utOctets(enc)
	})
	r.W.Emit(e)
	if e.Pan == "" {
		r.universalDec(e.Out)
	}
}

func (r *Runner) universalDec(o []int) {
	e := blank("UTDec")
	e.In = o
	guard(&e, func() {
		var u nasType.UniversalTimeAndLocalTimeZone
		u.SetYear(uint8(o[0]))
		u.SetMonth(uint8(o[1]))
		u.SetDay(uint8(o[2]))
		u.SetHour(uint8(o[3]))
		u.SetMinute(uint8(o[4]))
		u.SetSecond(uint8(o[5]))
		u.SetTimeZone(uint8(o[6]))
		t := nasConvert.DecodeUniversalTimeAndLocalTimeZone(u)
		e.St, e.Un = fields(t), unixParts(t)
	})
	r.W.Emit(e)
}

func (r *Runner) name(kind string, cp []int) {
	e := blank("Name")
	e.Kind, e.Txt = kind, cp
	s := string(ev.Bytes(cp)) // septets as bytes (all < 128)
	guard(&e, func() {
		if kind == "Full" {
			n := nasConvert.FullNetworkNameToNas(s)
			e.Out = append([]int{int(n.GetLen())}, ev.Ints(n.Buffer)...)
		} else {
			n := nasConvert.ShortNetworkNameToNas(s)
			e.Out = append([]int{int(n.GetLen())}, ev.Ints(n.Buffer)...)
		}
	})
	r.W.Emit(e)
}

// Run executes one case (cmd/conv17 runCase).
func (r *Runner) Run(c *Case) {
	switch c.Op {
	case "T2":
		r.timer2(c.D)
	case "T3":
		r.timer3(c.D)
	case "AMBR":
		r.ambr(c.Dlv, c.Dlu, c.Ulv, c.Ulu)
	case "TZ":
		r.zoneEnc(c.Q, c.Dst, c.Text)
	case "TZDec":
		var o int
		if err := json.Unmarshal(c.O, &o); err != nil {
			ev.Fatal("TZDec case: %v", err)
		}
		r.zoneDec(o)
	case "DSTDec":
		r.dstDec(c.D)
	case "UT":
		s := c.St
		r.universal(time.Date(s.Y, time.Month(s.Mo), s.D, s.H, s.Mi, s.S, 0, time.FixedZone("z", s.Q*900)))
		// the specification's own octets for this stamp, decoded by the library
		var o []int
		if err := json.Unmarshal(c.O, &o); err != nil || len(o) != 7 {
			ev.Fatal("UT case: %v", err)
		}
		r.universalDec(o)
	case "UTDecOnly":
		var o []int
		if err := json.Unmarshal(c.O, &o); err != nil || len(o) != 7 {
			ev.Fatal("UTDecOnly case: %v", err)
		}
		r.universalDec(o)
	case "Name":
		r.name(c.Kind, c.Name)
	default:
		ev.Fatal("unknown case op %q", c.Op)
	}
}


// Load reads a case file (the format cmd/conv17 replays).
func Load(path string) []Case {
	b, err := os.ReadFile(path)
	if err != nil {
		ev.Fatal("%v", err)
	}
	var cs []Case
	if err := json.Unmarshal(b, &cs); err != nil {
		ev.Fatal("%v", err)
	}
	return cs
}

// Key names the operation kind of a case (cases of one kind run at the same time in all goroutines).
func (c *Case) Key() string { return c.Op + c.Kind }
