// Package f13: the per-operation functions of harness/cmd/arealists (C13: S-NSSAI / NSSAI / rejected NSSAI / TAI list /
// service area list / LADN) as methods of a per-goroutine Runner, for the concurrent driver (C19).  Copied from
// cmd/arealists/main.go; the package-level writer became the Runner's own sink and the child-process path of
// LadnToModels is left out.  Event shapes are identical: the traces are validated by spec/trace/Trace_C13.tla.
package f13

import (
	"encoding/json"
	"os"

	"verifharness/internal/ev"

	"github.com/free5gc/nas/nasConvert"
	"github.com/free5gc/nas/nasType"
	"github.com/free5gc/openapi/models"
)

type Sn struct {
	Sst int   `json:"sst"`
	Sd  []int `json:"sd"`
}

type Map struct {
	Sst  int   `json:"sst"`
	Sd   []int `json:"sd"`
	H    int   `json:"h"`
	Hsst int   `json:"hsst"`
	Hsd  []int `json:"hsd"`
}

type TaiJ struct {
	Mcc []int `json:"mcc"`
	Mnc []int `json:"mnc"`
	Tac []int `json:"tac"`
}

type Ev struct {
	Op    string    `json:"op"`
	W     []int     `json:"w"`     // input octets
	Sn    []Sn      `json:"sn"`    // input S-NSSAI models
	Sn2   []Sn      `json:"sn2"`   // second list (rejected in TA)
	Tai   []TaiJ    `json:"tai"`   // input TAIs (or the PLMN of a service area list in tai[0])
	Areas [][][]int `json:"areas"` // service area restriction: areas -> TAC texts
	K     []int     `json:"k"`     // numbers: cause / allowed flag
	Dnn   []int     `json:"dnn"`   // DNN text
	Ob    []int     `json:"ob"`    // output octets
	Osn   []Map     `json:"osn"`   // output S-NSSAI mappings
	Odnn  [][]int   `json:"odnn"`  // output DNN texts
	On    []int     `json:"on"`    // output numbers
	Err   bool      `json:"err"`
	Panic bool      `json:"panic"`
	Hang  bool      `json:"hang"`
	Pfn   string    `json:"pfn"`
}

type Case struct {
	Fam   string    `json:"fam"`
	W     []int     `json:"w"`
	Sn    []Sn      `json:"sn"`
	Sn2   []Sn      `json:"sn2"`
	Tai   []TaiJ    `json:"tai"`
	Areas [][][]int `json:"areas"`
	K     []int     `json:"k"`
	Dnn   []int     `json:"dnn"`
}

// Sink receives the events of one goroutine.
type Sink interface{ Emit(v interface{}) }

// Runner runs cases for one goroutine.
type Runner struct{ W Sink }

func str(cps []int) string {
	r := make([]rune, len(cps))
	for i, c := range cps {
		r[i] = rune(c)
	}
	return string(r)
}

func norm(e *Ev) {
	if e.W == nil {
		e.W = []int{}
	}
	if e.Sn == nil {
		e.Sn = []Sn{}
	}
	if e.Sn2 == nil {
		e.Sn2 = []Sn{}
	}
	if e.Tai == nil {
		e.Tai = []TaiJ{}
	}
	if e.Areas == nil {
		e.Areas = [][][]int{}
	}
	if e.K == nil {
		e.K = []int{}
	}
	if e.Dnn == nil {
		e.Dnn = []int{}
	}
	if e.Ob == nil {
		e.Ob = []int{}
	}
	if e.Osn == nil {
		e.Osn = []Map{}
	}
	if e.Odnn == nil {
		e.Odnn = [][]int{}
	}
	if e.On == nil {
		e.On = []int{}
	}
	for i := range e.Sn {
		if e.Sn[i].Sd == nil {
			e.Sn[i].Sd = []int{}
		}
	}
	for i := range e.Sn2 {
		if e.Sn2[i].Sd == nil {
			e.Sn2[i].Sd = []int{}
		}
	}
}

func (r *Runner) emit(e Ev, f func(e *Ev)) {
	if pi := ev.Guard(func() { f(&e) }); pi != nil {
		if !pi.Lib {
			ev.Fatal("panic outside the library in %s: %s (%s)", e.Op, pi.Kind, pi.Fn)
		}
		e.Panic, e.Pfn = true, pi.Fn
		e.Ob, e.Osn, e.Odnn, e.On, e.Err = nil, nil, nil, nil, false
	}
	norm(&e)
	r.W.Emit(e)
}

func model(s Sn) models.Snssai { return models.Snssai{Sst: int32(s.Sst), Sd: str(s.Sd)} }
func modelsOf(ss []Sn) []models.Snssai {
	o := []models.Snssai{}
	for _, s := range ss {
		o = append(o, model(s))
	}
	return o
}

func taiModels(ts []TaiJ) []models.Tai {
	o := []models.Tai{}
	for _, t := range ts {
		o = append(o, models.Tai{PlmnId: &models.PlmnId{Mcc: str(t.Mcc), Mnc: str(t.Mnc)}, Tac: str(t.Tac)})
	}
	return o
}

// ---------------------------------------------------------------- the observed functions

func (r *Runner) snssaiToNas(s Sn) {
	r.emit(Ev{Op: "SnssaiToNas", Sn: []Sn{s}}, func(e *Ev) { e.Ob = ev.Ints(nasConvert.SnssaiToNas(model(s))) })
}

func (r *Runner) rejectedSnssaiToNas(s Sn, cause int) {
	r.emit(Ev{Op: "RejectedSnssaiToNas", Sn: []Sn{s}, K: []int{cause}}, func(e *Ev) {
		e.Ob = ev.Ints(nasConvert.RejectedSnssaiToNas(model(s), uint8(cause)))
	})
}

func (r *Runner) snssaiToModels(wire []int) {
	r.emit(Ev{Op: "SnssaiToModels", W: wire}, func(e *Ev) {
		var n nasType.SNSSAI
		n.Len = uint8(wire[0])
		copy(n.Octet[:], ev.Bytes(wire[1:]))
		m := nasConvert.SnssaiToModels(&n)
		e.Osn = []Map{{Sst: int(m.Sst), Sd: ev.Runes(m.Sd), Hsd: []int{}}}
	})
}

func (r *Runner) requestedNssaiToModels(wire []int) {
	r.emit(Ev{Op: "RequestedNssaiToModels", W: wire}, func(e *Ev) {
		var n nasType.RequestedNSSAI
		n.SetLen(uint8(len(wire)))
		n.SetSNSSAIValue(ev.Bytes(wire))
		ms, err := nasConvert.RequestedNssaiToModels(&n)
		e.Err = err != nil
		if err == nil {
			for _, m := range ms {
				x := Map{Sd: []int{}, Hsd: []int{}}
				if m.ServingSnssai != nil {
					x.Sst, x.Sd = int(m.ServingSnssai.Sst), ev.Runes(m.ServingSnssai.Sd)
				} else {
					x.Sst = -1
				}
				if m.HomeSnssai != nil {
					x.H, x.Hsst, x.Hsd = 1, int(m.HomeSnssai.Sst), ev.Runes(m.HomeSnssai.Sd)
				}
				e.Osn = append(e.Osn, x)
			}
		}
	})
}

func (r *Runner) rejectedNssaiToNas(a, b []Sn) {
	r.emit(Ev{Op: "RejectedNssaiToNas", Sn: a, Sn2: b}, func(e *Ev) {
		r := nasConvert.RejectedNssaiToNas(modelsOf(a), modelsOf(b))
		e.Ob, e.On = ev.Ints(r.GetRejectedNSSAIContents()), []int{int(r.GetLen())}
	})
}

func (r *Runner) taiListToNas(ts []TaiJ) {
	r.emit(Ev{Op: "TaiListToNas", Tai: ts}, func(e *Ev) { e.Ob = ev.Ints(nasConvert.TaiListToNas(taiModels(ts))) })
}

func (r *Runner) serviceAreaToNas(plmn TaiJ, allowed int, areas [][][]int) {
	r.emit(Ev{Op: "PartialServiceAreaListToNas", Tai: []TaiJ{plmn}, K: []int{allowed}, Areas: areas}, func(e *Ev) {
		r := models.ServiceAreaRestriction{RestrictionType: models.RestrictionType_NOT_ALLOWED_AREAS}
		if allowed == 1 {
			r.RestrictionType = models.RestrictionType_ALLOWED_AREAS
		}
		for _, a := range areas {
			ar := models.Area{}
			for _, t := range a {
				ar.Tacs = append(ar.Tacs, str(t))
			}
			r.Areas = append(r.Areas, ar)
		}
		e.Ob = ev.Ints(nasConvert.PartialServiceAreaListToNas(models.PlmnId{Mcc: str(plmn.Mcc), Mnc: str(plmn.Mnc)}, r))
	})
}

func (r *Runner) ladnToNas(dnn []int, ts []TaiJ) {
	r.emit(Ev{Op: "LadnToNas", Dnn: dnn, Tai: ts}, func(e *Ev) { e.Ob = ev.Ints(nasConvert.LadnToNas(str(dnn), taiModels(ts))) })
}

type childRes struct {
	Odnn  [][]int `json:"odnn"`
	Panic bool    `json:"panic"`
	Pfn   string  `json:"pfn"`
}

func ladnInProcess(wire []int) childRes {
	var r childRes
	if pi := ev.Guard(func() {
		for _, d := range nasConvert.LadnToModels(ev.Bytes(wire)) {
			r.Odnn = append(r.Odnn, ev.Ints([]byte(d)))
		}
	}); pi != nil {
		if !pi.Lib {
			ev.Fatal("panic outside the library in LadnToModels: %s (%s)", pi.Kind, pi.Fn)
		}
		r = childRes{Panic: true, Pfn: pi.Fn}
	}
	return r
}

// LadnToModels.  The sequential driver runs inputs that contain a zero octet in a self-limiting child process
// (possible endless walk); the concurrent driver never runs them (the case list excludes them, and a stray one is skipped).
func (r *Runner) ladnToModels(wire []int) {
	e := Ev{Op: "LadnToModels", W: wire}
	for _, x := range wire {
		if x == 0 {
			return
		}
	}
	cr := ladnInProcess(wire)
	e.Odnn, e.Panic, e.Pfn = cr.Odnn, cr.Panic, cr.Pfn
	norm(&e)
	r.W.Emit(e)
}

// Run executes one case (cmd/arealists runCase).
func (r *Runner) Run(c *Case) {
	switch c.Fam {
	case "snssai":
		r.snssaiToNas(c.Sn[0])
		for _, k := range c.K {
			r.rejectedSnssaiToNas(c.Sn[0], k)
		}
		r.snssaiToModels(c.W)
	case "snssaiwire":
		r.snssaiToModels(c.W)
	case "nssai", "badnssai":
		r.requestedNssaiToModels(c.W)
	case "rej":
		r.rejectedNssaiToNas(c.Sn, c.Sn2)
	case "tai":
		r.taiListToNas(c.Tai)
	case "sal":
		r.serviceAreaToNas(c.Tai[0], c.K[0], c.Areas)
	case "ladn":
		r.ladnToNas(c.Dnn, c.Tai)
	case "ladnind":
		r.ladnToModels(c.W)
	default:
		ev.Fatal("unknown case family %q", c.Fam)
	}
}


// Load reads a case file (the format cmd/arealists replays).  The cases are normalised here, before any goroutine
// starts, so that running a case never writes to it.
func Load(path string) []Case {
	b, err := os.ReadFile(path)
	if err != nil {
		ev.Fatal("%v", err)
	}
	var cs []Case
	if err := json.Unmarshal(b, &cs); err != nil {
		ev.Fatal("%v", err)
	}
	for i := range cs {
		for j := range cs[i].Sn {
			if cs[i].Sn[j].Sd == nil {
				cs[i].Sn[j].Sd = []int{}
			}
		}
		for j := range cs[i].Sn2 {
			if cs[i].Sn2[j].Sd == nil {
				cs[i].Sn2[j].Sd = []int{}
			}
		}
	}
	return cs
}

// Key names the operation kind of a case.
func (c *Case) Key() string { return c.Fam }
