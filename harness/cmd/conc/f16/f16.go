// Package f16: the per-operation functions of harness/cmd/pco (C16: protocol configuration options and PDU session
// status bitmaps) for the concurrent driver (C19).  Copied from cmd/pco/main.go; the writer is the per-goroutine sink and
// the watchdog period is longer.  Event shapes are identical: the traces are validated by spec/trace/Trace_C16.tla.
package f16

import (
	"encoding/json"
	"os"
	"time"

	"verifharness/internal/ev"

	"github.com/free5gc/nas/nasConvert"
)

// Sink receives the events of one goroutine.
type Sink interface{ Emit(v interface{}) }

// Runner runs cases for one goroutine.
type Runner struct{ W Sink }

// Watchdog is the period after which a call counts as not returning.
var Watchdog = 2 * time.Second

type Unit struct {
	ID       int   `json:"id"`
	Len      int   `json:"len"`
	Contents []int `json:"contents"`
}

type Case struct {
	Kind  string `json:"kind"`
	Units []Unit `json:"units"`
	Cuts  []int  `json:"cuts"`
	Data  []int  `json:"data"`
	Base  int    `json:"base"`
}

// one flat schema for the PCO events (every key always present)
type PcoEv struct {
	Op    string `json:"op"`
	Units []Unit `json:"units"` // RoundTrip: the list given to Marshal
	Bytes []int  `json:"bytes"` // RoundTrip: result of Marshal; UnMarshal: the input
	Back  []Unit `json:"back"`  // result list of UnMarshal
	Err   bool   `json:"err"`
	Panic bool   `json:"panic"`
	PLib  bool   `json:"plib"`
	PFn   string `json:"pfn"`
	Hang  bool   `json:"hang"`
}

type PsiEv struct {
	Op  string  `json:"op"`
	In  [][]int `json:"in"`
	Out [][]int `json:"out"`
	// ReactErrCause only
	Ids    []int  `json:"ids"`
	Causes []int  `json:"causes"`
	Panic  bool   `json:"panic"`
	PLib   bool   `json:"plib"`
	PFn    string `json:"pfn"`
}

func project(p *nasConvert.ProtocolConfigurationOptions) []Unit {
	out := []Unit{}
	for _, u := range p.ProtocolOrContainerList {
		if u == nil {
			out = append(out, Unit{ID: -1, Len: -1, Contents: []int{}})
			continue
		}
		out = append(out, Unit{ID: int(u.ProtocolOrContainerID), Len: int(u.LengthOfContents), Contents: ev.Ints(u.Contents)})
	}
	return out
}

func build(us []Unit) *nasConvert.ProtocolConfigurationOptions {
	p := nasConvert.NewProtocolConfigurationOptions()
	for _, u := range us {
		c := nasConvert.NewProtocolOrContainerUnit()
		c.ProtocolOrContainerID = uint16(u.ID)
		c.LengthOfContents = uint8(u.Len)
		c.Contents = ev.Bytes(u.Contents)
		p.ProtocolOrContainerList = append(p.ProtocolOrContainerList, c)
	}
	return p
}

// guarded runs f under panic capture with a 2 s watchdog.
func guarded(f func()) (pi *ev.PanicInfo, hang bool) {
	done := make(chan *ev.PanicInfo, 1)
	go func() { done <- ev.Guard(f) }()
	select {
	case pi = <-done:
		return pi, false
	case <-time.After(Watchdog):
		return nil, true
	}
}

func setPanic(e *PcoEv, pi *ev.PanicInfo) {
	if pi != nil {
		e.Panic, e.PLib, e.PFn = true, pi.Lib, pi.Fn
	}
}

func unmarshal(w Sink, data []byte) {
	e := PcoEv{Op: "PcoUnMarshal", Units: []Unit{}, Bytes: ev.Ints(data), Back: []Unit{}}
	in := append([]byte{}, data...)
	var back []Unit
	var isErr bool
	pi, hang := guarded(func() {
		p := nasConvert.NewProtocolConfigurationOptions()
		err := p.UnMarshal(in)
		isErr = err != nil
		back = project(p)
	})
	e.Hang = hang
	setPanic(&e, pi)
	if !hang && pi == nil {
		e.Back, e.Err = back, isErr
	}
	w.Emit(e)
}

func roundTrip(w Sink, us []Unit) []byte {
	e := PcoEv{Op: "PcoRoundTrip", Units: us, Bytes: []int{}, Back: []Unit{}}
	if e.Units == nil {
		e.Units = []Unit{}
	}
	var bytes []byte
	var back []Unit
	var isErr bool
	pi, hang := guarded(func() {
		bytes = build(us).Marshal()
		p := nasConvert.NewProtocolConfigurationOptions()
		err := p.UnMarshal(append([]byte{}, bytes...))
		isErr = err != nil
		back = project(p)
	})
	e.Hang = hang
	setPanic(&e, pi)
	if !hang {
		e.Bytes = ev.Ints(bytes)
	}
	if !hang && pi == nil {
		e.Back, e.Err = back, isErr
	}
	w.Emit(e)
	if hang || pi != nil {
		return nil
	}
	return bytes
}

func bools(a [16]bool) []int {
	o := make([]int, 16)
	for i, b := range a {
		if b {
			o[i] = 1
		}
	}
	return o
}

// psiChunk converts the 256 values base..base+255 in both directions (one event per direction).
func psiChunk(w Sink, base int) {
	const chunk = 256
	e1 := PsiEv{Op: "PsiToBool", In: [][]int{}, Out: [][]int{}, Ids: []int{}, Causes: []int{}}
	e2 := PsiEv{Op: "PsiToBuf", In: [][]int{}, Out: [][]int{}, Ids: []int{}, Causes: []int{}}
	pi := ev.Guard(func() {
		for v := base; v < base+chunk; v++ {
			buf := []byte{byte(v & 0xff), byte(v >> 8)}
			arr := nasConvert.PSIToBooleanArray(buf)
			e1.In = append(e1.In, ev.Ints(buf))
			e1.Out = append(e1.Out, bools(arr))
		}
	})
	if pi != nil {
		e1.Panic, e1.PLib, e1.PFn = true, pi.Lib, pi.Fn
	}
	w.Emit(e1)
	pi = ev.Guard(func() {
		for v := base; v < base+chunk; v++ {
			// the bitmap whose entry i is bit i of v (input construction only)
			var arr [16]bool
			for i := 0; i < 16; i++ {
				arr[i] = (v>>uint(i))&1 == 1
			}
			buf := nasConvert.PSIToBuf(arr)
			e2.In = append(e2.In, bools(arr))
			e2.Out = append(e2.Out, ev.Ints(buf))
		}
	})
	if pi != nil {
		e2.Panic, e2.PLib, e2.PFn = true, pi.Lib, pi.Fn
	}
	w.Emit(e2)
}


// Load reads a case file (the format cmd/pco replays).
func Load(path string) []Case {
	b, err := os.ReadFile(path)
	if err != nil {
		ev.Fatal("%v", err)
	}
	var cases []Case
	if err := json.Unmarshal(b, &cases); err != nil {
		ev.Fatal("%v", err)
	}
	for i := range cases {
		if cases[i].Units == nil {
			cases[i].Units = []Unit{}
		}
	}
	return cases
}

// Key names the operation kind of a case.
func (c *Case) Key() string { return c.Kind }

// Run executes one case (the loop body of cmd/pco replay).
func (r *Runner) Run(c *Case) {
	w := r.W
	switch c.Kind {
	case "units":
		m := roundTrip(w, c.Units)
		for _, cut := range c.Cuts {
			if cut >= 0 && cut <= len(m) {
				unmarshal(w, m[:cut])
			}
		}
	case "bytes":
		unmarshal(w, ev.Bytes(c.Data))
	case "psi":
		psiChunk(w, c.Base)
	default:
		ev.Fatal("unknown case kind %q", c.Kind)
	}
}
