//go:build !c19ie

package main

// loadExtra: families that need generated plumbing (the IE accessor registry, build tag c19ie) are absent here.
func loadExtra(spec famSpec) *family { return nil }
