// Package nopool: helpers of the concurrent driver that never touch a sync.Pool, a mutex or a channel.
//
// The race detector orders two goroutines whenever one takes from a sync.Pool what the other put there; encoding/json
// and fmt keep their scratch state in such pools.  Used between two library calls they would order the calls of
// different goroutines by happens-before and hide an unsynchronised access inside the library.  While the goroutines
// work, the concurrent driver therefore keeps events as values (marshalled after the work is done) and derives the
// comparison keys of the held-result queues (cmd/identity, cmd/arealists: json.Marshal of the arguments) with Marshal
// below.  Its output is only compared for equality, never logged.
package nopool

import (
	"reflect"
	"strconv"
)

// Marshal writes a deterministic, injective rendering of ints, strings, bools, slices, arrays, structs, pointers
// and interfaces built from them.  Same signature as json.Marshal.
func Marshal(v interface{}) ([]byte, error) {
	return put(nil, reflect.ValueOf(v)), nil
}

func put(b []byte, v reflect.Value) []byte {
	switch v.Kind() {
	case reflect.Invalid:
		return append(b, 'n')
	case reflect.Bool:
		if v.Bool() {
			return append(b, 't')
		}
		return append(b, 'f')
	case reflect.Int, reflect.Int8, reflect.Int16, reflect.Int32, reflect.Int64:
		return strconv.AppendInt(append(b, 'i'), v.Int(), 10)
	case reflect.Uint, reflect.Uint8, reflect.Uint16, reflect.Uint32, reflect.Uint64, reflect.Uintptr:
		return strconv.AppendUint(append(b, 'u'), v.Uint(), 10)
	case reflect.String:
		s := v.String()
		b = strconv.AppendInt(append(b, 's'), int64(len(s)), 10)
		return append(append(b, ':'), s...)
	case reflect.Slice, reflect.Array:
		if v.Kind() == reflect.Slice && v.IsNil() {
			return append(b, 'n')
		}
		b = append(b, '[')
		for i := 0; i < v.Len(); i++ {
			b = append(put(b, v.Index(i)), ',')
		}
		return append(b, ']')
	case reflect.Struct:
		b = append(b, '{')
		for i := 0; i < v.NumField(); i++ {
			b = append(put(b, v.Field(i)), ',')
		}
		return append(b, '}')
	case reflect.Ptr, reflect.Interface:
		if v.IsNil() {
			return append(b, 'n')
		}
		return put(append(b, '*'), v.Elem())
	}
	panic("nopool.Marshal: unsupported kind " + v.Kind().String())
}
