// Package f18: the per-operation functions of harness/cmd/uepol (C18: the UE policy container codec) for the concurrent
// driver (C19).  Copied from cmd/uepol/main.go; the writer is the per-goroutine sink, the count of calls that did not
// return is kept per goroutine (it was a package-level map), and the watchdog period is longer.  Event shapes are
// identical: the traces are validated by spec/trace/Trace_C18.tla.
package f18

import (
	"bytes"
	"encoding/json"
	"os"
	"time"

	"verifharness/internal/ev"

	upc "github.com/free5gc/nas/uePolicyContainer"
)

// Sink receives the events of one goroutine.
type Sink interface{ Emit(v interface{}) }

// Watchdog is the period after which a call counts as not returning.
var Watchdog = 2 * time.Second

// ---------------------------------------------------------------- structures as chosen by the generator
type PartS struct {
	Ty int   `json:"ty"`
	C  []int `json:"c"`
}
type InsS struct {
	Upsc  int     `json:"upsc"`
	Parts []PartS `json:"parts"`
}
type SubS struct {
	Mcc int    `json:"mcc"`
	Mnc int    `json:"mnc"`
	Ins []InsS `json:"ins"`
}
type ResS struct {
	Upsc  int `json:"upsc"`
	Ord   int `json:"ord"`
	Cause int `json:"cause"`
}
type SubResS struct {
	Mcc int    `json:"mcc"`
	Mnc int    `json:"mnc"`
	Rs  []ResS `json:"rs"`
}
type St struct {
	Pti  int       `json:"pti"`
	Type int       `json:"type"`
	Iei  int       `json:"iei"`
	Subs []SubS    `json:"subs"`
	Srs  []SubResS `json:"srs"`
	Cm   []int     `json:"cm"` // [] or [iei, nssui]
}

// ---------------------------------------------------------------- projections of real structures
type PartP struct {
	Len int   `json:"len"`
	Ty  int   `json:"ty"`
	C   []int `json:"c"`
}
type InsP struct {
	Len   int     `json:"len"`
	Upsc  int     `json:"upsc"`
	Parts []PartP `json:"parts"`
}
type SubP struct {
	Len  int    `json:"len"`
	Plmn []int  `json:"plmn"`
	Ins  []InsP `json:"ins"`
}
type ResP struct {
	Upsc  int `json:"upsc"`
	Ord   int `json:"ord"`
	Cause int `json:"cause"`
}
type SubResP struct {
	Len  int    `json:"len"`
	Plmn []int  `json:"plmn"`
	Rs   []ResP `json:"rs"`
}
type Proj struct {
	Pti   int       `json:"pti"`
	Type  int       `json:"type"`
	Iei   int       `json:"iei"`
	Len   int       `json:"len"`
	Subs  []SubP    `json:"subs"`
	Srs   []SubResP `json:"srs"`
	Cm    []int     `json:"cm"`
	Ins   []InsP    `json:"ins"`
	Parts []PartP   `json:"parts"`
	Rs    []ResP    `json:"rs"`
}

func emptyProj() Proj {
	return Proj{Subs: []SubP{}, Srs: []SubResP{}, Cm: []int{}, Ins: []InsP{}, Parts: []PartP{}, Rs: []ResP{}}
}

func projParts(ps upc.UEPolicySectionContents) []PartP {
	o := []PartP{}
	for _, p := range ps {
		o = append(o, PartP{Len: int(p.GetLen()), Ty: int(p.UEPolicyPartType.GetPartType()), C: ev.Ints(p.GetPartContent())})
	}
	return o
}
func projIns(is upc.UEPolicySectionManagementSubListContents) []InsP {
	o := []InsP{}
	for _, i := range is {
		o = append(o, InsP{Len: int(i.GetLen()), Upsc: int(i.GetUpsc()), Parts: projParts(i.UEPolicySectionContents)})
	}
	return o
}
func deref(p *int) int {
	if p == nil {
		return -1
	}
	return *p
}
func projSubs(ss upc.UEPolicySectionManagementListContent) ([]SubP, [][]int) {
	o, mm := []SubP{}, [][]int{}
	for _, s := range ss {
		o = append(o, SubP{Len: int(s.GetLen()), Plmn: []int{int(s.PlmnDigit1), int(s.PlmnDigit2), int(s.PlmnDigit3)},
			Ins: projIns(s.UEPolicySectionManagementSubListContents)})
		mm = append(mm, []int{deref(s.Mcc), deref(s.Mnc)})
	}
	return o, mm
}
func projRs(rs upc.UEPolicySectionManagementSubResultContents) []ResP {
	o := []ResP{}
	for _, r := range rs {
		o = append(o, ResP{Upsc: int(r.GetUpsc()), Ord: int(r.FailInstructionOrder), Cause: int(r.Cause)})
	}
	return o
}
func projSrs(ss upc.UEPolicySectionManagementResultContent) ([]SubResP, [][]int) {
	o, mm := []SubResP{}, [][]int{}
	for _, s := range ss {
		o = append(o, SubResP{Len: int(s.GetLen()), Plmn: []int{int(s.PlmnDigit1), int(s.PlmnDigit2), int(s.PlmnDigit3)},
			Rs: projRs(s.UEPolicySectionManagementSubResultContents)})
		mm = append(mm, []int{deref(s.Mcc), deref(s.Mnc)})
	}
	return o, mm
}

// ---------------------------------------------------------------- guarded calls
// run f under ev.Guard with a 2 s watchdog; on expiry the goroutine is abandoned
func guarded(f func()) (pi *ev.PanicInfo, hang bool) {
	done := make(chan *ev.PanicInfo, 1)
	go func() { done <- ev.Guard(f) }()
	t := time.NewTimer(Watchdog)
	defer t.Stop()
	select {
	case pi = <-done:
		return pi, false
	case <-t.C:
		return nil, true
	}
}

type Obs struct {
	Panic bool   `json:"panic"`
	Lib   bool   `json:"lib"`
	Fn    string `json:"fn"`
	Kind  string `json:"kind"`
	Hang  bool   `json:"hang"`
}

func obs(pi *ev.PanicInfo, hang bool) Obs {
	o := Obs{Hang: hang}
	if pi != nil {
		o.Panic, o.Lib, o.Fn, o.Kind = true, pi.Lib, pi.Fn, pi.Kind
	}
	return o
}

// ---------------------------------------------------------------- decoding entry points
type decRes struct {
	p   Proj
	mm  [][]int
	err bool
}

// the decode pipeline the API intends: the message decoder delivers the IE contents as octets,
// the nested list is recovered by the contents' own UnmarshalBinary
func decodeOp(op string, b []byte) decRes {
	r := decRes{p: emptyProj(), mm: [][]int{}}
	switch op {
	case "DecodeMsg":
		d := upc.NewUePolDeliverySer()
		if e := d.UePolDeliverySerDecode(b); e != nil {
			r.err = true
			return r
		}
		r.p.Type = int(d.GetHeaderMessageType())
		r.p.Pti = int(d.GetHeaderPTI())
		switch {
		case d.ManageUEPolicyCommand != nil:
			c := d.ManageUEPolicyCommand
			r.p.Pti = int(c.PTI.GetPTI())
			r.p.Type = int(c.UePolicyDeliveryServiceMsgType.Octet)
			r.p.Iei = int(c.UEPolicySectionManagementList.GetIei())
			r.p.Len = int(c.UEPolicySectionManagementList.GetLen())
			var lc upc.UEPolicySectionManagementListContent
			if e := lc.UnmarshalBinary(c.UEPolicySectionManagementList.GetUEPolicySectionManagementListContent()); e != nil {
				r.err = true
				return r
			}
			r.p.Subs, r.mm = projSubs(lc)
			if c.UEPolicyNetworkClassmark != nil {
				k := c.UEPolicyNetworkClassmark
				r.p.Cm = []int{int(k.GetIei()), int(k.GetLen()), int(k.GetNSSUI()), int(k.GetSpare())}
			}
		case d.ManageUEPolicyComplete != nil:
			c := d.ManageUEPolicyComplete
			r.p.Pti = int(c.PTI.GetPTI())
			r.p.Type = int(c.UePolicyDeliveryServiceMsgType.Octet)
		case d.ManageUEPolicyReject != nil:
			c := d.ManageUEPolicyReject
			r.p.Pti = int(c.PTI.GetPTI())
			r.p.Type = int(c.UePolicyDeliveryServiceMsgType.Octet)
			r.p.Iei = int(c.UEPolicySectionManagementResult.GetIei())
			r.p.Len = int(c.UEPolicySectionManagementResult.GetLen())
			var rc upc.UEPolicySectionManagementResultContent
			if e := rc.UnmarshalBinary(c.UEPolicySectionManagementResult.GetUEPolicySectionManagementResultContent()); e != nil {
				r.err = true
				return r
			}
			r.p.Srs, r.mm = projSrs(rc)
		}
	case "ListUnmarshal":
		var l upc.UEPolicySectionManagementList
		if e := l.UnmarshalBinary(bytes.NewBuffer(b)); e != nil {
			r.err = true
			return r
		}
		r.p.Iei, r.p.Len = int(l.GetIei()), int(l.GetLen())
		var lc upc.UEPolicySectionManagementListContent
		if e := lc.UnmarshalBinary(l.GetUEPolicySectionManagementListContent()); e != nil {
			r.err = true
			return r
		}
		r.p.Subs, r.mm = projSubs(lc)
	case "ContentUnmarshal":
		var lc upc.UEPolicySectionManagementListContent
		if e := lc.UnmarshalBinary(b); e != nil {
			r.err = true
			return r
		}
		r.p.Subs, r.mm = projSubs(lc)
	case "InstrsUnmarshal":
		var is upc.UEPolicySectionManagementSubListContents
		if e := is.UnmarshalBinary(b); e != nil {
			r.err = true
			return r
		}
		r.p.Ins = projIns(is)
	case "PartsUnmarshal":
		var ps upc.UEPolicySectionContents
		if e := ps.UnmarshalBinary(b); e != nil {
			r.err = true
			return r
		}
		r.p.Parts = projParts(ps)
	case "ResultUnmarshal":
		var l upc.UEPolicySectionManagementResult
		if e := l.UnmarshalBinary(bytes.NewBuffer(b)); e != nil {
			r.err = true
			return r
		}
		r.p.Iei, r.p.Len = int(l.GetIei()), int(l.GetLen())
		var rc upc.UEPolicySectionManagementResultContent
		if e := rc.UnmarshalBinary(l.GetUEPolicySectionManagementResultContent()); e != nil {
			r.err = true
			return r
		}
		r.p.Srs, r.mm = projSrs(rc)
	case "RContentUnmarshal":
		var rc upc.UEPolicySectionManagementResultContent
		if e := rc.UnmarshalBinary(b); e != nil {
			r.err = true
			return r
		}
		r.p.Srs, r.mm = projSrs(rc)
	case "ResultsUnmarshal":
		var rs upc.UEPolicySectionManagementSubResultContents
		if e := rs.UnmarshalBinary(b); e != nil {
			r.err = true
			return r
		}
		r.p.Rs = projRs(rs)
	default:
		ev.Fatal("unknown decode op %q", op)
	}
	return r
}

var allOps = []string{"DecodeMsg", "ListUnmarshal", "ContentUnmarshal", "InstrsUnmarshal", "PartsUnmarshal",
	"ResultUnmarshal", "RContentUnmarshal", "ResultsUnmarshal"}

type DecEv struct {
	Op   string  `json:"op"`
	In   []int   `json:"in"`
	Err  bool    `json:"err"`
	Proj Proj    `json:"proj"`
	Mm   [][]int `json:"mm"`
	Obs
}

// an entry point that has hung three times is not called again by this goroutine (each hang leaves a
// spinning goroutine behind and costs the watchdog period; three observations are enough for a verdict)

func (s *Runner) decode(op string, b []byte) {
	if s.hangs[op] >= 3 {
		return
	}
	in := append([]byte{}, b...) // the call gets its own copy
	var r decRes
	pi, hang := guarded(func() { r = decodeOp(op, in) })
	if hang {
		s.hangs[op]++
	}
	e := DecEv{Op: op, In: ev.Ints(b), Obs: obs(pi, hang), Proj: emptyProj(), Mm: [][]int{}}
	if pi == nil && !hang {
		e.Err, e.Proj, e.Mm = r.err, r.p, r.mm
	}
	s.w.Emit(e)
}

// ---------------------------------------------------------------- building through the API
type BuildEv struct {
	Op    string  `json:"op"`
	St    St      `json:"st"`
	Perr  bool    `json:"perr"` // a SetPlmnDigit call reported an error
	Eerr  bool    `json:"eerr"`
	Enc   []int   `json:"enc"`
	Built Proj    `json:"built"`
	Derr  bool    `json:"derr"`
	Dec   Proj    `json:"dec"`
	Dmm   [][]int `json:"dmm"`
	Lerr  bool    `json:"lerr"` // stand-alone IE MarshalBinary / UnmarshalBinary
	Lenc  []int   `json:"lenc"`
	Ldec  Proj    `json:"ldec"`
	Obs
}

func buildSubs(ss []SubS) (upc.UEPolicySectionManagementListContent, bool) {
	var lc upc.UEPolicySectionManagementListContent
	perr := false
	for _, s := range ss {
		var sl upc.UEPolicySectionManagementSubList
		if e := sl.SetPlmnDigit(s.Mcc, s.Mnc); e != nil {
			perr = true
		}
		for _, i := range s.Ins {
			var in upc.Instruction
			in.SetUpsc(uint16(i.Upsc))
			for _, p := range i.Parts {
				var pt upc.UEPolicyPart
				pt.UEPolicyPartType.SetPartType(byte(p.Ty))
				pt.SetPartContent(ev.Bytes(p.C))
				in.UEPolicySectionContents.AppendUEPolicyPart(&pt)
			}
			sl.UEPolicySectionManagementSubListContents.AppendInstruction(in)
		}
		lc.AppendSublist(sl)
	}
	return lc, perr
}

func buildSrs(ss []SubResS) (upc.UEPolicySectionManagementResultContent, bool) {
	var rc upc.UEPolicySectionManagementResultContent
	perr := false
	for _, s := range ss {
		var sr upc.UEPolicySectionManagementSubResult
		if e := sr.SetPlmnDigit(s.Mcc, s.Mnc); e != nil {
			perr = true
		}
		for _, r := range s.Rs {
			x := upc.NewResult()
			x.SetUpsc(uint16(r.Upsc))
			x.FailInstructionOrder = uint16(r.Ord)
			x.Cause = uint8(r.Cause)
			sr.UEPolicySectionManagementSubResultContents.AppendResult(x)
		}
		rc.AppendSublist(sr)
	}
	return rc, perr
}

func (s *Runner) build(st St) []byte {
	if s.hangs["Build"] >= 3 {
		return nil
	}
	e := BuildEv{Op: "Build", St: st, Enc: []int{}, Built: emptyProj(), Dec: emptyProj(), Dmm: [][]int{}, Lenc: []int{}, Ldec: emptyProj()}
	var enc []byte
	pi, hang := guarded(func() {
		u := upc.NewUePolDeliverySer()
		u.SetHeaderPTI(uint8(st.Pti))
		u.SetHeaderMessageType(uint8(st.Type))
		b := emptyProj()
		b.Pti, b.Type = st.Pti, st.Type
		var lenc []byte
		var lerr error
		ldec := emptyProj()
		switch uint8(st.Type) {
		case upc.MsgTypeManageUEPolicyCommand:
			c := upc.NewManageUEPolicyCommand(uint8(st.Type))
			c.PTI.SetPTI(uint8(st.Pti))
			lc, perr := buildSubs(st.Subs)
			e.Perr = perr
			cb, err := lc.MarshalBinary()
			if err != nil {
				e.Eerr = true
				return
			}
			c.UEPolicySectionManagementList.SetIei(uint8(st.Iei))
			c.UEPolicySectionManagementList.SetLen(uint16(len(cb)))
			c.UEPolicySectionManagementList.SetUEPolicySectionManagementListContent(cb)
			if len(st.Cm) == 2 {
				c.UEPolicyNetworkClassmark = upc.NewUEPolicyNetworkClassmark()
				c.UEPolicyNetworkClassmark.SetIei(uint8(st.Cm[0]))
				if err := c.UEPolicyNetworkClassmark.SetNSSUI(uint8(st.Cm[1])); err != nil {
					e.Eerr = true
					return
				}
			}
			u.ManageUEPolicyCommand = c
			b.Iei, b.Len = int(c.UEPolicySectionManagementList.GetIei()), int(c.UEPolicySectionManagementList.GetLen())
			b.Subs, _ = projSubs(lc)
			if k := c.UEPolicyNetworkClassmark; k != nil {
				b.Cm = []int{int(k.GetIei()), int(k.GetLen()), int(k.GetNSSUI()), int(k.GetSpare())}
			}
			// the IE's own MarshalBinary / UnmarshalBinary
			lenc, lerr = c.UEPolicySectionManagementList.MarshalBinary()
			if lerr == nil {
				var l2 upc.UEPolicySectionManagementList
				if lerr = l2.UnmarshalBinary(bytes.NewBuffer(lenc)); lerr == nil {
					ldec.Iei, ldec.Len = int(l2.GetIei()), int(l2.GetLen())
					var lc2 upc.UEPolicySectionManagementListContent
					if lerr = lc2.UnmarshalBinary(l2.GetUEPolicySectionManagementListContent()); lerr == nil {
						ldec.Subs, _ = projSubs(lc2)
					}
				}
			}
		case upc.MsgTypeManageUEPolicyComplete:
			c := upc.NewManageUEPolicyComplete(uint8(st.Type))
			c.PTI.SetPTI(uint8(st.Pti))
			u.ManageUEPolicyComplete = c
		case upc.MsgTypeManageUEPolicyReject:
			c := upc.NewManageUEPolicyReject(uint8(st.Type))
			c.PTI.SetPTI(uint8(st.Pti))
			rc, perr := buildSrs(st.Srs)
			e.Perr = perr
			cb, err := rc.MarshalBinary()
			if err != nil {
				e.Eerr = true
				return
			}
			c.UEPolicySectionManagementResult.SetIei(uint8(st.Iei))
			c.UEPolicySectionManagementResult.SetLen(uint16(len(cb)))
			c.UEPolicySectionManagementResult.SetUEPolicySectionManagementResultContent(cb)
			u.ManageUEPolicyReject = c
			b.Iei, b.Len = int(c.UEPolicySectionManagementResult.GetIei()), int(c.UEPolicySectionManagementResult.GetLen())
			b.Srs, _ = projSrs(rc)
			lenc, lerr = c.UEPolicySectionManagementResult.MarshalBinary()
			if lerr == nil {
				var l2 upc.UEPolicySectionManagementResult
				if lerr = l2.UnmarshalBinary(bytes.NewBuffer(lenc)); lerr == nil {
					ldec.Iei, ldec.Len = int(l2.GetIei()), int(l2.GetLen())
					var rc2 upc.UEPolicySectionManagementResultContent
					if lerr = rc2.UnmarshalBinary(l2.GetUEPolicySectionManagementResultContent()); lerr == nil {
						ldec.Srs, _ = projSrs(rc2)
					}
				}
			}
		}
		out, err := u.UePolDeliverySerEncode()
		if err != nil {
			e.Eerr = true
			return
		}
		enc = out
		e.Enc, e.Built = ev.Ints(out), b
		e.Lerr, e.Lenc, e.Ldec = lerr != nil, ev.Ints(lenc), ldec
		r := decodeOp("DecodeMsg", append([]byte{}, out...))
		e.Derr, e.Dec, e.Dmm = r.err, r.p, r.mm
	})
	e.Obs = obs(pi, hang)
	if hang {
		s.hangs["Build"]++
	}
	if pi != nil || hang { // partial results of an aborted call are not observations
		e.Enc, e.Built, e.Dec, e.Dmm, e.Lenc, e.Ldec = []int{}, emptyProj(), emptyProj(), [][]int{}, []int{}, emptyProj()
		enc = nil
	}
	s.w.Emit(e)
	return enc
}

// ---------------------------------------------------------------- PLMN rows
type PlmnEv struct {
	Op    string  `json:"op"`
	Which string  `json:"which"` // sub | res
	Axis  string  `json:"axis"`  // mcc: fixed is the MCC and vary the MNCs; mnc: the other way round
	Fixed int     `json:"fixed"`
	Vary  []int   `json:"vary"`
	Errs  []bool  `json:"errs"`
	Octs  [][]int `json:"octs"` // PlmnDigit1..3 after SetPlmnDigit
	Rt    [][]int `json:"rt"`   // Mcc, Mnc recovered by marshal + unmarshal
	Rto   [][]int `json:"rto"`  // PLMN octets recovered by marshal + unmarshal
	Obs
}

func (s *Runner) plmnRow(which, axis string, fixed int, vary []int) {
	if s.hangs["PlmnRow"] >= 3 {
		return
	}
	e := PlmnEv{Op: "PlmnRow", Which: which, Axis: axis, Fixed: fixed, Vary: vary, Errs: []bool{}, Octs: [][]int{}, Rt: [][]int{}, Rto: [][]int{}}
	pi, hang := guarded(func() {
		for _, v := range vary {
			mcc, mnc := fixed, v
			if axis == "mnc" {
				mcc, mnc = v, fixed
			}
			if which == "sub" {
				var sl upc.UEPolicySectionManagementSubList
				err := sl.SetPlmnDigit(mcc, mnc)
				e.Errs = append(e.Errs, err != nil)
				e.Octs = append(e.Octs, []int{int(sl.PlmnDigit1), int(sl.PlmnDigit2), int(sl.PlmnDigit3)})
				rt, rto := []int{-1, -1}, []int{-1, -1, -1}
				if err == nil {
					if b, e1 := sl.MarshalBinary(); e1 == nil {
						var lc upc.UEPolicySectionManagementListContent
						if e2 := lc.UnmarshalBinary(b); e2 == nil && len(lc) == 1 {
							rt = []int{deref(lc[0].Mcc), deref(lc[0].Mnc)}
							rto = []int{int(lc[0].PlmnDigit1), int(lc[0].PlmnDigit2), int(lc[0].PlmnDigit3)}
						}
					}
				}
				e.Rt, e.Rto = append(e.Rt, rt), append(e.Rto, rto)
			} else {
				var sr upc.UEPolicySectionManagementSubResult
				err := sr.SetPlmnDigit(mcc, mnc)
				e.Errs = append(e.Errs, err != nil)
				e.Octs = append(e.Octs, []int{int(sr.PlmnDigit1), int(sr.PlmnDigit2), int(sr.PlmnDigit3)})
				rt, rto := []int{-1, -1}, []int{-1, -1, -1}
				if err == nil {
					if b, e1 := sr.MarshalBinary(); e1 == nil {
						var rc upc.UEPolicySectionManagementResultContent
						if e2 := rc.UnmarshalBinary(b); e2 == nil && len(rc) == 1 {
							rt = []int{deref(rc[0].Mcc), deref(rc[0].Mnc)}
							rto = []int{int(rc[0].PlmnDigit1), int(rc[0].PlmnDigit2), int(rc[0].PlmnDigit3)}
						}
					}
				}
				e.Rt, e.Rto = append(e.Rt, rt), append(e.Rto, rto)
			}
		}
	})
	e.Obs = obs(pi, hang)
	if hang {
		s.hangs["PlmnRow"]++
	}
	if pi != nil || hang {
		e.Errs, e.Octs, e.Rt, e.Rto = []bool{}, [][]int{}, [][]int{}, [][]int{}
	}
	s.w.Emit(e)
}

// ---------------------------------------------------------------- cases
type Job struct {
	Ops     []string `json:"ops"`
	Base    []int    `json:"base"`
	Cuts    []int    `json:"cuts"`    // decode base[:cut]
	Patches [][]int  `json:"patches"` // [pos0, value]: the 16-bit field at offset pos0 replaced by value
}
type Case struct {
	K     string `json:"k"` // build | plmn | dec
	St    *St    `json:"st"`
	Jobs  []Job  `json:"jobs"`
	Which string `json:"which"`
	Axis  string `json:"axis"`
	Fixed int    `json:"fixed"`
	Vary  []int  `json:"vary"`
}

// Runner runs cases for one goroutine.
type Runner struct {
	w     Sink
	hangs map[string]int
}

// NewRunner makes the runner of one goroutine.
func NewRunner(w Sink) *Runner { return &Runner{w: w, hangs: map[string]int{}} }

func (s *Runner) runJobs(jobs []Job) {
	for _, j := range jobs {
		base := ev.Bytes(j.Base)
		for _, c := range j.Cuts {
			if c < 0 || c > len(base) {
				ev.Fatal("cut %d outside base of %d octets", c, len(base))
			}
			for _, op := range j.Ops {
				s.decode(op, base[:c])
			}
		}
		for _, p := range j.Patches {
			if len(p) != 2 || p[0] < 0 || p[0]+1 >= len(base) {
				ev.Fatal("bad patch %v for base of %d octets", p, len(base))
			}
			m := append([]byte{}, base...)
			m[p[0]], m[p[0]+1] = byte(p[1]>>8), byte(p[1])
			for _, op := range j.Ops {
				s.decode(op, m)
			}
		}
	}
}

func normSt(st *St) {
	if st.Subs == nil {
		st.Subs = []SubS{}
	}
	if st.Srs == nil {
		st.Srs = []SubResS{}
	}
	if st.Cm == nil {
		st.Cm = []int{}
	}
	for i := range st.Subs {
		if st.Subs[i].Ins == nil {
			st.Subs[i].Ins = []InsS{}
		}
		for j := range st.Subs[i].Ins {
			if st.Subs[i].Ins[j].Parts == nil {
				st.Subs[i].Ins[j].Parts = []PartS{}
			}
			for k := range st.Subs[i].Ins[j].Parts {
				if st.Subs[i].Ins[j].Parts[k].C == nil {
					st.Subs[i].Ins[j].Parts[k].C = []int{}
				}
			}
		}
	}
	for i := range st.Srs {
		if st.Srs[i].Rs == nil {
			st.Srs[i].Rs = []ResS{}
		}
	}
}


// Load reads a case file (the format cmd/uepol replays); structures are normalised here, before any goroutine starts.
func Load(path string) []Case {
	b, err := os.ReadFile(path)
	if err != nil {
		ev.Fatal("%v", err)
	}
	var cs []Case
	if err := json.Unmarshal(b, &cs); err != nil {
		ev.Fatal("%v", err)
	}
	for i := range cs {
		c := &cs[i]
		switch c.K {
		case "build":
			if c.St == nil {
				ev.Fatal("build case without st")
			}
			normSt(c.St)
		case "dec":
		case "plmn":
			if c.Vary == nil {
				c.Vary = []int{}
			}
		default:
			ev.Fatal("unknown case kind %q", c.K)
		}
	}
	return cs
}

// Run executes one case (the loop body of cmd/uepol replay).
func (s *Runner) Run(c *Case) {
	switch c.K {
	case "build":
		s.build(*c.St)
		s.runJobs(c.Jobs)
	case "dec":
		s.runJobs(c.Jobs)
	case "plmn":
		s.plmnRow(c.Which, c.Axis, c.Fixed, c.Vary)
	}
}
