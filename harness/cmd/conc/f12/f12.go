// Package f12: the per-operation functions of harness/cmd/identity (C12: identities between wire and text) as
// methods of a per-goroutine Runner, for the concurrent driver (C19).  Copied from cmd/identity/main.go; the only
// change is that the package-level writer became the Runner's own sink.  Event shapes are identical: the traces
// are validated by spec/trace/Trace_C12.tla.
package f12

import (
	"encoding/json"
	"os"

	"verifharness/internal/ev"

	"github.com/free5gc/nas/nasConvert"
	"github.com/free5gc/nas/nasType"
	"github.com/free5gc/openapi/models"
)

type Ev struct {
	Op    string  `json:"op"`
	Ts    [][]int `json:"ts"`  // input texts
	B     []int   `json:"b"`   // input octets
	N     []int   `json:"n"`   // input numbers
	Ots   [][]int `json:"ots"` // output texts
	Ob    []int   `json:"ob"`  // output octets
	On    []int   `json:"on"`  // output numbers
	Err   bool    `json:"err"`
	Panic bool    `json:"panic"`
	Pfn   string  `json:"pfn"`
}

type Case struct {
	Fam string  `json:"fam"`
	W   []int   `json:"w"`
	N   []int   `json:"n"`
	Ts  [][]int `json:"ts"`
}

// Sink receives the events of one goroutine.
type Sink interface{ Emit(v interface{}) }

// Runner runs cases for one goroutine.
type Runner struct{ W Sink }

func str(cps []int) string {
	r := make([]rune, len(cps))
	for i, c := range cps {
		r[i] = rune(c)
	}
	return string(r)
}

func texts(ss ...string) [][]int {
	o := [][]int{}
	for _, s := range ss {
		o = append(o, ev.Runes(s))
	}
	return o
}

// emit runs f under the panic guard and writes one event
func (r *Runner) emit(op string, ts [][]int, b []int, n []int, f func(e *Ev)) {
	e := Ev{Op: op, Ts: ts, B: b, N: n, Ots: [][]int{}, Ob: []int{}, On: []int{}}
	if e.Ts == nil {
		e.Ts = [][]int{}
	}
	if e.B == nil {
		e.B = []int{}
	}
	if e.N == nil {
		e.N = []int{}
	}
	if pi := ev.Guard(func() { f(&e) }); pi != nil {
		if !pi.Lib {
			ev.Fatal("panic outside the library in %s: %s (%s)", op, pi.Kind, pi.Fn)
		}
		e.Panic, e.Pfn = true, pi.Fn
		e.Ots, e.Ob, e.On, e.Err = [][]int{}, []int{}, []int{}, false
	}
	r.W.Emit(e)
}

// ---------------------------------------------------------------- the observed functions

func (r *Runner) plmnCalls(mcc, mnc string, wire []int) {
	if mcc != "" {
		r.emit("PlmnIDToNas", texts(mcc, mnc), nil, nil, func(e *Ev) {
			e.Ob = ev.Ints(nasConvert.PlmnIDToNas(models.PlmnId{Mcc: mcc, Mnc: mnc}))
		})
		r.emit("RT.PlmnText", texts(mcc, mnc), nil, nil, func(e *Ev) {
			e.Ots = texts(nasConvert.PlmnIDToString(nasConvert.PlmnIDToNas(models.PlmnId{Mcc: mcc, Mnc: mnc})))
		})
	}
	if wire != nil {
		r.emit("PlmnIDToString", nil, wire, nil, func(e *Ev) {
			e.Ots = texts(nasConvert.PlmnIDToString(ev.Bytes(wire)))
		})
		r.emit("RT.PlmnWire", nil, wire, nil, func(e *Ev) {
			s := nasConvert.PlmnIDToString(ev.Bytes(wire))
			e.Ob = ev.Ints(nasConvert.PlmnIDToNas(models.PlmnId{Mcc: s[:3], Mnc: s[3:]}))
		})
	}
}

func (r *Runner) amfToModels(n []int) {
	r.emit("AmfIdToModels", nil, nil, n, func(e *Ev) {
		e.Ots = texts(nasConvert.AmfIdToModels(uint8(n[0]), uint16(n[1]), uint8(n[2])))
	})
}

func (r *Runner) amfToNas(t string) {
	r.emit("AmfIdToNasWithError", texts(t), nil, nil, func(e *Ev) {
		r, s, p, err := nasConvert.AmfIdToNasWithError(t)
		e.On, e.Err = []int{int(r), int(s), int(p)}, err != nil
	})
}

func (r *Runner) amfRT(n []int, t string) {
	if n != nil {
		r.emit("RT.AmfNum", nil, nil, n, func(e *Ev) {
			r, s, p, err := nasConvert.AmfIdToNasWithError(nasConvert.AmfIdToModels(uint8(n[0]), uint16(n[1]), uint8(n[2])))
			e.On, e.Err = []int{int(r), int(s), int(p)}, err != nil
		})
	}
	if t != "" {
		r.emit("RT.AmfText", texts(t), nil, nil, func(e *Ev) {
			r, s, p, err := nasConvert.AmfIdToNasWithError(t)
			e.Err = err != nil
			if err == nil {
				e.Ots = texts(nasConvert.AmfIdToModels(r, s, p))
			}
		})
	}
}

func (r *Runner) gutiToString(wire []int) {
	r.emit("GutiToStringWithError", nil, wire, nil, func(e *Ev) {
		guami, guti, err := nasConvert.GutiToStringWithError(ev.Bytes(wire))
		e.Err = err != nil
		if err == nil {
			mcc, mnc := "", ""
			if guami.PlmnId != nil {
				mcc, mnc = guami.PlmnId.Mcc, guami.PlmnId.Mnc
			}
			e.Ots = texts(guti, mcc, mnc, guami.AmfId)
		}
	})
}

func (r *Runner) gutiToNas(t string) {
	r.emit("GutiToNasWithError", texts(t), nil, nil, func(e *Ev) {
		g, err := nasConvert.GutiToNasWithError(t)
		e.Err = err != nil
		if err == nil {
			e.Ob, e.On = ev.Ints(g.Octet[:]), []int{int(g.Len)}
		}
	})
}

func (r *Runner) gutiRT(wire []int, t string) {
	if t != "" {
		r.emit("RT.GutiText", texts(t), nil, nil, func(e *Ev) {
			g, err := nasConvert.GutiToNasWithError(t)
			e.Err = err != nil
			if err == nil {
				_, back, err2 := nasConvert.GutiToStringWithError(g.Octet[:])
				e.Err = err2 != nil
				e.Ots = texts(back)
			}
		})
	}
	if wire != nil {
		r.emit("RT.GutiWire", nil, wire, nil, func(e *Ev) {
			_, t2, err := nasConvert.GutiToStringWithError(ev.Bytes(wire))
			e.Err = err != nil
			if err == nil {
				g, err2 := nasConvert.GutiToNasWithError(t2)
				e.Err = err2 != nil
				e.Ob = ev.Ints(g.Octet[:])
			}
		})
	}
}

func mi(wire []int) *nasType.MobileIdentity5GS {
	return &nasType.MobileIdentity5GS{Len: uint16(len(wire)), Buffer: ev.Bytes(wire)}
}

func (r *Runner) miGetter(name string, wire []int, f func(a *nasType.MobileIdentity5GS) string) {
	r.emit("MI."+name, nil, wire, nil, func(e *Ev) { e.Ots = texts(f(mi(wire))) })
}

func (r *Runner) miCommon(wire []int) {
	r.emit("MI.GetTypeOfIdentity", nil, wire, nil, func(e *Ev) {
		s, err := mi(wire).GetTypeOfIdentity()
		e.Ots, e.Err = texts(s), err != nil
	})
	r.emit("MI.GetMobileIdentity", nil, wire, nil, func(e *Ev) {
		id, typ, err := mi(wire).GetMobileIdentity()
		e.Ots, e.Err = texts(id, typ), err != nil
	})
}

func (r *Runner) miGuti(wire []int) {
	r.miCommon(wire)
	r.miGetter("Get5GGUTI", wire, (*nasType.MobileIdentity5GS).Get5GGUTI)
	r.miGetter("GetPlmnID", wire, (*nasType.MobileIdentity5GS).GetPlmnID)
	r.miGetter("GetMCC", wire, (*nasType.MobileIdentity5GS).GetMCC)
	r.miGetter("GetMNC", wire, (*nasType.MobileIdentity5GS).GetMNC)
	r.miGetter("GetAmfID", wire, (*nasType.MobileIdentity5GS).GetAmfID)
	r.miGetter("GetAmfRegionID", wire, (*nasType.MobileIdentity5GS).GetAmfRegionID)
	r.miGetter("GetAmfSetID", wire, (*nasType.MobileIdentity5GS).GetAmfSetID)
	r.miGetter("GetAmfPointer", wire, (*nasType.MobileIdentity5GS).GetAmfPointer)
	r.miGetter("Get5GTMSI", wire, (*nasType.MobileIdentity5GS).Get5GTMSI)
}

func (r *Runner) miSTmsi(wire []int) {
	r.miCommon(wire)
	r.emit("MI.Get5GSTMSI", nil, wire, nil, func(e *Ev) {
		s, typ, err := mi(wire).Get5GSTMSI()
		e.Ots, e.Err = texts(s, typ), err != nil
	})
	r.miGetter("GetAmfSetID", wire, (*nasType.MobileIdentity5GS).GetAmfSetID)
	r.miGetter("GetAmfPointer", wire, (*nasType.MobileIdentity5GS).GetAmfPointer)
	r.miGetter("Get5GTMSI", wire, (*nasType.MobileIdentity5GS).Get5GTMSI)
}

func (r *Runner) suciCalls(wire []int) {
	r.emit("SuciToStringWithError", nil, wire, nil, func(e *Ev) {
		s, plmn, err := nasConvert.SuciToStringWithError(ev.Bytes(wire))
		e.Ots, e.Err = texts(s, plmn), err != nil
	})
	r.miCommon(wire)
	r.miGetter("GetSUCI", wire, (*nasType.MobileIdentity5GS).GetSUCI)
	if len(wire) > 0 && wire[0]>>4 == 0 { // the PLMN getters apply to the IMSI format only
		r.miGetter("GetPlmnID", wire, (*nasType.MobileIdentity5GS).GetPlmnID)
		r.miGetter("GetMCC", wire, (*nasType.MobileIdentity5GS).GetMCC)
		r.miGetter("GetMNC", wire, (*nasType.MobileIdentity5GS).GetMNC)
	}
}

func (r *Runner) peiCalls(wire []int) {
	r.emit("PeiToStringWithError", nil, wire, nil, func(e *Ev) {
		s, err := nasConvert.PeiToStringWithError(ev.Bytes(wire))
		e.Ots, e.Err = texts(s), err != nil
	})
	r.miCommon(wire)
	r.miGetter("GetIMEI", wire, (*nasType.MobileIdentity5GS).GetIMEI)
	r.miGetter("GetIMEISV", wire, (*nasType.MobileIdentity5GS).GetIMEISV)
}

// Run executes one case (cmd/identity runCase).
func (r *Runner) Run(c *Case) {
	switch c.Fam {
	case "plmn":
		r.plmnCalls(str(c.Ts[0]), str(c.Ts[1]), c.W)
	case "amf":
		r.amfToModels(c.N)
		r.amfToNas(str(c.Ts[0]))
		r.amfRT(c.N, str(c.Ts[0]))
	case "badamf":
		r.amfToNas(str(c.Ts[0]))
	case "guti":
		r.gutiToString(c.W)
		r.gutiToNas(str(c.Ts[0]))
		r.gutiRT(c.W, str(c.Ts[0]))
		r.miGuti(c.W)
	case "badguti":
		r.gutiToNas(str(c.Ts[0]))
	case "stmsi":
		r.miSTmsi(c.W)
	case "suci":
		r.suciCalls(c.W)
	case "pei":
		r.peiCalls(c.W)
	default:
		ev.Fatal("unknown case family %q", c.Fam)
	}
}


// Load reads a case file (the format cmd/identity replays).
func Load(path string) []Case {
	b, err := os.ReadFile(path)
	if err != nil {
		ev.Fatal("%v", err)
	}
	var cs []Case
	if err := json.Unmarshal(b, &cs); err != nil {
		ev.Fatal("%v", err)
	}
	return cs
}

// Key names the operation kind of a case.
func (c *Case) Key() string { return c.Fam }
