//go:build !c19ie

package f09

// Types: the constructor registry of the information-element types.  The real one (reg_gen.go, build tag c19ie) is
// generated at check time from tables/ie_fields.json, exactly as for cmd/ietypes; without it the family is not built in.
var Types = map[string]func() any{}

// Direct: the scalar accessor pairs as plain calls (generated with Types).
var Direct = map[string]Acc{}
