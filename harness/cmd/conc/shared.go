package main

// Family fmsg: decoded messages that ALL goroutines only read, while the goroutine that owns the receive buffer a
// message was decoded from keeps using that buffer.
//
// Before the goroutines start, every case (the codec family's case format: {"k":"dec","entry":"plain","inp":[...]}) is
// decoded once from its own receive buffer.  While they work, every goroutine visits every message: it projects it and
// re-encodes it (read-only uses, the event shape of cmd/codec's "Shared" events, judged by spec/trace/Trace_C19.tla
// against the specification's decoding of the original octets); the one goroutine that owns the message's receive buffer
// (case index modulo the number of goroutines) first ciphers that buffer in place with security.NASEncrypt - a library
// call on ITS buffer, a value distinct from the decoded message as far as the API says.  Every reader also takes the
// octet strings the elements' read accessors return and deciphers them in place: what an accessor returns is the
// caller's own value (every multi-octet accessor of the library hands out a copy).  A decoder that keeps a
// reference into the caller's buffer, or a read that writes into the shared message, shows as a race report in library
// frames and as a Shared event the sequential specification does not allow.

import (
	"encoding/json"
	"os"
	"reflect"

	"verifharness/internal/ev"
	rm "verifharness/internal/reflectmsg"

	"github.com/free5gc/nas"
	"github.com/free5gc/nas/security"
)

// msgCase: a case of cmd/codec (only plain decodes are used here)
type msgCase struct {
	K     string `json:"k"`
	Entry string `json:"entry"`
	Inp   []int  `json:"inp"`
}

// sharedEv: cmd/codec's Shared event
type sharedEv struct {
	Op    string  `json:"op"`
	Inp   []int   `json:"inp"`
	Ok    bool    `json:"ok"`
	Panic bool    `json:"panic"`
	Pfn   string  `json:"pfn"`
	Bytes []int   `json:"bytes"`
	D     rm.Proj `json:"d"`
}

type sharedMsg struct {
	orig []int        // the octets as received (never written)
	buf  []byte       // the receive buffer the message was decoded from; only its owner touches it afterwards
	m    *nas.Message // nil: the input does not decode
	key  [16]byte
	cnt  uint32
	alg  uint8
	get  []reflect.Value // bound []uint8 read accessors of the elements present (looked up before the goroutines start)
}

func loadShared(spec famSpec) *family {
	raw, err := os.ReadFile(spec.Cases)
	if err != nil {
		ev.Fatal("%v", err)
	}
	var cs []msgCase
	if err := json.Unmarshal(raw, &cs); err != nil {
		ev.Fatal("%v", err)
	}
	msgs := make([]sharedMsg, len(cs))
	for i, c := range cs {
		s := &msgs[i]
		s.orig = c.Inp
		s.buf = ev.Bytes(c.Inp)
		for k := range s.key {
			s.key[k] = byte(37*i + 11*k + 5)
		}
		s.cnt, s.alg = uint32(2654435761*uint32(i+1)), uint8(i%3)+1
		if c.K != "dec" || c.Entry != "plain" {
			continue
		}
		m := nas.NewMessage()
		b := s.buf // the decoder gets the receive buffer itself
		pi := ev.Guard(func() {
			if err := m.PlainNasDecode(&b); err == nil {
				s.m = m
			}
		})
		if pi != nil {
			s.m = nil
		}
		if s.m != nil {
			s.get = rm.SliceGetters(s.m)
		}
	}
	return &family{"fmsg", len(msgs), func(sk *sink, g, n int) runner {
		return runner{func(i int) {
			s := &msgs[i]
			if s.m == nil {
				return
			}
			if i%n == g {
				// the owner goes on using its receive buffer: ciphered in place by the library
				ev.Guard(func() {
					_ = security.NASEncrypt(s.alg, s.key, s.cnt, uint8(i%32), uint8(i%2), s.buf)
				})
			}
			e := sharedEv{Op: "Shared", Inp: s.orig, Bytes: []int{}, D: rm.EmptyProj()}
			pi := ev.Guard(func() {
				// a reader works with what the read accessors give it: every octet string an accessor of a present element
				// returns is the reader's own value, and the reader deciphers it in place (what a receiver does with a NAS
				// message container or a payload container) before it goes on reading the shared message
				for k, gm := range s.get {
					if (k+g)%2 == 0 || len(s.get) <= 4 {
						if r := gm.Call(nil)[0].Bytes(); len(r) > 0 {
							_ = security.NASEncrypt(uint8((k+g)%3)+1, s.key, s.cnt+uint32(g), uint8(k%32), uint8(g%2), r)
						}
					}
				}
				e.D = rm.Project(s.m)
				out, err := s.m.PlainNasEncode()
				e.Ok = err == nil
				if e.Ok {
					e.Bytes = ev.Ints(out)
				}
			})
			if pi != nil {
				e.Panic, e.Pfn = true, pi.Fn+": "+pi.Kind
			}
			sk.Emit(e)
		}, func() {}}
	}}
}
