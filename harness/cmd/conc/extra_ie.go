//go:build c19ie

package main

import "verifharness/cmd/conc/f09"

// loadExtra: the IE accessor family (C09), built in when the generated registry is present (build tag c19ie).
func loadExtra(spec famSpec) *family {
	if spec.Name != "f09" {
		return nil
	}
	cs := f09.Load(spec.Cases)
	return &family{"f09", len(cs), func(s *sink, g, n int) runner {
		r := f09.NewRunner(s)
		r.Prebind(cs) // before the goroutines meet at the start barrier
		return runner{func(i int) { r.Run(&cs[i]) }, r.Finish}
	}}
}
