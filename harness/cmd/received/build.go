package main

import "verifharness/internal/ev"

func built(w *ev.Writer, id int, cs Case) {}
