// Driver for X03: a received message, end to end.
//
//	received replay <cases.json> <out.ndjson>   cases: [{"src":..,"inp":[..],"alt":[..]}] octet strings (TLC-generated grammar
//	                                            paths with meaningful element contents, repository samples, mutations made
//	                                            by the orchestrator) and [{"k":"build",..}] messages built with the real encoders
//	received record <cases.json> <out.ndjson>   seeded random mutations of the given inputs (logger at trace level)
//
// For every input the driver does what a network function does: nas.Message.PlainNasDecode, then the real converters
// and getters ON THE DECODED OBJECTS (the binding table `bound` mirrors RxBound of spec/ReceivedMessage.tla).  Every
// reading is taken TWICE; before the first and between the two readings a second, different message of the same type is
// decoded into another nas.Message and read as well, and the input buffer of the first message is overwritten.  A payload container is
// decoded as a message of its own FROM THE DECODED OBJECT after all that (event src "inner").
// The driver takes no verdict about values: Trace_X03 recomputes Received(inp) and compares reading by reading.
package main

import (
	"encoding/json"
	"math/rand"
	"os"
	"reflect"
	"sync/atomic"
	"time"

	"verifharness/internal/ev"

	"github.com/free5gc/nas"
	"github.com/free5gc/nas/nasConvert"
	"github.com/free5gc/nas/nasMessage"
	"github.com/free5gc/nas/nasType"
)

type Reading struct {
	N  string      `json:"n"`
	A  string      `json:"a"`
	St string      `json:"st"` // absent | val | err | skip | panic | hpanic
	V  interface{} `json:"v"`
	Fn string      `json:"fn"`
}

type Ev struct {
	Op    string      `json:"op"` // Recv | Built
	Src   string      `json:"src"`
	ID    int         `json:"id"`
	Inp   []int       `json:"inp"`
	Ok    bool        `json:"ok"`
	Msg   string      `json:"msg"`
	Panic bool        `json:"panic"`
	PLib  bool        `json:"plib"`
	PFn   string      `json:"pfn"`
	Hang  bool        `json:"hang"`
	Phase string      `json:"phase"`
	F     []Reading   `json:"f"`
	G     []Reading   `json:"g"`
	Want  interface{} `json:"want"` // Built: the model values handed to the encoders
	Berr  string      `json:"berr"` // Built: the encoders / PlainNasEncode failed
}

type Case struct {
	K   string          `json:"k"`
	Src string          `json:"src"`
	Inp []int           `json:"inp"`
	Alt []int           `json:"alt"`
	B   json.RawMessage `json:"b"`
}

type bind struct{ m, s, r string }

// mirrors RxBound (spec/ReceivedMessage.tla); Trace_X03 reports a difference as a HARNESS problem
var bound = []bind{
	{"RegistrationRequest", "NgksiAndRegistrationType5GS", "fields"}, {"RegistrationRequest", "MobileIdentity5GS", "id5gs"},
	{"RegistrationRequest", "UESecurityCapability", "seccap"}, {"RegistrationRequest", "RequestedNSSAI", "nssai"},
	{"RegistrationRequest", "LastVisitedRegisteredTAI", "tai"}, {"RegistrationRequest", "UplinkDataStatus", "psi"},
	{"RegistrationRequest", "PDUSessionStatus", "psi"}, {"RegistrationRequest", "AdditionalGUTI", "guti"},
	{"RegistrationRequest", "AllowedPDUSessionStatus", "psi"}, {"RegistrationRequest", "LADNIndication", "ladnind"},
	{"ULNASTransport", "SpareHalfOctetAndPayloadContainerType", "fields"}, {"ULNASTransport", "PayloadContainer", "container"},
	{"ULNASTransport", "PduSessionID2Value", "fields"}, {"ULNASTransport", "OldPDUSessionID", "fields"},
	{"ULNASTransport", "RequestType", "fields"}, {"ULNASTransport", "SNSSAI", "snssai"}, {"ULNASTransport", "DNN", "dnn"},
	{"DLNASTransport", "SpareHalfOctetAndPayloadContainerType", "fields"}, {"DLNASTransport", "PayloadContainer", "container"},
	{"DLNASTransport", "PduSessionID2Value", "fields"}, {"DLNASTransport", "Cause5GMM", "fields"},
	{"ConfigurationUpdateCommand", "GUTI5G", "guti"}, {"ConfigurationUpdateCommand", "TAIList", "tailist"},
	{"ConfigurationUpdateCommand", "AllowedNSSAI", "nssai"}, {"ConfigurationUpdateCommand", "ServiceAreaList", "sal"},
	{"ConfigurationUpdateCommand", "FullNameForNetwork", "name"}, {"ConfigurationUpdateCommand", "ShortNameForNetwork", "name"},
	{"ConfigurationUpdateCommand", "LocalTimeZone", "tz"}, {"ConfigurationUpdateCommand", "UniversalTimeAndLocalTimeZone", "ut"},
	{"ConfigurationUpdateCommand", "NetworkDaylightSavingTime", "dst"}, {"ConfigurationUpdateCommand", "LADNInformation", "ladninfo"},
	{"ConfigurationUpdateCommand", "ConfiguredNSSAI", "nssai"}, {"ConfigurationUpdateCommand", "RejectedNSSAI", "rejnssai"},
	{"RegistrationAccept", "GUTI5G", "guti"}, {"RegistrationAccept", "TAIList", "tailist"},
	{"RegistrationAccept", "AllowedNSSAI", "nssai"}, {"RegistrationAccept", "RejectedNSSAI", "rejnssai"},
	{"RegistrationAccept", "ConfiguredNSSAI", "nssai"}, {"RegistrationAccept", "PDUSessionStatus", "psi"},
	{"RegistrationAccept", "PDUSessionReactivationResult", "psi"}, {"RegistrationAccept", "LADNInformation", "ladninfo"},
	{"RegistrationAccept", "ServiceAreaList", "sal"}, {"RegistrationAccept", "T3512Value", "t3512"},
	{"PDUSessionEstablishmentRequest", "PDUSessionID", "fields"},
	{"PDUSessionEstablishmentRequest", "IntegrityProtectionMaximumDataRate", "fields"},
	{"PDUSessionEstablishmentRequest", "PDUSessionType", "pdutype"}, {"PDUSessionEstablishmentRequest", "SSCMode", "fields"},
	{"PDUSessionEstablishmentRequest", "ExtendedProtocolConfigurationOptions", "pco"},
	{"PDUSessionEstablishmentAccept", "PDUSessionID", "fields"},
	{"PDUSessionEstablishmentAccept", "SelectedSSCModeAndSelectedPDUSessionType", "selected"},
	{"PDUSessionEstablishmentAccept", "AuthorizedQosRules", "qosrules"}, {"PDUSessionEstablishmentAccept", "SessionAMBR", "ambr"},
	{"PDUSessionEstablishmentAccept", "SNSSAI", "snssai"},
	{"PDUSessionEstablishmentAccept", "AuthorizedQosFlowDescriptions", "qosdescs"},
	{"PDUSessionEstablishmentAccept", "ExtendedProtocolConfigurationOptions", "pco"}, {"PDUSessionEstablishmentAccept", "DNN", "dnn"},
	{"PDUSessionModificationCommand", "PDUSessionID", "fields"}, {"PDUSessionModificationCommand", "SessionAMBR", "ambr"},
	{"PDUSessionModificationCommand", "AuthorizedQosRules", "qosrules"},
	{"PDUSessionModificationCommand", "AuthorizedQosFlowDescriptions", "qosdescs"},
	{"PDUSessionModificationCommand", "ExtendedProtocolConfigurationOptions", "pco"},
	{"IdentityResponse", "MobileIdentity", "idplain"},
	{"ServiceRequest", "ServiceTypeAndNgksi", "fields"}, {"ServiceRequest", "TMSI5GS", "stmsi"},
	{"ServiceRequest", "UplinkDataStatus", "psi"}, {"ServiceRequest", "PDUSessionStatus", "psi"},
	{"ServiceRequest", "AllowedPDUSessionStatus", "psi"},
	{"ServiceAccept", "PDUSessionStatus", "psi"}, {"ServiceAccept", "PDUSessionReactivationResult", "psi"},
	{"DeregistrationRequestUEOriginatingDeregistration", "NgksiAndDeregistrationType", "fields"},
	{"DeregistrationRequestUEOriginatingDeregistration", "MobileIdentity5GS", "id5gs"},
}

// the getters a receiver calls on the small fixed elements (RxFieldNames)
var fieldNames = map[string][]string{
	"NgksiAndRegistrationType5GS":           {"TSC", "NasKeySetIdentifiler", "FOR", "RegistrationType5GS"},
	"NgksiAndDeregistrationType":            {"TSC", "NasKeySetIdentifiler", "SwitchOff", "ReRegistrationRequired", "AccessType"},
	"ServiceTypeAndNgksi":                   {"ServiceTypeValue", "TSC", "NasKeySetIdentifiler"},
	"SpareHalfOctetAndPayloadContainerType": {"PayloadContainerType"},
	"PduSessionID2Value":                    {"PduSessionID2Value"},
	"OldPDUSessionID":                       {"OldPDUSessionID"},
	"RequestType":                           {"RequestTypeValue"},
	"Cause5GMM":                             {"CauseValue"},
	"PDUSessionID":                          {"PDUSessionID"},
	"PDUSessionType":                        {"PDUSessionTypeValue"},
	"SSCMode":                               {"SSCMode"},
	"SelectedSSCModeAndSelectedPDUSessionType": {"SSCMode", "PDUSessionType"},
	"IntegrityProtectionMaximumDataRate": {"MaximumDataRatePerUEForUserPlaneIntegrityProtectionForUpLink",
		"MaximumDataRatePerUEForUserPlaneIntegrityProtectionForDownLink"},
	"T3512Value":          {"Unit", "TimerValue"},
	"FullNameForNetwork":  {"Ext", "CodingScheme", "AddCI", "NumberOfSpareBitsInLastOctet"},
	"ShortNameForNetwork": {"Ext", "CodingScheme", "AddCI", "NumberOfSpareBitsInLastOctet"},
}

var secNames = [][]string{
	{"EA0_5G", "EA1_128_5G", "EA2_128_5G", "EA3_128_5G", "EA4_5G", "EA5_5G", "EA6_5G", "EA7_5G"},
	{"IA0_5G", "IA1_128_5G", "IA2_128_5G", "IA3_128_5G", "IA4_5G", "IA5_5G", "IA6_5G", "IA7_5G"},
	{"EEA0", "EEA1_128", "EEA2_128", "EEA3_128", "EEA4", "EEA5", "EEA6", "EEA7"},
	{"EIA0", "EIA1_128", "EIA2_128", "EIA3_128", "EIA4", "EIA5", "EIA6", "EIA7"},
}

var aspects = map[string][]string{
	"id5gs": {"type", "id", "plmn", "stmsi", "conv"}, "idplain": {"conv"}, "guti": {"text", "ids"}, "stmsi": {"text", "ids"},
	"nssai": {"list"}, "snssai": {"model"}, "ladnind": {"dnns"}, "tai": {"plmn", "tac"},
	"tailist": {"raw"}, "sal": {"raw"}, "ladninfo": {"raw"}, "rejnssai": {"raw"},
	"psi": {"bools", "bits"}, "seccap": {"algs", "conv"}, "fields": {"fields"}, "pdutype": {"fields", "name"},
	"selected": {"fields", "name"}, "t3512": {"fields"}, "dnn": {"text"}, "pco": {"units"}, "ambr": {"raw"},
	"qosrules": {"rules"}, "qosdescs": {"descs"}, "name": {"fields", "text"}, "tz": {"text"}, "dst": {"text"}, "ut": {"time"},
	"container": {"raw", "inner"},
}

var none = []int{}

func ints(b []byte) []int {
	o := make([]int, len(b))
	for i, x := range b {
		o[i] = int(x)
	}
	return o
}

func texts(ss ...string) [][]int {
	o := [][]int{}
	for _, s := range ss {
		o = append(o, ev.Runes(s))
	}
	return o
}

// one aspect of one element, read under panic capture
func aspect(n, a string, f func() (string, interface{})) Reading {
	r := Reading{N: n, A: a, V: none}
	pi := ev.Guard(func() { r.St, r.V = f() })
	if pi != nil {
		r.St, r.V, r.Fn = "hpanic", none, pi.Fn
		if pi.Lib {
			r.St = "panic"
		}
	}
	if r.V == nil {
		r.V = none
	}
	return r
}

func errSt(err error) string {
	if err != nil {
		return "err"
	}
	return "val"
}

// get calls the getter Get<name> of the decoded element through its method table
func get(obj interface{}, name string) reflect.Value {
	m := reflect.ValueOf(obj).MethodByName("Get" + name)
	if !m.IsValid() {
		ev.Fatal("no getter Get%s on %T", name, obj)
	}
	return m.Call(nil)[0]
}

func getInts(obj interface{}, names []string) []int {
	o := []int{}
	for _, f := range names {
		o = append(o, int(get(obj, f).Uint()))
	}
	return o
}

// the element's own storage (no copy): Buffer of a variable element, Octet[:] of a fixed one
func storage(obj interface{}) []byte {
	v := reflect.ValueOf(obj).Elem()
	if f := v.FieldByName("Buffer"); f.IsValid() {
		return f.Bytes()
	}
	f := v.FieldByName("Octet")
	if f.Kind() == reflect.Array {
		return f.Slice(0, f.Len()).Bytes()
	}
	ev.Fatal("no storage in %T", obj)
	return nil
}

// the route of an AMF: type of identity from the first octet, then the converter for that type
func conv(n string, c []byte) Reading {
	return aspect(n, "conv", func() (string, interface{}) {
		if len(c) == 0 {
			return "skip", none
		}
		switch nasConvert.GetTypeOfIdentity(c[0]) {
		case nasMessage.MobileIdentity5GSTypeSuci:
			s, plmn, err := nasConvert.SuciToStringWithError(c)
			return errSt(err), texts(s, plmn)
		case nasMessage.MobileIdentity5GSType5gGuti:
			guami, guti, err := nasConvert.GutiToStringWithError(c)
			mcc, mnc := "", ""
			if guami.PlmnId != nil {
				mcc, mnc = guami.PlmnId.Mcc, guami.PlmnId.Mnc
			}
			return errSt(err), texts(guti, mcc, mnc, guami.AmfId)
		case nasMessage.MobileIdentity5GSTypeImei, nasMessage.MobileIdentity5GSTypeImeisv:
			s, err := nasConvert.PeiToStringWithError(c)
			return errSt(err), texts(s)
		}
		return "skip", none
	})
}

func gutiText(n string, oct []byte) Reading {
	return aspect(n, "text", func() (string, interface{}) {
		guami, guti, err := nasConvert.GutiToStringWithError(oct)
		mcc, mnc := "", ""
		if guami.PlmnId != nil {
			mcc, mnc = guami.PlmnId.Mcc, guami.PlmnId.Mnc
		}
		return errSt(err), texts(guti, mcc, mnc, guami.AmfId)
	})
}

type Map struct {
	Sst  int   `json:"sst"`
	Sd   []int `json:"sd"`
	H    int   `json:"h"`
	Hsst int   `json:"hsst"`
	Hsd  []int `json:"hsd"`
}

// read applies the reader `kind` to the decoded element obj (a pointer into the decoded message)
func read(kind, n string, obj interface{}) []Reading {
	switch kind {
	case "id5gs":
		o := obj.(*nasType.MobileIdentity5GS)
		return []Reading{
			aspect(n, "type", func() (string, interface{}) { s, err := o.GetTypeOfIdentity(); return errSt(err), ev.Runes(s) }),
			aspect(n, "id", func() (string, interface{}) { id, typ, err := o.GetMobileIdentity(); return errSt(err), texts(id, typ) }),
			aspect(n, "plmn", func() (string, interface{}) { return "val", ev.Runes(o.GetPlmnID()) }),
			aspect(n, "stmsi", func() (string, interface{}) { t, typ, err := o.Get5GSTMSI(); return errSt(err), texts(t, typ) }),
			conv(n, o.GetMobileIdentity5GSContents()),
		}
	case "idplain":
		o := obj.(*nasType.MobileIdentity)
		return []Reading{conv(n, o.GetMobileIdentityContents())}
	case "guti":
		return []Reading{
			gutiText(n, storage(obj)),
			aspect(n, "ids", func() (string, interface{}) {
				t := get(obj, "TMSI5G")
				o := getInts(obj, []string{"AMFRegionID", "AMFSetID", "AMFPointer"})
				for i := 0; i < t.Len(); i++ {
					o = append(o, int(t.Index(i).Uint()))
				}
				return "val", o
			}),
		}
	case "stmsi":
		o := obj.(*nasType.TMSI5GS)
		return []Reading{
			aspect(n, "text", func() (string, interface{}) { t, typ, err := o.Get5GSTMSI(); return errSt(err), texts(t, typ) }),
			aspect(n, "ids", func() (string, interface{}) {
				t := o.GetTMSI5G()
				return "val", append([]int{int(o.GetAMFSetID()), int(o.GetAMFPointer())}, ints(t[:])...)
			}),
		}
	case "nssai":
		var rq *nasType.RequestedNSSAI
		switch o := obj.(type) {
		case *nasType.RequestedNSSAI:
			rq = o
		case *nasType.AllowedNSSAI: // the library has one decoder of S-NSSAI lists: it is handed the same three fields
			rq = &nasType.RequestedNSSAI{Iei: o.GetIei(), Len: o.GetLen(), Buffer: o.GetSNSSAIValue()}
		case *nasType.ConfiguredNSSAI:
			rq = &nasType.RequestedNSSAI{Iei: o.GetIei(), Len: o.GetLen(), Buffer: o.GetSNSSAIValue()}
		}
		return []Reading{aspect(n, "list", func() (string, interface{}) {
			ms, err := nasConvert.RequestedNssaiToModels(rq)
			out := []Map{}
			if err == nil {
				for _, m := range ms {
					x := Map{Sd: []int{}, Hsd: []int{}}
					if m.ServingSnssai != nil {
						x.Sst, x.Sd = int(m.ServingSnssai.Sst), ev.Runes(m.ServingSnssai.Sd)
					} else {
						x.Sst = -1
					}
					if m.HomeSnssai != nil {
						x.H, x.Hsst, x.Hsd = 1, int(m.HomeSnssai.Sst), ev.Runes(m.HomeSnssai.Sd)
					}
					out = append(out, x)
				}
			}
			return errSt(err), out
		})}
	case "snssai":
		o := obj.(*nasType.SNSSAI)
		return []Reading{aspect(n, "model", func() (string, interface{}) {
			m := nasConvert.SnssaiToModels(o)
			return "val", map[string]interface{}{"sst": int(m.Sst), "sd": ev.Runes(m.Sd)}
		})}
	case "ladnind":
		o := obj.(*nasType.LADNIndication)
		return []Reading{aspect(n, "dnns", func() (string, interface{}) {
			out := [][]int{}
			for _, s := range nasConvert.LadnToModels(o.GetLADNDNNValue()) {
				out = append(out, ints([]byte(s)))
			}
			return "val", out
		})}
	case "tai":
		o := obj.(*nasType.LastVisitedRegisteredTAI)
		return []Reading{
			aspect(n, "plmn", func() (string, interface{}) { return "val", ev.Runes(nasConvert.PlmnIDToString(o.Octet[0:3])) }),
			aspect(n, "tac", func() (string, interface{}) { t := o.GetTAC(); return "val", ints(t[:]) }),
		}
	case "tailist":
		o := obj.(*nasType.TAIList)
		return []Reading{aspect(n, "raw", func() (string, interface{}) { return "val", ints(o.GetPartialTrackingAreaIdentityList()) })}
	case "sal":
		o := obj.(*nasType.ServiceAreaList)
		return []Reading{aspect(n, "raw", func() (string, interface{}) { return "val", ints(o.GetPartialServiceAreaList()) })}
	case "ladninfo":
		o := obj.(*nasType.LADNInformation)
		return []Reading{aspect(n, "raw", func() (string, interface{}) { return "val", ints(o.GetLADND()) })}
	case "rejnssai":
		o := obj.(*nasType.RejectedNSSAI)
		return []Reading{aspect(n, "raw", func() (string, interface{}) { return "val", ints(o.GetRejectedNSSAIContents()) })}
	case "psi":
		return []Reading{
			aspect(n, "bools", func() (string, interface{}) {
				a := nasConvert.PSIToBooleanArray(storage(obj))
				o := make([]int, 16)
				for i, b := range a {
					if b {
						o[i] = 1
					}
				}
				return "val", o
			}),
			aspect(n, "bits", func() (string, interface{}) {
				names := []string{}
				for i := 0; i < 16; i++ {
					names = append(names, "PSI"+itoa(i))
				}
				return "val", getInts(obj, names)
			}),
		}
	case "seccap":
		o := obj.(*nasType.UESecurityCapability)
		return []Reading{
			aspect(n, "algs", func() (string, interface{}) {
				out := [][]int{}
				for r := 0; r < 4 && r < len(o.Buffer); r++ { // a receiver reads an algorithm family only when its octet is there
					out = append(out, getInts(o, secNames[r]))
				}
				return "val", out
			}),
			aspect(n, "conv", func() (string, interface{}) {
				nea, nia, eea, eia := nasConvert.UESecurityCapabilityToByteArray(o.Buffer)
				return "val", []int{int(nea[0]), int(nea[1]), int(nia[0]), int(nia[1]), int(eea[0]), int(eea[1]), int(eia[0]), int(eia[1])}
			}),
		}
	case "fields", "t3512":
		return []Reading{aspect(n, "fields", func() (string, interface{}) { return "val", getInts(obj, fieldNames[n]) })}
	case "pdutype":
		o := obj.(*nasType.PDUSessionType)
		return []Reading{
			aspect(n, "fields", func() (string, interface{}) { return "val", getInts(obj, fieldNames[n]) }),
			aspect(n, "name", func() (string, interface{}) { return "val", string(nasConvert.PDUSessionTypeToModels(o.GetPDUSessionTypeValue())) }),
		}
	case "selected":
		o := obj.(*nasType.SelectedSSCModeAndSelectedPDUSessionType)
		return []Reading{
			aspect(n, "fields", func() (string, interface{}) { return "val", getInts(obj, fieldNames[n]) }),
			aspect(n, "name", func() (string, interface{}) { return "val", string(nasConvert.PDUSessionTypeToModels(o.GetPDUSessionType())) }),
		}
	case "dnn":
		o := obj.(*nasType.DNN)
		return []Reading{aspect(n, "text", func() (string, interface{}) { return "val", ints([]byte(o.GetDNN())) })}
	case "pco":
		o := obj.(*nasType.ExtendedProtocolConfigurationOptions)
		return []Reading{aspect(n, "units", func() (string, interface{}) {
			p := nasConvert.NewProtocolConfigurationOptions()
			err := p.UnMarshal(o.GetExtendedProtocolConfigurationOptionsContents())
			return errSt(err), projUnits(p)
		})}
	case "ambr":
		o := obj.(*nasType.SessionAMBR)
		return []Reading{aspect(n, "raw", func() (string, interface{}) {
			dl, ul := o.GetSessionAMBRForDownlink(), o.GetSessionAMBRForUplink()
			return "val", []int{int(o.GetUnitForSessionAMBRForDownlink()), int(dl[0]), int(dl[1]),
				int(o.GetUnitForSessionAMBRForUplink()), int(ul[0]), int(ul[1])}
		})}
	case "qosrules":
		o := obj.(*nasType.AuthorizedQosRules)
		return []Reading{aspect(n, "rules", func() (string, interface{}) {
			var rs nasType.QoSRules
			err := rs.UnmarshalBinary(o.GetQosRule())
			if err != nil {
				return "err", none
			}
			return "val", projRules(rs)
		})}
	case "qosdescs":
		o := obj.(*nasType.AuthorizedQosFlowDescriptions)
		return []Reading{aspect(n, "descs", func() (string, interface{}) {
			var ds nasType.QoSFlowDescs
			err := ds.UnmarshalBinary(o.GetQoSFlowDescriptions())
			if err != nil {
				return "err", none
			}
			return "val", projDescs(ds)
		})}
	case "name":
		return []Reading{
			aspect(n, "fields", func() (string, interface{}) { return "val", getInts(obj, fieldNames[n]) }),
			aspect(n, "text", func() (string, interface{}) { return "val", ints(get(obj, "TextString").Bytes()) }),
		}
	case "tz":
		o := obj.(*nasType.LocalTimeZone)
		return []Reading{aspect(n, "text", func() (string, interface{}) { return "val", ev.Runes(nasConvert.DecodeLocalTimeZone(*o)) })}
	case "dst":
		o := obj.(*nasType.NetworkDaylightSavingTime)
		return []Reading{aspect(n, "text", func() (string, interface{}) { return "val", ev.Runes(nasConvert.DecodeDaylightSavingTime(*o)) })}
	case "ut":
		o := obj.(*nasType.UniversalTimeAndLocalTimeZone)
		return []Reading{aspect(n, "time", func() (string, interface{}) {
			t := nasConvert.DecodeUniversalTimeAndLocalTimeZone(*o)
			_, off := t.Zone()
			u := t.Unix()
			d, s := u/86400, u%86400
			if s < 0 {
				s += 86400
				d--
			}
			return "val", []int{t.Year(), int(t.Month()), t.Day(), t.Hour(), t.Minute(), t.Second(), off, int(d), int(s)}
		})}
	case "container":
		o := obj.(*nasType.PayloadContainer)
		return []Reading{
			aspect(n, "raw", func() (string, interface{}) { return "val", ints(o.GetPayloadContainerContents()) }),
			aspect(n, "inner", func() (string, interface{}) {
				pc := o.GetPayloadContainerContents() // the 5GSM message is decoded from the decoded element itself
				im := nas.NewMessage()
				err := im.PlainNasDecode(&pc)
				name := ""
				if err == nil {
					name = bodyName(im)
				}
				return "val", map[string]interface{}{"ok": err == nil, "msg": name}
			}),
		}
	}
	ev.Fatal("unknown reader kind %q", kind)
	return nil
}

func itoa(i int) string {
	if i >= 10 {
		return string(rune('0'+i/10)) + string(rune('0'+i%10))
	}
	return string(rune('0' + i))
}

// ---------------------------------------------------------------- projections (as harness/cmd/pco, harness/cmd/qos)
type Unit struct {
	ID       int   `json:"id"`
	Len      int   `json:"len"`
	Contents []int `json:"contents"`
}

func projUnits(p *nasConvert.ProtocolConfigurationOptions) []Unit {
	out := []Unit{}
	for _, u := range p.ProtocolOrContainerList {
		if u == nil {
			out = append(out, Unit{ID: -1, Len: -1, Contents: []int{}})
			continue
		}
		out = append(out, Unit{ID: int(u.ProtocolOrContainerID), Len: int(u.LengthOfContents), Contents: ints(u.Contents)})
	}
	return out
}

type Comp struct {
	T int   `json:"t"`
	F []int `json:"f"`
}
type Filter struct {
	ID    int    `json:"id"`
	Dir   int    `json:"dir"`
	Comps []Comp `json:"comps"`
}
type Rule struct {
	ID      int      `json:"id"`
	Op      int      `json:"op"`
	DQR     bool     `json:"dqr"`
	Filters []Filter `json:"filters"`
	Prec    int      `json:"prec"`
	Seg     bool     `json:"seg"`
	QFI     int      `json:"qfi"`
}
type Param struct {
	ID int   `json:"id"`
	F  []int `json:"f"`
}
type Desc struct {
	QFI    int     `json:"qfi"`
	Op     int     `json:"op"`
	Params []Param `json:"params"`
}

func projComp(c nasType.PacketFilterComponent) Comp {
	switch v := c.(type) {
	case *nasType.PacketFilterMatchAll:
		return Comp{0x01, []int{}}
	case *nasType.PacketFilterIPv4RemoteAddress:
		return Comp{0x10, append(ints(v.Address), ints(v.Mask)...)}
	case *nasType.PacketFilterIPv4LocalAddress:
		return Comp{0x11, append(ints(v.Address), ints(v.Mask)...)}
	case *nasType.PacketFilterProtocolIdentifier:
		return Comp{0x30, []int{int(v.Value)}}
	case *nasType.PacketFilterSingleLocalPort:
		return Comp{0x40, []int{int(v.Value)}}
	case *nasType.PacketFilterLocalPortRange:
		return Comp{0x41, []int{int(v.LowLimit), int(v.HighLimit)}}
	case *nasType.PacketFilterSingleRemotePort:
		return Comp{0x50, []int{int(v.Value)}}
	case *nasType.PacketFilterRemotePortRange:
		return Comp{0x51, []int{int(v.LowLimit), int(v.HighLimit)}}
	case *nasType.PacketFilterSecurityParameterIndex:
		return Comp{0x60, []int{int(v.Index >> 16), int(v.Index & 0xffff)}}
	case *nasType.PacketFilterServiceClass:
		return Comp{0x70, []int{int(v.Class), int(v.Mask)}}
	case *nasType.PacketFilterFlowLabel:
		return Comp{0x80, []int{int(v.Label)}}
	case *nasType.PacketFilterDestinationMACAddress:
		return Comp{0x81, ints(v.MAC)}
	case *nasType.PacketFilterSourceMACAddress:
		return Comp{0x82, ints(v.MAC)}
	case *nasType.PacketFilterCTagVID:
		return Comp{0x83, []int{int(v.VID)}}
	case *nasType.PacketFilterSTagVID:
		return Comp{0x84, []int{int(v.VID)}}
	case *nasType.PacketFilterCTagPCPDEI:
		return Comp{0x85, []int{int(v.Value)}}
	case *nasType.PacketFilterSTagPCPDEI:
		return Comp{0x86, []int{int(v.Value)}}
	case *nasType.PacketFilterEtherType:
		return Comp{0x87, []int{int(v.EtherType)}}
	}
	return Comp{-1, []int{}}
}

func projRules(q nasType.QoSRules) []Rule {
	out := []Rule{}
	for _, r := range q {
		x := Rule{ID: int(r.Identifier), Op: int(r.Operation), DQR: r.DQR, Prec: int(r.Precedence), Seg: r.Segregation, QFI: int(r.QFI), Filters: []Filter{}}
		for _, pf := range r.PacketFilterList {
			f := Filter{ID: int(pf.Identifier), Dir: int(pf.Direction), Comps: []Comp{}}
			for _, c := range pf.Components {
				f.Comps = append(f.Comps, projComp(c))
			}
			x.Filters = append(x.Filters, f)
		}
		out = append(out, x)
	}
	return out
}

func projParam(p nasType.QoSFlowParameter) Param {
	switch v := p.(type) {
	case *nasType.QoSFlow5QI:
		return Param{1, []int{int(v.FiveQI)}}
	case *nasType.QoSFlowGFBRUplink:
		return Param{2, []int{int(v.Unit), int(v.Value)}}
	case *nasType.QoSFlowGFBRDownlink:
		return Param{3, []int{int(v.Unit), int(v.Value)}}
	case *nasType.QoSFlowMFBRUplink:
		return Param{4, []int{int(v.Unit), int(v.Value)}}
	case *nasType.QoSFlowMFBRDownlink:
		return Param{5, []int{int(v.Unit), int(v.Value)}}
	case *nasType.QoSFlowAveragingWindow:
		return Param{6, []int{int(v.AverageWindow)}}
	case *nasType.QoSFlowEBI:
		return Param{7, []int{int(v.EBI)}}
	}
	return Param{-1, []int{}}
}

func projDescs(q nasType.QoSFlowDescs) []Desc {
	out := []Desc{}
	for _, d := range q {
		x := Desc{QFI: int(d.QFI), Op: int(d.OperationCode), Params: []Param{}}
		for _, p := range d.Parameters {
			x.Params = append(x.Params, projParam(p))
		}
		out = append(out, x)
	}
	return out
}

// ---------------------------------------------------------------- a decoded message
// body returns the one message body a decode populated (pointer to the body struct) and its type name
func body(m *nas.Message) (reflect.Value, string) {
	var found reflect.Value
	name, cnt := "", 0
	for _, fam := range []interface{}{m.GmmMessage, m.GsmMessage} {
		fv := reflect.ValueOf(fam)
		if fv.IsNil() {
			continue
		}
		fv = fv.Elem()
		for i := 0; i < fv.NumField(); i++ {
			f := fv.Field(i)
			if f.Kind() == reflect.Ptr && !f.IsNil() {
				found, name = f, f.Elem().Type().Name()
				cnt++
			}
		}
	}
	if cnt != 1 {
		return reflect.Value{}, ""
	}
	return found, name
}

func bodyName(m *nas.Message) string { _, n := body(m); return n }

// readAll: every bound element of the decoded message, in table order
func readAll(m *nas.Message) []Reading {
	out := []Reading{}
	bv, name := body(m)
	if name == "" {
		return out
	}
	for _, b := range bound {
		if b.m != name {
			continue
		}
		f := bv.Elem().FieldByName(b.s)
		if !f.IsValid() {
			ev.Fatal("message %s has no element %s", name, b.s)
		}
		var obj interface{}
		if f.Kind() == reflect.Ptr {
			if f.IsNil() {
				for _, a := range aspects[b.r] {
					out = append(out, Reading{N: b.s, A: a, St: "absent", V: none})
				}
				continue
			}
			obj = f.Interface()
		} else {
			obj = f.Addr().Interface()
		}
		out = append(out, read(b.r, b.s, obj)...)
	}
	return out
}

func scribble(b []byte) {
	for i := range b {
		b[i] = byte(0xA5 ^ (i * 29))
	}
}

type result struct {
	e     Ev
	inner [][]byte
}

var phase atomic.Value

// receive: decode, read, disturb, read again
func receive(src string, id int, inp, alt []byte) result {
	e := Ev{Op: "Recv", Src: src, ID: id, Inp: ints(inp), F: []Reading{}, G: []Reading{}, Want: none}
	var res result
	// before anything else another message of the same type is received and read: whatever the library keeps from it
	// (caches, shared storage) must not show in the readings of this one
	readOther := func() {
		if len(alt) == 0 {
			return
		}
		buf2 := append([]byte{}, alt...)
		m2 := nas.NewMessage()
		if pi := ev.Guard(func() {
			if m2.PlainNasDecode(&buf2) == nil {
				readAll(m2)
			}
		}); pi != nil && !pi.Lib {
			ev.Fatal("harness panic while reading the second message: %s %s", pi.Fn, pi.Kind)
		}
		scribble(buf2)
	}
	phase.Store("alt")
	readOther()
	phase.Store("decode")
	buf := append([]byte{}, inp...)
	m := nas.NewMessage()
	var err error
	if pi := ev.Guard(func() { err = m.PlainNasDecode(&buf) }); pi != nil {
		e.Panic, e.PLib, e.PFn, e.Phase = true, pi.Lib, pi.Fn, "decode"
		res.e = e
		return res
	}
	e.Ok = err == nil
	if err != nil {
		res.e = e
		return res
	}
	e.Msg = bodyName(m)
	phase.Store("read")
	e.F = readAll(m)
	// the second, different message of the same type goes through the same code again, into another nas.Message
	phase.Store("alt")
	readOther()
	scribble(buf) // the receive buffer is reused by the transport
	phase.Store("read2")
	e.G = readAll(m)
	for _, r := range e.G { // the carried 5GSM message, as the decoded element holds it now
		if r.A == "raw" && r.St == "val" && (e.Msg == "ULNASTransport" || e.Msg == "DLNASTransport") && r.N == "PayloadContainer" {
			if v, ok := r.V.([]int); ok && len(v) > 0 {
				res.inner = append(res.inner, ev.Bytes(v))
			}
		}
	}
	res.e = e
	return res
}

// guarded receive with a watchdog: a reading that does not return is a hang, and the process stops using that input
func run(w *ev.Writer, src string, id int, inp, alt []byte, depth int) {
	runWith(w, src, id, inp, alt, depth, nil)
}

func runWith(w *ev.Writer, src string, id int, inp, alt []byte, depth int, post func(*Ev)) {
	done := make(chan result, 1)
	go func() { done <- receive(src, id, inp, alt) }()
	select {
	case r := <-done:
		if post != nil {
			post(&r.e)
		}
		w.Emit(r.e)
		if depth == 0 {
			for _, in := range r.inner {
				run(w, "inner", id, in, nil, 1)
			}
		}
	case <-time.After(5 * time.Second):
		ph, _ := phase.Load().(string)
		e := Ev{Op: "Recv", Src: src, ID: id, Inp: ints(inp), Hang: true, Phase: ph, F: []Reading{}, G: []Reading{}, Want: none}
		if post != nil {
			post(&e)
		}
		w.Emit(e)
	}
}

func load(path string) []Case {
	raw, err := os.ReadFile(path)
	if err != nil {
		ev.Fatal("%v", err)
	}
	var cases []Case
	if err := json.Unmarshal(raw, &cases); err != nil {
		ev.Fatal("%v", err)
	}
	return cases
}

func replay(in, out string) {
	w := ev.Create(out)
	for i, cs := range load(in) {
		if cs.K == "build" {
			built(w, i, cs)
			continue
		}
		src := cs.Src
		if src == "" {
			src = "case"
		}
		run(w, src, i, ev.Bytes(cs.Inp), ev.Bytes(cs.Alt), 0)
	}
	w.Close()
}

// ---------------------------------------------------------------- seeded random mutations
func mutate(rng *rand.Rand, b []byte, other []byte) []byte {
	d := append([]byte{}, b...)
	n := 1 + rng.Intn(3)
	for k := 0; k < n && len(d) > 0; k++ {
		switch rng.Intn(8) {
		case 0, 1: // one octet replaced (outside the header more often than inside)
			p := rng.Intn(len(d))
			if p < 4 && len(d) > 4 && rng.Intn(3) > 0 {
				p = 4 + rng.Intn(len(d)-4)
			}
			d[p] = byte(rng.Intn(256))
		case 2: // one bit
			p := rng.Intn(len(d))
			d[p] ^= 1 << uint(rng.Intn(8))
		case 3: // cut
			d = d[:rng.Intn(len(d)+1)]
		case 4: // an octet inserted
			p := rng.Intn(len(d) + 1)
			d = append(d[:p], append([]byte{byte(rng.Intn(256))}, d[p:]...)...)
		case 5: // an octet removed
			p := rng.Intn(len(d))
			d = append(d[:p], d[p+1:]...)
		case 6: // small change of a small octet (lengths, counts, types)
			p := rng.Intn(len(d))
			d[p] = byte(int(d[p]) + rng.Intn(5) - 2)
		case 7: // the tail of another input of the same message
			if len(other) > 4 && len(d) > 4 {
				p, q := 4+rng.Intn(len(d)-4), 4+rng.Intn(len(other)-4)
				d = append(d[:p], other[q:]...)
			}
		}
	}
	return d
}

func record(in, out string) {
	rng := ev.Rng()
	w := ev.Create(out)
	cases := load(in)
	per := 3
	if ev.Thorough() {
		per = 6
	}
	for i, cs := range cases {
		if cs.K == "build" {
			continue
		}
		for k := 0; k < per; k++ {
			run(w, "mut", i*per+k, mutate(rng, ev.Bytes(cs.Inp), ev.Bytes(cs.Alt)), ev.Bytes(cs.Alt), 0)
		}
	}
	w.Close()
}

func main() {
	ev.Quiet()
	if len(os.Args) < 4 {
		ev.Fatal("usage: received replay|record <cases.json> <out.ndjson>")
	}
	switch os.Args[1] {
	case "replay":
		replay(os.Args[2], os.Args[3])
	case "record":
		record(os.Args[2], os.Args[3])
	default:
		ev.Fatal("unknown subcommand")
	}
}
