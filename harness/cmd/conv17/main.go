// Driver for C17: timers, session AMBR, time zone / DST / universal time, network names.
//
//	conv17 replay <cases.json> <out.ndjson>   cases printed by TLC (MC_C17_gen)
//	conv17 record <out.ndjson>                seeded random cases + compact full-domain chunks
//
// The driver only calls the converters and writes what it saw; every verdict is TLC's
// (spec/trace/Trace_C17.tla).  All events carry the same keys.
package main

import (
	"encoding/json"
	"fmt"
	"os"
	"strconv"
	"time"
	_ "time/tzdata"

	"verifharness/internal/ev"

	"github.com/free5gc/nas/nasConvert"
	"github.com/free5gc/nas/nasType"
	"github.com/free5gc/openapi/models"
)

type Ev struct {
	Op   string `json:"op"`
	D    int    `json:"d"`
	Q    int    `json:"q"`
	Dst  int    `json:"dst"`
	Txt  []int  `json:"txt"`
	In   []int  `json:"in"`
	St   []int  `json:"st"`
	Un   []int  `json:"un"`
	Dlv  int    `json:"dlv"`
	Dlu  string `json:"dlu"`
	Ulv  int    `json:"ulv"`
	Ulu  string `json:"ulu"`
	Dir  string `json:"dir"`
	Lo   int    `json:"lo"`
	Out  []int  `json:"out"`
	Otxt []int  `json:"otxt"`
	Pan  string `json:"pan"`
	Kind string `json:"kind"`
}

func blank(op string) Ev {
	return Ev{Op: op, Txt: []int{}, In: []int{}, St: []int{}, Un: []int{}, Out: []int{}, Otxt: []int{}}
}

type Case struct {
	Op   string          `json:"op"`
	D    int             `json:"d"`
	Q    int             `json:"q"`
	Dst  int             `json:"dst"`
	Text []int           `json:"text"`
	O    json.RawMessage `json:"o"`
	St   *struct {
		Y, Mo, D, H, Mi, S, Q int
	} `json:"st"`
	Dlv  int    `json:"dlv"`
	Dlu  string `json:"dlu"`
	Ulv  int    `json:"ulv"`
	Ulu  string `json:"ulu"`
	Kind string `json:"kind"`
	Name []int  `json:"name"`
	Loc  string `json:"loc"`
	Un   []int  `json:"un"`
}

var w *ev.Writer

func guard(e *Ev, f func()) {
	if pi := ev.Guard(f); pi != nil {
		if !pi.Lib {
			ev.Fatal("panic outside the library in %s: %s", pi.Fn, pi.Kind)
		}
		e.Pan = pi.Fn + "|" + pi.Kind
	}
}

func str(cp []int) string {
	r := make([]rune, len(cp))
	for i, c := range cp {
		r[i] = rune(c)
	}
	return string(r)
}

func timer2(d int) {
	e := blank("T2")
	e.D = d
	guard(&e, func() { e.Out = []int{int(nasConvert.GPRSTimer2ToNas(d))} })
	w.Emit(e)
}

func timer3(d int) {
	e := blank("T3")
	e.D = d
	guard(&e, func() { e.Out = []int{int(nasConvert.GPRSTimer3ToNas(d))} })
	w.Emit(e)
}

func timerChunk(op string, lo, n int) {
	e := blank(op)
	e.Lo = lo
	out := make([]int, 0, n)
	guard(&e, func() {
		for d := lo; d < lo+n; d++ {
			if op == "T2C" {
				out = append(out, int(nasConvert.GPRSTimer2ToNas(d)))
			} else {
				out = append(out, int(nasConvert.GPRSTimer3ToNas(d)))
			}
		}
	})
	e.Out = out
	w.Emit(e)
}

func ambrOctets(dlv int, dlu string, ulv int, ulu string) []int {
	a := nasConvert.ModelsToSessionAMBR(&models.Ambr{
		Uplink:   strconv.Itoa(ulv) + " " + ulu,
		Downlink: strconv.Itoa(dlv) + " " + dlu,
	})
	return ev.Ints(a.Octet[:])
}

func ambr(dlv int, dlu string, ulv int, ulu string) {
	e := blank("AMBR")
	e.Dlv, e.Dlu, e.Ulv, e.Ulu = dlv, dlu, ulv, ulu
	guard(&e, func() { e.Out = ambrOctets(dlv, dlu, ulv, ulu) })
	w.Emit(e)
}

// one direction ranges over lo..lo+n-1, the other keeps its value
func ambrChunk(dir string, lo, n int, dlv int, dlu string, ulv int, ulu string) {
	e := blank("AMBRC")
	e.Dir, e.Lo, e.Dlv, e.Dlu, e.Ulv, e.Ulu = dir, lo, dlv, dlu, ulv, ulu
	out := make([]int, 0, 6*n)
	guard(&e, func() {
		for v := lo; v < lo+n; v++ {
			if dir == "dl" {
				out = append(out, ambrOctets(v, dlu, ulv, ulu)...)
			} else {
				out = append(out, ambrOctets(dlv, dlu, v, ulu)...)
			}
		}
	})
	e.Out = out
	w.Emit(e)
}

func zoneEnc(q, dst int, text []int) {
	s := str(text)
	e := blank("TZ")
	e.Q, e.Dst, e.Txt = q, dst, text
	guard(&e, func() {
		z := nasConvert.EncodeLocalTimeZoneToNas(s)
		e.Out = []int{int(z.GetTimeZone())}
	})
	w.Emit(e)
	e2 := blank("DST")
	e2.Q, e2.Dst, e2.Txt = q, dst, text
	guard(&e2, func() {
		z := nasConvert.EncodeDaylightSavingTimeToNas(s)
		e2.Out = []int{int(z.GetLen()), int(z.Getvalue())}
	})
	w.Emit(e2)
}

func zoneDec(o int) {
	e := blank("TZDec")
	e.In = []int{o}
	guard(&e, func() {
		var z nasType.LocalTimeZone
		z.SetTimeZone(uint8(o))
		e.Otxt = ev.Runes(nasConvert.DecodeLocalTimeZone(z))
	})
	w.Emit(e)
}

func dstDec(v int) {
	e := blank("DSTDec")
	e.In = []int{v}
	guard(&e, func() {
		var z nasType.NetworkDaylightSavingTime
		z.SetLen(1)
		z.Setvalue(uint8(v))
		e.Otxt = ev.Runes(nasConvert.DecodeDaylightSavingTime(z))
	})
	w.Emit(e)
}

func unixParts(t time.Time) []int {
	u := t.Unix()
	d := u / 86400
	s := u % 86400
	if s < 0 {
		s += 86400
		d--
	}
	return []int{int(d), int(s)}
}

func fields(t time.Time) []int {
	_, off := t.Zone()
	return []int{t.Year(), int(t.Month()), t.Day(), t.Hour(), t.Minute(), t.Second(), off}
}

func utOctets(u nasType.UniversalTimeAndLocalTimeZone) []int {
	return []int{int(u.GetYear()), int(u.GetMonth()), int(u.GetDay()), int(u.GetHour()), int(u.GetMinute()), int(u.GetSecond()), int(u.GetTimeZone())}
}

// encode a time, then decode the octets the library produced
// kind = tz-database location name ("" for a fixed zone); dst = IsDST (information only: the expectation
// comes from the instant and the total UTC offset t.Zone() at that instant)
func universal(t time.Time) {
	e := blank("UT")
	e.St, e.Un = fields(t), unixParts(t)
	if n := t.Location().String(); n != "z" {
		e.Kind = n
	}
	if t.IsDST() {
		e.Dst = 1
	}
	var enc nasType.UniversalTimeAndLocalTimeZone
	guard(&e, func() {
		enc = nasConvert.EncodeUniversalTimeAndLocalTimeZoneToNas(t)
		e.Out = utOctets(enc)
	})
	w.Emit(e)
	if e.Pan == "" {
		universalDec(e.Out)
	}
}

func universalDec(o []int) {
	e := blank("UTDec")
	e.In = o
	guard(&e, func() {
		var u nasType.UniversalTimeAndLocalTimeZone
		u.SetYear(uint8(o[0]))
		u.SetMonth(uint8(o[1]))
		u.SetDay(uint8(o[2]))
		u.SetHour(uint8(o[3]))
		u.SetMinute(uint8(o[4]))
		u.SetSecond(uint8(o[5]))
		u.SetTimeZone(uint8(o[6]))
		t := nasConvert.DecodeUniversalTimeAndLocalTimeZone(u)
		e.St, e.Un = fields(t), unixParts(t)
	})
	w.Emit(e)
}

func name(kind string, cp []int) {
	e := blank("Name")
	e.Kind, e.Txt = kind, cp
	s := string(ev.Bytes(cp)) // septets as bytes (all < 128)
	// the packed name is HELD (the returned element with its Buffer, no copy) while another name of the same length - the
	// septets reversed and complemented - is packed twice by both functions; only then is it read
	other := make([]byte, len(cp))
	for i, c := range cp {
		other[len(cp)-1-i] = byte(c^0x55) & 0x7f
	}
	disturb := func() {
		for r := 0; r < 2; r++ {
			_ = nasConvert.FullNetworkNameToNas(string(other))
			_ = nasConvert.ShortNetworkNameToNas(string(other))
		}
	}
	guard(&e, func() {
		if kind == "Full" {
			n := nasConvert.FullNetworkNameToNas(s)
			disturb()
			e.Out = append([]int{int(n.GetLen())}, ev.Ints(n.Buffer)...)
		} else {
			n := nasConvert.ShortNetworkNameToNas(s)
			disturb()
			e.Out = append([]int{int(n.GetLen())}, ev.Ints(n.Buffer)...)
		}
	})
	w.Emit(e)
}

func runCase(c Case) {
	switch c.Op {
	case "T2":
		timer2(c.D)
	case "T3":
		timer3(c.D)
	case "AMBR":
		ambr(c.Dlv, c.Dlu, c.Ulv, c.Ulu)
	case "TZ":
		zoneEnc(c.Q, c.Dst, c.Text)
	case "TZDec":
		var o int
		if err := json.Unmarshal(c.O, &o); err != nil {
			ev.Fatal("TZDec case: %v", err)
		}
		zoneDec(o)
	case "DSTDec":
		dstDec(c.D)
	case "UT":
		s := c.St
		universal(time.Date(s.Y, time.Month(s.Mo), s.D, s.H, s.Mi, s.S, 0, time.FixedZone("z", s.Q*900)))
		// the specification's own octets for this stamp, decoded by the library
		var o []int
		if err := json.Unmarshal(c.O, &o); err != nil || len(o) != 7 {
			ev.Fatal("UT case: %v", err)
		}
		universalDec(o)
	case "UTLoc": // an instant in a tz-database location
		loc, err := time.LoadLocation(c.Loc)
		if err != nil || len(c.Un) != 2 {
			ev.Fatal("UTLoc case: %v", err)
		}
		universal(time.Unix(int64(c.Un[0])*86400+int64(c.Un[1]), 0).In(loc))
	case "UTDecOnly":
		var o []int
		if err := json.Unmarshal(c.O, &o); err != nil || len(o) != 7 {
			ev.Fatal("UTDecOnly case: %v", err)
		}
		universalDec(o)
	case "Name":
		name(c.Kind, c.Name)
	default:
		ev.Fatal("unknown case op %q", c.Op)
	}
}

func replay(in, out string) {
	b, err := os.ReadFile(in)
	if err != nil {
		ev.Fatal("%v", err)
	}
	var cs []Case
	if err := json.Unmarshal(b, &cs); err != nil {
		ev.Fatal("%v", err)
	}
	w = ev.Create(out)
	for _, c := range cs {
		runCase(c)
	}
	w.Close()
}

// septets that are characters of the GSM 7-bit alphabet but not of the shared set: code 0, the other codes for which
// TimersRatesNames states no value, and the three characters with another code in the basic table
var foreign = func() []int {
	a := []int{0, 0, 0, 127, 36, 64, 95, 11, 12}
	for c := 1; c <= 9; c++ {
		a = append(a, c)
	}
	for c := 14; c <= 31; c++ {
		a = append(a, c)
	}
	return a
}()

var units = []string{"Kbps", "Mbps", "Gbps", "Tbps", "Pbps"}

// characters whose ASCII code equals their GSM 7-bit default alphabet code
var shared = func() []int {
	a := []int{10, 13}
	for c := 32; c <= 35; c++ {
		a = append(a, c)
	}
	for c := 37; c <= 63; c++ {
		a = append(a, c)
	}
	for c := 65; c <= 90; c++ {
		a = append(a, c)
	}
	for c := 97; c <= 122; c++ {
		a = append(a, c)
	}
	return a
}()

var tzLocations = []string{"America/New_York", "America/Chicago", "America/Los_Angeles", "America/St_Johns", "America/Sao_Paulo",
	"Atlantic/Azores", "Europe/London", "Europe/Berlin", "Asia/Kolkata", "Asia/Kathmandu", "Australia/Adelaide", "Australia/Lord_Howe", "Pacific/Chatham"}

// unix seconds of the first instant with the new offset, for every change of the UTC offset within year y
func transitions(loc *time.Location, y int) []int64 {
	var out []int64
	lo := time.Date(y, 1, 1, 0, 0, 0, 0, time.UTC).Unix()
	hi := time.Date(y+1, 1, 1, 0, 0, 0, 0, time.UTC).Unix()
	off := func(u int64) int { _, o := time.Unix(u, 0).In(loc).Zone(); return o }
	for u := lo; u < hi; u += 6 * 3600 {
		if off(u) != off(u+6*3600) {
			a, b := u, u+6*3600 // off(a) != off(b): bisect to the second
			for b-a > 1 {
				m := (a + b) / 2
				if off(m) == off(a) {
					a = m
				} else {
					b = m
				}
			}
			out = append(out, b)
		}
	}
	return out
}

func zoneText(q, dst int) []int {
	sign := "+"
	m := q
	if q < 0 {
		sign, m = "-", -q
	}
	s := fmt.Sprintf("%s%02d:%02d", sign, m/4, (m%4)*15)
	if dst > 0 {
		s += fmt.Sprintf("+%d", dst)
	}
	return ev.Runes(s)
}

func record(out string) {
	rng := ev.Rng()
	w = ev.Create(out)
	thorough := ev.Thorough()
	const chunk = 4096

	// ---- timers: compact chunks (timer 2 always complete)
	for lo := 0; lo <= 11160; lo += chunk {
		n := chunk
		if lo+n > 11161 {
			n = 11161 - lo
		}
		timerChunk("T2C", lo, n)
	}
	t3dense := 131072
	if thorough {
		t3dense = 1116001
	}
	for lo := 0; lo < t3dense; lo += chunk {
		n := chunk
		if lo+n > 1116001 {
			n = 1116001 - lo
		}
		timerChunk("T3C", lo, n)
	}
	if !thorough {
		// windows around every multiple of 10 h and seeded windows elsewhere
		for k := 1; k <= 31; k++ {
			lo := 36000*k - 200
			n := 400
			if lo+n > 1116001 {
				n = 1116001 - lo
			}
			timerChunk("T3C", lo, n)
		}
		for i := 0; i < 24; i++ {
			timerChunk("T3C", 131072+rng.Intn(1116001-131072-chunk), chunk)
		}
	}
	nr := 2000
	if thorough {
		nr = 20000
	}
	for i := 0; i < nr; i++ {
		timer2(rng.Intn(11161))
		timer3(rng.Intn(1116001))
	}

	// ---- session AMBR
	for ui, u := range units {
		other := units[(ui+1+rng.Intn(4))%5]
		ov := rng.Intn(32768)
		if thorough {
			for lo := 0; lo < 65536; lo += chunk {
				ambrChunk("dl", lo, chunk, 0, u, ov, other)
				ambrChunk("ul", lo, chunk, ov, other, 0, u)
			}
		} else {
			// around the signed 16-bit boundary, the ends, and seeded chunks
			for _, lo := range []int{0, 32768 - 1024, 65536 - 2048, rng.Intn(30000), 34000 + rng.Intn(29000)} {
				ambrChunk("dl", lo, 2048, 0, u, ov, other)
				ambrChunk("ul", lo, 2048, ov, other, 0, u)
			}
		}
	}
	for i := 0; i < nr; i++ {
		ambr(rng.Intn(65536), units[rng.Intn(5)], rng.Intn(65536), units[rng.Intn(5)])
	}

	// ---- zones (complete in the generated cases; here decode of every octet value of the grid, DST values)
	for v := 0; v <= 2; v++ {
		dstDec(v)
	}
	for i := 0; i < 200; i++ {
		q := rng.Intn(159) - 79
		d := rng.Intn(3)
		zoneEnc(q, d, zoneText(q, d))
	}

	// ---- universal time: seeded instants on the quarter-hour grid, years 2000-2099
	nt := 6000
	if thorough {
		nt = 60000
	}
	base := time.Date(2000, 1, 1, 0, 0, 0, 0, time.UTC).Unix()
	span := time.Date(2100, 1, 1, 0, 0, 0, 0, time.UTC).Unix() - base
	for i := 0; i < nt; i++ {
		q := rng.Intn(159) - 79
		loc := time.FixedZone("z", q*900)
		t := time.Unix(base+rng.Int63n(span), 0).In(loc)
		if t.Year() < 2000 || t.Year() > 2099 {
			continue
		}
		universal(t)
	}
	// real tz-database locations: west and east of Greenwich, 60- and 30-minute daylight saving, none.
	// Per location and year: a winter and a summer instant, the instants around every change of the
	// UTC offset (transition -1 h, -1 s, the transition, +1 s, +1 h), and seeded instants.
	yearStep := 4
	if thorough {
		yearStep = 1
	}
	for li, ln := range tzLocations {
		loc, err := time.LoadLocation(ln)
		if err != nil {
			ev.Fatal("tz database: %v", err)
		}
		for y := 2000 + (li+int(ev.Seed()))%yearStep; y <= 2099; y += yearStep {
			universal(time.Date(y, 1, 15, 10, 20, 30, 0, loc))
			universal(time.Date(y, 7, 4, 12, 34, 56, 0, loc))
			for _, tr := range transitions(loc, y) {
				for _, d := range []int64{-3600, -1, 0, 1, 3600} {
					t := time.Unix(tr+d, 0).In(loc)
					if t.Year() >= 2000 && t.Year() <= 2099 {
						universal(t)
					}
				}
			}
		}
		for i := 0; i < 40; i++ {
			t := time.Unix(base+rng.Int63n(span), 0).In(loc)
			if t.Year() < 2000 || t.Year() > 2099 {
				continue
			}
			universal(t)
		}
	}

	// ---- names: every length 0..64, seeded characters of the shared alphabet
	reps := 4
	if thorough {
		reps = 40
	}
	for n := 0; n <= 64; n++ {
		for r := 0; r < reps; r++ {
			cp := make([]int, n)
			for i := range cp {
				cp[i] = shared[rng.Intn(len(shared))]
			}
			if r%2 == 0 {
				name("Full", cp)
			} else {
				name("Short", cp)
			}
		}
		// characters outside the alphabet ASCII and GSM 7-bit share (Trace_C17!NameOKAny says what is required of
		// them): a seeded text ending in one to three septets 0, and texts over the whole generated alphabet
		if n > 0 {
			for r := 0; r < reps; r++ {
				cp := make([]int, n)
				for i := range cp {
					cp[i] = shared[rng.Intn(len(shared))]
				}
				if r%2 == 0 {
					for k := 0; k <= rng.Intn(3) && k < n; k++ {
						cp[n-1-k] = 0
					}
				} else {
					for i := range cp {
						if rng.Intn(3) == 0 {
							cp[i] = foreign[rng.Intn(len(foreign))]
						}
					}
					if rng.Intn(2) == 0 {
						cp[n-1] = foreign[rng.Intn(len(foreign))]
					}
				}
				if (r/2)%2 == 0 {
					name("Full", cp)
				} else {
					name("Short", cp)
				}
			}
		}
	}
	w.Close()
}

func main() {
	ev.Quiet()
	if len(os.Args) < 3 {
		ev.Fatal("usage: conv17 replay <cases.json> <out.ndjson> | record <out.ndjson>")
	}
	switch os.Args[1] {
	case "record":
		record(os.Args[2])
	case "replay":
		if len(os.Args) < 4 {
			ev.Fatal("usage: conv17 replay <cases.json> <out.ndjson>")
		}
		replay(os.Args[2], os.Args[3])
	default:
		ev.Fatal("unknown subcommand")
	}
}
