#!/bin/bash
# tools/seed_regress.sh [pattern]  - re-run, for every archived seeded change, the checks that have detected it before (quick tier)
cd "$(dirname "$0")/.."
for d in seeded/${1:-*}/; do
  n=$(basename $d); [ -f $d/meta.json ] || continue
  checks=$(python3 - "$d/meta.json" <<'PY'
import json,sys
m=json.load(open(sys.argv[1]))
det=[k for k,v in m.get("checks",{}).items() if v.get("detected")]
for h in m.get("history",[]):
    det+=[k for k,v in h.get("checks",{}).items() if v.get("detected")]
seen=[]
for k in det:
    if k not in seen: seen.append(k)
own=m["property"]
print(",".join(([own] if own in seen else []) or seen[:1] or [own]))
PY
)
  echo "== $n [$checks]"
  tools/seed_rerun.sh $n $checks | grep -v "^pristine" | cut -c1-160
done
