#!/bin/bash
# tools/seed_batch.sh <PROP> <round-tag> <demo-dir[,dir2,dir3]> [checks]   - confirm + archive the three changes of one reviewer bundle (/tmp/mut-out/<PROP>-<tag>)
export GOFLAGS=-mod=mod GOPROXY=off GOSUMDB=off GOTOOLCHAIN=local
p=$1; tag=$2; dirs=$3; checks=${4:-$p}
cd "$(dirname "$0")/.."
IFS=, read -r d1 d2 d3 <<< "$dirs"; d2=${d2:-$d1}; d3=${d3:-$d2}
i=0
for d in $d1 $d2 $d3; do
  i=$((i+1)); src=/tmp/mut-out/$p-$tag
  [ -f $src/change$i.diff ] || continue
  echo "=== $p-${tag}m$i ($d)"
  python3 tools/seeded.py add $p-${tag}m$i --prop $p --diff $src/change$i.diff --demo $src/demo${i}_test.go --demo-dir $d --checks $checks --notes $src/notes$i.txt --needs "see author_notes" 2>&1 | tail -4
done
