#!/bin/bash
# tools/seed_rerun.sh <seeded-name> [checks] [tier] - re-run checks against an archived seeded change (keeps history in meta.json)
export GOFLAGS=-mod=mod GOPROXY=off GOSUMDB=off GOTOOLCHAIN=local
cd "$(dirname "$0")/.."
n=$1; d=seeded/$n
prop=$(jq -r .property $d/meta.json); checks=${2:-$prop}; tier=${3:-quick}
dir=$(jq -r .demo $d/meta.json | sed -E 's/.*copy as (.*)\/zz_demo_test.go.*/\1/')
t=$(mktemp -d /tmp/rr.XXXX); cp $d/patch.diff $t/c.diff; cp $d/demo_test.go.txt $t/d_test.go
jq -r '.author_notes // ""' $d/meta.json > $t/notes.txt
python3 tools/seeded.py add $n --prop $prop --diff $t/c.diff --demo $t/d_test.go --demo-dir "$dir" --checks $checks --tier $tier --notes $t/notes.txt --needs "$(jq -r .needs $d/meta.json)" 2>&1 | tail -3
rm -rf $t
