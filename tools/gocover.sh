#!/bin/bash
# Development aid (not a registered check): statement coverage of /repo by the drivers of the listed checks (quick tier).
# usage: tools/gocover.sh <outdir> C01 C02 ...     -> <outdir>/func.txt (per function), <outdir>/profile.txt
set -u
export GOFLAGS=-mod=mod GOPROXY=off GOSUMDB=off GOTOOLCHAIN=local
out=$1; shift
mkdir -p $out/data; rm -f $out/data/*
cd "$(dirname "$0")/.."
for id in "$@"; do
  VERIF_GOCOVER=1 GOCOVERDIR=$out/data VERIF_EVIDENCE_DIR=$out/ev bin/vcheck $id --tier quick > $out/$id.log 2>&1
  echo "$id rc=$?"
done
go tool covdata textfmt -i=$out/data -o $out/profile.txt -pkg=github.com/free5gc/nas/...
(cd /repo && go tool cover -func=$out/profile.txt > $out/func.txt)
tail -1 $out/func.txt
