#!/usr/bin/env python3
"""Confirm and archive a seeded change (a deliberate regression used to test the checks).

  tools/seeded.py add <name> --prop C04 --diff change.diff --demo demo_test.go --demo-dir nasMessage \
        --needs "what it needs to manifest" [--checks C04,C01] [--tier quick] [--demo-run TestName]

1. fresh scratch worktree of /repo HEAD under /tmp; `git apply` the diff; go build; the repository's own
   test suite must pass with the change; the demonstration must FAIL with the change and PASS without it;
2. every listed check is run against the changed worktree (VERIF_REPO) and its exit code / VIOLATION lines recorded;
3. /verif/seeded/<name>/{patch.diff, demo_test.go, meta.json} are written.  The worktree is removed.
Nothing is ever applied to /repo itself."""
import argparse, json, os, shutil, subprocess, sys, time

VERIF = os.path.dirname(os.path.dirname(os.path.abspath(__file__)))
ENV = dict(os.environ, GOFLAGS="-mod=mod", GOPROXY="off", GOSUMDB="off", GOTOOLCHAIN="local")


def sh(cmd, cwd=None, env=None, timeout=3600):
    r = subprocess.run(cmd, cwd=cwd, env=env or ENV, shell=isinstance(cmd, str), capture_output=True, text=True, timeout=timeout)
    return r.returncode, (r.stdout + r.stderr)


def main():
    ap = argparse.ArgumentParser()
    ap.add_argument("cmd"); ap.add_argument("name")
    ap.add_argument("--prop", required=True); ap.add_argument("--diff", required=True)
    ap.add_argument("--demo", required=True); ap.add_argument("--demo-dir", required=True)
    ap.add_argument("--demo-run", default=""); ap.add_argument("--needs", default="")
    ap.add_argument("--checks", default=""); ap.add_argument("--tier", default="quick")
    ap.add_argument("--notes", default="")
    ap.add_argument("--race", action="store_true", help="run the demonstration under the race detector (go test -race)")
    a = ap.parse_args()
    wt = "/tmp/seed-" + a.name
    subprocess.run(["git", "-C", "/repo", "worktree", "remove", "--force", wt], capture_output=True)
    rc, out = sh(["git", "-C", "/repo", "worktree", "add", "--detach", wt, "HEAD", "-q"])
    if rc: sys.exit("worktree: " + out)
    meta = dict(name=a.name, property=a.prop, needs=a.needs, ran=[], confirmed=False)
    try:
        demo_dst = os.path.join(wt, a.demo_dir, "zz_seeded_demo_test.go")
        runarg = (["-run", a.demo_run] if a.demo_run else []) + (["-race"] if a.race else [])
        # demo passes on the pristine tree
        shutil.copy(a.demo, demo_dst)
        rc0, out0 = sh(["go", "test", "-vet=off", "-count=1"] + runarg + ["./" + a.demo_dir], cwd=wt)
        meta["ran"].append(dict(cmd="go test ./%s (demo, pristine)" % a.demo_dir, rc=rc0))
        os.unlink(demo_dst)
        rc, out = sh(["git", "apply", os.path.abspath(a.diff)], cwd=wt)
        if rc: sys.exit("git apply failed: " + out)
        rcb, outb = sh("go build ./...", cwd=wt)
        meta["ran"].append(dict(cmd="go build ./... (with change)", rc=rcb))
        rct, outt = sh("go test -vet=off -count=1 ./...", cwd=wt)
        meta["ran"].append(dict(cmd="go test -vet=off -count=1 ./... (repository suite, with change)", rc=rct))
        shutil.copy(a.demo, demo_dst)
        rc1, out1 = sh(["go", "test", "-vet=off", "-count=1"] + runarg + ["./" + a.demo_dir], cwd=wt)
        meta["ran"].append(dict(cmd="go test ./%s (demo, with change)" % a.demo_dir, rc=rc1))
        os.unlink(demo_dst)
        meta["confirmed"] = (rc0 == 0 and rcb == 0 and rct == 0 and rc1 != 0)
        print("pristine demo rc=%d | build rc=%d | suite rc=%d | demo with change rc=%d => confirmed=%s" % (rc0, rcb, rct, rc1, meta["confirmed"]))
        if not meta["confirmed"]:
            print((out0 if rc0 else outb if rcb else outt if rct else out1)[-1500:])
        meta["checks"] = {}
        for chk in [c for c in a.checks.split(",") if c]:
            t = time.time()
            rc, out = sh([os.path.join(VERIF, "bin", "vcheck"), chk, "--tier", a.tier], cwd=VERIF, env=dict(ENV, VERIF_REPO=wt, VERIF_TIER=a.tier))
            vio = [l for l in out.splitlines() if l.startswith("VIOLATION")]
            meta["checks"][chk] = dict(tier=a.tier, exit=rc, detected=(rc == 1 and bool(vio)), violation_lines=[v[:400] for v in vio[:3]], wall_s=round(time.time() - t, 1))
            print("%s %s: exit %d, %s" % (chk, a.tier, rc, "DETECTED " + vio[0][:200] if vio else "not detected"))
            if rc == 2: print(out[-1500:])
    finally:
        subprocess.run(["git", "-C", "/repo", "worktree", "remove", "--force", wt], capture_output=True)
        shutil.rmtree(wt, ignore_errors=True)
    d = os.path.join(VERIF, "seeded", a.name)
    os.makedirs(d, exist_ok=True)
    shutil.copy(a.diff, os.path.join(d, "patch.diff"))
    shutil.copy(a.demo, os.path.join(d, "demo_test.go.txt"))
    if a.notes and os.path.exists(a.notes):
        meta["author_notes"] = open(a.notes).read()
    meta["demo"] = "demo_test.go.txt: copy as %s/zz_demo_test.go into the tree and run `go test ./%s`; fails with patch.diff applied, passes without" % (a.demo_dir, a.demo_dir)
    # keep earlier check results (e.g. after strengthening) as history
    mp = os.path.join(d, "meta.json")
    if os.path.exists(mp):
        old = json.load(open(mp))
        meta["history"] = old.get("history", []) + [dict(checks=old.get("checks", {}))]
    json.dump(meta, open(mp, "w"), indent=1)
    for f in os.listdir(os.path.join(VERIF, "replay")):
        os.unlink(os.path.join(VERIF, "replay", f))


if __name__ == "__main__":
    main()
