module zuccorners

go 1.21
