// zuccorners - search for 128-EEA3 / 128-EIA3 parameter points that drive the ZUC LFSR of the SPECIFICATION (spec/Zuc.tla)
// through the rare corners of its arithmetic modulo 2^31-1.
//
// The ZUC LFSR feedback is a sum of six (work mode) or seven (initialisation mode) 31-bit terms reduced modulo 2^31-1, with
// the residue 0 represented as 2^31-1.  An implementation may fold after every addition (the reference code), accumulate in
// 64 bits and fold once, compare with > or >=, ... - and each strategy has its own way of being wrong on inputs whose
// probability is about 2^-31 per clock: a partial sum that is exactly 2^31-1 (the "zero" representative), exactly 2^31,
// a final value that is 2^31-1 / 1, an un-reduced total whose low 31 bits lie within a few units of 2^31, ...  No random
// or lattice generator reaches these; a directed search over the specification's own case structure does.
//
// This tool is an INPUT FINDER, not an oracle: it contains a straightforward transcription of spec/Zuc.tla (tables read
// from spec/CryptoTables.tla, which tools/gencrypto.py derives algebraically) and prints, for every corner predicate, a few
// (key, COUNT, BEARER, DIRECTION) points of each IV shape (128-EEA3 and 128-EIA3) at which the predicate holds at a stated
// clock.  The result is frozen as tables/vectors/zuc_corners.json.  On every check run TLC (1) re-establishes with the
// TLA+ model itself that each frozen point does hit its corner at that clock (MC_C06 / MC_C07, stage A), and (2) is the
// judge of what the library computes at these points (they are part of the generated cases of C06 and C07).
//
// usage: go run ./tools/zuccorners -spec spec/CryptoTables.tla -out tables/vectors/zuc_corners.json [-per 2] [-seed 1] [-max 60s]
package main

import (
	"encoding/json"
	"flag"
	"fmt"
	"math/rand"
	"os"
	"regexp"
	"runtime"
	"sort"
	"strconv"
	"strings"
	"sync"
	"time"
)

const m31 = 0x7FFFFFFF

var s0, s1 [256]uint32
var dk [16]uint32

func loadTables(path string) {
	b, err := os.ReadFile(path)
	if err != nil {
		panic(err)
	}
	get := func(name string) []uint32 {
		re := regexp.MustCompile(`(?m)^` + name + ` == <<([0-9, ]+)>>`)
		m := re.FindStringSubmatch(string(b))
		if m == nil {
			panic("table " + name + " not found")
		}
		var out []uint32
		for _, f := range strings.Split(m[1], ",") {
			v, err := strconv.Atoi(strings.TrimSpace(f))
			if err != nil {
				panic(err)
			}
			out = append(out, uint32(v))
		}
		return out
	}
	a, c, d := get("ZS0"), get("ZS1"), get("ZD")
	if len(a) != 256 || len(c) != 256 || len(d) != 16 {
		panic("table sizes")
	}
	copy(s0[:], a)
	copy(s1[:], c)
	copy(dk[:], d)
}

func rot31(x uint32, k uint) uint32 { return ((x << k) | (x >> (31 - k))) & m31 }
func rot32(x uint32, k uint) uint32 { return (x << k) | (x >> (32 - k)) }
func l1(x uint32) uint32            { return x ^ rot32(x, 2) ^ rot32(x, 10) ^ rot32(x, 18) ^ rot32(x, 24) }
func l2(x uint32) uint32            { return x ^ rot32(x, 8) ^ rot32(x, 14) ^ rot32(x, 22) ^ rot32(x, 30) }
func sbox(x uint32) uint32 {
	return s0[x>>24]<<24 | s1[(x>>16)&0xff]<<16 | s0[(x>>8)&0xff]<<8 | s1[x&0xff]
}

type state struct {
	s      [16]uint32
	r1, r2 uint32
}

// corner predicates, evaluated on one clock.  terms: the addends in the order of the specification's Feedback (s0, 2^8 s0,
// 2^20 s4, 2^21 s10, 2^17 s13, 2^15 s15 [, u]).
var predNames []string

func init() {
	for i := 1; i <= 6; i++ {
		for _, k := range []string{"eq_M31", "eq_2p31", "eq_M31m1"} {
			predNames = append(predNames, fmt.Sprintf("add%d_%s", i, k))
		}
	}
	predNames = append(predNames, "fb_eq_M31", "fb_eq_1", "fb_eq_M31m1", "sum_low31_top8", "sum_low31_bot8", "sum_onefold_ge_2p31")
}

// clock advances the state by one LFSR step; hits receives the indices (into predNames) of the predicates that held.
func (st *state) clock(initMode bool, hits *[]int) {
	s := &st.s
	x0 := (s[15]&0x7FFF8000)<<1 | (s[14] & 0xFFFF)
	x1 := (s[11]&0xFFFF)<<16 | (s[9] >> 15)
	x2 := (s[7]&0xFFFF)<<16 | (s[5] >> 15)
	w := (x0 ^ st.r1) + st.r2
	w1 := st.r1 + x1
	w2 := st.r2 ^ x2
	st.r1 = sbox(l1(w1<<16 | w2>>16))
	st.r2 = sbox(l2(w2<<16 | w1>>16))
	terms := [7]uint32{s[0], rot31(s[0], 8), rot31(s[4], 20), rot31(s[10], 21), rot31(s[13], 17), rot31(s[15], 15), w >> 1}
	n := 6
	if initMode {
		n = 7
	}
	acc := terms[0]
	total := uint64(terms[0])
	for i := 1; i < n; i++ {
		b := terms[i]
		if initMode && i == 6 && b == 0 {
			// u = 0 adds nothing (the specification's addition of a zero u is the identity); no corner of this addition
			continue
		}
		total += uint64(b)
		d := int64(acc) + int64(b) - m31
		switch d {
		case 0:
			*hits = append(*hits, (i-1)*3+0)
		case 1:
			*hits = append(*hits, (i-1)*3+1)
		case -1:
			*hits = append(*hits, (i-1)*3+2)
		}
		c := uint64(acc) + uint64(b)
		acc = uint32(c&m31) + uint32(c>>31)
	}
	base := 18
	switch acc {
	case m31:
		*hits = append(*hits, base+0)
	case 1:
		*hits = append(*hits, base+1)
	case m31 - 1:
		*hits = append(*hits, base+2)
	}
	low := uint32(total & m31)
	if low >= 1<<31-8 {
		*hits = append(*hits, base+3)
	}
	if low < 8 {
		*hits = append(*hits, base+4)
	}
	if uint64(low)+(total>>31) >= 1<<31 {
		*hits = append(*hits, base+5)
	}
	copy(s[:15], s[1:])
	s[15] = acc
}

func ivOf(kind string, cnt [4]byte, bearer, dir byte) [16]byte {
	var iv [16]byte
	copy(iv[:4], cnt[:])
	if kind == "eea3" {
		iv[4] = bearer<<3 | dir<<2
		copy(iv[8:], iv[:8])
	} else {
		iv[4] = bearer << 3
		copy(iv[8:], iv[:8])
		iv[8] ^= dir << 7
		iv[14] ^= dir << 7
	}
	return iv
}

type Corner struct {
	Pred   string `json:"pred"`
	Kind   string `json:"kind"`  // eea3 | eia3 : which IV shape
	Mode   string `json:"mode"`  // init | work
	Clock  int    `json:"clock"` // 1..32 initialisation rounds, 33 the discarded work round, 34.. the rounds after keystream words 1..
	Key    []int  `json:"key"`
	Cnt    []int  `json:"cnt"`
	Bearer int    `json:"bearer"`
	Dir    int    `json:"dir"`
}

func main() {
	spec := flag.String("spec", "spec/CryptoTables.tla", "")
	out := flag.String("out", "tables/vectors/zuc_corners.json", "")
	per := flag.Int("per", 2, "points per (predicate, kind, mode)")
	seed := flag.Int64("seed", 1, "")
	maxd := flag.Duration("max", 5*time.Minute, "")
	workClocks := flag.Int("work", 6, "work-mode clocks examined per point (33..)")
	ks := flag.Bool("ks", false, "search keystream corner points (SNOW 3G / ZUC output words) instead of LFSR corners")
	words := flag.Int("words", 96, "-ks: keystream words examined per point")
	flag.Parse()
	loadTables(*spec)
	if *ks {
		ksMain(*spec, *out, *per, *seed, *maxd, *words)
		return
	}
	// self-test of the transcription: ZUC spec v1.6 test vector 1 (all-zero key and iv): z1 = 27bede74, z2 = 018082da
	{
		var k, iv [16]byte
		z := keystream(k, iv, 2)
		if z[0] != 0x27bede74 || z[1] != 0x018082da {
			panic(fmt.Sprintf("transcription self-test failed: %08x %08x", z[0], z[1]))
		}
	}
	type slot struct{ pred, kind, mode string }
	var mu sync.Mutex
	found := map[slot][]Corner{}
	need := 0
	for range predNames {
		need += 4 * *per
	}
	// add6_* exist in initialisation mode only: those work-mode slots can never fill
	need -= 3 * 2 * *per
	// add1_eq_M31 is impossible: s0 + 2^8 s0 = 257 s0 is 0 modulo the prime 2^31-1 only for s0 = 2^31-1, and then the raw sum is 2^32-2
	need -= 4 * *per
	total := 0
	done := make(chan struct{})
	var once sync.Once
	deadline := time.Now().Add(*maxd)
	nw := runtime.NumCPU()
	var wg sync.WaitGroup
	var clocks int64
	for wk := 0; wk < nw; wk++ {
		wg.Add(1)
		go func(wk int) {
			defer wg.Done()
			rng := rand.New(rand.NewSource(*seed*1000 + int64(wk)))
			var hits []int
			var local int64
			for it := 0; ; it++ {
				if it&1023 == 0 {
					select {
					case <-done:
						mu.Lock()
						clocks += local
						mu.Unlock()
						return
					default:
					}
					if time.Now().After(deadline) {
						once.Do(func() { close(done) })
					}
				}
				var key [16]byte
				var cnt [4]byte
				r1, r2, r3 := rng.Uint64(), rng.Uint64(), rng.Uint64()
				for i := 0; i < 8; i++ {
					key[i] = byte(r1 >> (8 * i))
					key[8+i] = byte(r2 >> (8 * i))
				}
				for i := 0; i < 4; i++ {
					cnt[i] = byte(r3 >> (8 * i))
				}
				if it%3 == 0 {
					cnt[0] = 0 // a NAS COUNT has 24 bits: the high octet of the 32-bit COUNT parameter is zero in NAS use
				}
				bearer, dir := byte(r3>>32)&31, byte(r3>>40)&1
				kind := "eea3"
				if (r3>>41)&1 == 1 {
					kind = "eia3"
				}
				iv := ivOf(kind, cnt, bearer, dir)
				var st state
				for i := 0; i < 16; i++ {
					st.s[i] = uint32(key[i])<<23 | dk[i]<<8 | uint32(iv[i])
				}
				for c := 1; c <= 32+*workClocks; c++ {
					hits = hits[:0]
					st.clock(c <= 32, &hits)
					local++
					if len(hits) == 0 {
						continue
					}
					mode := "work"
					if c <= 32 {
						mode = "init"
					}
					mu.Lock()
					for _, h := range hits {
						sl := slot{predNames[h], kind, mode}
						if len(found[sl]) < *per {
							co := Corner{Pred: predNames[h], Kind: kind, Mode: mode, Clock: c, Bearer: int(bearer), Dir: int(dir)}
							for _, b := range key {
								co.Key = append(co.Key, int(b))
							}
							for _, b := range cnt {
								co.Cnt = append(co.Cnt, int(b))
							}
							found[sl] = append(found[sl], co)
							total++
							if total >= need {
								once.Do(func() { close(done) })
							}
						}
					}
					mu.Unlock()
				}
			}
		}(wk)
	}
	wg.Wait()
	var all []Corner
	for _, v := range found {
		all = append(all, v...)
	}
	sort.Slice(all, func(i, j int) bool {
		a, b := all[i], all[j]
		if a.Pred != b.Pred {
			return a.Pred < b.Pred
		}
		if a.Kind != b.Kind {
			return a.Kind < b.Kind
		}
		if a.Mode != b.Mode {
			return a.Mode < b.Mode
		}
		return fmt.Sprint(a.Key, a.Cnt) < fmt.Sprint(b.Key, b.Cnt)
	})
	f, err := os.Create(*out)
	if err != nil {
		panic(err)
	}
	f.WriteString("[\n")
	for i, c := range all {
		b, _ := json.Marshal(c)
		f.Write(b)
		if i < len(all)-1 {
			f.WriteString(",")
		}
		f.WriteString("\n")
	}
	f.WriteString("]\n")
	f.Close()
	fmt.Fprintf(os.Stderr, "%d corner points (%d wanted) after %.3g clocks\n", total, need, float64(clocks))
	missing := []string{}
	for _, p := range predNames {
		for _, k := range []string{"eea3", "eia3"} {
			for _, m := range []string{"init", "work"} {
				if (strings.HasPrefix(p, "add6") && m == "work") || p == "add1_eq_M31" {
					continue
				}
				if len(found[slot{p, k, m}]) < *per {
					missing = append(missing, fmt.Sprintf("%s/%s/%s:%d", p, k, m, len(found[slot{p, k, m}])))
				}
			}
		}
	}
	if len(missing) > 0 {
		fmt.Fprintln(os.Stderr, "incomplete:", strings.Join(missing, " "))
	}
}

func keystream(k, iv [16]byte, n int) []uint32 {
	var st state
	for i := 0; i < 16; i++ {
		st.s[i] = uint32(k[i])<<23 | dk[i]<<8 | uint32(iv[i])
	}
	var h []int
	for c := 0; c < 32; c++ {
		st.clock(true, &h)
	}
	st.clock(false, &h)
	out := make([]uint32, n)
	for i := range out {
		s := &st.s
		x0 := (s[15]&0x7FFF8000)<<1 | (s[14] & 0xFFFF)
		x3 := (s[2]&0xFFFF)<<16 | (s[0] >> 15)
		out[i] = ((x0 ^ st.r1) + st.r2) ^ x3
		st.clock(false, &h)
	}
	return out
}
