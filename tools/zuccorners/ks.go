package main

// Keystream corner points (mode -ks): parameter points of 128-EEA1 (SNOW 3G) and 128-EEA3 (ZUC) at which the KEYSTREAM itself
// does something a "sanity check" might mistake for a fault - a word equal to its predecessor, an all-zero word, an all-ones
// word (probability 2^-32 per word each).  An implementation that drops, regenerates or refuses such words ("continuous
// generator test") is wrong exactly there, and nowhere a random or lattice generator will ever look.
// Like the LFSR corner points this is an input finder: the SNOW 3G below is a transcription of spec/Snow3G.tla with the tables
// of spec/CryptoTables.tla, self-tested on the published vector; TLC re-establishes every frozen point with the TLA+ model
// (stage A of C06) and computes the expected output of the generated cases built on it.

import (
	"encoding/json"
	"fmt"
	"math/rand"
	"os"
	"regexp"
	"runtime"
	"sort"
	"strconv"
	"strings"
	"sync"
	"time"
)

var sr, sq [256]uint32
var mula, diva [256]uint32

func loadSnowTables(path string) {
	b, err := os.ReadFile(path)
	if err != nil {
		panic(err)
	}
	flat := func(name string) []uint32 {
		re := regexp.MustCompile(`(?m)^` + name + ` == <<(.*)>>\s*$`)
		m := re.FindStringSubmatch(string(b))
		if m == nil {
			panic("table " + name + " not found")
		}
		var out []uint32
		for _, f := range regexp.MustCompile(`[0-9]+`).FindAllString(m[1], -1) {
			v, _ := strconv.Atoi(f)
			out = append(out, uint32(v))
		}
		return out
	}
	a, c := flat("SR"), flat("SQ")
	ma, da := flat("MULA"), flat("DIVA")
	if len(a) != 256 || len(c) != 256 || len(ma) != 1024 || len(da) != 1024 {
		panic(fmt.Sprintf("snow tables: %d %d %d %d", len(a), len(c), len(ma), len(da)))
	}
	copy(sr[:], a)
	copy(sq[:], c)
	for i := 0; i < 256; i++ {
		mula[i] = ma[4*i]<<24 | ma[4*i+1]<<16 | ma[4*i+2]<<8 | ma[4*i+3]
		diva[i] = da[4*i]<<24 | da[4*i+1]<<16 | da[4*i+2]<<8 | da[4*i+3]
	}
}

func mulx(v, c uint32) uint32 {
	if v >= 128 {
		return ((v << 1) & 0xff) ^ c
	}
	return v << 1
}

func sboxW(t *[256]uint32, c uint32, w uint32) uint32 {
	t1, t2, t3, t4 := t[w>>24], t[(w>>16)&0xff], t[(w>>8)&0xff], t[w&0xff]
	m1, m2, m3, m4 := mulx(t1, c), mulx(t2, c), mulx(t3, c), mulx(t4, c)
	r0 := m1 ^ t2 ^ t3 ^ m4 ^ t4
	r1 := m1 ^ t1 ^ m2 ^ t3 ^ t4
	r2 := t1 ^ m2 ^ t2 ^ m3 ^ t4
	r3 := t1 ^ t2 ^ m3 ^ t3 ^ m4
	return r0<<24 | r1<<16 | r2<<8 | r3
}

type snow struct {
	l          [16]uint32
	r1, r2, r3 uint32
}

func (s *snow) clock(init bool) {
	f := (s.l[15] + s.r1) ^ s.r2
	r := s.r2 + (s.r3 ^ s.l[5])
	nr2, nr3 := sboxW(&sr, 0x1B, s.r1), sboxW(&sq, 0x69, s.r2)
	v := (s.l[0] << 8) ^ mula[s.l[0]>>24] ^ s.l[2] ^ (s.l[11] >> 8) ^ diva[s.l[11]&0xff]
	if init {
		v ^= f
	}
	copy(s.l[:15], s.l[1:])
	s.l[15] = v
	s.r1, s.r2, s.r3 = r, nr2, nr3
}

// snowKS: k = k0..k3, iv = IV0..IV3 as in Snow3G!InitState (1-based there)
func snowKS(k, iv [4]uint32, n int, out []uint32) {
	var s snow
	s.l = [16]uint32{^k[0], ^k[1], ^k[2], ^k[3], k[0], k[1], k[2], k[3], ^k[0], ^k[1] ^ iv[3], ^k[2] ^ iv[2], ^k[3], k[0] ^ iv[1], k[1], k[2], k[3] ^ iv[0]}
	for i := 0; i < 32; i++ {
		s.clock(true)
	}
	s.clock(false)
	for i := 0; i < n; i++ {
		out[i] = ((s.l[15] + s.r1) ^ s.r2) ^ s.l[0]
		s.clock(false)
	}
}

func be32(b []byte) uint32 {
	return uint32(b[0])<<24 | uint32(b[1])<<16 | uint32(b[2])<<8 | uint32(b[3])
}

// eea1KS: the parameter mapping of Eea.tla (KeyW, EEA1iv)
func eea1KS(key [16]byte, cnt [4]byte, bearer, dir byte, n int, out []uint32) {
	k := [4]uint32{be32(key[12:]), be32(key[8:12]), be32(key[4:8]), be32(key[0:4])}
	bd := uint32(bearer*8+dir*4) << 24
	c := be32(cnt[:])
	snowKS(k, [4]uint32{bd, c, bd, c}, n, out)
}

type KsCorner struct {
	Alg    int    `json:"alg"`  // 1: 128-EEA1, 3: 128-EEA3
	Pred   string `json:"pred"` // word_repeats | zero_word | ones_word
	Word   int    `json:"word"` // 1-based index i of the keystream word z_i the predicate is about (word_repeats: z_i = z_(i+1))
	Key    []int  `json:"key"`
	Cnt    []int  `json:"cnt"`
	Bearer int    `json:"bearer"`
	Dir    int    `json:"dir"`
}

func ksMain(spec, out string, per int, seed int64, maxd time.Duration, words int) {
	loadSnowTables(spec)
	{ // self-test: SNOW 3G spec test set 1 (key 2BD6459F..., IV EA024714...): z1 = ABEE9704, z2 = 7AC31373
		k := [4]uint32{0x2BD6459F, 0x82C5B300, 0x952C4910, 0x4881FF48}
		iv := [4]uint32{0xEA024714, 0xAD5C4D84, 0xDF1F9B25, 0x1C0BF45F}
		z := make([]uint32, 2)
		snowKS(k, iv, 2, z)
		if z[0] != 0xABEE9704 || z[1] != 0x7AC31373 {
			panic(fmt.Sprintf("SNOW 3G transcription self-test failed: %08x %08x", z[0], z[1]))
		}
	}
	type slot struct {
		alg  int
		pred string
	}
	var mu sync.Mutex
	found := map[slot][]KsCorner{}
	need, total := 2*3*per, 0
	done := make(chan struct{})
	var once sync.Once
	deadline := time.Now().Add(maxd)
	var wg sync.WaitGroup
	for wk := 0; wk < runtime.NumCPU(); wk++ {
		wg.Add(1)
		go func(wk int) {
			defer wg.Done()
			rng := rand.New(rand.NewSource(seed*7777 + int64(wk)))
			z := make([]uint32, words+1)
			for it := 0; ; it++ {
				if it&255 == 0 {
					select {
					case <-done:
						return
					default:
					}
					if time.Now().After(deadline) {
						once.Do(func() { close(done) })
					}
				}
				var key [16]byte
				var cnt [4]byte
				r1, r2, r3 := rng.Uint64(), rng.Uint64(), rng.Uint64()
				for i := 0; i < 8; i++ {
					key[i], key[8+i] = byte(r1>>(8*i)), byte(r2>>(8*i))
				}
				for i := 0; i < 4; i++ {
					cnt[i] = byte(r3 >> (8 * i))
				}
				if it%2 == 0 {
					cnt[0] = 0 // 24-bit NAS COUNT
				}
				bearer, dir := byte(r3>>32)&31, byte(r3>>40)&1
				alg := 1
				if (r3>>41)&1 == 1 {
					alg = 3
				}
				if alg == 1 {
					eea1KS(key, cnt, bearer, dir, words+1, z)
				} else {
					copy(z, keystream(key, ivOf("eea3", cnt, bearer, dir), words+1))
				}
				for i := 0; i < words; i++ {
					p := ""
					switch {
					case z[i] == z[i+1]:
						p = "word_repeats"
					case z[i] == 0:
						p = "zero_word"
					case z[i] == 0xFFFFFFFF:
						p = "ones_word"
					}
					if p == "" {
						continue
					}
					mu.Lock()
					sl := slot{alg, p}
					if len(found[sl]) < per {
						c := KsCorner{Alg: alg, Pred: p, Word: i + 1, Bearer: int(bearer), Dir: int(dir)}
						for _, b := range key {
							c.Key = append(c.Key, int(b))
						}
						for _, b := range cnt {
							c.Cnt = append(c.Cnt, int(b))
						}
						found[sl] = append(found[sl], c)
						total++
						if total >= need {
							once.Do(func() { close(done) })
						}
					}
					mu.Unlock()
				}
			}
		}(wk)
	}
	wg.Wait()
	var all []KsCorner
	for _, v := range found {
		all = append(all, v...)
	}
	sort.Slice(all, func(i, j int) bool {
		a, b := all[i], all[j]
		if a.Alg != b.Alg {
			return a.Alg < b.Alg
		}
		if a.Pred != b.Pred {
			return a.Pred < b.Pred
		}
		return fmt.Sprint(a.Key) < fmt.Sprint(b.Key)
	})
	var sb strings.Builder
	sb.WriteString("[\n")
	for i, c := range all {
		b, _ := json.Marshal(c)
		sb.Write(b)
		if i < len(all)-1 {
			sb.WriteString(",")
		}
		sb.WriteString("\n")
	}
	sb.WriteString("]\n")
	if err := os.WriteFile(out, []byte(sb.String()), 0o644); err != nil {
		panic(err)
	}
	fmt.Fprintf(os.Stderr, "%d keystream corner points (%d wanted)\n", total, need)
}
