#!/usr/bin/env python3
"""Design-time tool: collect the PUBLISHED test vectors (ETSI/SAGE UEA2&UIA2 / 128-EEA1&EIA1 implementors' test data,
TS 33.401 Annex C 128-EEA2/EIA2 test sets, GSMA EEA3/EIA3 test data v1.1, SNOW 3G and ZUC keystream test sets) that the
repository's *_test.go files carry, plus FIPS-197 / SP 800-38A / RFC 4493 examples typed in from those documents, and
write them as tables/vectors/*.json.  Octet strings are arrays of 0..255; 32-bit values are 4 octets (TLC ints are 32-bit signed).
The check never runs this; tables/vectors is committed.  Stage A of C06/C07 asserts every vector against the TLA+ operators."""
import json, os, re, sys
VERIF = os.path.dirname(os.path.dirname(os.path.abspath(__file__)))
REPO = os.environ.get("VERIF_REPO", "/repo")
OUT = os.path.join(VERIF, "tables", "vectors")


def u32(x): return [(x >> 24) & 255, (x >> 16) & 255, (x >> 8) & 255, x & 255]
def hx(s): s = s.replace(" ", ""); return [int(s[i:i + 2], 16) for i in range(0, len(s), 2)]


def security_cases():
    src = open(REPO + '/security/security_test.go').read()
    out = {}
    for m in re.finditer(r'func (Test\w+)\(t \*testing\.T\) \{(.*?)\n\}\n', src, re.S):
        name, body = m.group(1), m.group(2)
        cases = []
        for blk in re.split(r'\n\t\t\{\n', body)[1:]:
            d = {}
            for k, v in re.findall(r'(\w+):\s+((?:\[\d*\]byte\{[^}]*\}|\[\]byte\{[^}]*\}|0x[0-9a-fA-F]+|\d+|"[^"]*"))', blk, re.S):
                if 'byte{' in v: d[k] = [int(x, 16) for x in re.findall(r'0x([0-9a-fA-F]+)', v)]
                elif v.startswith('"'): d[k] = v.strip('"')
                else: d[k] = int(v, 0)
            if 'name' in d: cases.append(d)
        out[name] = cases
    return out


def norm(c, cipher):
    """uniform record: name key cnt bearer dir nbits data out"""
    cnt = c.get("CountC", c.get("CountI", c.get("Count")))
    data = c["Ibs"] if cipher else c["Msg"]
    nbits = c.get("Length", 8 * len(data))
    mac = c.get("Mac", c.get("MacI"))
    return dict(name=c["name"], key=c["Ck"] if cipher else c["Ik"], cnt=u32(cnt), bearer=c["Bearer"], dir=c["Direction"],
                nbits=nbits, data=data[:(nbits + 7) // 8], out=c["Obs"][:(nbits + 7) // 8] if cipher else (mac if isinstance(mac, list) else u32(mac)))


def keystream_cases(path, words_key):
    src = open(path).read()
    cases = []
    for blk in re.split(r'\n\t\t\{\n', src)[1:]:
        name = re.search(r'name:\s+"(\w+)"', blk).group(1)
        def field(f):
            return [int(x, 16) for x in re.findall(r'0x([0-9a-fA-F]+)', re.search(r'\b%s:\s+\S*\{([^}]*)\}' % f, blk, re.S).group(1))]
        k, iv, z = field("k"), field("iv"), field("z")
        if words_key:
            k = sum((u32(w) for w in k), []); iv = sum((u32(w) for w in iv), [])
        cases.append(dict(name=name, key=k, iv=iv, out=sum((u32(w) for w in z), [])))
    return cases


def main():
    os.makedirs(OUT, exist_ok=True)
    sc = security_cases()
    fam = dict(eea1=("TestNEA1", True), eia1=("TestNIA1", False), eea2=("TestNEA2", True), eia2=("TestNIA2", False),
               eea3=("TestNEA3", True), eia3=("TestNIA3", False))
    for f, (t, cipher) in fam.items():
        cases = [norm(c, cipher) for c in sc[t]]
        json.dump(dict(family=f, source="security/security_test.go %s (published test sets)" % t, cases=cases),
                  open(os.path.join(OUT, f + ".json"), "w"))
        print(f, len(cases), [c["nbits"] for c in cases])
    json.dump(dict(family="snow3g", source="security/snow3g/snow3g_test.go (SNOW 3G spec test sets 1-4)",
                   cases=keystream_cases(REPO + '/security/snow3g/snow3g_test.go', True)), open(os.path.join(OUT, "snow3g.json"), "w"))
    json.dump(dict(family="zuc", source="security/zuc/zuc_test.go (ZUC spec test vectors 1-4)",
                   cases=keystream_cases(REPO + '/security/zuc/zuc_test.go', False)), open(os.path.join(OUT, "zuc.json"), "w"))
    k = hx("2b7e151628aed2a6abf7158809cf4f3c")
    m64 = hx("6bc1bee22e409f96e93d7e117393172a ae2d8a571e03ac9c9eb76fac45af8e51 30c81c46a35ce411e5fbc1191a0a52ef f69f2445df4f9b17ad2b417be66c3710")
    aes = dict(family="aes", source="FIPS-197 Appendix B and C.1; SP 800-38A F.5.1; RFC 4493 section 4",
               block=[dict(name="FIPS197-B", key=k, data=hx("3243f6a8885a308d313198a2e0370734"), out=hx("3925841d02dc09fbdc118597196a0b32")),
                      dict(name="FIPS197-C1", key=hx("000102030405060708090a0b0c0d0e0f"), data=hx("00112233445566778899aabbccddeeff"), out=hx("69c4e0d86a7b0430d8cdb78070b4c55a"))],
               ctr=[dict(name="SP800-38A-F.5.1", key=k, ctr=hx("f0f1f2f3f4f5f6f7f8f9fafbfcfdfeff"), data=m64,
                         out=hx("874d6191b620e3261bef6864990db6ce 9806f66b7970fdff8617187bb9fffdff 5ae4df3edbd5d35e5b4f09020db03eab 1e031dda2fbe03d1792170a0f3009cee"))],
               cmac=[dict(name="RFC4493-1", key=k, data=[], out=hx("bb1d6929e95937287fa37d129b756746")),
                     dict(name="RFC4493-2", key=k, data=m64[:16], out=hx("070a16b46b4d4144f79bdd9dd04a287c")),
                     dict(name="RFC4493-3", key=k, data=m64[:40], out=hx("dfa66747de9ae63030ca32611497c827")),
                     dict(name="RFC4493-4", key=k, data=m64, out=hx("51f0bebf7e3b9d92fc49741779363cfe"))],
               subkeys=[dict(name="RFC4493-K1K2", key=k, k1=hx("fbeed618357133667c85e08f7236a8de"), k2=hx("f7ddac306ae266ccf90bc11ee46d513b"))])
    json.dump(aes, open(os.path.join(OUT, "aes.json"), "w"))


if __name__ == "__main__":
    main()
