#!/usr/bin/env python3
# PROVENANCE ONLY: this produced tables/messages.json once, at the pinned commit (8f72a95). The frozen JSON is the oracle;
# it is never regenerated at check time.  Re-running it against a changed tree and diffing is a way to *see* table drift, not a verdict.
# one-off extraction of message tables from generated decoders (prototype)
import re,glob,json,os,sys
NT='/repo/nasType/'; NM='/repo/nasMessage/'
# nasType shapes
shapes={}
for f in glob.glob(NT+'NAS_*.go'):
    if f.endswith('_test.go'): continue
    s=open(f).read()
    for m in re.finditer(r'type (\w+) struct \{(.*?)\}',s,re.S):
        fl=[re.sub(r'\s+',' ',x.strip()) for x in m.group(2).strip().split('\n') if x.strip()]
        d={'iei':False,'lentype':0,'data':'none','cap':0}
        for x in fl:
            n,t=x.split(' ',1)
            if n=='Iei': d['iei']=True
            elif n=='Len': d['lentype']=1 if t=='uint8' else 2
            elif n=='Octet':
                if t=='uint8': d['data']='u8'; d['cap']=1
                else: d['data']='arr'; d['cap']=int(re.match(r'\[(\d+)\]',t).group(1))
            elif n=='Buffer': d['data']='buf'
        shapes[m.group(1)]=d
shapes.setdefault('Plain5GSNASMessage',{'iei':False,'lentype':0,'data':'none','cap':0})
# message types from nas_generated.go
gen=open('/repo/nas_generated.go').read()
mt={m.group(1):int(m.group(2)) for m in re.finditer(r'MsgType(\w+)\s+uint8 = (\d+)',gen)}
gmm=set(re.findall(r'\*nasMessage\.(\w+)',gen[gen.index('type GmmMessage'):gen.index('type GsmMessage')]))
msgs=[]
for f in sorted(glob.glob(NM+'NAS_*.go')):
    b=os.path.basename(f)
    if b.endswith('_test.go') or b in('NAS_EPD.go','NAS_CommInfoIE.go'): continue
    s=open(f).read()
    m=re.search(r'type (\w+) struct \{(.*?)\n\}',s,re.S)
    name=m.group(1)
    fields=[x.strip() for x in m.group(2).strip().split('\n')]
    consts={c.group(1):int(c.group(2),16) for c in re.finditer(r'%s(\w+)Type\s+uint8 = (0x[0-9A-Fa-f]+)'%name,s)}
    dec=s[s.index('func (a *%s) Decode'%name):]
    slots=[]
    for fl in fields:
        opt=fl.startswith('*'); tn=fl.split('.')[-1]
        sh=shapes[tn]
        # segment of decoder for this slot
        if opt:
            st=dec.index('case %s%sType:'%(name,tn)); 
            nx=re.search(r'\n\t\tcase |\n\t\tdefault:',dec[st+5:]); seg=dec[st:st+5+nx.start()]
        else:
            seg=''.join(x.group(0) for x in re.finditer(r'[^\n]*a\.%s\.[^\n]*\n'%tn,dec[:dec.index('for buffer.Len() > 0') if 'for buffer.Len() > 0' in dec else len(dec)]))
        haslen=('&a.%s.Len'%tn) in seg
        lsz=sh['lentype'] if haslen else 0
        half=('a.%s.Octet = ieiN'%tn) in seg
        g=re.search(r'if (a\.%s\.Len [^{]*)\{'%tn,seg)
        tmax=255 if lsz==1 else 65535
        mn,mx,lens=0,tmax,None
        if lsz==0:
            if sh['data']=='none': mn=mx=0
            elif half: mn=mx=0
            else: mn=mx=sh['cap']
        if g:
            cond=g.group(1).replace('a.%s.Len'%tn,'L').strip()
            if '&&' in cond:
                lens=[int(x) for x in re.findall(r'L != (\d+)',cond)]; mn,mx=min(lens),max(lens)
            else:
                for c in cond.split('||'):
                    c=c.strip(); op,v=c.split()[1],int(c.split()[2])
                    if op=='<': mn=v
                    elif op=='>': mx=v
                    elif op=='!=': mn=mx=v
        slot=dict(name=tn,mand=not opt,iei=consts.get(tn,-1),half=half,lsz=lsz,min=mn,max=mx,lens=lens or [],data=sh['data'],cap=sh['cap'],hasiei=sh['iei'])
        slots.append(slot)
    fam='GMM' if name in gmm else 'GSM'
    if name=='SecurityProtected5GSNASMessage': fam='ENV'
    msgs.append(dict(name=name,family=fam,msgtype=mt.get(name,-1),slots=slots))
json.dump(msgs,open(sys.argv[1] if len(sys.argv)>1 else 'messages.json','w'),indent=1)
print(len(msgs),sum(len(m['slots']) for m in msgs))
for m in msgs:
    for s in m['slots']:
        if s['data']=='arr' and s['lsz']>0 and s['max']>s['cap']: print('CAP<MAX',m['name'],s)
