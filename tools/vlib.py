"""Common machinery for the /verif checks (orchestration only: build, run TLC, shard,
collect, match known findings, write evidence).  No verdict about values is taken here:
mismatches come from TLC trace validation (MISMATCH lines of a total trace specification)
or from runtime observation by the driver (panic / hang / race / allocation)."""
import atexit, hashlib, json, os, random, re, shutil, subprocess, sys, tempfile, time
from concurrent.futures import ThreadPoolExecutor

VERIF = os.path.dirname(os.path.dirname(os.path.abspath(__file__)))
REPO = os.environ.get("VERIF_REPO", "/repo")
TLA_CP = "/opt/veriftools/tla/tla2tools.jar:/opt/veriftools/tla/CommunityModules-deps.jar"
NCPU = os.cpu_count() or 4

GOENV = dict(GOFLAGS="-mod=mod", GOPROXY="off", GOSUMDB="off", GOTOOLCHAIN="local")


class Infra(Exception):
    """the check could not run (exit 2) - never a violation"""


def log(*a):
    print(*a, file=sys.stderr, flush=True)


class TLCResult:
    def __init__(self, out, rc, wall):
        self.out, self.rc, self.wall = out, rc, wall
        m = re.findall(r"(\d+) states generated, (\d+) distinct states found", out)
        self.generated = int(m[-1][0]) if m else 0
        self.distinct = int(m[-1][1]) if m else 0
        # -simulate prints a different summary
        m2 = re.findall(r"The number of states generated: (\d+)", out)
        if m2 and not m:
            self.generated = int(m2[-1]); self.distinct = self.generated
        self.printed = []      # PrintT lines (tuples / strings); TLC wraps long tuples over several lines: rejoin them
        acc = None
        for ln in out.splitlines():
            if acc is not None:
                acc += " " + ln.strip()
                if ln.rstrip().endswith(">>") and acc.count("<<") == acc.count(">>"):
                    self.printed.append(acc); acc = None
                elif len(acc) > 2000000:
                    acc = None
                continue
            if ln.startswith("<<"):
                if ln.rstrip().endswith(">>") and ln.count("<<") == ln.count(">>"):
                    self.printed.append(ln)
                else:
                    acc = ln.rstrip()
            elif ln.startswith('"'):
                self.printed.append(ln)
        self.errors = [ln for ln in out.splitlines() if ln.startswith("Error:")]
        self.violated = None
        m = re.search(r"Invariant (\S+) is violated", out)
        if m: self.violated = m.group(1)
        m = re.search(r"Temporal properties were violated|Action property (\S+) is violated", out)
        if m and not self.violated: self.violated = m.group(1) or "temporal"
        self.finished = "Model checking completed" in out or "Finished in" in out

    @property
    def clean(self):
        return self.rc == 0 and not self.errors


def parse_tla_tuple(line):
    """parse a PrintT'ed flat tuple like <<"MISMATCH", 12, TRUE, "abc">> into a python list"""
    s = line.strip()
    if not (s.startswith("<<") and s.endswith(">>")):
        return None
    body = s[2:-2]
    out, i, n = [], 0, len(body)
    depth = 0; cur = ""
    instr = False
    while i < n:
        c = body[i]
        if instr:
            cur += c
            if c == "\\" and i + 1 < n:
                cur += body[i + 1]; i += 1
            elif c == '"':
                instr = False
        elif c == '"':
            instr = True; cur += c
        elif c in "<[{(":
            depth += 1; cur += c
        elif c in ">]})":
            depth -= 1; cur += c
        elif c == "," and depth == 0:
            out.append(cur.strip()); cur = ""
        else:
            cur += c
        i += 1
    if cur.strip():
        out.append(cur.strip())
    res = []
    for t in out:
        if t.startswith('"') and t.endswith('"'):
            res.append(t[1:-1])
        elif re.fullmatch(r"-?\d+", t):
            res.append(int(t))
        elif t == "TRUE":
            res.append(True)
        elif t == "FALSE":
            res.append(False)
        else:
            res.append(t)
    return res


def coverage_report(out):
    """parse `tlc -coverage 1` output: actions never taken and sub-expressions never evaluated (vacuity check)"""
    last = {}
    zero = {}
    for ln in out.splitlines():
        m = re.match(r"^<(\w+) line (\d+), col \d+ to line \d+, col \d+ of module (\w+)>: (\d+)(?::(\d+))?\s*$", ln)
        if m:
            name, mod, a, b = m.group(1), m.group(3), int(m.group(4)), m.group(5)
            if b is not None:                       # an action / Init line: distinct:total
                last[(mod, name, m.group(2))] = int(b)
            continue
        m = re.match(r"^\s+\|*line (\d+), col (\d+) to line (\d+), col (\d+) of module (\w+): (\d+)", ln)
        if m:
            zero[(m.group(5), int(m.group(1)), int(m.group(2)))] = int(m.group(6))     # last report wins (coverage is printed repeatedly)
    vac = sorted("%s!%s (line %s)" % (mod, name, line) for (mod, name, line), tot in last.items() if tot == 0)
    zer = sorted("%s line %d col %d" % k for k, v in zero.items() if v == 0)
    return vac, zer


class Check:
    def __init__(self, pid, level="model_checking"):
        self.pid = pid
        self.level = level
        self.tier = os.environ.get("VERIF_TIER", "quick")
        self.seed = int(os.environ.get("VERIF_SEED", "1") or 1)
        self.t0 = time.time()
        self.scratch = tempfile.mkdtemp(prefix="vcheck-%s-" % pid, dir=os.environ.get("VERIF_TMP", "/tmp"))
        atexit.register(self._cleanup)
        self.cov = dict(states=0, transitions=0, traces_validated_against_impl=0, evaluations=0,
                        distinct_nontrivial=0, rule="", samples=[], stage_a=[], known_findings_hit=[],
                        divergences=[], checker_cmd="tlc (tla2tools 1.8.0)")
        self.assumptions = []
        self.violations = []       # dicts: what, replay
        self.known_hits = {}       # key -> description
        self.rng = random.Random(self.seed)
        self._findings = None
        self._distinct = set()
        self.keep = bool(os.environ.get("VERIF_KEEP"))

    # ------------------------------------------------------------------ plumbing
    def _cleanup(self):
        if self.keep:
            log("scratch kept:", self.scratch); return
        shutil.rmtree(self.scratch, ignore_errors=True)

    def sub(self, name):
        d = os.path.join(self.scratch, name)
        os.makedirs(d, exist_ok=True)
        return d

    def spec_dir(self, name, extra_files=None):
        """flat copy of every .tla/.cfg of spec/, spec/mc, spec/trace into a scratch dir"""
        d = self.sub(name)
        snap = os.path.join(self.scratch, "_spec_snapshot")
        if not os.path.isdir(snap):          # one snapshot per run: every TLC job of this run sees the same sources
            os.makedirs(snap)
            for subd in ("spec", "spec/mc", "spec/trace"):
                p = os.path.join(VERIF, subd)
                for f in os.listdir(p):
                    if f.endswith(".tla") or f.endswith(".cfg"):
                        shutil.copy(os.path.join(p, f), os.path.join(snap, f))
            vec = os.path.join(VERIF, "tables", "vectors")           # published vectors and frozen corner points (read by the crypto specs)
            for f in os.listdir(vec):
                if f.endswith(".json"):
                    shutil.copy(os.path.join(vec, f), os.path.join(snap, f))
        for f in os.listdir(snap):
            shutil.copy(os.path.join(snap, f), os.path.join(d, f))
        for src, dst in (extra_files or {}).items():
            shutil.copy(src, os.path.join(d, dst))
        return d

    def build_driver(self, cmd, race=False, tags="verif", overlay=None):
        """build harness/cmd/<cmd> against the CURRENT working tree of /repo, hooks on"""
        hd = os.path.join(self.scratch, "harness")
        if not os.path.isdir(hd):
            shutil.copytree(os.path.join(VERIF, "harness"), hd)
            gomod = open(os.path.join(hd, "go.mod")).read().replace("=> /repo", "=> " + REPO)
            open(os.path.join(hd, "go.mod"), "w").write(gomod)
            shutil.copy(os.path.join(REPO, "go.sum"), os.path.join(hd, "go.sum"))
        out = os.path.join(self.scratch, "driver-" + cmd + ("-race" if race else ""))
        env = dict(os.environ, **GOENV)
        args = ["go", "build", "-tags", tags, "-o", out]
        if race:
            args.append("-race"); env["CGO_ENABLED"] = "1"
        if overlay:
            args += ["-overlay", overlay]
        if os.environ.get("VERIF_GOCOVER"):      # development aid: statement coverage of the library by a check (GOCOVERDIR must be set too)
            args += ["-cover", "-coverpkg=verifharness/...,github.com/free5gc/nas/..."]
        args.append("./cmd/" + cmd)
        t = time.time()
        r = subprocess.run(args, cwd=hd, env=env, capture_output=True, text=True)
        if r.returncode != 0:
            raise Infra("driver build failed (the tree under test does not compile with the harness):\n" + r.stderr[-4000:])
        log("built driver %s in %.1fs" % (cmd, time.time() - t))
        return out

    def run_driver(self, drv, args, timeout=600, stdin=None, env=None, check=True):
        e = dict(os.environ, VERIF_SEED=str(self.seed), VERIF_TIER=self.tier, VERIF_REPO=REPO)
        e.update(env or {})
        e.update(getattr(self, "force_env", None) or {})
        try:
            r = subprocess.run([drv] + [str(a) for a in args], capture_output=True, text=True, timeout=timeout, input=stdin, env=e)
        except subprocess.TimeoutExpired as ex:
            raise Infra("driver timed out: %s %s" % (drv, args))
        if check and r.returncode != 0:
            raise Infra("driver failed rc=%d: %s\n%s" % (r.returncode, args, (r.stderr or "")[-3000:]))
        return r

    def tlc(self, workdir, module, cfg=None, workers=None, timeout=900, simulate=None, depth=None,
            xmx="8g", extra=None, deque=False, coverage=False, name=None):
        cfg = cfg or module
        workers = workers or NCPU
        meta = tempfile.mkdtemp(prefix="meta-", dir=self.scratch)
        cmd = ["java", "-Xss1g", "-XX:+UseParallelGC", "-Xmx" + xmx]
        if workers <= 2:
            cmd.append("-XX:ParallelGCThreads=2")
        if deque:
            cmd.append("-Dtlc2.tool.queue.IStateQueue=StateDeque")
        cmd += ["-cp", TLA_CP, "tlc2.TLC", "-metadir", meta, "-workers", str(workers), "-config", cfg + ".cfg"]
        if simulate:
            cmd += ["-simulate", simulate]
            if depth: cmd += ["-depth", str(depth)]
            cmd += ["-seed", str(self.seed)]
        if coverage:
            cmd += ["-coverage", "1"]
        cmd += (extra or [])
        cmd.append(module + ".tla")
        t = time.time()
        try:
            r = subprocess.run(cmd, cwd=workdir, capture_output=True, text=True, timeout=timeout)
            out, rc = r.stdout + r.stderr, r.returncode
        except subprocess.TimeoutExpired as ex:
            out = (ex.stdout.decode() if isinstance(ex.stdout, bytes) else (ex.stdout or "")) + "\nTIMEOUT"
            rc = 124
        shutil.rmtree(meta, ignore_errors=True)
        res = TLCResult(out, rc, time.time() - t)
        log("tlc %s/%s rc=%d gen=%d distinct=%d %.1fs" % (module, cfg, rc, res.generated, res.distinct, res.wall))
        return res

    def stage_a(self, workdir, module, cfg=None, **kw):
        """model-check a configuration of the specification; a failure of an unchanged spec is infra (exit 2)"""
        cover = kw.get("coverage")
        res = self.tlc(workdir, module, cfg, **kw)
        if res.rc == 124:
            raise Infra("stage A timed out: %s" % (cfg or module))
        if not res.clean:
            raise Infra("stage A failed for %s (spec-level problem, not a verdict about the code):\n%s" % (cfg or module, res.out[-3000:]))
        self.cov["states"] += res.distinct
        self.cov["transitions"] += res.generated
        rec = dict(config=cfg or module, generated=res.generated, distinct=res.distinct, wall_s=round(res.wall, 1))
        if cover:
            vac, zer = coverage_report(res.out)
            rec["vacuous_actions"] = vac                  # an action never taken would mean a property never exercised
            rec["never_evaluated_expressions"] = len(zer)
            rec["never_evaluated_sample"] = zer[:8]
            if vac:
                self.note("stage A %s: actions never taken: %s" % (cfg or module, ", ".join(vac)))
        self.cov["stage_a"].append(rec)
        return res

    # ------------------------------------------------------------------ trace validation
    def validate(self, trace_module, events, shards=None, timeout=1200, xmx="3g", cfg=None, stateful=False, extra_files=None):
        """validate ndjson events against a total trace spec.  events: list of JSON strings (lines).
        Returns list of (global_index, parsed MISMATCH tuple).  Each shard is a separate JVM, -workers 1.
        stateful=True: events must not be split inside a history; boundaries are lines whose op is TraceReset."""
        n = len(events)
        if n == 0:
            return []
        shards = shards or min(14, max(1, n // 400))
        bounds = [0]
        if stateful:
            resets = [i for i, e in enumerate(events) if '"TraceReset"' in e[:80]]
            target = n / shards
            for i in resets:
                if i - bounds[-1] >= target and i > 0:
                    bounds.append(i)
        else:
            step = (n + shards - 1) // shards
            bounds = list(range(0, n, step))
        bounds.append(n)
        jobs = []
        for k in range(len(bounds) - 1):
            lo, hi = bounds[k], bounds[k + 1]
            if hi <= lo: continue
            d = self.spec_dir("val-%s-%d-%d" % (trace_module, k, int(time.time() * 1000) % 100000), extra_files)
            with open(os.path.join(d, "trace.ndjson"), "w") as f:
                f.write("\n".join(events[lo:hi]) + "\n")
            jobs.append((d, lo, hi))

        def run(job):
            d, lo, hi = job
            res = self.tlc(d, trace_module, cfg, workers=1, timeout=timeout, xmx=xmx)
            mism, consumed = [], None
            for ln in res.printed:
                t = parse_tla_tuple(ln)
                if not t: continue
                if t[0] == "MISMATCH":
                    mism.append((lo + int(t[1]) - 1, t))
                elif t[0] == "CONSUMED":
                    consumed = int(t[1])
            if res.rc == 124:
                raise Infra("trace validation timed out in %s" % d)
            if consumed is None or consumed != hi - lo:
                raise Infra("trace validation did not consume the whole shard (%s of %d) in %s:\n%s" % (consumed, hi - lo, d, res.out[-3000:]))
            if res.errors and not mism:
                raise Infra("trace validation error without mismatch in %s:\n%s" % (d, res.out[-3000:]))
            shutil.rmtree(d, ignore_errors=True)
            return mism, res
        allm = []
        with ThreadPoolExecutor(max_workers=min(len(jobs), 14)) as ex:
            for mism, res in ex.map(run, jobs):
                allm += mism
                self.cov["states"] += res.distinct
                self.cov["transitions"] += res.generated
        self.cov["traces_validated_against_impl"] += n
        allm.sort(key=lambda x: x[0])
        return allm

    # ------------------------------------------------------------------ findings
    def findings(self):
        if self._findings is None:
            p = os.path.join(VERIF, "known_findings.json")
            self._findings = list(json.load(open(p))["findings"]) if os.path.exists(p) else []
            dd = os.path.join(VERIF, "known_findings.d")
            if os.path.isdir(dd):
                for f in sorted(os.listdir(dd)):
                    if f.endswith(".json"):
                        self._findings += json.load(open(os.path.join(dd, f)))["findings"]
        return self._findings

    def report(self, op, cls, what, replay_obj):
        """a confirmed mismatch of class (op, cls): known finding or violation"""
        for f in self.findings():
            if f.get("status") == "known" and f["property"] == self.pid and f["op"] == op and f["class"] == cls:
                key = (op, cls)
                if key not in self.known_hits:
                    self.known_hits[key] = f["description"]
                self.cov["known_findings_hit"].append("%s/%s" % (op, cls)) if "%s/%s" % (op, cls) not in self.cov["known_findings_hit"] else None
                return "known"
        if len(self.violations) < 50:
            os.makedirs(os.path.join(VERIF, "replay"), exist_ok=True)
            h = hashlib.sha1(json.dumps(replay_obj, sort_keys=True).encode()).hexdigest()[:12]
            path = os.path.join(VERIF, "replay", "%s-%s.json" % (self.pid, h))
            json.dump(dict(property=self.pid, op=op, cls=cls, what=what, case=replay_obj), open(path, "w"), indent=1)
            self.violations.append(dict(what="%s/%s: %s" % (op, cls, what), replay=path))
        else:
            self.violations.append(dict(what="%s/%s: %s" % (op, cls, what), replay=self.violations[0]["replay"]))
        return "violation"

    OTHER_CONFIG = {"VERIF_LOGTRACE": "1", "VERIF_VIEW": "0"}

    def second_pass(self, drv, args, out_path, first_events, timeout=1800, extra_env=None):
        """The generated cases once more under another configuration of things the properties do not mention - the library's
        logger at trace level, every octet string handed over in a buffer of exactly its size (no spare capacity): results do
        not depend on either.  Returns the observations that differ from the first pass (only those need a second
        judgement); counts go to the evidence."""
        self.run_driver(drv, args, env=dict(self.OTHER_CONFIG, **(extra_env or {})), timeout=timeout)
        evs = read_ndjson(out_path)
        seen = set(first_events)
        extra = [e for e in evs if e not in seen]
        self.cov["second_pass_trace_level_exact_capacity"] = dict(events=len(evs), differing_from_first_pass=len(extra))
        return extra

    def triage(self, mism, classify, confirm, per_class=2, total=12):
        """mism: list of (idx, tuple).  classify(idx, tuple) -> (op, cls, what, replay_obj) or None (not a verdict).
        confirm(idx, tuple) -> bool (reproduced in a fresh process).  Only a bounded number of mismatches per
        class is confirmed and reported individually; the rest are counted."""
        seen, confirmed = {}, 0
        for idx, t in mism:
            r = classify(idx, t)
            if r is None:
                continue
            op, cls, what, obj = r
            k = (op, cls)
            seen[k] = seen.get(k, 0) + 1
            if seen[k] > per_class or confirmed >= total:
                continue
            confirmed += 1
            ok = confirm(idx, t)
            if not ok:
                # drivers run their seeded `record` streams with the library's logger at trace level and everything else at the
                # default level (ev.Quiet): a mismatch seen there may need that configuration - confirm once more under it
                self.force_env = dict(self.OTHER_CONFIG, **getattr(self, "other_env", {}))
                try:
                    ok = confirm(idx, t)
                finally:
                    self.force_env = {}
                if ok: obj = dict(obj, needs="library logger at trace level (logger.GetLogger().SetLevel(logrus.TraceLevel)) and / or inputs in buffers without spare capacity; the drivers honour VERIF_LOGTRACE=1 VERIF_VIEW=0") if isinstance(obj, dict) else obj
            if not ok:
                self.note("mismatch %s/%s at event %d not reproduced in a fresh process (ignored)" % (op, cls, idx))
                seen[k] -= 1
                continue
            self.report(op, cls, what, obj)
        self.cov["mismatch_classes"] = {"%s/%s" % k: v for k, v in seen.items() if v > 0}
        return seen

    def note(self, text):
        if len(self.cov["divergences"]) < 40 and text not in self.cov["divergences"]:
            self.cov["divergences"].append(text)

    def count_distinct(self, key):
        self._distinct.add(key)

    def sample(self, obj, limit=6, maxlen=600):
        if len(self.cov["samples"]) < limit:
            s = obj if isinstance(obj, str) else json.dumps(obj)
            self.cov["samples"].append(s if len(s) <= maxlen else s[:maxlen] + "...")

    # ------------------------------------------------------------------ finish
    def finish(self):
        cov = self.cov
        if self._distinct:
            cov["distinct_nontrivial"] = max(cov.get("distinct_nontrivial", 0), len(self._distinct))
        ev = dict(property_id=self.pid, tier=self.tier if self.tier in ("quick", "thorough") else "quick",
                  seed=self.seed, level=self.level, coverage=cov, assumptions=self.assumptions,
                  wall_s=round(time.time() - self.t0, 2), violations=len(self.violations))
        # evidence under /verif/evidence describes runs against /repo itself; a run against another tree
        # (VERIF_REPO: seeded changes, proposed fixes) writes its evidence to a scratch location instead
        evdir = os.path.join(VERIF, "evidence") if (os.path.realpath(REPO) == "/repo" and not os.environ.get("VERIF_GOCOVER")) else os.environ.get("VERIF_EVIDENCE_DIR", "/tmp/verif-evidence-other-tree")
        os.makedirs(evdir, exist_ok=True)
        json.dump(ev, open(os.path.join(evdir, self.pid + ".json"), "w"), indent=1)
        for (op, cls), desc in sorted(self.known_hits.items()):
            print("KNOWN-FINDING: property=%s %s/%s %s" % (self.pid, op, cls, desc))
        seen = set()
        for v in self.violations:
            if v["replay"] in seen: continue
            seen.add(v["replay"])
            print("VIOLATION property=%s replay=%s  (%s)" % (self.pid, v["replay"], v["what"][:300]))
        print("%s %s tier=%s seed=%d: %s  [states=%d transitions=%d events_validated=%d evaluations=%d wall=%.1fs]" % (
            self.pid, "FAIL" if self.violations else "PASS", self.tier, self.seed,
            "%d violation(s)" % len(self.violations) if self.violations else "property held on everything explored",
            cov["states"], cov["transitions"], cov["traces_validated_against_impl"], cov["evaluations"], time.time() - self.t0))
        sys.stdout.flush()
        return 1 if self.violations else 0


def main(pid, fn, level="model_checking"):
    """entry point used by tools/checks/cNN.py: fn(check) runs the pipeline"""
    chk = Check(pid, level)
    try:
        fn(chk)
        rc = chk.finish()
    except Infra as e:
        log("INFRA: " + str(e))
        if chk.violations:              # confirmed violations were already recorded: they stand, the later infra problem is noted
            chk.note("after the violations were confirmed the check hit an infrastructure problem: " + str(e).splitlines()[0][:200])
            rc = chk.finish()
        else:
            print("%s ERROR (check could not run, exit 2): %s" % (pid, str(e).splitlines()[0]))
            rc = 2
    except SystemExit:
        raise
    except BaseException as e:           # a bug in the check itself is never a verdict about the code
        import traceback
        traceback.print_exc()
        if chk.violations:
            chk.note("after the violations were confirmed the check crashed: %s: %s" % (type(e).__name__, str(e)[:200]))
            rc = chk.finish()
        else:
            print("%s ERROR (check crashed, exit 2): %s: %s" % (pid, type(e).__name__, str(e)[:200]))
            rc = 2
    sys.exit(rc)


def read_ndjson(path):
    with open(path) as f:
        return [ln.rstrip("\n") for ln in f if ln.strip()]


# ---------------------------------------------------------------------- TLA value parsing
class _P:
    def __init__(self, s): self.s, self.i = s, 0
    def ws(self):
        while self.i < len(self.s) and self.s[self.i] in " \t\r\n": self.i += 1
    def peek(self, k=1):
        self.ws(); return self.s[self.i:self.i + k]
    def eat(self, tok):
        self.ws()
        if not self.s.startswith(tok, self.i):
            raise ValueError("expected %r at %d: %r" % (tok, self.i, self.s[self.i:self.i + 30]))
        self.i += len(tok)
    def value(self):
        self.ws(); s = self.s
        if s.startswith("<<", self.i):
            self.i += 2; out = []
            while self.peek(2) != ">>":
                out.append(self.value())
                if self.peek() == ",": self.eat(",")
            self.eat(">>"); return out
        if s[self.i] == "{":
            self.i += 1; out = []
            while self.peek() != "}":
                out.append(self.value())
                if self.peek() == ",": self.eat(",")
            self.eat("}"); return out
        if s[self.i] == "[":
            self.i += 1; d = {}
            while self.peek() != "]":
                self.ws(); m = re.compile(r"[A-Za-z_][A-Za-z0-9_]*").match(s, self.i)
                key = m.group(0); self.i = m.end(); self.eat("|->")
                d[key] = self.value()
                if self.peek() == ",": self.eat(",")
            self.eat("]"); return d
        if s[self.i] == "(":      # function literal (a :> b @@ c :> d)
            self.i += 1; d = {}
            while self.peek() != ")":
                k = self.value(); self.eat(":>"); d[k if not isinstance(k, list) else tuple(k)] = self.value()
                if self.peek(2) == "@@": self.eat("@@")
            self.eat(")"); return d
        if s[self.i] == '"':
            j = self.i + 1; buf = ""
            while s[j] != '"':
                if s[j] == "\\": j += 1
                buf += s[j]; j += 1
            self.i = j + 1; return buf
        m = re.compile(r"-?\d+").match(s, self.i)
        if m:
            self.i = m.end()
            if s.startswith("..", self.i):       # interval a..b
                self.i += 2; m2 = re.compile(r"-?\d+").match(s, self.i); self.i = m2.end()
                return list(range(int(m.group(0)), int(m2.group(0)) + 1))
            return int(m.group(0))
        if s.startswith("TRUE", self.i): self.i += 4; return True
        if s.startswith("FALSE", self.i): self.i += 5; return False
        m = re.compile(r"[A-Za-z_][A-Za-z0-9_]*").match(s, self.i)
        if m: self.i = m.end(); return m.group(0)
        raise ValueError("cannot parse TLA value at %d: %r" % (self.i, s[self.i:self.i + 40]))


def parse_tla_value(s):
    return _P(s).value()


def parse_tla_state(text):
    """'/\\ a = 1\n/\\ b = <<..>>' -> dict"""
    out = {}
    parts = re.split(r"(?m)^/\\ ", text)
    for p in parts:
        p = p.strip()
        if not p: continue
        m = re.match(r"([A-Za-z_][A-Za-z0-9_]*) = ", p)
        if not m: continue
        out[m.group(1)] = parse_tla_value(p[m.end():])
    return out


def read_sim_behaviours(directory, prefix):
    """behaviours written by `tlc -simulate file=<prefix>,...`: list of lists of (action, state dict)"""
    behs = []
    files = sorted(f for f in os.listdir(directory) if f.startswith(prefix + "_"))
    for fn in files:
        txt = open(os.path.join(directory, fn)).read()
        states = []
        for m in re.finditer(r"\\\* <(\w+) line[^\n]*\nSTATE_\d+ == \n(.*?)(?=\n\n|\Z)", txt, re.S):
            states.append((m.group(1), parse_tla_state(m.group(2))))
        if states: behs.append(states)
        os.unlink(os.path.join(directory, fn))
    return behs
