#!/usr/bin/env python3
"""One-off extractor for C09: builds tables/ie_fields.json from the layout annotations
   `// <Field> Row, sBit, len = [r0, r1], s , n` that precede every accessor in nasType/NAS_*.go.

   usage: extract_ie_fields.py <repo> <out.json>          extract (was run once, see below)
          extract_ie_fields.py --tla <in.json> <out.tla>   render the frozen JSON as spec/IeFieldTable.tla
          extract_ie_fields.py --registry <in.json> <out.go>  constructors of the listed types (plumbing for the driver)

   It was run ONCE at the pinned commit of /repo; the JSON is frozen in /verif/tables and is the
   oracle of C09 (together with spec/IeLayout.tla).  It is never run at check time: a later change
   of an annotation or of an accessor in the tree under test cannot change the oracle.
   Annotation semantics (TS 24.501 figure conventions): rows are octet indices of the element
   contents, bit 8 is the most significant bit of an octet; a field of n bits starts at bit s of
   row r0 and runs towards less significant bits, continuing at bit 8 of the next row; n = INF is
   "the rest of the contents from row r0"; `[]` marks the Iei / Len scalars kept outside the contents."""
import json, os, re, subprocess, sys

# Accessor pairs that carry no annotation in the source (5 of 742).  Their position is taken from TS 24.501 and the
# package's own convention for the same IE formats: type 4 IEs keep the IEI and length octets in the Iei / Len
# scalars (9.11.4.21, 9.11.3.59); a type 1 IE has its IEI in bits 8-5 of its only octet (9.11.3.36A).
SUPPLEMENT = {
    ("CongestionReattemptIndicator5GSM", "Iei"): ("", "", 8, "8"), ("CongestionReattemptIndicator5GSM", "Len"): ("", "", 8, "8"),
    ("EPSBearerContextStatus", "Iei"): ("", "", 8, "8"), ("EPSBearerContextStatus", "Len"): ("", "", 8, "8"),
    ("Non3GppNwPolicies", "Iei"): ("0", "0", 8, "4"),
}

ANN = re.compile(r"^//\s*(\w+)\s+Row, sBit, len = \[\s*(\d*)\s*,?\s*(\d*)\s*\]\s*,\s*(\d+)\s*,\s*(\w+)\s*$")
SEC = re.compile(r"^//\s*(\w+)\s+([0-9A-Za-z.]+)\s*$")
FUNC = re.compile(r"^func \(a \*(\w+)\) (Get|Set)(\w+)\((.*?)\)\s*(.*?)\s*\{\s*$")
STRUCT = re.compile(r"^type (\w+) struct \{\s*$")


def gotype(s):
    s = s.strip()
    if s.startswith("(") and s.endswith(")"):
        s = s[1:-1].strip()
    parts = s.split()
    return parts[-1] if parts else ""


def main(repo, out):
    d = os.path.join(repo, "nasType")
    types = {}
    for fn in sorted(os.listdir(d)):
        if not (fn.startswith("NAS_") and fn.endswith(".go")) or fn.endswith("_test.go"):
            continue
        lines = open(os.path.join(d, fn)).read().split("\n")
        i = 0
        while i < len(lines):
            ln = lines[i]
            m = STRUCT.match(ln)
            if m:
                t = types.setdefault(m.group(1), dict(type=m.group(1), file=fn, section="", struct={}, fields={}))
                j = i + 1
                while not lines[j].startswith("}"):
                    p = lines[j].split()
                    if len(p) >= 2:
                        t["struct"][p[0]] = p[1]
                    j += 1
                i = j
            m = FUNC.match(ln)
            if m:
                tn, gs, field, params, results = m.groups()
                ann, sec = None, ""
                j = i - 1
                while j >= 0 and lines[j].startswith("//"):
                    a = ANN.match(lines[j])
                    if a and ann is None:
                        ann = a
                    s = SEC.match(lines[j])
                    if s and s.group(1) == tn:
                        sec = s.group(2)
                    j -= 1
                supp = None
                if not ann and (tn, field) in SUPPLEMENT:
                    supp = SUPPLEMENT[(tn, field)]
                if ann or supp:
                    t = types.setdefault(tn, dict(type=tn, file=fn, section="", struct={}, fields={}))
                    if sec:
                        t["section"] = sec
                    f = t["fields"].setdefault(field, dict(name=field))
                    if ann:
                        aname, r0, r1, sb, n = ann.group(1), ann.group(2), ann.group(3), int(ann.group(4)), ann.group(5)
                    else:
                        aname, (r0, r1, sb, n) = field + " (supplement)", supp
                    rec = dict(annot=aname, r0=(int(r0) if r0 != "" else -1), r1=(int(r1) if r1 != "" else -1),
                               sbit=sb, n=(-1 if n == "INF" else int(n)))
                    key = "gann" if gs == "Get" else "sann"
                    f[key] = rec
                    if gs == "Get":
                        f["get"] = "Get" + field; f["gtype"] = gotype(results)
                    else:
                        f["set"] = "Set" + field; f["stype"] = gotype(params)
            i += 1
    outl, problems = [], []
    for tn in sorted(types):
        t = types[tn]
        st = t["struct"]
        if "Octet" in st:
            m = re.match(r"\[(\d+)\]uint8", st["Octet"])
            cont, size = ("array", int(m.group(1))) if m else ("octet", 1)
        elif "Buffer" in st:
            cont, size = "buffer", 0
        else:
            cont, size = "none", 0
        fl = []
        for fname in sorted(t["fields"]):
            f = t["fields"][fname]
            if "gann" not in f or "sann" not in f:
                problems.append("%s.%s: not a getter/setter pair" % (tn, fname)); continue
            if f["gann"] != f["sann"]:
                problems.append("%s.%s: getter and setter annotations differ %r %r" % (tn, fname, f["gann"], f["sann"])); continue
            a = f["gann"]
            gt = f["gtype"]
            if a["r0"] < 0:
                kind = "iei" if fname == "Iei" else ("len" if fname == "Len" else "scalar?")
            elif gt == "string":
                kind = "string"
            elif a["n"] < 0:
                kind = "slice"
            elif gt.startswith("["):
                kind = "array"
            else:
                kind = "bits"
            fl.append(dict(name=fname, annot=a["annot"], kind=kind, r0=a["r0"], r1=a["r1"], sbit=a["sbit"], n=a["n"],
                           get=f["get"], set=f["set"], gtype=gt, stype=f["stype"]))
        # consistency of the annotation itself (rows vs start bit and width)
        for f in fl:
            if f["kind"] == "bits":
                span = (8 - f["sbit"]) + f["n"]                     # bits from bit 8 of row r0 to the end of the field
                if f["sbit"] < 1 or f["sbit"] > 8 or f["n"] < 1 or (span + 7) // 8 != f["r1"] - f["r0"] + 1:
                    problems.append("%s.%s: rows/sBit/len inconsistent %r" % (tn, f["name"], f))
            if f["kind"] == "array" and (f["n"] != 8 * (f["r1"] - f["r0"] + 1) or f["sbit"] != 8 or f["gtype"] != "[%d]uint8" % (f["n"] // 8)):
                problems.append("%s.%s: array rows/len inconsistent %r" % (tn, f["name"], f))
        if cont == "buffer":      # smallest contents on which every accessor is defined
            size = max([f["r1"] + 1 for f in fl if f["kind"] in ("bits", "array")] + [f["r0"] for f in fl if f["kind"] == "slice"] + [0])
        outl.append(dict(type=tn, file=t["file"], section=t["section"], container=cont, size=size,
                         iei=st.get("Iei", ""), len=st.get("Len", ""), fields=fl))
    commit = subprocess.run(["git", "-C", repo, "rev-parse", "HEAD"], capture_output=True, text=True).stdout.strip()
    json.dump(dict(source_commit=commit, note="frozen oracle of C09; extracted once by tools/extract_ie_fields.py, never regenerated at check time",
                   problems=problems, types=outl), open(out, "w"), indent=0)
    print("types %d, pairs %d, problems %d" % (len(outl), sum(len(t["fields"]) for t in outl), len(problems)))
    for p in problems:
        print("  " + p)


def tla(inp, out):
    d = json.load(open(inp))
    kinds = dict(bits="bits", array="array", slice="slice", iei="iei", len="len", string="string")
    L = []
    for t in d["types"]:
        fs = []
        for f in t["fields"]:
            argmax = 255 if f["stype"] == "uint8" else (65535 if f["stype"] == "uint16" else 0)
            fs.append('[name |-> "%s", kind |-> "%s", r0 |-> %d, r1 |-> %d, sbit |-> %d, n |-> %d, argmax |-> %d]' % (
                f["name"], kinds[f["kind"]], f["r0"], f["r1"], f["sbit"], f["n"], argmax))
        L.append('  [name |-> "%s", cont |-> "%s", size |-> %d, hasIei |-> %s, lenBits |-> %d,\n   fields |-> <<\n     %s>>]' % (
            t["type"], t["container"], t["size"], "TRUE" if t["iei"] else "FALSE",
            {"": 0, "uint8": 8, "uint16": 16}[t["len"]], ",\n     ".join(fs)))
    txt = ("---------------------------- MODULE IeFieldTable ----------------------------\n"
           "(* GENERATED by tools/extract_ie_fields.py --tla from the frozen tables/ie_fields.json\n"
           "   (layout annotations of nasType/NAS_*.go at commit %s).  Do not edit; do not regenerate\n"
           "   from the tree under test.  %d element types, %d getter/setter pairs.\n"
           "   cont: octet = one octet, array = fixed [size] octets, buffer = variable contents (size = smallest\n"
           "   contents on which every accessor is defined).  Rows are 0-based octet indices, sbit 8 = most significant bit;\n"
           "   n = -1 is INF (rest of the contents); r0 = -1 marks the Iei / Len scalars kept outside the contents;\n"
           "   argmax = largest value of the setter's argument type (0 for octet-string arguments). *)\n"
           "EXTENDS Integers\n"
           "IeTypes == <<\n%s\n>>\n"
           "=============================================================================\n") % (
               d["source_commit"][:12], len(d["types"]), sum(len(t["fields"]) for t in d["types"]), ",\n".join(L))
    open(out, "w").write(txt)
    print("wrote", out)


def registry(inp, out):
    d = json.load(open(inp))
    L = ['// Code generated from tables/ie_fields.json (type names only) by tools/extract_ie_fields.py --registry. DO NOT EDIT.',
         '// Plumbing: a type missing from the tree under test makes the driver fail to build (exit 2), never a verdict.',
         'package main', '', 'import "github.com/free5gc/nas/nasType"', '', 'var Types = map[string]func() any{']
    for t in d["types"]:
        L.append('\t"%s": func() any { return &nasType.%s{} },' % (t["type"], t["type"]))
    L.append('}')
    open(out, "w").write("\n".join(L) + "\n")


if __name__ == "__main__":
    if sys.argv[1] == "--registry":
        registry(sys.argv[2], sys.argv[3])
    elif sys.argv[1] == "--tla":
        tla(sys.argv[2], sys.argv[3])
    else:
        main(sys.argv[1], sys.argv[2])
