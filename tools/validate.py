#!/opt/veriftools/pyvenv/bin/python
"""validate MANIFEST.json and every evidence file against the schemas (uses the tooling venv's jsonschema)"""
import json, sys, glob, jsonschema
ok = True
try:
    jsonschema.validate(json.load(open('/verif/MANIFEST.json')), json.load(open('/root/.vp/MANIFEST.schema.json'))); print('MANIFEST valid')
except Exception as e:
    ok = False; print('MANIFEST INVALID', e)
sch = json.load(open('/root/.vp/EVIDENCE.schema.json'))
for f in sorted(glob.glob('/verif/evidence/*.json')):
    try:
        jsonschema.validate(json.load(open(f)), sch); print(f, 'valid')
    except Exception as e:
        ok = False; print(f, 'INVALID', str(e)[:300])
sys.exit(0 if ok else 1)
