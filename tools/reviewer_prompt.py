#!/usr/bin/env python3
"""tools/reviewer_prompt.py <PROP> <round-tag>  - render tools/REVIEWER_PROMPT.txt for one property.

The reviewer gets ONLY the property text, a private worktree path and an output directory; the one thing taken
from /verif is a list of one-line themes of the changes earlier reviewers of this property already made
(so that the new changes differ).  Output: the prompt on stdout.
"""
import glob
import json
import os
import re
import sys

ROOT = os.path.dirname(os.path.dirname(os.path.abspath(__file__)))


def theme(notes):
    lines = [l.strip() for l in (notes or "").splitlines()]
    lines = [l for l in lines if l and not re.fullmatch(r"[=\-#~* ]+", l)]
    if not lines:
        return None
    t = lines[0]
    t = re.sub(r"^(#+\s*)", "", t)
    return t[:230]


def main():
    pid, tag = sys.argv[1], sys.argv[2]
    prop = None
    for l in open(os.path.join(ROOT, "properties.jsonl")):
        p = json.loads(l)
        if p["id"] == pid:
            prop = p
    themes = []
    for mf in sorted(glob.glob(os.path.join(ROOT, "seeded", pid + "-*", "meta.json"))):
        m = json.load(open(mf))
        t = theme(m.get("author_notes"))
        if t:
            themes.append(t)
    avoid = ""
    if themes:
        avoid = ("\n\nEarlier reviewers of this property already made the following changes; yours must differ in mechanism AND in "
                 "what they need in order to manifest (do not re-use these ideas, nor the general themes 'result buffer taken from a "
                 "sync.Pool', 'package-level cache/scratch', '16-bit length wrap', 'guard off by one at max+1'):\n"
                 + "\n".join("  - " + t for t in themes))
    txt = open(os.path.join(ROOT, "tools", "REVIEWER_PROMPT.txt")).read()
    q = prop.get("quantifier", {})
    stmt = prop["statement"] + "\n  Quantified over: " + q.get("text", "")
    txt = (txt.replace("@WT@", "/tmp/wt-%s-%s" % (pid, tag)).replace("@OUT@", "/tmp/mut-out/%s-%s" % (pid, tag))
           .replace("@ID@", pid).replace("@TITLE@", prop["title"]).replace("@STATEMENT@", stmt).replace("@AVOID@", avoid))
    sys.stdout.write(txt)


if __name__ == "__main__":
    main()
