#!/usr/bin/env python3
"""seeded/INDEX.md from seeded/*/meta.json"""
import json, os, glob
V = os.path.dirname(os.path.dirname(os.path.abspath(__file__)))
rows = []
for f in sorted(glob.glob(os.path.join(V, "seeded", "*", "meta.json"))):
    m = json.load(open(f))
    first = (m.get("author_notes", "").strip().splitlines() or [""])
    what = " ".join(x.strip() for x in first[:3])[:230].replace("|", "/")
    det = ", ".join("%s:%s" % (k, "DETECTED" if v["detected"] else ("exit %d" % v["exit"])) for k, v in m.get("checks", {}).items())
    hist = "; earlier: " + " / ".join(", ".join("%s:%s" % (k, "detected" if v["detected"] else "missed") for k, v in h["checks"].items()) for h in m.get("history", []) if h.get("checks")) if m.get("history") else ""
    rows.append("| %s | %s | %s | %s | %s%s |" % (m["name"], m["property"], "yes" if m["confirmed"] else "NO", what, det, hist))
open(os.path.join(V, "seeded", "INDEX.md"), "w").write(
    "# Seeded changes (independent reviewers) and the checks run against them\n\n| name | property | confirmed | change (author's note) | checks (quick tier) |\n|---|---|---|---|---|\n" + "\n".join(rows) + "\n")
print(len(rows), "seeded changes")
