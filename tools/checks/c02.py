#!/usr/bin/env python3
"""C02 - encoding then decoding a well-formed message returns the same message.
Stage A/B: TLC checks Decode(Encode(m)) = m (invariant RoundTrip of MC_Codec) for every message value the generative
grammar describes, and prints those values.  Python composes further well-formed values from the TLC-emitted slot values
(all subsets of optional slots for messages with <= 6 optionals in thorough, singletons/pairs/full/random subsets otherwise,
adversarial content fills, one true-maximum length per variable slot).  Stage C: each value is built reflectively as a real
struct, encoded by the real encoder (PlainNasEncode and Encode<Msg>), decoded by the real decoder; TLC checks
WellFormed(m), encode ok, decode ok, decoded = m field for field, and the spec's own round trip on the same value.
Added after seeded rounds 3-5: header octets that routing ignores take every low-nibble value and the extremes; pairs of large elements that together exceed 64 KiB; structured contents (code + inner length) in the fills."""
import itertools, json, os, sys
sys.path.insert(0, os.path.dirname(os.path.abspath(__file__)))
from codec_common import *

META = dict(
    property_id="C02", engine="tlc-codec",
    technique="TLC model-checks Decode(Encode(m))=m over the generative grammar and emits the message values; values (plus composed subsets, adversarial fills, true-maximum lengths) are built, encoded and decoded by the real code and trace-validated by TLC",
    level=("model_checking", "Round trip is an invariant of the table-driven codec checked by TLC on every message value of the bounded generator (all 45 messages, every slot at every legal length class, pairs in thorough); the same values and compositions of them are run through the real encoder and decoder and judged by TLC field for field.", "7/C02"),
    level_note="Trusted: TLC, Go reflection (builder/projector), tables/messages.json. Bounded: lengths from {min, min+1, mid, max-1, max} capped at 300 plus the true maximum for one slot at a time; content octets are patterns and adversarial constants, not all values; subsets of optional elements exhaustive only for small messages.",
)


def run(c):
    thorough = c.tier == "thorough"
    rng = c.rng
    gen = mc_codec(c, 2 if thorough else 1, shards=9 if thorough else 3, liveness=False, deep=() if thorough else deep_messages(c, 8))
    drv = c.build_driver("codec")
    wants = [(g["m"], g["w"]) for g in gen if g["g"]]
    bym = {}
    for m, w in wants: bym.setdefault(m, []).append(w)
    cases = []

    def add(m, w, via=None):
        vias = ["body"] if TBL[m]["family"] == "ENV" else ([via] if via else ["plain", "body"])
        for v in vias:
            cases.append(dict(k="rt", m=m, mand=w["mand"], opt=w["opt"], via=v))
        c.count_distinct((m, json.dumps(w, sort_keys=True)))
    use = wants if not thorough else rng.sample(wants, min(len(wants), 25000))
    for m, w in use: add(m, w)
    for m, ws in bym.items():
        t = TBL[m]; nopt = sum(1 for s in t["slots"] if not s["mand"])
        # one representative per optional slot (the mid-length one)
        per_slot = {}
        for w in ws:
            pres = [k for k, s in enumerate(w["opt"]) if s["p"]]
            if len(pres) == 1: per_slot.setdefault(pres[0], []).append(w)
        reps = {k: v[len(v) // 2] for k, v in per_slot.items()}
        add(m, merge_wants(m, list(reps.values()) or ws[:1]))                       # full set
        # header octets that routing does not interpret (security header type / spare half octet; PDU session identity, PTI;
        # the envelope's security header type): every low-nibble value and the extremes, on the full set and on the bare message
        fullw0 = merge_wants(m, list(reps.values()) or ws[:1])
        hv = list(range(1, 17)) + [0x45, 0x7F, 0x80, 0xF7, 0xFE, 0xFF]
        for x in hv:
            for w0 in ((fullw0, ws[0]) if (thorough or x < 17) else (fullw0,)):
                w = json.loads(json.dumps(w0))
                w["mand"][1]["v"] = [x]
                if t["family"] == "GSM": w["mand"][2]["v"] = [(x * 37 + 5) % 256]
                add(m, w)
        if t["family"] == "GSM":
            for x in hv[::3]:
                w = json.loads(json.dumps(ws[0])); w["mand"][2]["v"] = [x]; add(m, w)
        ks = sorted(reps)
        if nopt <= (10 if thorough else 5):                                          # all subsets
            for r in range(2, len(ks) + 1):
                for sub in itertools.combinations(ks, r):
                    add(m, merge_wants(m, [reps[k] for k in sub]), via="body")
        else:
            for a, b in itertools.combinations(ks, 2):                               # all pairs
                if thorough or rng.random() < 0.25:
                    add(m, merge_wants(m, [reps[a], reps[b]]), via="body")
            for _ in range(60 if thorough else 8):                                   # random subsets, random length classes
                sub = rng.sample(ks, rng.randint(1, len(ks)))
                add(m, merge_wants(m, [rng.choice(per_slot[k]) for k in sub]), via="plain" if t["family"] != "ENV" else "body")
        # every value of the low nibble of every half-octet element, inside the full set (value/identifier collisions)
        optslots0 = [s_ for s_ in t["slots"] if not s_["mand"]]
        if any(s_["half"] for s_ in optslots0):
            fullw = merge_wants(m, list(reps.values()) or ws[:1])
            for v in range(16):
                w = json.loads(json.dumps(fullw))
                for k, s_ in enumerate(optslots0):
                    if s_["half"]: w["opt"][k] = dict(p=True, iei=0, len=0, v=[s_["iei"] * 16 + v])
                add(m, w, via="body" if v % 2 else None)
        # adversarial fills of the full set and of a few singles
        for w in [merge_wants(m, list(reps.values()) or ws[:1])] + rng.sample(ws, min(len(ws), 6 if thorough else 2)):
            for fv in fill_variants(m, w): add(m, fv, via="body")
        # true maximum length, one variable-length slot at a time
        optslots = [s for s in t["slots"] if not s["mand"]]
        mand = [s for s in t["slots"] if s["mand"]]
        base = ws[0]
        for k, s in enumerate(optslots):
            if s["lsz"] > 0 and s["data"] == "buf" and s["max"] > 300 and (thorough or rng.random() < 0.2):
                w = json.loads(json.dumps(base))
                w["opt"][k] = dict(p=True, iei=s["iei"], len=s["max"], v=[(i * 7 + 3) % 256 for i in range(s["max"])])
                add(m, w, via="body")
        for k, s in enumerate(mand):
            if s["lsz"] > 0 and s["data"] == "buf" and s["max"] > 300 and (thorough or rng.random() < 0.3):
                w = json.loads(json.dumps(base))
                w["mand"][k] = dict(p=True, iei=0, len=s["max"], v=[(i * 5 + 1) % 256 for i in range(s["max"])])
                add(m, w, via="body")
    # length sweep: the first variable-length element of a message at every length 1..300 (quick: every third, offset by the
    # seed), with the elements behind it present - what the encoder emits for a LATER element does not depend on where in its
    # output buffer (at which capacity boundary of a growing buffer) that element happens to start
    for m, ws in bym.items():
        t = TBL[m]
        mand = [s_ for s_ in t["slots"] if s_["mand"]]; optslots = [s_ for s_ in t["slots"] if not s_["mand"]]
        per_slot = {}
        for w in ws:
            pres = [k for k, s_ in enumerate(w["opt"]) if s_["p"]]
            if len(pres) == 1: per_slot.setdefault(pres[0], w)
        tail = merge_wants(m, list(per_slot.values())) if per_slot else json.loads(json.dumps(ws[0]))
        var = next(((("mand", k) for k, s_ in enumerate(mand) if s_["lsz"] > 0 and s_["data"] == "buf" and s_["max"] >= 300)), None) or \
              next(((("opt", k) for k, s_ in enumerate(optslots) if s_["lsz"] > 0 and s_["data"] == "buf" and s_["max"] >= 300 and k < len(optslots) - 1)), None)
        if var is None: continue
        kind, k = var
        sl = (mand if kind == "mand" else optslots)[k]
        for n in range(max(1, sl["min"]) + (0 if thorough else c.seed % 3), 301, 1 if thorough else 3):
            w = json.loads(json.dumps(tail))
            w[kind][k] = dict(p=True, iei=(0 if kind == "mand" else sl["iei"]), len=n, v=[(i * 11 + n) % 256 for i in range(n)])
            add(m, w, via="plain" if t["family"] != "ENV" else "body")
    # two large elements in one message, together beyond 64 KiB: a 16-bit "octets left" or total-length computation wraps
    # only then (one element at its true maximum leaves every remainder below 2^16)
    for m, ws in sorted(bym.items()):
        t = TBL[m]
        if t["family"] == "ENV": continue
        slots = [("mand", k, s_) for k, s_ in enumerate(x for x in t["slots"] if x["mand"])] + [("opt", k, s_) for k, s_ in enumerate(x for x in t["slots"] if not x["mand"])]
        big = [x for x in slots if x[2]["lsz"] == 2 and x[2]["data"] == "buf" and x[2]["max"] >= 65535]
        var = [x for x in slots if x[2]["lsz"] > 0 and x[2]["data"] == "buf" and x[2]["max"] >= 100]
        combos = [(a, b, la, lb) for a in big for b in var if a is not b for la in (65400, 65535) for lb in sorted({min(max(b[2]["min"], 133), b[2]["max"]), min(max(b[2]["min"], 1500), b[2]["max"])})]
        if not thorough: combos = rng.sample(combos, min(len(combos), 4))
        for a, b, la, lb in combos:
            w = json.loads(json.dumps(ws[0]))
            for (kind, k, s_), l in ((a, la), (b, lb)):
                w[kind][k] = dict(p=True, iei=(s_["iei"] if kind == "opt" else 0), len=l, v=[(i * 11 + l) % 256 for i in range(l)])
            add(m, w, via="plain" if rng.random() < 0.5 else "body")
    events, hang = run_codec(c, drv, cases)
    if hang is not None:
        c.report("RoundTrip", "hang", "case %d did not return within 20 s" % hang, cases[hang]); events = events[:hang]
    c.cov["evaluations"] = len(events)
    mism = c.validate("Trace_C02", events, shards=14)

    def classify(idx, t):
        e = json.loads(events[idx])
        if t[2] == "case-not-wellformed":
            raise Infra("generator produced a message value that is not well-formed (case %d, %s)" % (idx, e["m"]))
        if t[2] == "spec-roundtrip-fails":
            raise Infra("specification round trip fails on case %d (%s): spec-level problem" % (idx, e["m"]))
        return ("RoundTrip", t[2], "%s via %s: %s" % (e["m"], e["via"], t[2]),
                dict(case=cases[idx], observed={k: e[k] for k in ("encok", "decok", "panic", "pfn", "bytes", "d")}, how="harness codec run; validate with Trace_C02"))

    def confirm(idx, t):
        return confirm_by_tlc(c, drv, cases[idx], "Trace_C02", t[2], context=cases[max(0, idx - 2):idx])
    c.triage(mism, classify, confirm)
    def _c(e):
        e["bytes"] = e["bytes"][:-1] if e["bytes"] else [0]
        e["d"]["mand"][0]["v"] = [(e["d"]["mand"][0]["v"][0] + 1) % 256]
        return e
    binding_selftest(c, "Trace_C02", events, lambda x: '"decok":true' in x, _c, "one decoded mandatory octet changed")
    c.cov["rule"] = "cases = build/encode/decode of one message value on the real code; distinct non-trivial = distinct (message, slot values) tuples; every case has all mandatory slots and usually >= 1 optional element"
    c.cov["messages"] = len(bym)
    for i in (0, len(events) // 2, len(events) - 1):
        c.sample(events[i], maxlen=500)
    c.assumptions += ["well-formed = WellFormed(M, m) of NasCodec.tla, re-checked by TLC on every case", "content octets are patterns/adversarial constants"]


if __name__ == "__main__":
    main("C02", run)
