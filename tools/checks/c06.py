#!/usr/bin/env python3
"""C06 - NEA1/NEA2/NEA3 ciphering equals the standard 128-EEA1/2/3 functions.
Stage A: TLC checks the TLA+ reference (Snow3G, Zuc, Aes128, Eea) against every published vector and checks table
         and function laws exhaustively on small domains (independent of the Go code).
Stage B: TLC enumerates the parameter lattice (bearer x direction grid, every bit length, key/COUNT patterns incl.
         walking bits); the driver replays it into security.NEA1/2/3, security.NASEncrypt, snow3g.GetKeyStream,
         zuc.Zuc and records seeded random calls.
Stage C: TLC recomputes every output with the reference and compares the first `length` bits.
Added after seeded rounds 3-4: payloads of 8193 / 65 537 octets and lengths 2^k, 2^k-1 in the quick lattice; the frozen corner points of the ZUC arithmetic (tables/vectors/zuc_corners.json, re-established by TLC in stage A) as generated cases; recorded calls run with the library's logger at trace level."""
import os, sys
sys.path.insert(0, os.path.dirname(os.path.abspath(__file__)))
from seclib import *

META = dict(
    property_id="C06", engine="tlc-crypto",
    technique="TLA+ reference of SNOW 3G / ZUC / AES-CTR and 128-EEA1/2/3 (S-boxes derived algebraically) validated by TLC on the published vectors and on function laws; TLC-generated parameter lattice and seeded random calls run on the real functions; every observed output recomputed and compared by TLC trace validation",
    level=("model_checking", "The oracle is an executable TLA+ specification written from the standards; TLC validates it on every published test set and checks involution / prefix / independence laws for every bit length of a dense range; TLC enumerates the bearer x direction grid, every length residue and tail shape and walking key/COUNT bits, and decides, for every real call, whether the first LENGTH output bits equal the specification. Conformance on the explored lattice, not a proof for all 2^128 keys.", "7/C06"),
    level_note="Trusted: TLC, the Go runtime, the published vectors. Domain: bearer 0..31, direction 0..1, algorithm identity 1..3, input of exactly ceil(LENGTH/8) octets; pad bits of a partial last octet are outside the statement and masked on both sides.",
)


def run(c):
    thorough = c.tier == "thorough"
    sd = c.spec_dir("specA", vector_files())
    if thorough:
        set_constants(sd, "MC_C06", dict(MaxBits=200))
    c.stage_a(sd, "MC_C06", "MC_C06", timeout=2400)
    subst = None
    if thorough:
        subst = dict(MaxBits=2100, MaxBytes=300, BigBits="{2047, 2048, 2049, 4095, 4096, 4097, 16384, 65535, 131072}", BigBytes="{511, 512, 513, 1024, 4096}",
                     GridBits="{0, 1, 7, 8, 31, 32, 33, 40, 63, 64, 65, 67, 128, 200}", Reps=4, LongOctets="{4097, 4112, 8193, 65535, 65536, 65537, 131079}", SeqGroups=12)
    cases, events = run_value_conformance(c, "cipher", "Trace_C06", "MC_C06_gen", "MC_C06_gen", subst, shards=14 if thorough else 12)
    c.cov["distinct_nontrivial"] = len(c._distinct)
    c.cov["rule"] = ("cases = calls of the real ciphering entry points; distinct non-trivial = distinct (operation, algorithm, key, COUNT, bearer, "
                     "direction, bit length, input) tuples with a non-empty input, each recomputed by TLC")
    c.cov["exhaustive"] = False
    c.assumptions += ["input of exactly ceil(LENGTH/8) octets; output compared on the first LENGTH bits only",
                      "bearer 0..31, direction 0..1, algorithm identity 1..3 (other values belong to C08)"]


if __name__ == "__main__":
    main("C06", run)
