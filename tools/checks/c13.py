#!/usr/bin/env python3
"""C13 - slice and area lists encode to the specified layout and decode back.
Stage A: TLC checks AreaLists.tla (decoders and encoders written independently from TS 24.501 9.11.2.8 / 9.11.3.37 /
         9.11.3.46 / 9.11.3.9 / 9.11.3.49 / 9.11.3.30 / 9.11.3.29): decode o encode = id for every legal encoding
         (TAI list types 00 / 01 / 10, partial lists), malformed lengths / truncations / over-long lists rejected,
         on enumerated domains (all SST x S-NSSAI forms, all short lists, 1..16 TAIs over 1..3 PLMNs, DNN 1..100).
Stage B: TLC generates the cases (model values for the library's encoders, specification-encoded octets for its
         decoders, malformed NSSAIs); the driver replays them and records seeded random values.
Stage C: TLC (Trace_C13) judges every call: SpecDecode(LibEncode(x)) = x, LibDecode(SpecEncode(x)) = x,
         malformed NSSAI lengths => error.  The library's choice among legal encodings is never prescribed.
Added after seeded round 5: service-area restrictions with TAC-less areas in front of, between and behind the others."""
import json, os, sys
sys.path.insert(0, os.path.dirname(os.path.dirname(os.path.abspath(__file__))))
from vlib import *

META = dict(
    property_id="C13", engine="tlc-arealists",
    technique="TLA+ decoders and encoders of the list layouts (AreaLists.tla) model-checked as mutual inverses for every legal encoding on enumerated domains; TLC-generated values, specification-encoded and malformed octet strings and seeded random values replayed on the real converters; every recorded call validated by TLC with the specification's decoder / encoder",
    level=("model_checking", "TLC proves the specification's decoder inverts every legal encoding (and rejects malformed ones) on the enumerated domains; every real call is judged by TLC: the specification's decoder must recover the input of each library encoder from the octets it produced (any legal TAI-list type accepted), the library decoders must return the value the specification decodes, and malformed NSSAI lengths must give an error.", "7/C13"),
    level_note="Trusted: TLC, the Go runtime, the reading of the TS 24.501 layouts summarised in DESIGN.md Appendix A. Domain: SST 0..255, SD absent or 6 hex digits, 1..16 TAIs / TACs, DNN of 1..100 ASCII characters taken as the octets of the DNN value; other inputs give no verdict (counted). A possibly non-terminating LadnToModels input is run in a self-limiting child process.",
)

INPUT_KEYS = ("w", "sn", "sn2", "tai", "areas", "k", "dnn")
W = int(os.environ.get("VERIF_WORKERS", "0")) or None
SH = int(os.environ.get("VERIF_SHARDS", "0")) or 8


def text(cps): return "".join(chr(x) for x in cps)


def describe(e):
    i = []
    if e.get("w"): i.append("octets=" + bytes(e["w"]).hex())
    if e.get("sn"): i.append("snssai=" + repr([(s["sst"], text(s["sd"])) for s in e["sn"]]))
    if e.get("sn2"): i.append("inTa=" + repr([(s["sst"], text(s["sd"])) for s in e["sn2"]]))
    if e.get("tai"): i.append("tai=" + repr([(text(t["mcc"]), text(t["mnc"]), text(t["tac"])) for t in e["tai"]]))
    if e.get("areas"): i.append("areas=" + repr([[text(t) for t in a] for a in e["areas"]]))
    if e.get("k"): i.append("k=%s" % e["k"])
    if e.get("dnn"): i.append("dnn=" + repr(text(e["dnn"])))
    o = []
    if e.get("hang"): o.append("NO RESULT (hang / memory limit)")
    if e.get("panic"): o.append("PANIC in " + e.get("pfn", ""))
    if e.get("err"): o.append("error")
    if e.get("ob"): o.append("octets=" + bytes(e["ob"]).hex())
    if e.get("osn"): o.append("snssai=" + repr([(m["sst"], text(m["sd"]), m["h"], m["hsst"], text(m["hsd"])) for m in e["osn"]]))
    if e.get("odnn"): o.append("dnn=" + repr([text(d) for d in e["odnn"]]))
    if e.get("on"): o.append("n=%s" % e["on"])
    if "hob" in e and (e["hob"], e["hosn"], e["hodnn"], e["hon"]) != (e["ob"], e["osn"], e["odnn"], e["on"]):
        o.append("BUT READ AGAIN after %s later calls: octets=%s snssai=%r dnn=%r n=%s" % (e.get("hc"), bytes(e["hob"]).hex(), e["hosn"], [text(d) for d in e["hodnn"]], e["hon"]))
    s = "%s(%s) -> %s" % (e["op"], ", ".join(i), ", ".join(o) or "nothing")
    return s if len(s) < 700 else s[:700] + "..."


def run(c):
    thorough = c.tier == "thorough"
    sd = c.spec_dir("specA")

    def patch(name, pairs):
        p = os.path.join(sd, name); s = open(p).read()
        for a, b in pairs:
            if a not in s: raise Infra("cannot patch %s: %r not found" % (name, a))
            s = s.replace(a, b)
        open(p, "w").write(s)
    if thorough:
        patch("MC_C13.cfg", [("NssaiDepth = 3", "NssaiDepth = 5"), ("TaiDepth = 3", "TaiDepth = 4")])
        patch("MC_C13_gen.cfg", [("Big = FALSE", "Big = TRUE")])
    c.stage_a(sd, "MC_C13", "MC_C13", workers=W, timeout=2400)
    resG = c.tlc(sd, "MC_C13_gen", "MC_C13_gen", workers=min(W or 4, 4), timeout=900)
    if not resG.clean:
        raise Infra("case generator failed:\n" + resG.out[-2000:])
    c.cov["states"] += resG.distinct; c.cov["transitions"] += resG.generated
    cases = [json.loads(json.loads(ln)) for ln in resG.printed if ln.startswith('"{')]
    # service area restrictions in which some areas carry no TAC (an area is a TAC list OR an area code): the TAC-less area in
    # front of, between and behind the others - the encoding is that of the remaining TACs
    extra = []
    for k in cases:
        if k["fam"] == "sal" and len(k["areas"]) >= 1 and c.rng.random() < (1.0 if thorough else 0.4):
            a = k["areas"]
            for pos in sorted({0, len(a) // 2, len(a)}):
                extra.append(dict(k, areas=a[:pos] + [[]] + a[pos:]))
            if len(a) >= 2: extra.append(dict(k, areas=[[]] + a[:1] + [[]] + a[1:]))
    cases += extra
    fams = {}
    for k in cases: fams[k["fam"]] = fams.get(k["fam"], 0) + 1
    if len(cases) < 3000 or len(fams) < 9:
        raise Infra("case generator produced too few cases: %r" % fams)
    c.cov["generated_cases"] = fams
    drv = c.build_driver("arealists")
    cp = os.path.join(c.scratch, "cases.json"); json.dump(cases, open(cp, "w"))
    out1 = os.path.join(c.scratch, "replay.ndjson"); out2 = os.path.join(c.scratch, "record.ndjson")
    c.run_driver(drv, ["replay", cp, out1])
    c.run_driver(drv, ["record", out2])
    ev1 = read_ndjson(out1)
    events = ev1 + read_ndjson(out2) + c.second_pass(drv, ["replay", cp, os.path.join(c.scratch, "replayT.ndjson")], os.path.join(c.scratch, "replayT.ndjson"), ev1)
    mism = c.validate("Trace_C13", events, shards=SH)
    stats = dict(judged=0, skipped=0)
    notes = set()

    def ev_of(idx): return json.loads(events[idx])

    def validate_small(lines):
        r = c.validate("Trace_C13", lines, shards=1)
        c.cov["traces_validated_against_impl"] -= len(lines)
        return [(i, t) for i, t in r if t[2] not in ("STATS", "NOTE")]

    def classify(idx, t):
        op, cls = t[2], t[3]
        if op == "STATS":
            stats["judged"] += int(t[3]); stats["skipped"] += int(t[4]); return None
        if op == "NOTE":
            if cls not in notes:
                notes.add(cls); c.note("%s (information only, e.g. %s)" % (cls, describe(ev_of(idx))))
            return None
        e = ev_of(idx)
        obj = dict(event=e, how="harness/cmd/arealists redo <event.json> <out.ndjson>, then validate out.ndjson with spec/trace/Trace_C13.tla")
        if cls == "result-changed-after-return":
            obj["then_call"] = partner(idx)
            obj["how"] = "harness/cmd/arealists redo <file holding the JSON array [event] + then_call> <out.ndjson>; validate out.ndjson with spec/trace/Trace_C13.tla (first line)"
        return (op, cls, describe(e) + " does not satisfy AreaLists.tla (%s)" % cls, obj)

    def partner(idx):
        """a later (else earlier) event of the same function with different arguments: run after the repeated call while its result is held"""
        e = ev_of(idx)
        def inp(x): return {k: v for k, v in x.items() if k in INPUT_KEYS}
        for j in list(range(idx + 1, min(idx + 400, len(events)))) + list(range(idx - 1, max(idx - 400, -1), -1)):
            if ('"op":"%s"' % e["op"]) in events[j][:60]:
                o = json.loads(events[j])
                if inp(o) != inp(e) and not o.get("hang"): return [o]
        return []

    def confirm(idx, t):
        e = ev_of(idx)
        pe = os.path.join(c.scratch, "one.json"); json.dump([e] + (partner(idx) if e["op"] != "Digest" else []), open(pe, "w"))
        po = os.path.join(c.scratch, "one.ndjson")
        c.run_driver(drv, ["redo", pe, po])
        again = validate_small(read_ndjson(po))
        return any(i == 0 and tt[3] == t[3] for i, tt in again)
    seen = c.triage(mism, classify, confirm, per_class=2, total=16)
    # the hang of LadnToModels, observed in the child process (information: which inputs did not return)
    hangs = [json.loads(x) for x in events if '"hang":true' in x]
    c.cov["no_result_inputs"] = [bytes(h["w"]).hex() for h in hangs][:5]
    # ---- binding self-test: corrupt one logged output octet of an accepted event, TLC must reject exactly that event
    acc = [i for i, x in enumerate(events) if '"op":"TaiListToNas"' in x[:40]]
    bad = {i for i, _ in mism}
    acc = [i for i in acc if i not in bad]
    if acc:
        i = acc[len(acc) // 2]; e = ev_of(i); e["ob"][-1] ^= 1
        r = validate_small([events[i - 1], json.dumps(e), events[i + 1]] if 0 < i < len(events) - 1 else [json.dumps(e)])
        hit = [tt for k, tt in r if tt[2] == "TaiListToNas"]
        if not hit:
            raise Infra("binding self-test failed: a corrupted TAC octet in a recorded TaiListToNas event was accepted by Trace_C13")
        c.cov["binding_selftest"] = "flipped the last bit of the produced octets of recorded event %d (TaiListToNas): TLC reports %s" % (i, hit[0][3])
    # ---- evidence
    for ln in events:
        c.count_distinct(ln[:ln.index('"ob"')])
    c.cov["evaluations"] = len(events)
    c.cov["judged_events"] = stats["judged"]
    c.cov["skipped_out_of_domain"] = stats["skipped"]
    nm = sum(seen.values())
    if stats["judged"] + nm < 0.85 * len(events):
        raise Infra("too many events outside the domain of the property: ok %d, mismatching %d, skipped %d of %d" % (stats["judged"], nm, stats["skipped"], len(events)))
    c.cov["distinct_nontrivial"] = max(0, len(c._distinct) - stats["skipped"])
    c._distinct = set()
    c.cov["rule"] = ("cases = real calls of the converters; distinct non-trivial = distinct (operation, input) pairs minus the %d events whose input TLC found outside "
                     "the property's domain (e.g. S-NSSAIs with mapped parts given to SnssaiToModels, malformed LADN indications)" % stats["skipped"])
    c.cov["exhaustive"] = False
    for i in (0, len(events) // 3, len(events) // 2, len(events) - 1):
        c.sample(events[i])
    c.sample(cases[len(cases) // 2])
    c.assumptions += ["domain: SST 0..255, SD absent or 6 hex digits, 1..16 TAIs per list, TAC 6 hex digits, DNN 1..100 ASCII characters used as the octets of the DNN value (LadnToNas does not apply the label coding of TS 23.003)",
                      "TAI list / service area list: any legal list type and split into partial lists is accepted from the library",
                      "LadnToModels inputs containing a zero octet run in a child process that stops itself after 500 ms / 600 MB; no result = hang"]


if __name__ == "__main__":
    main("C13", run)
