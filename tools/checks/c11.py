#!/usr/bin/env python3
"""C11 - NAS COUNT behaves as a 24-bit overflow||sequence-number counter.
Stage A: TLC checks the laws of spec/NasCount.tla (value = overflow*256+sqn < 2^24; AddOne is the
         successor modulo 2^24 with the carry/wrap spelled out digit by digit; SetSQN keeps the
         overflow part, SetOverflow keeps the sequence number; Set = both, in either order) on the
         boundary window (quick) and on all 2^24 counter values (thorough).
Stage B: (ii) every edge (source value, operation, arguments) of the window model, printed by TLC,
         and (i) TLC -simulate random walks are executed on a real security.Count;
         (iii) the driver records seeded histories incl. all 65 536 carries and the wrap, from states
         reached through Set() and through the verif raw hook;
         (iv) digest conformance (DESIGN 4.3): the function table of every operation over whole
         65 536-value chunks (all 256 chunks = all 2^24 states in thorough) folded by the driver into
         weighted sums modulo three primes, the same fold of the specification operator by TLC.
Stage C: all events validated by TLC against spec/trace/Trace_C11.tla, which tracks the counter value.
Events are single public calls; the driver performs no reads of its own: which reads (Get/SQN/Overflow) happen,
when and in which order is part of every history (TLC's behaviours contain reads as steps, the harness appends
read patterns in varying orders, some histories read everything after every step, others run 2..300 increments
across a boundary before the first read), and every returned value is judged against the tracked value.
Verdict: only values returned by Get/SQN/Overflow; the raw word is information.
Model side also unbounded: Apalache shows the counter laws inductive for all argument values (spec/NasCountInd.tla) and refutes a wrong modulus."""
import time, json, os, sys
sys.path.insert(0, os.path.dirname(os.path.dirname(os.path.abspath(__file__))))
from vlib import *

META = dict(
    property_id="C11", engine="tlc-nascount",
    technique="TLC exhaustive model of the 24-bit counter (all 2^24 values in thorough), the same laws shown inductive for unbounded arguments by Apalache (NasCountInd, with a refuted negative control); every window-model edge and TLC-simulated walks replayed on the real Count; recorded histories (every carry, the wrap) trace-validated by TLC; per-operation function tables over the whole state space compared by digest (driver folds the implementation, TLC folds the specification)",
    level=("model_checking", "The counter is a one-variable state machine: TLC checks the invariant and the action properties of the specification from every one of the 2^24 values (thorough; boundary window in quick); the real Count is bound to it by executing every edge of the window model, TLC-chosen walks and recorded histories whose every step is judged by TLC tracking the value, and by comparing the implementation's complete function table per operation (all 2^24 states in thorough) with the specification's through weighted sums modulo three primes computed independently by the driver and by TLC.", "7/C11"),
    level_note="Trusted: TLC, the Go runtime, the verif raw hook (used to place the counter; verdicts use Get/SQN/Overflow only). Digest equality leaves a collision probability < 1e-13 per chunk. Setter arguments in the digests are boundary values; arbitrary arguments are covered by the seeded histories only.",
)

SQN_ARGS = [0, 1, 127, 128, 254, 255]
OVF_ARGS = [0, 1, 255, 256, 32767, 32768, 65534, 65535]
SET_ARGS = [(0, 0), (255, 1), (32768, 128), (65535, 255)]
READS = ("Get", "SQN", "Overflow")


# read patterns appended after a write (the same list as in the driver); the first eight determine the whole value
PATTERNS = [["SQN", "Overflow", "Get", "SQN", "Overflow"], ["Get"], ["SQN", "Overflow"], ["Overflow", "SQN"], ["Get", "SQN", "Overflow"],
            ["SQN", "Get", "SQN", "Overflow"], ["Overflow", "Get", "Overflow", "SQN"], ["Get", "Get", "Overflow", "SQN"], ["SQN"], ["Overflow"], []]
FULL = 8
M24 = 1 << 24


def rd(k):
    return [dict(op=r, a=0, b=0) for r in PATTERNS[k]]


def expand(op, a, b):
    """a generator step as public calls: AddRun(k) = k AddOne in a row"""
    return [dict(op="AddOne", a=0, b=0)] * a if op == "AddRun" else [dict(op=op, a=a, b=b)]


def model(op, a, b, x):
    """python mirror of NasCount!Apply - used ONLY to count distinct (value, operation) pairs for the coverage figures"""
    if x is None and op != "Set": return None
    if op == "Set": return a * 256 + b
    if op == "SetSQN": return (x // 256) * 256 + a
    if op == "SetOverflow": return a * 256 + x % 256
    if op == "AddOne": return (x + 1) % M24
    return x


def digest_ops():
    ops = [dict(op="AddOne", a=0, b=0)] + [dict(op="AddRun", a=k, b=0) for k in (2, 257)]
    ops += [dict(op="SetSQN", a=s, b=0) for s in SQN_ARGS]
    ops += [dict(op="SetOverflow", a=o, b=0) for o in OVF_ARGS]
    ops += [dict(op="Set", a=o, b=s) for o, s in SET_ARGS]
    ops += [dict(op=r, a=0, b=0) for r in READS]
    return ops


def hist_of(evs):
    """events (dicts) of one history (after its TraceReset) -> Hist json for `nascount replay`"""
    h = None
    for e in evs:
        if e["op"] == "TraceReset":
            continue
        if h is None:
            if e["op"] == "New": h = dict(via="new", v=0, ops=[])
            elif e["op"] == "SetRaw": h = dict(via="raw", v=e["a"], ops=[])
            elif e["op"] == "Set": h = dict(via="set", v=e["a"] * 256 + e["b"], ops=[])
            else: raise Infra("history does not start with New/SetRaw/Set: %r" % e)
        else:
            h["ops"].append(dict(op=e["op"], a=e["a"], b=e["b"]))
    return h


def apalache_inductive(c, sd):
    """Model side, unbounded in the arguments: Apalache (symbolic, SMT) checks that the counter laws are INDUCTIVE for every
    argument value of every operation - IndInv (0 <= c < 2^24 and c = overflow*256 + sqn with both digits in range) holds after any
    step from any state satisfying it, and StepLaws (the property's action clauses) holds on every such step.  TLC's exhaustive
    runs cover all 2^24 states with argument subsets; this covers all arguments.  A deliberately wrong modulus must be refuted
    (negative control).  Infrastructure only: a failure here is a problem of the specification, never a verdict about the code."""
    import shutil as _sh, subprocess as _sp
    if not _sh.which("apalache-mc"):
        c.note("apalache-mc not found: the unbounded inductive check of NasCountInd was skipped"); return
    d = os.path.join(c.scratch, "apalache-c11"); os.makedirs(d, exist_ok=True)
    src = open(os.path.join(sd, "NasCountInd.tla")).read()
    open(os.path.join(d, "NasCountInd.tla"), "w").write(src)
    bad = src.replace("MODULE NasCountInd", "MODULE NasCountBad").replace("c' = (c + 1) % M", "c' = (c + 1) % (M + 1)")
    if bad.count("(M + 1)") != 1: raise Infra("negative control of NasCountInd could not be derived")
    open(os.path.join(d, "NasCountBad.tla"), "w").write(bad)
    def run(mod, inv):
        t = time.time()
        r = _sp.run(["timeout", "300", "apalache-mc", "check", "--init=IndInit", "--inv=" + inv, "--length=1", "--out-dir=" + os.path.join(d, "out"), mod + ".tla"],
                    cwd=d, capture_output=True, text=True)
        ok = "The outcome is: NoError" in r.stdout
        err = "The outcome is: Error" in r.stdout
        if not ok and not err: raise Infra("apalache did not finish on %s/%s:\n%s" % (mod, inv, (r.stdout + r.stderr)[-1500:]))
        return ok, round(time.time() - t, 1)
    res = []
    for inv in ("IndInv", "StepLaws"):
        ok, w = run("NasCountInd", inv)
        if not ok: raise Infra("NasCountInd: %s is not inductive (spec-level problem)" % inv)
        res.append(dict(engine="apalache", module="NasCountInd", invariant=inv, init="IndInit", length=1, outcome="NoError", wall_s=w))
    ok, w = run("NasCountBad", "IndInv")
    if ok: raise Infra("negative control: the wrong modulus was not refuted by Apalache")
    res.append(dict(engine="apalache", module="NasCountBad (modulus 2^24+1)", invariant="IndInv", outcome="Error (as required)", wall_s=w))
    c.cov["stage_a_unbounded"] = res


def run(c):
    thorough = c.tier == "thorough"
    sd = c.spec_dir("specA")
    # ---- stage A: window model always; all 2^24 values in thorough
    c.stage_a(sd, "MC_C11", "MC_C11", workers=6, timeout=900)
    apalache_inductive(c, sd)
    if thorough:
        c.stage_a(sd, "MC_C11", "MC_C11_full", workers=12, timeout=3000, xmx="12g")
    # ---- stage B (ii): every edge of the window model
    res = c.tlc(sd, "MC_C11_gen", "MC_C11_gen", workers=4, timeout=900)
    if not res.clean:
        raise Infra("edge generator failed:\n" + res.out[-2000:])
    c.cov["states"] += res.distinct; c.cov["transitions"] += res.generated
    edges = [json.loads(json.loads(ln)) for ln in res.printed if ln.startswith('"{')]
    nsrc = len({e["pre"] for e in edges})
    if len(edges) != res.distinct - nsrc or not edges:
        raise Infra("edge list incomplete: %d printed, %d states, %d sources" % (len(edges), res.distinct, nsrc))
    by_src = {}
    for e in edges:
        by_src.setdefault(e["pre"], []).append(e)
    hists = []
    for k, (pre, es) in enumerate(sorted(by_src.items())):
        ops = []
        for j, e in enumerate(es):
            ops += expand(e["op"], e["a"], e["b"])
            # every sixth source value reads everything after every step; the others a varying, value-determining pattern
            ops += rd(0 if k % 6 == 0 else (j + k) % FULL)
            ops.append(dict(op="Set", a=pre // 256, b=pre % 256))       # back to the source value (public API)
            if k % 6 == 0: ops += rd(0)
        hists.append(dict(via=("set" if k % 2 == 0 else "raw"), v=pre, ops=ops))
    n_edges = len(edges)
    # ---- stage B (i): TLC-simulated walks from seeded start values
    starts = sorted({c.rng.randrange(1 << 24) for _ in range(24)} | {0, 255, 65535, 65536 * 128 - 1, (1 << 24) - 1, (1 << 24) - 256})
    simcfg = ("SPECIFICATION GSpec\nCONSTANTS SqnArgs <- SimSqn OvfArgs <- SimOvf SetArgs <- SimSet OneStep = FALSE\n"
              "CONSTANT Starts = {%s}\nINVARIANTS TypeOK Composed StepOK\nCHECK_DEADLOCK FALSE\n" % ", ".join(map(str, starts)))
    open(os.path.join(sd, "MC_C11_sim.cfg"), "w").write(simcfg)
    nsim, depth = (400, 50) if not thorough else (2000, 80)
    res = c.tlc(sd, "MC_C11_gen", "MC_C11_sim", workers=1, simulate="file=beh,num=%d" % nsim, depth=depth, timeout=1200)
    nsimh = 0
    for beh in read_sim_behaviours(sd, "beh"):
        h = dict(via=("set" if nsimh % 2 == 0 else "raw"), v=beh[0][1]["c"], ops=[])
        for _, st in beh[1:]:
            la = st["last"]
            h["ops"] += expand(la["op"], la["a"], la["b"])           # the behaviour's own reads are steps like the others
            if nsimh % 4 == 0: h["ops"] += rd(0)                     # every fourth walk: full reads after every step
        h["ops"] += rd(nsimh % FULL)                                 # the final value is always read, in varying order
        hists.append(h); nsimh += 1
    if nsimh < nsim // 2:
        raise Infra("simulation produced too few behaviours (%d):\n%s" % (nsimh, res.out[-1500:]))
    c.cov["transitions"] += res.generated
    c.cov["simulated_histories"] = nsimh
    # ---- drive the real code
    drv = c.build_driver("nascount")
    hp = os.path.join(c.scratch, "hists.json"); json.dump(hists, open(hp, "w"))
    out1 = os.path.join(c.scratch, "replay.ndjson"); out2 = os.path.join(c.scratch, "record.ndjson"); out3 = os.path.join(c.scratch, "digest.ndjson")
    calls = 0
    def drive(args):
        nonlocal calls
        r = c.run_driver(drv, args)
        for ln in r.stderr.splitlines():
            if ln.startswith("calls "): calls += int(ln.split()[1])
    drive(["replay", hp, out1])
    drive(["record", out2])
    # (iv) digests: all 256 chunks in thorough; boundary + seeded chunks in quick
    if thorough:
        chunks, rawchunks = list(range(256)), [0, 127, 128, 255] + c.rng.sample(range(1, 255), 4)
    else:
        chunks, rawchunks = sorted({0, 127, 128, 255} | set(c.rng.sample(range(1, 255), 4))), [0, 255]
    dops = digest_ops()
    dspec = os.path.join(c.scratch, "digest.json"); json.dump(dict(chunks=chunks, rawchunks=rawchunks, ops=dops), open(dspec, "w"))
    drive(["digest", dspec, out3])
    events = read_ndjson(out1) + read_ndjson(out2)
    devents = read_ndjson(out3)
    c.cov["evaluations"] = calls
    # ---- stage C
    mism = c.validate("Trace_C11", events, stateful=True, shards=10)
    dmism = c.validate("Trace_C11", devents, stateful=False, shards=min(12, max(2, len(devents) // 20)), timeout=3000)

    def history_events(idx):
        lo = idx
        while lo > 0 and '"TraceReset"' not in events[lo][:40]: lo -= 1
        return [json.loads(x) for x in events[lo:idx + 1]]

    READS = ("Get", "SQN", "Overflow")
    WRONG = dict(Get="get-wrong", SQN="sqn-wrong", Overflow="overflow-wrong")

    def cls_apply(e, expected):
        """Apply event (whole observation): which observable is wrong (classification only, TLC made the verdict)"""
        if expected is None or expected < 0: return "inconsistent-reads"
        if e["get"] != expected: return "get-wrong"
        if e["sqn"] != expected % 256 or e["ovf"] != expected // 256: return "sqn-overflow-wrong-before-get"
        if e["sqn2"] != expected % 256 or e["ovf2"] != expected // 256: return "sqn-overflow-changed-by-get"
        return "return-wrong"

    def classify(idx, t):
        """a read returned a value that is not the tracked one.  Label: the last write before it; class: which read,
        and whether another read had been accepted since that write (then a read changed the value)"""
        evs = history_events(idx)
        e, h = evs[-1], hist_of(evs)
        j = len(evs) - 2
        while j > 0 and evs[j]["op"] in READS: j -= 1
        lastw = evs[j]
        between = [x["op"] for x in evs[j + 1:-1]]
        cls = WRONG.get(e["op"], "inconsistent-reads") + ("-after-read" if between else "")
        nrun = 0
        while j - nrun > 0 and evs[j - nrun]["op"] == "AddOne": nrun += 1
        return (lastw["op"], cls,
                "%s() returned %s where the counter value is %s (expected %s); last write %s(%s,%s)%s, reads since then: %s; history of %d calls, start %s %d" % (
                    e["op"], e["ret"], t[2], t[3], lastw["op"], lastw["a"], lastw["b"], (" ending a run of %d increments" % nrun) if nrun > 1 else "",
                    between or "none", len(h["ops"]), h["via"], h["v"]),
                dict(history=h, observed=e, how="harness/cmd/nascount replay [history] out.ndjson; validate with spec/trace/Trace_C11"))

    def confirm_hist(h):
        hp2 = os.path.join(c.scratch, "confirm.json"); json.dump([h], open(hp2, "w"))
        out4 = os.path.join(c.scratch, "confirm.ndjson")
        c.run_driver(drv, ["replay", hp2, out4])
        evs = read_ndjson(out4)
        again = c.validate("Trace_C11", evs, stateful=True, shards=1)
        c.cov["traces_validated_against_impl"] -= len(evs)
        return bool(again)

    def confirm(idx, t):
        return confirm_hist(hist_of(history_events(idx)))
    c.triage(mism, classify, confirm)
    classes = dict(c.cov.get("mismatch_classes", {}))

    # digest mismatches: expand the chunk, let TLC name the failing inputs
    bad_digests = {}
    for idx, t in dmism:
        e = json.loads(devents[idx])
        bad_digests.setdefault((e["fn"], e["a"], e["b"], e["via"]), []).append(e["chunk"])
    c.cov["digest_chunks_differing"] = sum(len(v) for v in bad_digests.values())
    expanded = 0
    for (fn, a, b, via), ks in sorted(bad_digests.items()):
        if expanded >= 6: break
        expanded += 1
        k = ks[0]
        xs = os.path.join(c.scratch, "expand.json"); json.dump(dict(fn=fn, a=a, b=b, chunk=k, via=via), open(xs, "w"))
        xo = os.path.join(c.scratch, "expand.ndjson")
        c.run_driver(drv, ["expand", xs, xo])
        xev = read_ndjson(xo)
        xm = c.validate("Trace_C11", xev, stateful=False, shards=8)
        if not xm:
            c.note("digest of %s(%s,%s) chunk %d via %s differed but no element of the chunk did (not reproduced)" % (fn, a, b, k, via))
            continue
        def xclassify(i, t, xev=xev, fn=fn, via=via):
            e = json.loads(xev[i])
            h = dict(via=via, v=e["pre"], ops=expand(fn, e["a"], e["b"]) + rd(0))
            return (fn, cls_apply(e, t[3] if isinstance(t[3], int) else None),
                    "from value %d, %s(%d,%d): expected value %s, observed Get=%s SQN=%s Overflow=%s returned=%s; %d of 65536 values of chunk %d differ, %d chunk(s) differ" % (
                        e["pre"], fn, e["a"], e["b"], t[3], e["get"], e["sqn"], e["ovf"], e["ret"], len(xm), k, len(ks)),
                    dict(history=h, observed=e, how="harness/cmd/nascount replay [history] out.ndjson; validate with spec/trace/Trace_C11"))
        def xconfirm(i, t, xev=xev, fn=fn, via=via):
            e = json.loads(xev[i])
            return confirm_hist(dict(via=via, v=e["pre"], ops=expand(fn, e["a"], e["b"]) + rd(0)))
        c.triage(xm, xclassify, xconfirm, per_class=1, total=3)
        for kk, v in c.cov.get("mismatch_classes", {}).items():
            classes[kk] = classes.get(kk, 0) + v
    c.cov["mismatch_classes"] = classes

    # ---- binding self-test, AFTER the verdict phase and never in its way: one returned value of a history that
    # validated cleanly is corrupted; TLC must reject that event (and nothing before it)
    if c.violations:
        c.cov["binding_selftest"] = "skipped: the run has violations"
    else:
        badidx = {i for i, _ in mism}
        resets = [i for i, ln in enumerate(events) if '"TraceReset"' in ln[:40]] + [len(events)]
        pick = None
        for a, b in zip(resets, resets[1:]):
            rds = [i for i in range(a, b) if events[i][:12] in ('{"op":"Get",', '{"op":"SQN",') and i > a + 2]
            if rds and not any(a <= i < b for i in badidx):
                pick = (a, b, rds[len(rds) // 2]); break
        if pick is None:
            c.note("binding self-test skipped: no cleanly validated history with a read")
        else:
            a, b, k = pick
            sl = list(events[a:b]); ce = json.loads(sl[k - a]); ce["ret"] ^= 1; sl[k - a] = json.dumps(ce)
            bm = [i for i, _ in c.validate("Trace_C11", sl, stateful=True, shards=1)]
            c.cov["traces_validated_against_impl"] -= len(sl)
            if bm[:1] != [k - a]:
                c.note("binding self-test FAILED: corrupted call %d of a clean history, TLC rejected %r" % (k - a, bm))
                raise Infra("binding self-test failed: corrupted event %d of a clean history, TLC rejected %r" % (k - a, bm))
            c.cov["binding_selftest"] = "value returned by %s() in call %d of a cleanly validated history corrupted by one bit: rejected by TLC at exactly that call" % (ce["op"], k - a)

    # ---- coverage (python mirror of the operators, for counting only)
    dkeys = {(o["op"], o["a"], o["b"]) for o in dops}; cset = set(chunks)
    prev = None
    for ln in events:
        e = json.loads(ln)
        op = e["op"]
        if op == "TraceReset" or op == "New": prev = None; continue
        if op == "SetRaw": prev = e["a"]; continue
        if prev is not None and not ((op, e["a"], e["b"]) in dkeys and (prev >> 16) in cset):
            c.count_distinct((prev, op, e["a"], e["b"]))
        if prev is None and op == "Get": prev = e["ret"]
        else: prev = model(op, e["a"], e["b"], prev)
    digest_pairs = len(chunks) * 65536 * len(dops)
    c.cov["distinct_nontrivial"] = digest_pairs + len(c._distinct)
    c._distinct = set()
    c.cov["rule"] = ("case = one public call executed on a real Count from a tracked value (writes are judged through the reads that follow them, in varying number and order); distinct = distinct (value before, operation, arguments) "
                     "triples: %d covered by digest conformance (%d chunks x 65536 values x %d operation/argument combinations) + %d further triples among the individually validated events" % (
                         digest_pairs, len(chunks), len(dops), c.cov["distinct_nontrivial"] - digest_pairs))
    c.cov["edges_replayed"] = n_edges
    c.cov["digest_events"] = len(devents)
    c.cov["digest_chunks"] = len(chunks)
    c.cov["histories"] = sum(1 for e in events if '"TraceReset"' in e[:40])
    c.cov["exhaustive"] = bool(thorough)
    for i in (1, len(events) // 2, len(events) - 1):
        c.sample(events[i])
    c.sample(devents[len(devents) // 2])
    c.sample(hists[len(by_src) + nsimh // 2] if nsimh else hists[0])
    c.cov["read_events"] = sum(1 for ln in events if ln[:12] in ('{"op":"Get",', '{"op":"SQN",') or ln.startswith('{"op":"Overflow",'))
    c.assumptions += ["the counter is used sequentially (one event per call); the driver performs no reads of its own between the calls of a history",
                      "states are placed through Set() or the verif raw hook with values < 2^24 (a raw word with a non-zero top octet is unreachable through the public API and is not judged)",
                      ("digest conformance over all 2^24 values" if thorough else "digest conformance over %d of 256 chunks in quick (all in thorough)" % len(chunks))
                      + " for AddOne, runs of 2 and 257 increments, the reads, SetSQN/SetOverflow/Set with boundary arguments"]


if __name__ == "__main__":
    main("C11", run)
