#!/usr/bin/env python3
"""C14 - helpers that interpret UE-supplied IE contents never panic or hang.
Stage A: TLC checks spec/Helpers.tla: the small-step list walkers (requested NSSAI, LADN indication, DNN labels)
         decrease their termination measure at every step, end, stay inside the buffer and agree with the
         big-step result-class operators; the class operators are total on all strings up to a bound.
Stage B: TLC prints boundary strings from the specification's case structure (MC_C14gen); the driver calls every
         helper on them, on exhaustive sweeps (all octet strings of length 0..2, length 3 per tier, all texts of
         length 0..6 over a small alphabet) and on seeded random strings, each call under recover + watchdog.
Stage C: TLC (Trace_C14) judges every observation: a panic inside the library or a hang is a mismatch; the class of
         each recorded defect is decided by the trace specification; result-class differences are information.
Added after seeded round 3: texts whose byte length passes a guard but whose case-mapped form has another length."""
import json, os, subprocess, sys
from concurrent.futures import ThreadPoolExecutor
sys.path.insert(0, os.path.dirname(os.path.dirname(os.path.abspath(__file__))))
from vlib import *

META = dict(
    property_id="C14", engine="tlc-helpers",
    technique="TLA+ total result-class operators and small-step list walkers with a termination measure (model-checked: measure decreases, termination, big-step agreement, totality); every helper executed under recover + watchdog on TLC-generated boundary strings, exhaustive short strings and seeded random strings; observations validated by a total TLC trace specification that also classifies recorded defects",
    level=("model_checking", "The property is 'no panic, no hang, for every contents'. The specification side (totality and termination of the reference walkers) is model-checked exhaustively on bounded strings; the implementation side is observed exhaustively for all octet strings of length 0..2 (and all 16.7 M of length 3 in the thorough tier) for each of 33 byte helpers and 4 text helpers, plus boundary strings derived from the specification's length guards and seeded random strings up to 300 octets. TLC decides which observation is a violation, a recorded finding class, or information.", "7/C14"),
    level_note="Trusted: TLC, the Go runtime's recover and stack unwinding, the 2 s watchdog (a call that needs longer than 2 s, or a loop that allocates more than 1 GiB, counts as not returning). Beyond 3 octets inputs are generated/sampled, not enumerated. Inputs of the recorded LadnToModels hang class are executed only by three probes per run and skipped elsewhere (the stuck loop allocates without bound); PlmnIDToString is observed for information only (not in the property's list). Result-class comparison is information, not verdict.",
)

GETTERS = {"GetTypeOfIdentity", "GetMobileIdentity", "GetSUCI", "GetPlmnID", "GetMCC", "GetMNC", "Get5GGUTI", "GetAmfID",
           "GetAmfRegionID", "GetAmfSetID", "GetAmfPointer", "Get5GTMSI", "GetIMEI", "GetIMEISV", "Get5GSTMSI"}
PARTS = 6
LADN_PROBES = ["0000", "070009", "010100"]


def opname(h):
    return "MobileIdentity5GS." + h if h in GETTERS else h


def run_parts(c, drv, mode, pos, tag, env):
    """run one driver mode over PARTS processes; a hang makes the driver exit 7 after logging it: resume from the next item"""
    def one(k):
        outs, frm, restarts = [], 0, 0
        while True:
            out = os.path.join(c.scratch, "%s-%d-%d.ndjson" % (tag, k, restarts))
            args = [mode] + [p if p != "@OUT" else out for p in pos] + ["-part", "%d/%d" % (k, PARTS), "-from", str(frm)]
            r = c.run_driver(drv, args, timeout=3000, env=env, check=False)
            outs.append(out)
            if r.returncode == 0:
                return outs, restarts
            if r.returncode == 7 and "RESUME" in r.stderr:
                frm = int(r.stderr.strip().split("RESUME")[-1].split()[0]); restarts += 1
                if restarts >= 6:      # hangs are already recorded (each one a verdict); do not keep paying 2 s per hang
                    c.note("%s part %d/%d abandoned after %d hangs (each recorded); remaining work items of that part not executed" % (mode, k, PARTS, restarts))
                    return outs, restarts
                continue
            raise Infra("driver helpers14 %s failed rc=%d: %s" % (mode, r.returncode, r.stderr[-2000:]))
    evs, restarts = [], 0
    with ThreadPoolExecutor(max_workers=PARTS) as ex:
        for outs, rs in ex.map(one, range(PARTS)):
            restarts += rs
            for o in outs:
                if os.path.exists(o): evs += read_ndjson(o)
    return evs, restarts


def element(e, first):
    """the concrete input of element `first` of a compact event"""
    if e["op"] == "Call": return e["in"]
    if e["op"] == "Digest": return None
    k = len(e["alpha"]) or 256
    sym = (lambda j: e["alpha"][j]) if e["alpha"] else (lambda j: j)
    return e["in"] + ([sym(first)] if e["free"] == 1 else [sym(first // k), sym(first % k)])


def run(c):
    thorough = c.tier == "thorough"
    sd = c.spec_dir("specA")
    # ---- stage A
    if thorough:
        p = os.path.join(sd, "MC_C14.cfg")
        t = open(p).read().replace("MaxLen = 4", "MaxLen = 6").replace("MaxFixed = 3", "MaxFixed = 4").replace("MaxText = 4", "MaxText = 5")
        open(p, "w").write(t)
    c.stage_a(sd, "MC_C14", "MC_C14", timeout=1800, workers=min(NCPU, 8))
    # ---- stage B: boundary strings
    res = c.tlc(sd, "MC_C14gen", "MC_C14gen", timeout=900, workers=4)
    if not res.clean:
        raise Infra("case generator failed:\n" + res.out[-2000:])
    c.cov["states"] += res.distinct; c.cov["transitions"] += res.generated
    cases = [json.loads(json.loads(ln)) for ln in res.printed if ln.startswith('"{')]
    announced = sum(int(parse_tla_tuple(ln)[2]) for ln in res.printed if ln.startswith('<<"COUNT"'))
    if len(cases) != announced or len(cases) < 20000:
        raise Infra("case list incomplete: %d printed, %d announced by the generator" % (len(cases), announced))
    cases.sort(key=lambda x: (x["h"], len(x["in"]), x["in"]))
    c.cov["generated_cases"] = len(cases)
    drv = c.build_driver("helpers14")
    # ---- is the recorded LadnToModels hang class alive?  (each probe in its own process)
    def probe(hx):
        out = os.path.join(c.scratch, "probe-%s.ndjson" % hx)
        r = c.run_driver(drv, ["probe", out, "LadnToModels", hx], timeout=60, check=False)
        if r.returncode not in (0, 7):
            raise Infra("probe failed rc=%d: %s" % (r.returncode, r.stderr[-1000:]))
        return read_ndjson(out)
    with ThreadPoolExecutor(max_workers=3) as ex:
        probe_events = [e for evs in ex.map(probe, LADN_PROBES) for e in evs]
    skip = any('"cls":"hang"' in e for e in probe_events)
    env = {"VERIF_C14_SKIPHANG": "1" if skip else "0"}
    c.cov["ladn_hang_class_alive"] = skip
    cp = os.path.join(c.scratch, "cases.json"); json.dump(cases, open(cp, "w"))
    ev1, r1 = run_parts(c, drv, "replay", [cp, "@OUT"], "replay", env)
    # the generated cases once more with the library's logger at trace level and every input in a buffer of exactly its size
    # (no spare capacity): what a helper does with UE-supplied contents does not depend on either; only the observations
    # that differ from the first pass need a second judgement
    ev1b, r1b = run_parts(c, drv, "replay", [cp, "@OUT"], "replayT", dict(env, VERIF_LOGTRACE="1", VERIF_VIEW="0"))
    seen1 = set(ev1)
    extra = [e for e in ev1b if e not in seen1]
    c.cov["second_pass_trace_level_exact_capacity"] = dict(events=len(ev1b), differing_from_first_pass=len(extra))
    ev1 = ev1 + extra
    r1 += r1b
    ev2, r2 = run_parts(c, drv, "record", ["@OUT"], "record", env)
    ev3, r3 = run_parts(c, drv, "sweep", ["@OUT"], "sweep", env)
    # ---- reused values: stage A of the value-with-contents model; its exhaustive graph prints every ordered pair
    # of pool contents x ways of storing them; each pair becomes a history on ONE value, plus seeded long histories
    resO = c.stage_a(sd, "MC_C14obj", "MC_C14obj", timeout=900, workers=4)
    pairs = [json.loads(json.loads(ln)) for ln in resO.printed if ln.startswith('"{')]
    if len(pairs) < 1500:
        raise Infra("pair generator incomplete: %d pairs" % len(pairs))
    pairs.sort(key=lambda x: json.dumps(x, sort_keys=True))
    getters_of = {"MobileIdentity5GS": sorted(GETTERS), "DNN": ["DNN.GetDNN"], "RequestedNSSAI": ["RequestedNssaiToModels"]}
    rng = c.rng

    def all_gets(kind):
        g = list(getters_of[kind]); k = rng.randrange(len(g))
        g = g[k:] + g[:k]
        if rng.random() < 0.5: g.reverse()
        return [dict(op="Get", h=x) for x in g]
    hists = []
    for pr in pairs:
        hists.append(dict(obj=pr["obj"], steps=[dict(op="Set", mode=pr["m1"], **{"in": pr["c1"]})] + all_gets(pr["obj"]) +
                          [dict(op="Set", mode=pr["m2"], **{"in": pr["c2"]})] + all_gets(pr["obj"])))
    n_pair_hists = len(hists)
    pools = {k: [] for k in getters_of}
    for pr in pairs:
        for cc in (pr["c1"], pr["c2"]):
            if cc not in pools[pr["obj"]]: pools[pr["obj"]].append(cc)
    gen_pool = {"MobileIdentity5GS": [x["in"] for x in cases if x["h"] in ("GetMobileIdentity", "GetSUCI") and len(x["in"]) <= 255],
                "DNN": [x["in"] for x in cases if x["h"] == "DNN.GetDNN" and len(x["in"]) <= 255],
                "RequestedNSSAI": [x["in"] for x in cases if x["h"] == "RequestedNssaiToModels" and len(x["in"]) <= 255]}
    for k in range(400 if thorough else 90):
        kind = ("MobileIdentity5GS", "MobileIdentity5GS", "DNN", "RequestedNSSAI")[k % 4]
        steps = []
        for _ in range(rng.randint(8, 20)):
            src = pools[kind] if rng.random() < 0.6 else gen_pool[kind]
            steps.append(dict(op="Set", mode=rng.choice(["buffer", "setters"]), **{"in": rng.choice(src)}))
            for _ in range(rng.randint(1, 4)):
                steps.append(dict(op="Get", h=rng.choice(getters_of[kind])))
        hists.append(dict(obj=kind, steps=steps))
    hp = os.path.join(c.scratch, "hists.json"); json.dump(hists, open(hp, "w"))
    hist_events, r4 = run_parts(c, drv, "hist", [hp, "@OUT"], "hist", env)
    c.cov["reuse_histories"] = len(hists); c.cov["reuse_pair_histories"] = n_pair_hists
    c.cov["driver_restarts_after_hang"] = r1 + r2 + r3 + r4
    events = probe_events + ev1 + ev2 + ev3
    # chunk events cost ~256 class evaluations each: spread them evenly over the shards
    nsh = 12 if thorough else 8
    heavy = [e for e in events if e.startswith('{"op":"Chunk"')]
    hs = set(heavy); light = [e for e in events if e not in hs]
    order = []
    for k in range(nsh):
        order += heavy[k::nsh] + light[k::nsh]
    events = order
    # ---- stage C
    mism = c.validate("Trace_C14", events, shards=nsh, timeout=3000)
    # histories are stateful (current contents): shards are cut at TraceReset only
    n_stateless = len(events)
    mism += [(n_stateless + i, t) for i, t in c.validate("Trace_C14", hist_events, shards=(8 if thorough else 6), stateful=True, timeout=3000)]
    events = events + hist_events

    def history_of(idx):
        """(kind, steps up to and including event idx, current contents) of the history event idx belongs to"""
        lo = idx
        while not events[lo].startswith('{"op":"TraceReset"'): lo -= 1
        steps, kind, cur = [], "", []
        for ln in events[lo + 1:idx + 1]:
            x = json.loads(ln)
            if x["op"] == "Set": steps.append(dict(op="Set", mode=x["cls"], **{"in": x["in"]})); kind, cur = x["h"], x["in"]
            elif x["op"] == "Get": steps.append(dict(op="Get", h=x["h"]))
        return kind, steps, cur
    evals = skipped = 0
    distinct = 0
    digested = set()
    for ln in events:
        if ln.startswith('{"op":"Digest"'):
            e = json.loads(ln); tot = sum(e["counts"]); evals += tot - e["counts"][5]; skipped += e["counts"][5]; distinct += tot
            digested.add((e["h"], tuple(e["in"])))
    for ln in events:
        if ln.startswith('{"op":"Chunk"'):
            e = json.loads(ln); n = len(e["codes"]); sk = sum(1 for x in e["codes"] if x == 5)
            evals += n - sk; skipped += sk
            if not (e["free"] == 1 and len(e["in"]) == 2 and (e["h"], tuple(e["in"][:1])) in digested):
                distinct += n
        elif ln.startswith('{"op":"Call"'):
            e = json.loads(ln)
            if e["cls"] == "skipped": skipped += 1
            else: evals += 1
            if e["in"]: c.count_distinct((e["h"], tuple(e["in"])))
        elif ln.startswith('{"op":"Get"'):
            evals += 1
    # distinct reuse situations: (getter, previous contents, current contents) triples of the histories
    prevc, curc = (), ()
    for ln in hist_events:
        if ln.startswith('{"op":"TraceReset"'): prevc, curc = (), ()
        elif ln.startswith('{"op":"Set"'): prevc, curc = curc, tuple(json.loads(ln)["in"])
        elif ln.startswith('{"op":"Get"'): c.count_distinct(("reuse", json.loads(ln)["h"], prevc, curc))
    c.cov["skipped_recorded_hang_class"] = skipped
    # MISMATCH lines are <<"MISMATCH", l, kind, class, count, first>>; helper, frame and panic text come from the event
    def sig_of(e, t):
        """(fn, kind) of the panic a line talks about"""
        if t[2] not in ("PANIC", "INFO"): return ("", "")
        if e["op"] in ("Call", "Get"): return (e["fn"], e["kind"])
        if e["op"] == "Digest": sg = e["sigs"][int(t[5]) - 1]
        else: sg = e["sigs"][e["codes"][int(t[5])] - 10]
        return (sg["fn"], sg["kind"])

    def input_of(e, t, idx=None):
        if e["op"] == "Get":
            return history_of(idx)[2]
        if e["op"] == "Digest":
            return e["sigs"][int(t[5]) - 1]["ex"] if t[2] in ("PANIC", "INFO") else e["in"]
        return element(e, int(t[5]))
    notes, infos = {}, {}
    verdicts = []
    for idx, t in mism:
        kind = t[2]
        e = json.loads(events[idx])
        if kind == "BAD":
            raise Infra("malformed observation at event %d: %s (%s)" % (idx, t[3], events[idx][:300]))
        if kind == "NOTE":
            k = (e["h"], t[3]); notes[k] = notes.get(k, 0) + int(t[4])
        elif kind == "INFO":
            k = (e["h"],) + sig_of(e, t); infos[k] = infos.get(k, 0) + int(t[4])
        else:
            verdicts.append((idx, t))
    for (h, so), n in sorted(notes.items()):
        sp, ob = so.split(">")
        c.note("result class: %s returns '%s' where the layout-based specification says '%s' (%d observed inputs)" % (opname(h), ob, sp, n))
    for (h, fn, kd), n in sorted(infos.items()):
        c.note("outside the property's list: %s panics in %s (%s) on %d observed inputs" % (h, fn, kd, n))

    def key_of(idx, t):
        e = json.loads(events[idx])
        fn, kd = sig_of(e, t)
        return (opname(e["h"]), t[3] or ("%s%s:%s:%s" % ("reused-value:" if e["op"] == "Get" else "", t[2].lower(), fn, kd)))
    # reproduce (at most two per class) in ONE fresh driver run; hangs each in their own process
    todo, seen = [], {}
    for idx, t in verdicts:
        k = key_of(idx, t); seen[k] = seen.get(k, 0) + 1
        if seen[k] <= 2: todo.append((idx, t))
    confirmed = {}
    needs_trace = set()
    # ... a panic inside a history: replay that history (up to the failing step) on a fresh value in a fresh process
    hpan = [(idx, t) for idx, t in todo if t[2] == "PANIC" and events[idx].startswith('{"op":"Get"')]
    if hpan:
        hs2 = []
        for idx, t in hpan:
            kind, steps, _ = history_of(idx)
            hs2.append(dict(obj=kind, steps=steps))
        p = os.path.join(c.scratch, "confirm-hist.json"); json.dump(hs2, open(p, "w"))
        o = os.path.join(c.scratch, "confirm-hist.ndjson")
        c.run_driver(drv, ["hist", p, o], env={"VERIF_C14_SKIPHANG": "0"})
        evs = read_ndjson(o)
        again = {i: tt for i, tt in c.validate("Trace_C14", evs, shards=1, stateful=True)}
        c.cov["traces_validated_against_impl"] -= len(evs)
        ends, k = [], -1
        for hh in hs2:
            k += 1 + len(hh["steps"]); ends.append(k)          # index of the last event of each replayed history
        if len(evs) != k + 1:
            raise Infra("history confirmation produced %d events, expected %d" % (len(evs), k + 1))
        for (idx, t), endi in zip(hpan, ends):
            tt = again.get(endi); e2 = json.loads(evs[endi])
            confirmed[idx, tuple(t)] = bool(tt) and tt[2] == "PANIC" and tt[3] == t[3] and (e2["fn"], e2["kind"]) == sig_of(json.loads(events[idx]), t)
    pan = [(idx, t) for idx, t in todo if t[2] == "PANIC" and not events[idx].startswith('{"op":"Get"')]
    # confirmation in a fresh process: first under the default configuration, then - for what did not reproduce - with the
    # library's logger at trace level and inputs in buffers of exactly their size (the second replay pass ran like that)
    for k, xenv in enumerate(({}, {"VERIF_LOGTRACE": "1", "VERIF_VIEW": "0"})):
        pan_k = [(idx, t) for idx, t in pan if not confirmed.get((idx, tuple(t)))]
        if not pan_k: break
        cs = []
        for idx, t in pan_k:
            e = json.loads(events[idx])
            cs.append({"h": e["h"], "text": e["text"], "in": input_of(e, t)})
        p = os.path.join(c.scratch, "confirm%d.json" % k); json.dump(cs, open(p, "w"))
        o = os.path.join(c.scratch, "confirm%d.ndjson" % k)
        c.run_driver(drv, ["replay", p, o], env=dict({"VERIF_C14_SKIPHANG": "0"}, **xenv))
        evs = read_ndjson(o)
        if len(evs) != len(cs):
            raise Infra("confirmation run produced %d events for %d cases" % (len(evs), len(cs)))
        again = {i: tt for i, tt in c.validate("Trace_C14", evs, shards=1)}
        c.cov["traces_validated_against_impl"] -= len(evs)
        for j, (idx, t) in enumerate(pan_k):
            tt = again.get(j)
            e2 = json.loads(evs[j])
            confirmed[idx, tuple(t)] = bool(tt) and tt[2] == "PANIC" and tt[3] == t[3] and (e2["fn"], e2["kind"]) == sig_of(json.loads(events[idx]), t)
            if k == 1 and confirmed[idx, tuple(t)]: needs_trace.add(idx)
    hang_hist = {}
    for idx, t in todo:
        if t[2] != "HANG": continue
        e = json.loads(events[idx])
        inp_ = input_of(e, t, idx)
        raw = "".join(chr(x) for x in inp_).encode("utf-8") if e["text"] else bytes(inp_)      # texts are logged as code points
        hx = raw.hex()
        o = os.path.join(c.scratch, "confirm-hang-%d.ndjson" % idx)
        r = c.run_driver(drv, ["probe", o, e["h"], hx], timeout=60, check=False)
        confirmed[idx, tuple(t)] = r.returncode == 7 and any('"cls":"hang"' in x for x in read_ndjson(o))
        if not confirmed[idx, tuple(t)]:
            # alone, in a fresh process, the call returns: the hang may need what the library saw before (a lock left held, a
            # table filled up).  The seeded streams are deterministic: run them once more in fresh processes and see whether
            # the same helper stops returning again.
            if "again" not in hang_hist:
                hang_hist["again"] = set()
                for mode_, pos_ in (("replay", [cp, "@OUT"]), ("record", ["@OUT"]), ("sweep", ["@OUT"])):
                    evs_, _ = run_parts(c, drv, mode_, pos_, "again-" + mode_, env)
                    for x in evs_:
                        if '"cls":"hang"' in x: hang_hist["again"].add(json.loads(x)["h"])
            if e["h"] in hang_hist["again"]:
                confirmed[idx, tuple(t)] = True
                c.note("%s stops returning only after earlier calls in the same process (alone, in a fresh process, the same input returns): the hang depends on state the library kept" % opname(e["h"]))

    def classify(idx, t):
        e = json.loads(events[idx])
        inp = input_of(e, t, idx)
        fn, kd = sig_of(e, t)
        op, cls = key_of(idx, t)
        if e["op"] == "Get":
            kind, steps, cur = history_of(idx)
            sets = [x["in"] for x in steps if x["op"] == "Set"]
            what = "%s on a reused %s value holding %s (held %s before; step %d of the history) panics in %s: %s" % (
                op, kind, json.dumps(cur)[:120], json.dumps(sets[-2])[:120] if len(sets) > 1 else "nothing", len(steps), fn, kd)
            return (op, cls, what, dict(history=dict(obj=kind, steps=steps), observed=dict(kind=t[2], fn=fn, panic=kd),
                                        how="driver helpers14 hist [ {obj,steps} ] out.ndjson; validate with spec/trace/Trace_C14 (stateful)"))
        what = "%s(%s%s) %s%s; %d such input(s) in this event" % (
            op, "text " if e["text"] else "", json.dumps(inp)[:160],
            "does not return within 2 s" if t[2] == "HANG" else "panics in %s: %s" % (fn, kd),
            "" if t[3] else " - not a recorded finding class", int(t[4]))
        if idx in needs_trace:
            what += " [with the library's logger at trace level: logger.GetLogger().SetLevel(logrus.TraceLevel); driver: VERIF_LOGTRACE=1 VERIF_VIEW=0]"
        return (op, cls, what, dict(helper=e["h"], text=e["text"], input=inp, observed=dict(kind=t[2], fn=fn, panic=kd),
                                    how="driver helpers14 replay [ {h,text,in} ] out.ndjson (hang: helpers14 probe out.ndjson <helper> <hex>); validate with spec/trace/Trace_C14"))

    def confirm(idx, t):
        return confirmed.get((idx, tuple(t)), False)
    c.triage(verdicts, classify, confirm, per_class=2, total=200)
    c.cov["evaluations"] = evals
    c.cov["distinct_nontrivial"] = len(c._distinct) + distinct
    c.cov["rule"] = ("cases = helper calls on the real library; distinct non-trivial = distinct (helper, non-empty input) pairs: single calls (%d) + "
                     "inputs of exhaustive chunks and digests (%d; sampled length-3 chunks inside a digested range not counted twice); reuse histories count as distinct (getter, previous contents, current contents) triples" % (len(c._distinct), distinct))
    c.cov["exhaustive"] = True
    c.cov["helpers"] = 37
    for i in (0, len(events) // 2, len(events) - 1):
        c.sample(events[i], maxlen=500)
    c.sample(cases[len(cases) // 2])
    c.assumptions += [
        "contents reach the helpers as the decoders deliver them: RequestedNSSAI / DNN / MobileIdentity5GS with Len = number of octets (<= 255 for 8-bit length IEs), slices with capacity = length",
        "exhaustive: all octet strings of length 0..2 per helper; length 3: %s; texts: all strings of length 0..6 over {0,9,a,F,g,e-acute}" % ("all 16 777 216" if thorough else "first octet over 16 boundary values x all 65 536 continuations, plus seeded chunks"),
        "reused values: %d histories on one MobileIdentity5GS / DNN / RequestedNSSAI value (every ordered pair of the specification's pool contents x {assign Len+Buffer, SetLen+setter}, all getters after each Set, plus seeded long histories); Len is always kept equal to the number of octets" % len(hists),
        "a call counts as not returning after 2 s without progress or when the process heap exceeds 1 GiB",
        "inputs of the recorded LadnToModels hang class are skipped after three probes confirmed the class in this run" if skip else "no hang class skipped in this run",
    ]


if __name__ == "__main__":
    main("C14", run)
