"""C19, families other than the message codec (orchestration only).

For every family: the family's own TLC generator configuration (the one its sequential check uses) prints the case
pool, a few families add cases taken from the traces their own driver records (seeded random values: more distinct
argument values), a seeded sample of the pool is cut into blocks of one operation kind, and harness/cmd/conc runs
the blocks from N goroutines under the race detector.  Each goroutine's trace is validated by the family's existing
trace specification (Trace_C17, Trace_C12, ...), i.e. TLC judges every concurrent result against the same
sequential operators as the family's sequential check.

A mismatch on a concurrent trace is compared with a sequential run of the same cases in a fresh process
(1 goroutine, GOMAXPROCS=1): the same mismatch there is the family's own (possibly known) finding and is not
reported here; only mismatches the sequential run does not show are C19 violations."""
import json, os, sys
from concurrent.futures import ThreadPoolExecutor
sys.path.insert(0, os.path.dirname(os.path.dirname(os.path.abspath(__file__))))
from vlib import *


def _gen(c, sd, module, cfg, workers=2, expect_all=True, slack=0, at_least=1):
    res = c.tlc(sd, module, cfg, workers=workers, timeout=900)
    if not res.clean:
        raise Infra("case generator %s failed:\n%s" % (cfg, res.out[-2000:]))
    cases = [json.loads(json.loads(ln)) for ln in res.printed if ln.startswith('"{')]
    if len(cases) < at_least or (expect_all and len(cases) + slack != res.distinct):
        raise Infra("case generator %s: %d cases printed, %d states" % (cfg, len(cases), res.distinct))
    return cases, res


def _pick(rng, items, n, stratum=None):
    """seeded sample of n items, round-robin over strata (so that the sample spans the distinct argument values)"""
    items = list(items)
    rng.shuffle(items)
    if stratum is None or n >= len(items):
        return items[:n]
    groups = {}
    for x in items:
        groups.setdefault(stratum(x), []).append(x)
    keys = sorted(groups, key=repr); rng.shuffle(keys)
    out = []
    while len(out) < n and keys:
        for k in list(keys):
            if groups[k]:
                out.append(groups[k].pop())
                if len(out) == n: break
            else:
                keys.remove(k)
    return out


class Family:
    name = ""          # family name of harness/cmd/conc
    pid = ""           # the sequential property whose operators judge the trace
    trace = ""         # trace module
    driver = ""        # the family's own driver (harness/cmd/<driver>): drift guard, recorded traces
    records = False    # cases taken from the trace the family driver records are added (seeded random values)
    shards = 6

    def pool(self, c, sd): raise NotImplementedError
    def add_recorded(self, pool, events): pass
    def plan(self, pool, rng, scale, wide=False): raise NotImplementedError      # -> [(block name, [cases])]; wide: the two-goroutine configuration

    def verdict(self, t):
        """MISMATCH tuple -> signature (hashable) or None when the tuple is not a verdict (statistics, notes)"""
        return tuple(t[2:])


# ------------------------------------------------------------------ C17 conversions
class F17(Family):
    name, pid, trace, shards, driver = "f17", "C17", "Trace_C17", 6, "conv17"

    def pool(self, c, sd):
        cases, res = _gen(c, sd, "MC_C17", "MC_C17_gen", workers=3)
        # DecodeDaylightSavingTime has a three-value domain; the family driver records all of it (cmd/conv17 record)
        return cases + [dict(op="DSTDec", d=v) for v in (0, 1, 2)], res

    def plan(self, pool, rng, scale, wide=False):
        by = {}
        for x in pool: by.setdefault(x["op"] + x.get("kind", ""), []).append(x)
        want = [("T2", 8, lambda x: x["d"] // 700), ("T3", 12, lambda x: x["d"] // 40000), ("AMBR", 16, lambda x: (x["dlu"], x["ulu"])),
                ("TZ", 20, lambda x: (x["q"], x["dst"])), ("TZDec", 20, lambda x: x["o"]), ("DSTDec", 3, None),
                ("UT", 32, lambda x: x["st"]["q"]), ("NameFull", 10, lambda x: len(x["name"])), ("NameShort", 10, lambda x: len(x["name"]))]
        missing = [k for k, _, _ in want if k not in by]
        if missing: raise Infra("C17 generator printed no %s cases" % missing)
        return [(k, _pick(rng, by[k], n * scale, st)) for k, n, st in want]

    def verdict(self, t):
        if t[3] == "SANITY":
            raise Infra("the Go time package and the specification's calendar disagree (%r)" % (t,))
        return (t[2], t[3])


# ------------------------------------------------------------------ C12 identities
class F12(Family):
    name, pid, trace, shards, driver = "f12", "C12", "Trace_C12", 6, "identity"

    def pool(self, c, sd):
        return _gen(c, sd, "MC_C12_gen", "MC_C12_gen", workers=3, expect_all=False, at_least=15000)

    def plan(self, pool, rng, scale, wide=False):
        by = {}
        for x in pool: by.setdefault(x["fam"], []).append(x)
        want = [("plmn", 10), ("amf", 8), ("badamf", 6), ("guti", 4), ("badguti", 6), ("stmsi", 5), ("suci", 6), ("pei", 5)]
        missing = [k for k, _ in want if k not in by]
        if missing: raise Infra("C12 generator printed no %s cases" % missing)
        return [(k, _pick(rng, by[k], n * scale, lambda x: json.dumps(x["w"][:4]) + json.dumps(x["n"]))) for k, n in want]

    def verdict(self, t):
        if t[2] in ("STATS", "NOTE"): return None
        return (t[2], t[3])


# ------------------------------------------------------------------ C13 slice and area lists
class F13(Family):
    name, pid, trace, shards, driver = "f13", "C13", "Trace_C13", 5, "arealists"

    def pool(self, c, sd):
        cases, res = _gen(c, sd, "MC_C13_gen", "MC_C13_gen", workers=3, expect_all=False, at_least=3000)
        # LadnToModels inputs with a zero octet need the sequential driver's child process: not run concurrently
        return [x for x in cases if not (x["fam"] == "ladnind" and 0 in x["w"])], res

    def plan(self, pool, rng, scale, wide=False):
        by = {}
        for x in pool: by.setdefault(x["fam"], []).append(x)
        want = [("snssai", 12), ("snssaiwire", 12), ("nssai", 12), ("badnssai", 12), ("rej", 12), ("tai", 16), ("sal", 16), ("ladn", 12), ("ladnind", 12)]
        missing = [k for k, _ in want if k not in by]
        if missing: raise Infra("C13 generator printed no %s cases" % missing)
        return [(k, _pick(rng, by[k], n * scale)) for k, n in want]

    def verdict(self, t):
        if t[2] in ("STATS", "NOTE"): return None
        return (t[2], t[3])


# ------------------------------------------------------------------ C15 QoS rules / flow descriptions
class F15(Family):
    name, pid, trace, shards, driver, records = "f15", "C15", "Trace_C15", 8, "qos", True

    def pool(self, c, sd):
        cases, res = _gen(c, sd, "MC_C15", "MC_C15_gen", workers=3)
        for x in cases:
            x["cuts"] = False; x["bytes"] = []
        return cases, res

    def add_recorded(self, pool, events):
        """cmd/qos record: seeded random values (round trips) and octet strings, as replayable cases"""
        for ln in events:
            e = json.loads(ln)
            k = "rules" if e["op"].startswith("Rules") else "descs"
            if e["op"].endswith("RoundTrip"):
                pool.append(dict(kind=k, x=e["x"], muts=[], cuts=False, bytes=[], rec=True))
            elif len(e["bytes"]) <= 48:
                pool.append(dict(kind=k[0] + "bytes", x=[], muts=[], cuts=False, bytes=e["bytes"], rec=True))

    COMPS = [0x01, 0x10, 0x11, 0x30, 0x40, 0x41, 0x50, 0x51, 0x60, 0x70, 0x80, 0x81, 0x82, 0x83, 0x84, 0x85, 0x86, 0x87]

    def plan(self, pool, rng, scale, wide=False):
        comp, par, rnd = {}, {}, {"rules": [], "descs": [], "rbytes": [], "dbytes": []}
        for x in pool:
            if x.get("rec"):
                rnd[x["kind"]].append(x); continue
            if x["kind"] == "rules":
                for t in {cm["t"] for r in x["x"] for f in r["filters"] for cm in f["comps"]} or {0}:
                    comp.setdefault(t, []).append(x)
            else:
                for t in {p["id"] for d in x["x"] for p in d["params"]} or {0}:
                    par.setdefault(t, []).append(x)
        missing = [t for t in self.COMPS if t not in comp] + [-p for p in range(1, 8) if p not in par]
        if missing: raise Infra("C15 generator printed no case with component / parameter %s" % missing)

        def thin(x):
            y = dict(x); y["muts"] = _pick(rng, x["muts"], 2); y.pop("rec", None); return y
        blocks = []
        # one block per packet-filter component type (and per flow parameter): every case of the block marshals that
        # type, with the different field values the generator has for it
        for t in sorted(comp):
            vals = lambda x, t=t: json.dumps([cm["f"] for r in x["x"] for f in r["filters"] for cm in f["comps"] if cm["t"] == t])
            blocks.append(("rules-%02x" % t, [thin(x) for x in _pick(rng, comp[t], 4 * scale, vals)]))
        for t in sorted(par):
            vals = lambda x, t=t: json.dumps([p["f"] for d in x["x"] for p in d["params"] if p["id"] == t])
            blocks.append(("descs-%d" % t, [thin(x) for x in _pick(rng, par[t], 3 * scale, vals)]))
        # recorded random values: many components per filter, random labels / addresses / ports
        flow = [x for x in rnd["rules"] if '"t": 128' in json.dumps(x["x"])]
        for k, src, n in (("rules-rand", rnd["rules"], 8), ("rules-rand-flowlabel", flow, 8), ("descs-rand", rnd["descs"], 8),
                          ("rbytes", rnd["rbytes"], 12), ("dbytes", rnd["dbytes"], 12)):
            if src: blocks.append((k, [thin(x) for x in _pick(rng, src, n * scale)]))
        return blocks

    def verdict(self, t):
        return (t[2], t[3])


class F15S(Family):
    """parsed QoS rules / flow descriptions SHARED by all goroutines, which only read them (projection, MarshalBinary): the
    values are marshalled and parsed before the goroutines start (harness/cmd/conc f15s, conc_sync F15_TAIL Share/RunShared);
    the events have the shape of the family's RoundTrip events and are judged by Trace_C15.  The pool is family f15's."""
    name, pid, trace, shards, driver = "f15s", "C15", "Trace_C15", 4, None

    def pool(self, c, sd):
        class R: distinct = 0; generated = 0; wall = 0.0
        return [], R()

    def plan(self, pool, rng, scale, wide=False):
        vals = [x for x in pool if x["kind"] in ("rules", "descs")]
        if len(vals) < 50: raise Infra("family f15s: only %d value cases in the pool of f15" % len(vals))
        # identifiers in every order: the generator's own, reversed (descending), rotated
        out = []
        for x in _pick(rng, vals, 60 * scale, lambda x: json.dumps(x["x"])[:200]):
            y = dict(x); y["muts"] = []; y["cuts"] = False; y.pop("rec", None)
            out.append(y)
            if x["kind"] == "rules" and any(len(r["filters"]) > 1 for r in x["x"]):
                z = json.loads(json.dumps(y))
                for r in z["x"]: r["filters"].reverse()
                out.append(z)
            if len(x["x"]) > 1:
                z = json.loads(json.dumps(y)); z["x"].reverse(); out.append(z)
        return [("shared-qos-%d" % k, out[k:k + 16]) for k in range(0, len(out), 16)]

    def verdict(self, t):
        return (t[2], t[3])


# ------------------------------------------------------------------ C16 PCO / PSI
class F16(Family):
    name, pid, trace, shards, driver, records = "f16", "C16", "Trace_C16", 4, "pco", True

    def pool(self, c, sd):
        a, r1 = _gen(c, sd, "MC_C16", "MC_C16_gen", workers=2)
        b, r2 = _gen(c, sd, "MC_C16", "MC_C16_gen4", workers=2)
        r1.distinct += r2.distinct; r1.generated += r2.generated
        cases = a + b
        for x in cases:
            x.setdefault("units", []); x.setdefault("cuts", []); x.setdefault("data", [])
        return cases, r1

    def add_recorded(self, pool, events):
        for ln in events:
            e = json.loads(ln)
            if e["op"] == "PcoRoundTrip" and sum(len(u["contents"]) for u in e["units"]) < 600:
                pool.append(dict(kind="units", units=e["units"], cuts=[], data=[], rec=True))
            elif e["op"] == "PcoUnMarshal" and len(e["bytes"]) <= 64:
                pool.append(dict(kind="bytes", units=[], cuts=[], data=e["bytes"], rec=True))
            elif e["op"] == "PsiToBool":
                pool.append(dict(kind="psi", units=[], cuts=[], data=[], base=e["in"][0][0] + 256 * e["in"][0][1]))

    def plan(self, pool, rng, scale, wide=False):
        by = {}
        for x in pool: by.setdefault(x["kind"] + ("-rand" if x.get("rec") else ""), []).append(x)

        def thin(x):
            y = dict(x); y["cuts"] = _pick(rng, x["cuts"], 2); y.pop("rec", None); return y
        want = [("units", 16, lambda x: len(x["units"])), ("bytes", 24, lambda x: len(x["data"])), ("units-rand", 10, None), ("bytes-rand", 16, None), ("psi", 2, None)]
        if "units" not in by or "bytes" not in by: raise Infra("C16 generator printed no unit lists / octet strings")
        return [(k, [thin(x) for x in _pick(rng, by[k], n * scale, st)]) for k, n, st in want if k in by]

    def verdict(self, t):
        return (t[2], t[3])


# ------------------------------------------------------------------ C18 UE policy container
class F18(Family):
    name, pid, trace, shards, driver, records = "f18", "C18", "Trace_C18", 6, "uepol", True

    def pool(self, c, sd):
        return _gen(c, sd, "MC_C18_gen", "MC_C18_gen", workers=3)

    DEC_OPS = ("DecodeMsg", "ListUnmarshal", "ContentUnmarshal", "InstrsUnmarshal", "PartsUnmarshal", "ResultUnmarshal", "RContentUnmarshal", "ResultsUnmarshal")

    def add_recorded(self, pool, events):
        """cmd/uepol record: seeded random structures and octet strings (its histories of one live object are stateful: not here)"""
        for ln in events:
            if len(ln) > 6000: continue
            e = json.loads(ln)
            if e["op"] == "Build":
                pool.append(dict(k="build", st=e["st"], jobs=[], rec=True))
            elif e["op"] in self.DEC_OPS and 0 < len(e["in"]) <= 80 and not e["hang"]:
                pool.append(dict(k="dec", jobs=[dict(ops=[e["op"]], base=e["in"], cuts=[len(e["in"])], patches=[])], rec=True))

    def plan(self, pool, rng, scale, wide=False):
        by = {}
        for x in pool: by.setdefault(x["k"] + ("-rand" if x.get("rec") else ""), []).append(x)
        if "build" not in by or "plmn" not in by: raise Infra("C18 generator printed no build / PLMN cases")

        def thin(x):
            y = dict(x); y.pop("rec", None)
            if x["k"] == "build":      # a few of the malformed inputs derived from this structure
                jobs = []
                for j in _pick(rng, x["jobs"], 2):
                    jobs.append(dict(ops=_pick(rng, j["ops"], 2), base=j["base"], cuts=_pick(rng, j["cuts"], 2), patches=_pick(rng, j["patches"], 1)))
                y["jobs"] = [j for j in jobs if len(j["base"]) <= 700]
            if x["k"] == "plmn":
                y["vary"] = sorted(_pick(rng, x["vary"], 10))
            return y
        small = [x for x in by["build"] if len(json.dumps(x["st"])) < 2500]
        want = [("build", small, 10, lambda x: (x["st"]["type"], len(x["st"]["subs"]), len(x["st"]["srs"]))), ("plmn", by["plmn"], 10, lambda x: (x["which"], x["axis"])),
                ("build-rand", by.get("build-rand", []), 10, lambda x: x["st"]["type"]), ("dec-rand", by.get("dec-rand", []), 24, lambda x: x["jobs"][0]["ops"][0])]
        return [(k, [thin(x) for x in _pick(rng, src, n * scale, st)]) for k, src, n, st in want if src]

    def verdict(self, t):
        if t[2] == "INFO": return None
        if t[3] == "panic-nonlib":
            raise Infra("panic outside the library (harness problem): %r" % (t,))
        return (t[2], t[3])


# ------------------------------------------------------------------ C06 / C07 ciphering and integrity
class FSec(Family):
    shards, driver = 12, "sec"

    def __init__(self, name, pid, trace, cfg):
        self.name, self.pid, self.trace, self.cfg = name, pid, trace, cfg

    def pool(self, c, sd):
        cases, res = _gen(c, sd, "MC_C06_gen", self.cfg, workers=2, slack=1)
        return cases, res

    def plan(self, pool, rng, scale, wide=False):
        by = {}
        for x in pool:
            if x["nbits"] <= 320: by.setdefault((x["op"], x["alg"]), []).append(x)
        blocks = []
        for k in sorted(by):
            out = []
            # Two keys per block, used alternately: at any time some goroutines work under the SAME key on different
            # data (state kept per key shows) and some under DIFFERENT keys (state kept for "the" key shows).
            keys = [[rng.randrange(256) for _ in range(16)] for _ in range(2)]
            for j, x in enumerate(_pick(rng, by[k], 6 * scale, lambda x: (x["nbits"], x["bearer"], x["dir"]))):
                # the case determines the call completely: explicit key, COUNT and data (the family driver draws
                # the unspecified ones from its seeded generator)
                y = dict(x)
                y["grp"], y["seq"] = 0, 0
                if not y["key"] or j < 4: y["key"] = keys[j % 2]
                if not y["cnt"]: y["cnt"] = [rng.randrange(256) for _ in range(4)]
                raw = y["op"] in ("GetKeyStream", "Zuc")
                n = 16 if raw else (y["nbits"] + 7) // 8
                if y["dpat"] == 2:
                    data = [rng.randrange(256) for _ in range(n)]
                    if y["op"] in ("NIA", "NASMacCalculate") and y["nbits"] % 8:
                        data[-1] &= (0xff << (8 - y["nbits"] % 8)) & 0xff
                    y["data"] = data
                out.append(y)
            blocks.append(("%s%d" % k, out))
        # long payloads (more than 4 KiB: a library that splits long inputs over helpers / chunks does so here), all goroutines
        # at the same time; the case fixes key, COUNT and data, so equal events of different goroutines are judged once
        for k in sorted(by):
            if k[0] in ("GetKeyStream", "Zuc"): continue
            out = []
            for j in range(2 if wide else 1):
                y = dict(by[k][0])
                n = 16448 if (j == 1 and k[0] in ("NEA", "NASEncrypt")) else 4224 + 64 * j
                y.update(grp=0, seq=0, nbits=8 * n, dpat=2, bearer=(7 * j + 3) % 32, dir=j % 2,
                         key=[(31 * j + 7 * i + 1) % 256 for i in range(16)], cnt=[0, j, 0x5A, 0xFF - j], data=[(i * 131 + j * 17 + (i >> 8)) % 256 for i in range(n)])
                out.append(y)
            blocks.append(("long-%s%d" % k, out))
        return blocks

    dedupe = True      # events are independent of each other: equal lines get equal verdicts

    def verdict(self, t):
        if t[5] == "out-of-domain":
            raise Infra("a call outside the domain of %s was made (%r)" % (self.pid, t))
        return (t[2], t[5]) if len(t) > 5 else tuple(t[2:])


class FSecGuard(FSec):
    """family f08: the calls of the security API that never reach a cipher (NULL algorithms, every refusal), cases from
    MC_C19sec_gen, judged by Trace_C19sec with the guard and NULL laws of SecurityApi.tla (C08)"""
    def __init__(self):
        FSec.__init__(self, "f08", "C08", "Trace_C19sec", "MC_C19sec_gen")

    def pool(self, c, sd):
        return _gen(c, sd, "MC_C19sec_gen", "MC_C19sec_gen", workers=2)

    def plan(self, pool, rng, scale, wide=False):
        by = {}
        for x in pool:
            kind = "null" if x["alg"] == 0 and x["bearer"] <= 31 and x["dir"] <= 1 else "refused"
            by.setdefault((x["op"], kind), []).append(x)
        if len(by) != 4: raise Infra("MC_C19sec_gen printed %d of the 4 case kinds" % len(by))
        return [("%s-%s" % k, _pick(rng, by[k], 24 * scale if k[1] == "null" else 40 * scale, lambda x: (x["alg"], x["bearer"], x["dir"]))) for k in sorted(by)]


# ------------------------------------------------------------------ C14 helpers on UE-supplied contents
class F14(Family):
    """harness/cmd/conc/f14 (generated from cmd/helpers14): the helpers that interpret UE-supplied contents, called by all
    goroutines at once on TLC-generated boundary strings - mostly MALFORMED contents, i.e. the refusal / warning paths the
    other families rarely take; judged by Trace_C14 (no panic; result classes are information there)."""
    name, pid, trace, shards, driver = "f14", "C14", "Trace_C14", 4, "helpers14"

    def pool(self, c, sd):
        res = c.tlc(sd, "MC_C14gen", "MC_C14gen", timeout=900, workers=2)
        if not res.clean: raise Infra("case generator MC_C14gen failed:\n" + res.out[-2000:])
        cases = [json.loads(json.loads(ln)) for ln in res.printed if ln.startswith('"{')]
        if len(cases) < 20000: raise Infra("MC_C14gen printed %d cases" % len(cases))
        # LadnToModels has a recorded class of inputs on which earlier trees did not return; the family driver runs it under
        # its own watchdog protocol - it stays in the sequential check
        return [x for x in cases if x["h"] != "LadnToModels" and len(x["in"]) <= 300], res

    def plan(self, pool, rng, scale, wide=False):
        by = {}
        for x in pool: by.setdefault(x["h"], []).append(x)
        if len(by) < 30: raise Infra("MC_C14gen printed cases for %d helpers only" % len(by))
        return [(h, _pick(rng, by[h], 10 * scale, lambda x: len(x["in"]))) for h in sorted(by)]

    dedupe = True

    def verdict(self, t):
        if len(t) < 4 or t[2] == "NOTE": return None
        return (t[2], t[3])


# ------------------------------------------------------------------ C09 IE field accessors
class F09(Family):
    name, pid, trace, shards, driver = "f09", "C09", "Trace_C09", 4, "ietypes"

    def pool(self, c, sd):
        # the family's generator configuration with the run's seed (as its own check sets it), under a private name
        cfg = open(os.path.join(sd, "MC_C09_gen.cfg")).read()
        import re
        cfg2 = re.sub(r"\bSeed = \w+", "Seed = %d" % (c.seed % 1000), cfg)
        with open(os.path.join(sd, "MC_C19_gen09.cfg"), "w") as fh: fh.write(cfg2)
        res = c.tlc(sd, "MC_C09_gen", "MC_C19_gen09", workers=2, timeout=900)
        if not res.clean:
            raise Infra("case generator MC_C09_gen failed:\n" + res.out[-2000:])
        cases = []
        for ln in res.printed:
            if not ln.startswith('"{'): continue
            o = json.loads(json.loads(ln))
            if "overlap" in o: continue
            o["groups"].sort(key=lambda g: g["L"])
            cases.append(o)
        if len(cases) < 500: raise Infra("MC_C09_gen printed %d fields only" % len(cases))
        cases.sort(key=lambda o: (o["ti"], o["fi"]))
        return cases, res

    def plan(self, pool, rng, scale, wide=False):
        by = {}
        for x in pool: by.setdefault(x["kind"], []).append(x)
        blocks = []
        for kind, n in (("bits", 8), ("iei", 2), ("len", 2), ("slice", 2), ("array", 2)):
            if kind not in by: continue
            out = []
            # wide (two goroutines, many rounds): EVERY accessor pair of the table, one prior and two values each, so that an
            # unsynchronised package-level access inside any single accessor is in front of the race detector in every run;
            # otherwise a seeded sample of pairs, each twice with different priors and values
            for x in (by[kind] if wide else _pick(rng, by[kind], n * scale, lambda x: x["type"])):
                usable = [g for g in x["groups"] if g["priors"] and g["values"]]
                if not usable: raise Infra("MC_C09_gen printed no prior / value for %s.%s" % (x["type"], x["field"]))
                for _ in range(1 if wide else 2):
                    g = rng.choice(usable)
                    out.append(dict(x, groups=[dict(L=g["L"], priors=_pick(rng, g["priors"], 1 if wide else 3), values=_pick(rng, g["values"], 2 if wide else 3))]))
            rng.shuffle(out)
            blocks.append((kind, out))
        if not blocks: raise Infra("MC_C09_gen printed no usable field")
        return blocks

    def verdict(self, t):
        if t[2] == "badevent":
            raise Infra("Trace_C09 could not interpret an event (table / driver plumbing): %r" % (t,))
        return ("Set", t[2])

    @staticmethod
    def registry(pkg):
        """constructor registry generated from the list of type names (plumbing, as in the C09 check).  For the concurrent
        driver also one pair of plain closures per scalar accessor pair: a call through a reflect method value takes its
        frame from a sync.Pool, which orders goroutines that share a processor in the eyes of the race detector."""
        tab = json.load(open(os.path.join(VERIF, "tables", "ie_fields.json")))
        L = ['// generated at check time from tables/ie_fields.json (type and accessor names only): plumbing'] + (['//go:build c19ie', ''] if pkg != "main" else []) + \
            ['package ' + pkg, '', 'import "github.com/free5gc/nas/nasType"', '', 'var Types = map[string]func() any{']
        L += ['\t"%s": func() any { return &nasType.%s{} },' % (t["type"], t["type"]) for t in tab["types"]]
        L += ['}']
        if pkg != "main":
            L += ['', '// Direct: the scalar accessor pairs as plain calls', 'var Direct = map[string]Acc{']
            for t in tab["types"]:
                for f in t["fields"]:
                    if f["gtype"] == f["stype"] and f["stype"] in ("uint8", "uint16"):
                        w = f["stype"][4:]
                        L.append('\t"%s.%s": {G%s: func(x any) %s { return x.(*nasType.%s).%s() }, S%s: func(x any, v %s) { x.(*nasType.%s).%s(v) }},' % (
                            t["type"], f["name"], w, f["stype"], t["type"], f["get"], w, f["stype"], t["type"], f["set"]))
            L += ['}']
        return "\n".join(L) + "\n"


# ------------------------------------------------------------------ shared decoded messages (codec), live receive buffers
class FMsg(Family):
    """harness/cmd/conc/shared.go: messages decoded before the goroutines start are read by all of them (projection,
    re-encoding: cmd/codec's Shared events, judged by Trace_C19) while the owner of each receive buffer ciphers it in place.
    The pool is the codec family's TLC-generated case list (valid inputs), set by the check."""
    name, pid, trace, shards, driver = "fmsg", "C19", "Trace_C19", 6, None
    gen = None

    def pool(self, c, sd):
        class R: distinct = 0; generated = 0; wall = 0.0
        return [], R()

    def plan(self, pool, rng, scale, wide=False):
        by = {}
        for g in pool:
            by.setdefault(g["m"], []).append(g)
        if len(by) < 20: raise Infra("the codec generator printed valid inputs for %d message types only" % len(by))
        picked = []
        for m in sorted(by):      # every message type, every optional element the generator has for it
            picked += _pick(rng, by[m], 4 * scale, lambda g: json.dumps([s["p"] for s in g["w"]["opt"]]))
        rng.shuffle(picked)
        cases = [dict(k="dec", entry="plain", inp=g["inp"]) for g in picked]
        # every message type once more with its full optional set and constant contents (all ones, all zero, ...): a reader that
        # special-cases a reserved value (a wildcard, "not present") takes that path on the shared message here
        from codec_common import fill_variants, merge_wants, encode_value
        extra = []
        for m in sorted(by):
            ws = [g["w"] for g in by[m]]
            full = merge_wants(m, ws)
            for fv in fill_variants(m, full)[:2 + scale]:
                extra.append(dict(k="dec", entry="plain", inp=encode_value(m, fv)))
            extra.append(dict(k="dec", entry="plain", inp=encode_value(m, full)))
        # ... and single elements at every length the generator has for them, contents all ones
        ones, seenl = [], set()
        for m in sorted(by):
            for g in by[m]:
                k = (m, json.dumps([(s["p"], s["len"]) for s in g["w"]["opt"]]))
                if k in seenl or not any(s["p"] for s in g["w"]["opt"]): continue
                seenl.add(k)
                ones.append(dict(k="dec", entry="plain", inp=encode_value(m, fill_variants(m, g["w"])[1])))
        if not wide: ones = rng.sample(ones, min(len(ones), 250 * scale))
        extra += ones
        # ... and every optional element with a two-octet length field at 1 025 and 4 097 octets, contents of its own: a
        # reader-side shortcut for large values (a view instead of a copy) only exists beyond some size
        from codec_common import plain_minimal, TBL
        for m in sorted(by):
            for k, s_ in enumerate(TBL[m]["slots"]):
                if s_["mand"] or s_["lsz"] != 2: continue
                for n in (1025, 4097) + ((16385,) if wide else ()):
                    if s_["min"] <= n <= s_["max"]:
                        extra.append(dict(k="dec", entry="plain", inp=plain_minimal(m) + [s_["iei"], n >> 8, n & 255] + [(0x5B + 3 * k + i * 7) % 256 for i in range(n)]))
        rng.shuffle(extra)
        cases += extra
        return [("shared-%d" % k, cases[k:k + 12]) for k in range(0, len(cases), 12)]

    def verdict(self, t):
        return ("Shared", t[2])


def families(with_sec=True, with_ie=True):
    fs = [F17(), F12(), F13(), F14(), F15(), F15S(), F16(), F18()]
    if with_sec:
        fs += [FSec("f06", "C06", "Trace_C06", "MC_C06_gen"), FSec("f07", "C07", "Trace_C07", "MC_C07_gen"), FSecGuard()]
    if with_ie:
        fs += [F09()]
    return fs + [FMsg()]
