#!/usr/bin/env python3
"""C05 - dispatch on protocol discriminator and message type is exact.
Stage A: TLC checks DispatchLaw on the cube entry point x discriminator octet x type octet x type offset (boundary
sets in quick, the full 3 x 256 x 256 x 2 cube in thorough): routing is a function, the minimal instance of the routed message
decodes to exactly that message, everything that routes nowhere is rejected.  Stage B: every point is printed as an input.
Stage C: the real decoders run on every point (plus nil, empty, every too-short prefix) and the real encoder dispatch runs on all
44 message types, both families x all 256 type values without a body, and no family at all; TLC judges the observed body
pointers (by reflection), header view and error values against NasDispatch.
Added after seeded rounds 3-5: nested messages in every container-like element; routed instances inside security-protected envelopes; held decodes (`dechold`); bodies of both family pointers are counted."""
import json, os, sys
sys.path.insert(0, os.path.dirname(os.path.abspath(__file__)))
from codec_common import *

META = dict(
    property_id="C05", engine="tlc-codec",
    technique="TLC enumerates the dispatch cube (entry x discriminator x type x offset), checks the routing law on the table-driven decoder and emits every point; real decode/encode dispatch observed by reflection over the body pointers and trace-validated by TLC",
    level=("model_checking", "Dispatch is a finite function: TLC enumerates the cube (boundary sets in quick, all 393 216 points in thorough) and every point is executed on the real decoders with the populated body pointers, header view and error judged by TLC; encode dispatch is enumerated completely (44 types, 2 x 256 bare headers, no family).", "7/C05"),
    level_note="Trusted: TLC, Go reflection over the embedded body pointers, tables/messages.json. 'No body' on encode is read as both family pointers nil; a family struct with a known type but nil body pointer panics in generated code and is reported as NOTE only (DESIGN C05-V).",
)


def run(c):
    thorough = c.tier == "thorough"
    sd = c.spec_dir("mc05")
    if thorough:
        full = "{" + ",".join(str(i) for i in range(256)) + "}"
        cfg = "SPECIFICATION Spec\nCONSTANTS B1 = %s\n T = %s\nINVARIANTS DispatchLaw Out\nCHECK_DEADLOCK FALSE\n" % (full, full)
        open(os.path.join(sd, "MC_C05.cfg"), "w").write(cfg)
    res = c.stage_a(sd, "MC_C05", "MC_C05", timeout=2400, coverage=not thorough)
    pts = [json.loads(json.loads(ln)) for ln in res.printed if ln.startswith('"{')]
    if len(pts) != res.distinct:
        raise Infra("dispatch cube incomplete: %d printed vs %d states" % (len(pts), res.distinct))
    drv = c.build_driver("codec")
    cases = [dict(k="dec", entry="plain")]                              # nil pointer
    for entry in ("plain", "gmm", "gsm"):
        cases.append(dict(k="dec", entry=entry, inp=[]))
    seen = set()
    for p in pts:
        cases.append(dict(k="dec", entry=p["entry"], inp=p["inp"]))
        c.count_distinct((p["entry"], tuple(p["inp"][:4])))
        for k in range(1, 4):                                            # every input shorter than a header
            key = (p["entry"], tuple(p["inp"][:k]))
            if key not in seen:
                seen.add(key); cases.append(dict(k="dec", entry=p["entry"], inp=p["inp"][:k]))
    # object reuse: a second decode into the SAME nas.Message must again leave exactly one body (the second input's)
    routed = [p for p in pts if p["routed"] and p["entry"] == "plain"]
    rng = c.rng
    # (same family only: a nas.Message has one pointer per family, and what a decoder should do with the OTHER family's
    #  stale pointer is not stated by the property - no verdict is taken on cross-family reuse)
    byfam = {}
    for p in routed: byfam.setdefault(p["inp"][0], []).append(p)
    for _ in range(400 if not thorough else 4000):
        fam = rng.choice(sorted(byfam))
        a, b = rng.choice(byfam[fam]), rng.choice(byfam[fam])
        cases.append(dict(k="dec2", entry="plain", inp=a["inp"], inp2=b["inp"]))
    # a decoded message is held while the same message type with OTHER don't-care header octets goes through the decoder (and
    # the encoder) twice; only then is the first message read: its single body and its header view are its own
    for p in routed:
        for v in hdr_variants_any(p["inp"]):
            cases.append(dict(k="dechold", entry="plain", inp=p["inp"], inp2=v))
            cases.append(dict(k="dechold", entry="plain", inp=v, inp2=p["inp"]))
    # the routed minimal instances inside a security-protected envelope (header types 1..4, reserved 5, 15), through the plain and
    # the family entry points: routing looks at the octets in front, never at a message further inside
    for p in routed:
        for sht in (1, 2, 3, 4, 5, 15):
            w = wrapped(p["inp"], sht)
            cases.append(dict(k="dec", entry="plain", inp=w))
            if sht in (1, 3): cases.append(dict(k="dec", entry="gmm", inp=w))
    # nested messages: every container-like element of every message carrying the minimal instance of every message of both
    # families (and, for the payload container of the NAS transport messages, every payload container type): the decoder
    # populates ONE body, the outer one, whatever the contents look like
    inners = []
    for t in TABLES:
        if t["family"] == "ENV": continue
        inners.append(plain_minimal(t["name"]))
    for t in TABLES:
        if t["family"] == "ENV": continue
        for sname in container_slots(t["name"]):
            for inner in (inners if thorough else rng.sample(inners, 12)):
                for fixed in ((0x01, 0x11, 0x05, 0x0F) if "Transport" in t["name"] else (0x00, 0x01)):
                    cases.append(dict(k="dec", entry="plain", inp=with_container(t["name"], sname, inner, fixed)))
    # every routed type with the header octets routing ignores at their extreme and reserved values (PTI 0 / 255, PDU session
    # identity 0 / 255, security header type / spare half octet 0xF0 / 0xFF ...): routing looks at discriminator and type only
    for p in routed:
        inp = p["inp"]
        if inp[0] == 0x7E and len(inp) >= 3:
            for v in (0x0F, 0x70, 0x80, 0xF0, 0xFF):
                cases.append(dict(k="dec", entry="plain", inp=inp[:1] + [v] + inp[2:]))
        elif inp[0] == 0x2E and len(inp) >= 4:
            for a in (0x00, 0x01, 0x0F, 0x10, 0x80, 0xFF):
                for b in (0x00, 0x01, 0x7F, 0x80, 0xFE, 0xFF):
                    cases.append(dict(k="dec", entry="plain", inp=inp[:1] + [a, b] + inp[3:]))
    # the instances of every other message of the family under this message's type octet (contents filled with this message's
    # own identifiers), and every message behind octets that look like a framing header
    for t in TABLES:
        if t["family"] == "ENV": continue
        for v in retyped_inputs(t["name"], thorough):
            cases.append(dict(k="dec", entry="plain", inp=v))
        for v in enveloped_inputs(plain_minimal(t["name"])):
            cases.append(dict(k="dec", entry="plain", inp=v))
    byname = {}
    for name, b in samples(3000):
        if len(b) > 3: byname[name] = b
    for name, b in sorted(byname.items()):
        pos = 2 if b[0] == 0x7E else 3
        for t in TABLES:
            if t["family"] == "ENV" or (t["family"] == "GMM") != (b[0] == 0x7E): continue
            if thorough or rng.random() < 0.35:
                cases.append(dict(k="dec", entry="plain", inp=b[:pos] + [t["msgtype"]] + b[pos + 1:]))
    # a receiving message that is not fresh: the OTHER family decoded into it before, or its SecurityHeader view filled in by
    # the caller - routing still follows the octets of the new input (accept / reject and routed body judged, event DecX)
    fams_ = sorted(byfam)
    for _ in range(300 if not thorough else 3000):
        fa, fb = rng.choice(fams_), rng.choice(fams_)
        a, b = rng.choice(byfam[fa]), rng.choice(byfam[fb])
        cases.append(dict(k="dec2x", entry="plain", inp=a["inp"], inp2=b["inp"]))
    unrouted = [p for p in pts if not p["routed"] and p["entry"] == "plain"]
    for p in rng.sample(routed, min(len(routed), 80)) + rng.sample(unrouted, min(len(unrouted), 80)):
        for pre in ([0x7E, 0], [0x2E, 0], [0x7E, 2], [0x00, 4]):
            cases.append(dict(k="dec2x", entry="plain", inp2=p["inp"], pre2=pre))
        a = rng.choice(routed)
        cases.append(dict(k="dec2x", entry="plain", inp=a["inp"], inp2=p["inp"]))
    for p in rng.sample(routed, min(len(routed), 60)):
        cases.append(dict(k="dec2", entry="plain", inp=p["inp"], inp2=[p["inp"][0]]))          # then a too-short input
    # encode dispatch: the never-dispatched envelope body populated next to known / unknown types
    envv = minimal_value("SecurityProtected5GSNASMessage")
    for mt in [0, 1, 255, 0x41, 0x5D, 0x7E] + [t["msgtype"] for t in TABLES if t["family"] == "GMM"][:6]:
        cases.append(dict(k="encdisp", fam="gmm", mt=mt, m="SecurityProtected5GSNASMessage", mand=envv["mand"], opt=envv["opt"]))
    for t in TABLES:
        if t["family"] == "ENV": continue
        mv = minimal_value(t["name"])
        fam = t["family"].lower()
        cases.append(dict(k="encdisp", fam=fam, mt=t["msgtype"], m=t["name"], mand=mv["mand"], opt=mv["opt"]))
        other = next(x for x in TABLES if x["family"] == t["family"] and x["name"] != t["name"])
        cases.append(dict(k="encdisp", fam=fam, mt=other["msgtype"], m=t["name"], mand=mv["mand"], opt=mv["opt"]))   # right family, other type
        for mt in (0, 255, t["msgtype"] ^ 0x80):
            cases.append(dict(k="encdisp", fam=fam, mt=mt, m=t["name"], mand=mv["mand"], opt=mv["opt"]))              # body present, unknown type
    for fam in ("gmm", "gsm"):
        for mt in range(256):
            cases.append(dict(k="encdisp", fam=fam, mt=mt, m=""))
    for mt in (0, 65, 193, 255):
        cases.append(dict(k="encdisp", fam="none", mt=mt, m=""))
        for sht in (1, 2, 3, 4, 15):       # no body, but the SecurityHeader view filled in by earlier security processing
            cases.append(dict(k="encdisp", fam="none", mt=mt, m="", sht=sht))
    for fam in ("gmm", "gsm"):
        for mt in (0x41, 0x5D, 0xC1, 0xD1, 0, 255):
            cases.append(dict(k="encdisp", fam=fam, mt=mt, m="", sht=2))
    events, hang = run_codec(c, drv, cases)
    if hang is not None:
        c.report("Dispatch", "hang", "case %d did not return" % hang, cases[hang]); events = events[:hang]
    c.cov["evaluations"] = len(events)
    mism = c.validate("Trace_C05", events, shards=14 if thorough else 6)

    def classify(idx, t):
        if t[0] != "MISMATCH": return None
        e = json.loads(events[idx])
        what = ("%s %s -> ok=%s bodies=%s: %s" % (e["entry"], e["inp"][:5], e["ok"], e.get("bodies"), t[2])) if e["op"] in ("Dec", "DecX") else ("encode fam=%s mt=%d body=%s -> ok=%s panic=%s: %s" % (e["fam"], e["mt"], e["m"], e["ok"], e["panic"], t[2]))
        return ("DecodeDispatch" if e["op"] in ("Dec", "DecX") else "EncodeDispatch", t[2], what, dict(case=cases[idx], observed=e))

    def confirm(idx, t):
        return confirm_by_tlc(c, drv, cases[idx], "Trace_C05", t[2])
    c.triage(mism, classify, confirm)
    def _c(e): e["hdr"] = [(e["hdr"][0] + 1) % 256] + e["hdr"][1:]; return e
    binding_selftest(c, "Trace_C05", events, lambda x: x.startswith('{"op":"Dec"') and '"ok":true' in x, _c, "the header view's first octet changed")
    c.cov["notes_nil_body"] = sum(1 for _, t in mism if t[0] == "NOTE")
    c.cov["exhaustive"] = bool(thorough)
    c.cov["cube_points"] = len(pts)
    c.cov["rule"] = "cases = real decode / encode dispatch calls; distinct non-trivial = distinct (entry point, first four octets) points of the dispatch cube; short prefixes, nil/empty and the encode-side enumeration come on top"
    for i in (0, len(pts) // 2, len(events) - 300, len(events) - 1):
        c.sample(events[i], maxlen=400)
    c.assumptions += ["the family entry points route on the type octet only (they do not look at the discriminator), as their contract says"]


if __name__ == "__main__":
    main("C05", run)
