#!/usr/bin/env python3
"""X03 - a received message, end to end (growth beyond the listed properties; DESIGN.md section 13 item 6: the per-IE
semantic decoders chained after the message decoder).  The message codec (C01-C05, C10) and the converters / getters on
element contents (C09, C12-C17, X02) are specified and checked separately, each on its own inputs.  A network function
does both in one go.  spec/ReceivedMessage.tla is the composition:  Received(b) == LET m == DecodePlain(b) IN the record of
what the receiver reads, every reading defined by the operators of the existing modules applied to the decoded element.
Not registered in MANIFEST.json; run as   python3 tools/checks/x03.py [--tier quick|thorough]   (VERIF_SEED, VERIF_REPO
as for the registered checks).  See docs/X03-received-message.md.

Stage A: TLC checks the composition's own laws on the generative grammar of the twelve bound messages with semantically
         meaningful element contents (spec/X03Cases.tla: valid identities of every type, NSSAI lists, bitmaps, names, QoS
         rules ... and malformed contents): totality (MC_X03 XTotal; MC_X03_rd on every admitted octet string over two
         small alphabets), locality (XOwn: a reading is the reader applied to its own element's case; XLocal: replacing a
         content octet of another element changes nothing), end-to-end round trip (XRound: what was encoded from values is
         read back as the texts / lists of those values).  Negative controls must fail.
Stage B: every state of that machine is an input for the real code (TLC prints it); -simulate adds long paths; the
         repository's sample messages, every prefix of accepted inputs and seeded random mutations of all of these come on top;
         messages BUILT with the real encoders from TLC-chosen model values are received as well.
Stage C: harness/cmd/received decodes with nas.Message.PlainNasDecode and calls the real converters / getters on the decoded
         objects, twice, with a second message of the same type and a scribbled input buffer in between;
         spec/trace/Trace_X03.tla recomputes Received(input) and compares reading by reading."""
import json, os, sys
from concurrent.futures import ThreadPoolExecutor
sys.path.insert(0, os.path.dirname(os.path.dirname(os.path.abspath(__file__))))
sys.path.insert(0, os.path.dirname(os.path.abspath(__file__)))
from vlib import *
from codec_common import TBL, TABLES, samples

META = dict(
    property_id="X03", engine="tlc-received",
    technique="TLA+ composition of the table-driven message decoder with the specifications of the converters and getters (Received(b)), its laws (totality, locality, end-to-end round trip) model-checked by TLC on a generative grammar with semantically meaningful element contents; the same grammar paths, long simulated paths, repository samples, prefixes and seeded mutations replayed into nas.Message.PlainNasDecode + the real helpers on the decoded objects (every reading twice, with a second message and a scribbled buffer in between); every observation judged by a total TLA+ trace specification",
    level=("model_checking", "The laws of the composition are checked exhaustively on small domains: every case of every bound element of twelve message types alone (and in pairs in the thorough tier), every admitted contents over two small alphabets for every reader.  The real code is bound by replaying the TLC-generated inputs and judging every reading with Received(input) recomputed by TLC.", "13 item 6"),
    level_note="Trusted: TLC, the Go runtime, Go reflection (method lookup by name), the specifications of C04/C09/C12-C17/X02 that are composed (already validated against the unchanged tree).  On the real code: bounded samples (TLC-enumerated small depths + simulation + seeded mutations), not all inputs.",
)

BOUND_MSGS = ["ConfigurationUpdateCommand", "DLNASTransport", "DeregistrationRequestUEOriginatingDeregistration", "IdentityResponse",
              "PDUSessionEstablishmentAccept", "PDUSessionEstablishmentRequest", "PDUSessionModificationCommand", "RegistrationAccept",
              "RegistrationRequest", "ServiceAccept", "ServiceRequest", "ULNASTransport"]
LAWS = "XTotal XOwn XRound XLocal"


def set_cfg(sd, name, new_name, repl):
    txt = open(os.path.join(sd, name + ".cfg")).read()
    for a, b in repl:
        if a not in txt:
            raise Infra("cfg %s: %r not found" % (name, a))
        txt = txt.replace(a, b)
    with open(os.path.join(sd, new_name + ".cfg"), "w") as f:
        f.write(txt)
    return new_name


def expect_violation(c, sd, module, cfg, prop, what):
    """negative control: the configuration must violate exactly `prop`"""
    res = c.tlc(sd, module, cfg, workers=1, timeout=600)
    if res.rc == 124:
        raise Infra("negative control timed out: " + cfg)
    if res.violated != prop:
        raise Infra("negative control %s: expected %s to be violated, TLC says %r\n%s" % (cfg, prop, res.violated, res.out[-1500:]))
    c.cov["states"] += res.distinct; c.cov["transitions"] += res.generated
    c.cov["stage_a"].append(dict(config=cfg, generated=res.generated, distinct=res.distinct, wall_s=round(res.wall, 1),
                                 expected_violation=prop, shows=what))


BY_TYPE = {(t["family"], t["msgtype"]): t["name"] for t in TABLES if t["family"] in ("GMM", "GSM")}


def msg_of(inp):
    """message a plain input is routed to (orchestration only: to choose a second message of the same type)"""
    if len(inp) >= 3 and inp[0] == 0x7E: return BY_TYPE.get(("GMM", inp[2]), "")
    if len(inp) >= 4 and inp[0] == 0x2E: return BY_TYPE.get(("GSM", inp[3]), "")
    return ""


def hexs(b, n=48):
    return " ".join("%02x" % x for x in b[:n]) + (" .. (%d octets)" % len(b) if len(b) > n else "")


def show(v, n=160):
    s = json.dumps(v, separators=(",", ":"))
    return s if len(s) <= n else s[:n] + ".."


def run(c):
    thorough = c.tier == "thorough"
    sd = c.spec_dir("specA")
    # ------------------------------------------------------------------ stage A (+ the generator channel of MC_X03)
    if thorough:
        main_cfg = set_cfg(sd, "MC_X03", "MC_X03_d2", [("MaxOpt = 1", "MaxOpt = 2")])
        extra = [("MC_X03", set_cfg(sd, "MC_X03", "MC_X03_all", [("AllDeep = FALSE", "AllDeep = TRUE"), ("Gen = TRUE", "Gen = FALSE"), (" Out", "")]), 4),
                 ("MC_X03_rd", set_cfg(sd, "MC_X03_rd", "MC_X03_rd_t", [("RdLenA = 2 RdLenB = 4", "RdLenA = 3 RdLenB = 6")]), 4)]
    else:
        main_cfg = "MC_X03"
        extra = [("MC_X03_rd", "MC_X03_rd", 2)]
    res_main = {}
    def job_main():
        res_main["r"] = c.stage_a(sd, "MC_X03", main_cfg, workers=4 if thorough else 2, timeout=2400)
    with ThreadPoolExecutor(max_workers=2 if not thorough else 1) as ex:
        futs = [ex.submit(job_main)] + [ex.submit(c.stage_a, sd, mod, cfg, workers=w, timeout=2400) for mod, cfg, w in extra]
        for f in futs: f.result()
    for rec in c.cov["stage_a"]:
        rec["laws"] = "RdTotal + ASSUME RdCases" if "rd" in rec["config"] else LAWS
    nsim = 1500 if thorough else 220
    sim = {}
    def job_sim():
        sim["res"] = c.tlc(sd, "MC_X03", "MC_X03_sim", workers=1, simulate="file=beh,num=%d" % nsim, depth=8, timeout=1200)
    def job_build():
        res = c.tlc(sd, "MC_X03_build", "MC_X03_build", workers=1, timeout=600)
        if not res.clean: raise Infra("build-case generator failed:\n" + res.out[-2000:])
        sim["built"] = [json.loads(json.loads(ln)) for ln in res.printed if ln.startswith('"{')]
        c.cov["states"] += res.distinct; c.cov["transitions"] += res.generated
    with ThreadPoolExecutor(max_workers=4) as ex:
        futs = [ex.submit(job_sim), ex.submit(job_build),
                ex.submit(expect_violation, c, sd, "MC_X03", "MC_X03_neg1", "XNeverOpen", "malformed element contents reach the readers and read as \"open\" (XTotal / XOwn are not vacuous on them)"),
                ex.submit(expect_violation, c, sd, "MC_X03", "MC_X03_neg2", "XNeverRefused", "cases whose length is out of the element's bounds reach the decoder and are refused")]
        for f in futs: f.result()
    gen = [json.loads(json.loads(ln)) for ln in res_main["r"].printed if ln.startswith('"{')]
    if len(gen) < 500:
        raise Infra("MC_X03 printed too few cases (%d)" % len(gen))
    behs = read_sim_behaviours(sd, "beh")
    if len(behs) < nsim // 2:
        raise Infra("simulation produced too few behaviours (%d)\n%s" % (len(behs), sim["res"].out[-1500:]))
    c.cov["transitions"] += sim["res"].generated

    # ------------------------------------------------------------------ stage B: the inputs
    rng = c.rng
    bases, seen = [], set()
    def add(src, m, inp, ok):
        k = tuple(inp)
        if k in seen: return
        seen.add(k); bases.append(dict(src=src, m=m, inp=list(inp), ok=ok))
    for g in gen: add("gen", g["m"], g["inp"], g["ok"])
    nwalk = 0
    for b in behs:
        for _, st in b:
            if st.get("gN", 0) >= 2:
                add("walk", st["gMsg"], st["gInp"], not st["gBad"] and not st["gWild"]); nwalk += 1
    nsamp = 0
    for name, b in samples(6000):
        add("sample", msg_of(b), b, True); nsamp += 1
    acc = {}
    for x in bases:
        if x["ok"]: acc.setdefault(x["m"], []).append(x["inp"])
    by_len = {}
    for m, pool in acc.items():
        for a in pool: by_len.setdefault((m, len(a)), []).append(a)
    def alt_for(m, inp):
        """a second, different message of the same type: of the same length when there is one (same shape, other contents)"""
        pools = ([by_len.get((m, len(inp))) or []] if inp is not None else []) + [acc.get(m) or []]
        for pool in pools:
            for _ in range(4):
                if not pool: break
                a = rng.choice(pool)
                if a != inp: return a
        return []
    for x in bases: x["alt"] = alt_for(x["m"], x["inp"])
    cases = [dict(src=x["src"], inp=x["inp"], alt=x["alt"]) for x in bases]
    cut_from = [x for x in bases if x["ok"] and 6 <= len(x["inp"]) <= 160 and x["m"] in BOUND_MSGS]
    ncut = 0
    for x in rng.sample(cut_from, min(len(cut_from), 500 if thorough else 80)):          # every truncation point of accepted inputs
        for i in range(len(x["inp"])):
            k = tuple(x["inp"][:i])
            if k in seen: continue
            seen.add(k); cases.append(dict(src="prefix", inp=x["inp"][:i], alt=x["alt"])); ncut += 1
    if len(sim["built"]) < 100:
        raise Infra("MC_X03_build printed too few cases (%d)" % len(sim["built"]))
    for b in sim["built"]:                                                              # messages built with the real encoders
        cases.append(dict(k="build", src="built", b=b["b"], alt=alt_for(b["b"]["m"], None)))
    c.cov["inputs"] = dict(generated_states=len(gen), simulated_walks=len(behs), walk_states=nwalk, repository_samples=nsamp, prefixes=ncut,
                           built_with_the_real_encoders=len(sim["built"]))

    # ------------------------------------------------------------------ stage C: the real code
    drv = c.build_driver("received")
    cp = os.path.join(c.scratch, "cases.json"); json.dump(cases, open(cp, "w"))
    bp = os.path.join(c.scratch, "bases.json"); json.dump([dict(src=x["src"], inp=x["inp"], alt=x["alt"]) for x in bases], open(bp, "w"))
    o1 = os.path.join(c.scratch, "replay.ndjson"); o2 = os.path.join(c.scratch, "record.ndjson")
    with ThreadPoolExecutor(max_workers=2) as ex:
        f1 = ex.submit(c.run_driver, drv, ["replay", cp, o1]); f2 = ex.submit(c.run_driver, drv, ["record", bp, o2])
        f1.result(); f2.result()
    ev1, ev2 = read_ndjson(o1), read_ndjson(o2)
    events = ev1 + ev2
    per = 6 if thorough else 3
    def root_case(idx):
        """the case (as given to `replay`) that reproduces event idx: the outer input of a carried message, with its second message"""
        j = idx
        while '"src":"inner"' in events[j][:40] and j > 0: j -= 1
        e = json.loads(events[j])
        if e["op"] == "Built": return cases[e["id"]]
        alt = cases[e["id"]]["alt"] if j < len(ev1) else bases[e["id"] // per]["alt"]
        return dict(src=e["src"], inp=e["inp"], alt=alt)
    per_msg, per_src, calls = {}, {}, 0
    for ln in events:
        e = json.loads(ln)
        per_src[e["src"]] = per_src.get(e["src"], 0) + 1
        if e["ok"]: per_msg[e["msg"]] = per_msg.get(e["msg"], 0) + 1
        calls += 2 + sum(1 for r in e["f"] if r["st"] != "absent") + sum(1 for r in e["g"] if r["st"] != "absent")
        if e["ok"] and any(r["st"] != "absent" for r in e["f"]):
            c.count_distinct(hash((e["msg"], tuple(e["inp"]))))
    c.cov["events_per_source"] = per_src
    c.cov["accepted_events_per_message"] = per_msg
    c.cov["evaluations"] = calls
    mism = c.validate("Trace_X03", events, shards=4)
    stats = list(c._x03_stats)

    def classify(idx, t):
        if t[0] != "MISMATCH": return None
        e = json.loads(events[idx])
        msg, field, cls = t[2], t[3], t[4]
        op = field if msg != "Decode" else "Decode"
        obs = ""
        for r, r2 in zip(e["f"], e["g"]):
            if r["n"] + "." + r["a"] == field:
                obs = "; observed %s %s, second reading %s %s%s" % (r["st"], show(r["v"]), r2["st"], show(r2["v"]),
                                                                     (" in " + (r["fn"] or r2["fn"])) if (r["fn"] or r2["fn"]) else "")
        what = "%s: %s of a received %s (%s)%s; input %s" % (op, cls, msg, e["src"], obs, hexs(e["inp"]))
        return (op, cls, what, dict(case=root_case(idx), message=msg, reading=field,
                                    how="harness/cmd/received replay [case] out.ndjson; validate out.ndjson with spec/trace/Trace_X03"))

    def history(idx, k):
        """the root cases of the k events that the same driver process handled before event idx (its own included, last)"""
        lo, hi = (0, len(ev1)) if idx < len(ev1) else (len(ev1), len(events))
        out, j = [], idx
        while j >= lo and len(out) < k:
            if '"src":"inner"' not in events[j][:40]: out.append(root_case(j))
            j -= 1
        return list(reversed(out))

    def confirm(idx, t):
        """reproduce in a fresh driver process: the case alone; if that does not show it, after the cases that preceded it in the
        same process (a reading may depend on what the library kept from EARLIER messages)"""
        for hist in ([root_case(idx)], history(idx, 60)):
            p2 = os.path.join(c.scratch, "confirm.json"); json.dump(hist, open(p2, "w"))
            o3 = os.path.join(c.scratch, "confirm.ndjson")
            c.run_driver(drv, ["replay", p2, o3])
            evs = read_ndjson(o3)
            n0 = c.cov["traces_validated_against_impl"]
            again = c.validate("Trace_X03", evs, shards=1)
            c.cov["traces_validated_against_impl"] = n0
            if any(a[1][2:5] == t[2:5] for a in again): return True
        return False
    c.triage(mism, classify, confirm, per_class=2, total=24)

    # ------------------------------------------------------------------ binding self-test
    if c.violations:
        c.cov["binding_selftest"] = "skipped: the run already reports violations"
    else:
        badidx = {m[0] for m in mism}
        def clean():
            for i, x in enumerate(events):
                if i not in badidx and '"ok":true' in x and '"hang":false' in x:
                    yield json.loads(x)
        def pick(pred):
            for e in clean():
                k = pred(e)
                if k is not None: return json.loads(json.dumps(e)), k
            raise Infra("self-test: no suitable recorded event")
        def find(name, st="val", nonempty=True):
            def p(e):
                for k, r in enumerate(e["f"]):
                    if r["n"] + "." + r["a"] == name and r["st"] == st and e["g"][k] == r and (r["v"] or not nonempty): return k
                return None
            return p
        tests = []
        e, k = pick(lambda e: find("MobileIdentity5GS.id")(e) if any(r["a"] == "type" and r["st"] == "val" and r["v"] == [83, 85, 67, 73] for r in e["f"]) else None)
        for rs in (e["f"], e["g"]): rs[k]["v"][0][-1] ^= 1
        tests.append((e, {("MobileIdentity5GS.id", "wrong-value")}, "a digit of the SUCI text"))
        e, k = pick(find("PDUSessionStatus.bools"))
        e["g"][k]["v"][3] ^= 1
        tests.append((e, {("PDUSessionStatus.bools", "reading-changed")}, "one entry of the second PSI bitmap"))
        e, k = pick(find("RequestedNSSAI.list"))
        for rs in (e["f"], e["g"]): rs[k]["st"], rs[k]["v"] = "err", []
        tests.append((e, {("RequestedNSSAI.list", "valid-rejected")}, "the S-NSSAI list replaced by an error"))
        e, k = pick(find("UplinkDataStatus.bits", st="absent", nonempty=False))
        for rs in (e["f"], e["g"]): rs[k]["st"], rs[k]["v"] = "val", [0] * 16
        tests.append((e, {("UplinkDataStatus.bits", "presence")}, "an absent element read as present"))
        e, k = pick(find("ExtendedProtocolConfigurationOptions.units"))
        for rs in (e["f"], e["g"]): rs[k]["v"][0]["id"] ^= 1
        tests.append((e, {("ExtendedProtocolConfigurationOptions.units", "wrong-value"), ("ExtendedProtocolConfigurationOptions.units", "contents-not-in-input")}, "a container identifier of the PCO list"))
        e, k = pick(lambda e: next((i for i, w in enumerate(e["want"]) if w["a"] == "list" and w["n"] == "TAIList"), None) if e["op"] == "Built" else None)
        e["want"][k]["v"][0]["tac"][-1] ^= 1
        tests.append((e, {("TAIList.list", "built-differs")}, "a TAC digit of the TAI list handed to the real encoder"))
        e, k = pick(lambda e: 0 if e["msg"] in BOUND_MSGS and e["src"] == "sample" else None)
        e["ok"], e["msg"], e["f"], e["g"] = False, "", [], []
        tests.append((e, {("-", "rejects-inside-grammar")}, "an accepted message logged as refused"))
        good = json.dumps(pick(lambda e: 0 if e["f"] else None)[0])
        lines = []
        for e, _, _ in tests: lines += [json.dumps(e), good]
        n0 = c.cov["traces_validated_against_impl"]
        st = c.validate("Trace_X03", lines, shards=1)
        c.cov["traces_validated_against_impl"] = n0
        got = {}
        for i, t in st: got.setdefault(i, set()).add((t[3], t[4]))
        for k, (e, want, what) in enumerate(tests):
            g = got.get(2 * k, set())
            if not g or not g <= want:
                raise Infra("binding self-test: event with %s corrupted was judged %r, expected a non-empty subset of %r" % (what, sorted(g), sorted(want)))
            if (2 * k + 1) in got:
                raise Infra("binding self-test: the untouched event was rejected: %r" % got[2 * k + 1])
        c.cov["binding_selftest"] = "%d recorded events with one corrupted logged field each (%s) rejected by TLC with exactly the expected reading and class, the untouched events between them accepted" % (len(tests), "; ".join(w for _, _, w in tests))

    # ------------------------------------------------------------------ information and coverage accounting
    opens = {}
    for k, n in c._x03_open.items():
        opens.setdefault((k[1], k[2]), set()).add(k[0])
    by_field = {}
    for (field, st), msgs in opens.items(): by_field.setdefault(field, []).append(st)
    for field in sorted(by_field):
        c.note("information (not a verdict): %s on contents outside the domain of the underlying properties -> observed %s" % (field, ", ".join(sorted(by_field[field]))))
    if c._x03_notes:
        c.note("information: %d event(s) where the real decoder and the table-driven decoder differ on inputs with unknown identifiers (outside C04's verdict)" % c._x03_notes)
    s = stats
    c.cov["readings_by_specification_status"] = dict(val=s[0], err=s[1], valerr=s[2], pfx=s[3], open=s[4], absent=s[5])
    c.cov["rule"] = ("evaluations = real API calls (two decodes + every reading of a present element, both passes); "
                     "distinct non-trivial = distinct accepted inputs of the twelve bound messages with at least one present bound element; "
                     "readings_by_specification_status counts the bound readings TLC compared (first pass), by what the specification fixes")
    c.cov["exhaustive"] = False
    for i in (0, len(events) // 2, len(events) - 1):
        c.sample(events[i], maxlen=500)
    c.sample(cases[len(cases) // 3])
    c.assumptions += ["the composed specifications (NasCodec, IeFieldTable, Identity, AreaLists, Psi, PcoGrammar, QosGrammar, TimersRatesNames, MiscConvert) are the reference; X03 adds only the binding table and the choice of operator per reader",
                      "readings on contents outside the domain of the underlying properties (malformed identities, unused PDU session type values, inexact QoS / DNN contents ...) are information, except: no panic, no hang, the second reading equals the first",
                      "inputs whose decode differs between the real and the table-driven decoder in the presence of unknown identifiers are outside the verdict (as in C04)",
                      "the allowed / configured NSSAI is handed to RequestedNssaiToModels through a RequestedNSSAI value with the same three fields (the library has one decoder of S-NSSAI lists)"]


_orig_tlc = Check.tlc
def _tlc(self, workdir, module, cfg=None, **kw):
    res = _orig_tlc(self, workdir, module, cfg, **kw)
    if module == "Trace_X03":
        for ln in res.printed:
            t = parse_tla_tuple(ln)
            if not t: continue
            if t[0] == "HARNESS":
                raise Infra("harness problem reported by the trace specification: %r" % (t,))
            if t[0] == "OPEN":
                k = (t[2], t[3], t[4]); self._x03_open[k] = self._x03_open.get(k, 0) + 1
            if t[0] == "NOTE": self._x03_notes += 1
            if t[0] == "STATS":
                for i in range(6): self._x03_stats[i] += t[1 + i]
    return res
Check.tlc = _tlc
Check._x03_open = {}
Check._x03_notes = 0
Check._x03_stats = [0] * 6


if __name__ == "__main__":
    if "--tier" in sys.argv:
        os.environ["VERIF_TIER"] = sys.argv[sys.argv.index("--tier") + 1]
    main("X03", run)
