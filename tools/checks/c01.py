#!/usr/bin/env python3
"""C01 - decoding arbitrary bytes never panics, hangs or over-allocates.
Stage A/B (one TLC run): the small-step decoder machine (NasMachine.tla) runs on every path of the generator tree
(every message x every slot x declared length 0..max+1 classes x every truncation class): invariants DTypeOK (no panic
phase: no declared length can exceed an array's capacity), DProgress (each step consumes input or ends), DAllocBound
(allocated <= input + 64 KiB), DAgrees (terminated run = big-step Decode) and the liveness property Terminates.
Stage C: the real decoders (three entry points) run on those inputs, on every truncation point of accepted inputs and of the
repository samples, on single-octet substitutions at every position, on seeded random strings up to 70 000 octets, on
65 535-octet elements followed by garbage and on allocation-amplification shapes; the driver observes panic / hang
(watchdog, journaled) / bytes allocated; TLC judges each observation against the property's bound.
Inputs added after seeded rounds 3-5: a 66 000-octet run of unknown identifiers for EVERY message; every optional element repeated 6 / 64 times; the first content octet of every optional element over 39 values (thorough: 256); dictionary fills (printf directives, raw and as length-prefixed labels); the largest undelivered claim of every 16-bit-length element repeated 1000 times; decode inputs are views of larger arrays with a sentinel behind them."""
import json, os, re, sys
sys.path.insert(0, os.path.dirname(os.path.abspath(__file__)))
from codec_common import *
from codec_common import _enc_slot

META = dict(
    property_id="C01", engine="tlc-codec",
    technique="TLC model-checks the small-step decoder machine (no-panic, progress, allocation bound, termination) on the generator tree and emits every path; real decoders run on those plus truncations/substitutions/random/huge inputs with panic, hang and allocation observed and judged by a TLA+ trace spec",
    level=("model_checking", "The resource statements are invariants and a liveness property of the decoder machine checked by TLC on every path of the bounded generator; the code is bound by running every generated path, every truncation, every single-octet substitution and large random/huge inputs through the three real entry points while observing panic, hang and allocated bytes.", "7/C01"),
    level_note="Trusted: TLC, Go runtime metrics (/gc/heap/allocs:bytes), recover(), a 20 s watchdog. Allocation bound 16*len + 3*64KiB + 8KiB calibrated on the unchanged tree (about 1.7x above the worst legitimate case). Random inputs are a sample of the 256^n space; the structured enumeration is what pins each guard.",
)

FAM_ENTRY = {"GMM": "gmm", "GSM": "gsm"}


def run(c):
    thorough = c.tier == "thorough"
    rng = c.rng
    gen = mc_codec(c, 2 if thorough else 1, shards=9 if thorough else 3, liveness=True if not thorough else False, coverage=not thorough)
    if thorough:        # liveness on the depth-1 tree as well (the depth-2 run checks safety only)
        g1 = mc_codec(c, 1, shards=3, liveness=True)
    drv = c.build_driver("codec")
    cases = []
    SMALL = 600

    def add(entry, inp, m="", cmp=False):
        cases.append(dict(k="dec", entry=entry, inp=inp, m=m, big=(SMALL if cmp else -1), lean=True))
    # nil / empty / short headers on all entries
    cases.append(dict(k="dec", entry="plain", big=SMALL, lean=True))                     # nil pointer (PlainNasDecode only: its documented guard)
    for entry in ("plain", "gmm", "gsm"):
        for inp in ([], [0x7E], [0x2E], [0x7E, 0], [0x2E, 0], [0x7E, 0, 0x41], [0x2E, 1, 0], [0x2E, 1, 0, 0xC1], [0, 0, 0, 0], [0xFF] * 5):
            add(entry, inp, cmp=True)
    for g in gen:
        t = TBL[g["m"]]
        cmp = rng.random() < (0.3 if not thorough else 0.03)
        if t["family"] == "ENV":
            add("body", g["inp"], g["m"], cmp); continue
        add("plain", g["inp"], cmp=cmp)
        if not thorough or rng.random() < 0.2:
            add(FAM_ENTRY[t["family"]], g["inp"])
            add("gsm" if t["family"] == "GMM" else "gmm", g["inp"])          # the other family's entry point
        c.count_distinct((g["m"], tuple(g["inp"][len(header(g["m"])):])))
    acc = [g for g in gen if g["ok"] and TBL[g["m"]]["family"] != "ENV"]
    if thorough: acc = rng.sample(acc, min(len(acc), 8000))
    seen = set()
    for g in acc:
        inp = g["inp"]
        for i in range(len(inp)):                                             # every truncation point
            k = tuple(inp[:i])
            if k not in seen:
                seen.add(k); add("plain", inp[:i])
        pos = range(len(inp)) if len(inp) <= 80 else sorted(set(list(range(40)) + rng.sample(range(len(inp)), 40)))
        for i in pos:                                                         # substitutions at every position (hits every length field)
            for v in (0, 0xFF, (inp[i] + 1) % 256, (inp[i] - 1) % 256):
                if v != inp[i]:
                    add("plain", inp[:i] + [v] + inp[i + 1:])
    # every value of every length octet: one accepted representative per (message, slot); the rest of the input unchanged
    rep = {}
    for g in sorted((g for g in gen if g["ok"] and not g["unk"] and TBL[g["m"]]["family"] != "ENV"), key=lambda g: -len(g["inp"])):
        for pos, lsz, sname in length_positions(g["m"], g["inp"]):
            rep.setdefault((g["m"], sname, lsz), (g["inp"], pos))
    for (mname, sname, lsz), (inp, pos) in rep.items():
        for k in range(lsz):
            for v in range(256):
                if v != inp[pos + k]:
                    add("plain", inp[:pos + k] + [v] + inp[pos + k + 1:])
    c.cov["length_octets_swept"] = sum(l for (_, _, l) in rep)
    # long runs of unknown identifiers after a valid mandatory part (must stay linear), per message
    for t in TABLES:
        if t["family"] == "ENV": continue
        mv = minimal_value(t["name"])
        base = [x for s_, ts in zip(mv["mand"], [q for q in t["slots"] if q["mand"]]) for x in (([s_["len"]] if ts["lsz"] == 1 else [s_["len"] >> 8, s_["len"] & 255] if ts["lsz"] == 2 else []) + s_["v"][:(s_["len"] if ts["lsz"] else len(s_["v"]))])]
        u = unknown_octet(t["name"])
        add("plain", base + [u] * 3000)
        add("plain", base + [u] * 66000)          # beyond 65 535 octets: a 16-bit position or length inside a decoder wraps here
        if thorough:
            add(FAM_ENTRY[t["family"]], base + [u] * 131100)
    # every optional element of every message repeated (last duplicate wins): k instances may cost k times the element, never
    # k times a maximum-size element - the allocation bound has room for ONE maximum-size element
    for m, (b0, singles) in sorted(singles_by_message(gen).items()):
        byiei = {}
        for e in singles: byiei.setdefault(e[0] if e[0] < 128 else e[0] // 16, []).append(e)
        for iei, es in sorted(byiei.items()):
            one = min(es, key=len)
            add("plain", b0 + one * 6)
            if thorough or rng.random() < 0.2:
                add("plain", b0 + one * 64 + max(es, key=len))
    # relations BETWEEN elements and between a mandatory value and the optional part: every pair of different optional elements
    # in definition order and the full set, contents of their own; small values of each one-octet mandatory element with each
    # optional element behind (a decoder that cross-checks or post-processes what it has read branches on these)
    for m, (b0, singles) in sorted(singles_by_message(gen).items()):
        for v in canonical_pairs(m, b0, singles): add("plain", v)
        for v in mand_value_inputs(m, b0, singles, range(256) if thorough else list(range(8)) + [0x0F, 0x80, 0xFF]): add("plain", v)
    # contents, not framing: the first content octet of every optional element takes many values (a decoder that inspects
    # contents - a code, a type, a sub-length - branches on it), and variable-length elements are filled with text that is
    # dangerous when it reaches a formatter (printf directives with huge widths), after a valid mandatory part and alone
    DICT = [b"%999999[1]d", b"%[1]999999x", b"%999999d", b"%[1]*d%s%n%v", b"%!s(MISSING)%9999999x", b"%s%s%s%s%s%s%s%s", b"%+999999v"]
    for m, (b0, singles) in sorted(singles_by_message(gen).items()):
        slot = {}
        for sl in TBL[m]["slots"]:
            if not sl["mand"]: slot.setdefault(sl["iei"], sl)
        byiei = {}
        for e in singles: byiei.setdefault(e[0] if e[0] < 128 else e[0] // 16, []).append(e)
        for iei, es in sorted(byiei.items()):
            sl = slot.get(iei)
            if sl is None or sl["half"]: continue
            one = max(es, key=len); off = 1 + sl["lsz"]
            if len(one) <= off: continue
            vals = range(256) if thorough else list(range(32)) + [0x2E, 0x7E, 0x7F, 0x80, 0xC0, 0xFE, 0xFF]
            for v in vals:
                if v != one[off]: add("plain", b0 + one[:off] + [v] + one[off + 1:])
                if len(one) > off + 1 and (thorough or v < 32):    # the same with nothing but zeros / ones behind the first octet
                    add("plain", b0 + one[:off] + [v] + [0] * (len(one) - off - 1))
                    add("plain", b0 + one[:off] + [v] + [0xFF] * (len(one) - off - 1))
            if sl["lsz"] > 0 and sl["data"] == "buf" and sl["max"] >= 24:
                for d in DICT:
                    n = min(sl["max"], 120); body = list((d * (n // len(d) + 1))[:n])
                    add("plain", b0 + [one[0]] + ([n] if sl["lsz"] == 1 else [n >> 8, n & 255]) + body)
                    # the same text as length-prefixed labels (names, lists of strings) ended by an impossible length octet
                    lab = [len(d)] + list(d); k = max(1, (min(sl["max"], 100) - 1) // len(lab))
                    for end in ([0xC0], [0xFF, 0x00]):
                        body = (lab * k + end)[:sl["max"]]
                        add("plain", b0 + [one[0]] + ([len(body)] if sl["lsz"] == 1 else [len(body) >> 8, len(body) & 255]) + body)
    # contents that look like a small PACKET: code, identifier, big-endian inner length (an EAP packet, a TLV, a nested
    # header) with code and inner length varied INDEPENDENTLY - inner length 0, below its own header, equal to the header
    # (an empty packet), around the real length; and contents that are the first 1..4 octets of a nested NAS message (a
    # header that is cut short) in a message that otherwise carries its full optional set
    fulls = {}
    for m, (b0, singles) in sorted(singles_by_message(gen).items()):
        slot = {}
        for sl in TBL[m]["slots"]:
            if not sl["mand"]: slot.setdefault(sl["iei"], sl)
        byiei = {}
        for e in singles: byiei.setdefault(e[0] if e[0] < 128 else e[0] // 16, []).append(e)
        shortest = [min(es, key=len) for _, es in sorted(byiei.items())]
        fulls[m] = (b0, byiei, shortest)
        for iei, es in sorted(byiei.items()):
            sl = slot.get(iei)
            if sl is None or sl["half"] or sl["lsz"] == 0 or sl["data"] != "buf" or sl["max"] < 8: continue
            n = min(sl["max"], 12)
            lf = lambda k: [k] if sl["lsz"] == 1 else [k >> 8, k & 255]
            for code in ((1, 2, 3, 4) if not thorough else (0, 1, 2, 3, 4, 5, 6, 255)):
                for il in sorted({0, 1, 3, 4, 5, n - 1, n, n + 1, 0xFFFF}):
                    body = ([code, 7, il >> 8, il & 255] + [0, 1, 0x2E, 0x7E, 0x41, 0, 0, 0, 0])[:n]
                    add("plain", b0 + [es[0][0]] + lf(n) + body)
                    # ... and REPEATED: an inner length far beyond the element (a decoder that sizes storage by it stays within the
                    # one-maximum-element allowance once, not forty times)
                    if il in (n + 1, 0xFFFF) or (thorough and il >= n - 1):
                        add("plain", b0 + ([es[0][0]] + lf(n) + body) * 40)
    NESTED = ([0x2E], [0x2E, 1], [0x2E, 1, 0], [0x2E, 1, 0, 0xC1], [0x7E], [0x7E, 0], [0x7E, 0, 0x41], [0x7E, 2, 0, 0])
    for t in TABLES:
        if t["family"] == "ENV" or t["name"] not in fulls: continue
        b0, byiei, shortest = fulls[t["name"]]
        hdrn = len(header(t["name"]))
        mslots = [q for q in t["slots"] if q["mand"]]
        mv = minimal_value(t["name"])
        conts = [q for q in t["slots"] if q["lsz"] > 0 and q["data"] == "buf" and q["min"] <= 1 and ("Container" in q["name"] or "EAP" in q["name"] or "Payload" in q["name"])]
        for q in conts:
            for inner in NESTED:
                if len(inner) > q["max"]: continue
                lf = [len(inner)] if q["lsz"] == 1 else [len(inner) >> 8, len(inner) & 255]
                if q["mand"]:
                    out = []
                    for val, ts in zip(mv["mand"], mslots):
                        if ts["name"] == q["name"]: out += lf + inner
                        else: out += _enc_slot(val, ts)
                    rest = [e for e in shortest]
                else:
                    out = list(b0) + [q["iei"]] + lf + inner
                    rest = [e for e in shortest if e[0] != q["iei"]]
                # every value of the half octet that precedes / types the container (payload container type), full set behind
                for hv in ((1, 2, 3, 5, 8, 15) if q["mand"] and hdrn < len(out) else (None,)):
                    o2 = list(out)
                    if hv is not None: o2[hdrn] = (o2[hdrn] & 0xF0) | hv
                    add("plain", o2 + [b for e in rest for b in e])
                    add("plain", o2)
    # two optional elements of DIFFERENT lengths together, contents constant (all zero: every bit a subset of every other; all
    # ones): a decoder that relates two elements of one message (compares bitmaps, checks one against the other) walks one
    # with the other's length
    for m, (b0, byiei, shortest) in sorted(fulls.items()):
        slot = {}
        for sl in TBL[m]["slots"]:
            if not sl["mand"]: slot.setdefault(sl["iei"], sl)
        var = []
        for iei, es in sorted(byiei.items()):
            sl = slot.get(iei)
            if sl is None or sl["half"] or sl["lsz"] == 0: continue
            lo, hi = min(es, key=len), max(es, key=len)
            if len(hi) > 40:
                cand = [e for e in es if len(e) <= 40]
                hi = max(cand, key=len) if cand else lo
            off = 1 + sl["lsz"]
            var.append((lo[:off], len(lo) - off, hi[:off], len(hi) - off))
        pairs = [(a, b) for a in var for b in var if a is not b]
        if not thorough and len(pairs) > 60: pairs = rng.sample(pairs, 60)
        for a, b in pairs:
            for fa, fb in ((0, 0), (0xFF, 0xFF), (0, 0xFF)):
                add("plain", b0 + a[2] + [fa] * a[3] + b[0] + [fb] * b[1])
    # one small optional element repeated THOUSANDS of times in one message: work and memory stay linear in the input
    # (k repetitions may cost k times the element; a per-repetition cost that grows with k is quadratic)
    for m, (b0, byiei, shortest) in sorted(fulls.items()):
        for e in shortest:
            if len(e) > 8: continue
            if thorough or rng.random() < 0.5:
                add("plain", b0 + e * (7000 // len(e)))
        if shortest:
            e = min(shortest, key=len)
            add("plain", b0 + e * (68000 // len(e)))
    # self-similar inputs: a message nested again and again inside its own container element (must stay linear)
    for t in TABLES:
        if t["family"] == "ENV": continue
        cont = [s_ for s_ in t["slots"] if s_["lsz"] == 2 and s_["data"] == "buf" and s_["max"] >= 65535 and ("Container" in s_["name"] or "EAP" in s_["name"])]
        if not cont: continue
        s_ = cont[0]
        mv = minimal_value(t["name"])
        mslots = [q for q in t["slots"] if q["mand"]]
        def build(inner):
            out = []
            for val, ts in zip(mv["mand"], mslots):
                if ts["name"] == s_["name"] and ts["mand"]:
                    out += [len(inner) >> 8, len(inner) & 255] + inner
                else:
                    out += ([val["len"]] if ts["lsz"] == 1 else [val["len"] >> 8, val["len"] & 255] if ts["lsz"] == 2 else []) + val["v"][:(val["len"] if ts["lsz"] else len(val["v"]))]
            if not s_["mand"]:
                out += [s_["iei"], len(inner) >> 8, len(inner) & 255] + inner
            return out
        inner = build([0] * max(s_["min"], 1))
        depth = 0
        while True:
            nxt = build(inner)
            if len(nxt) > 65000: break
            inner = nxt; depth += 1
        add("plain", inner)
        if thorough: add(FAM_ENTRY[t["family"]], inner)
    smp = samples()
    for name, b in smp:
        add("plain", b)
        pts = range(len(b)) if len(b) <= 300 else sorted(set(list(range(100)) + [rng.randrange(len(b)) for _ in range(200 if thorough else 40)]))
        for i in pts: add("plain", b[:i])
        for _ in range(200 if thorough else 30):                              # random corruptions of the samples
            x = list(b)
            for _ in range(1 + rng.randrange(3)): x[rng.randrange(len(x))] = rng.randrange(256)
            if rng.random() < 0.25: x += [rng.randrange(256), rng.randrange(256)]
            add("plain", x)
    # fuzz corpus of the repository (go test fuzz v1 files)
    for f in glob.glob(os.path.join(REPO, "testdata", "fuzz", "*", "*")):
        try:
            for ln in open(f, errors="ignore"):
                ln = ln.strip()
                if ln.startswith("[]byte("):
                    b = eval("b" + ln[7:-1])
                    add("plain", list(b)); add("gmm", list(b)); add("gsm", list(b))
        except Exception:
            pass
    # one 65 535-octet element followed by garbage; allocation-amplification shapes
    for t in TABLES:
        if t["family"] == "ENV": continue
        hdr = header(t["name"])
        mand = [s for s in t["slots"] if s["mand"]][len(hdr):]
        body = []
        okm = True
        for s in mand:
            l = s["min"] if s["lsz"] else s["max"]
            body += ([l] if s["lsz"] == 1 else [l >> 8, l & 255] if s["lsz"] == 2 else []) + [0x11] * l
        for s in t["slots"]:                                                   # EVERY element with a 16-bit length: its largest claim,
            if s["mand"] or s["half"] or s["lsz"] != 2: continue               # undelivered, a thousand times over - still at most ONE
            add("plain", hdr + body + [s["iei"], 0xFF, 0xFF] * 1000)          # maximum-size element may be allocated
            mx = min(s["max"], 65535)
            if mx < 65535: add("plain", hdr + body + [s["iei"], mx >> 8, mx & 255] * 1000)
        for s in t["slots"]:
            if s["mand"] or s["half"] or s["lsz"] != 2: continue
            pre = hdr + body + [s["iei"]]
            if thorough or rng.random() < 0.25:
                add("plain", pre + [0xFF, 0xFF] + [rng.randrange(256) for _ in range(65535)] + [rng.randrange(256) for _ in range(300)])
            add("plain", pre + [0xFF, 0xFF] + [1, 2, 3])                       # declares 64 KiB, delivers 3 octets
            add("plain", pre + [0xFF, 0xFF])
            mx = min(s["max"], 65535)
            add("plain", pre + [mx >> 8, mx & 255] + [7] * 10)
            if thorough or rng.random() < 0.15:                               # the same big element repeated (last wins): must stay linear
                one = [s["iei"], mx >> 8, mx & 255] + [9] * mx
                reps = max(1, 65000 // len(one))
                add("plain", hdr + body + one * reps)
            break
        small = [s for s in t["slots"] if not s["mand"] and not s["half"] and s["lsz"] == 1 and s["data"] == "buf"]
        if small and (thorough or rng.random() < 0.3):
            s = small[0]; one = [s["iei"], s["min"]] + [5] * s["min"]
            add("plain", hdr + body + one * (68000 // len(one)))               # densest legal input
    # seeded random strings, header-biased, lengths 0..70 000 (generated inside the driver)
    nrand = 4000 if thorough else 400
    for t in rng.sample(TABLES, 12 if not thorough else 44):
        if t["family"] == "ENV": continue
        cases.append(dict(k="rand", entry="plain", inp=header(t["name"]), count=nrand // 12, max=70000, big=-1))
    for entry in ("plain", "gmm", "gsm"):
        cases.append(dict(k="rand", entry=entry, inp=[], count=nrand // 6, max=70000, big=-1))
    events, hang = run_codec(c, drv, cases, timeout=3000)
    if hang is not None:
        bad = cases[hang]
        ok = confirm_case(c, drv, bad, lambda e: False)
        if ok:
            c.report("Decode", "hang", "decode did not return within 20 s (case %d, entry %s, %d octets)" % (hang, bad.get("entry"), len(bad.get("inp") or [])), bad)
        else:
            # not reproduced alone: does it need the calls that preceded it?  re-run the prefix in a fresh process
            lo = max(0, hang - 400)
            ev2, hang2 = run_codec(c, drv, cases[lo:hang + 1], name="confirm-hist")
            if hang2 is not None:
                prev = cases[lo + hang2 - 1] if hang2 > 0 else None
                c.report("Decode", "hang-after-history", "decode did not return within 20 s after earlier calls in the same process (case %d, entry %s, %d octets); alone it returns" % (hang, bad.get("entry"), len(bad.get("inp") or [])),
                         dict(case=cases[lo + hang2], previous_case=prev, note="re-run the preceding cases in one process to reproduce"))
            else:
                raise Infra("watchdog fired at case %d but the hang was reproduced neither alone nor after the preceding 400 cases" % hang)
    c.cov["evaluations"] = len(events)
    mism = c.validate("Trace_C01", events, shards=14)
    # map event index -> case (rand cases expand); only needed for replay
    owner = []
    for i, cs in enumerate(cases):
        owner += [i] * (cs["count"] if cs["k"] == "rand" else 1)

    def classify(idx, t):
        if t[0] != "MISMATCH": return None
        e = json.loads(events[idx]); cs = cases[owner[idx]] if idx < len(owner) else {}
        what = "entry %s, %d octets: %s %s alloc=%d" % (e["entry"], e["n"], t[2], e.get("pfn", ""), e["alloc"])
        return ("Decode", t[2], what, dict(case=cs if cs.get("k") != "rand" else dict(cs, note="seeded random batch; event %d of the batch" % (idx - owner.index(owner[idx]))), observed={k: e[k] for k in ("entry", "n", "ok", "panic", "pfn", "alloc")}))

    def confirm(idx, t):
        cs = cases[owner[idx]]
        if cs["k"] == "rand": return True           # batch is seeded and deterministic; re-running it reproduces the event
        cl = t[2]
        return confirm_case(c, drv, cs, lambda e: (cl == "panic" and e["panic"]) or (cl == "over-allocation" and e["alloc"] > 16 * e["n"] + 3 * 65536 + 8192))
    c.triage(mism, classify, confirm)
    def _c(e): e["alloc"] = 16 * e["n"] + 3 * 65536 + 8192 + 1; return e
    binding_selftest(c, "Trace_C01", events, lambda x: '"panic":false' in x, _c, "the allocation raised above the bound")
    c.cov["notes_accept_reject"] = sum(1 for _, t in mism if t[0] == "NOTE")
    c.cov["max_alloc_ratio"] = None
    worst = 0.0; big = 0
    for ln in events:
        mm = re.search(r'"n":(\d+)', ln); ma = re.search(r'"alloc":(-?\d+)', ln)
        n = int(mm.group(1)); a = int(ma.group(1))
        worst = max(worst, a / (16 * n + 3 * 65536 + 8192)); big += n >= 60000
    c.cov["max_alloc_ratio"] = round(worst, 3)
    c.cov["inputs_ge_60000_octets"] = big
    c.cov["rule"] = ("cases = decode calls on the real code through the three entry points; distinct non-trivial = distinct generated grammar paths "
                     "(message, element octets); truncations, substitutions, samples, fuzz corpus, huge and random inputs come on top")
    for i in (1, len(events) // 3, len(events) - 1):
        c.sample(events[i], maxlen=300)
    c.assumptions += ["allocation bound: 16*len(input) + 3*65536 + 8192 octets per call", "hang = no return within 20 s", "nil pointer is given to PlainNasDecode only (the entry that documents a nil guard)"]


if __name__ == "__main__":
    main("C01", run)
