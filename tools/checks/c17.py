#!/usr/bin/env python3
"""C17 - timers, bit rates, time zones and network names encode faithfully.
Stage A: TLC checks the laws of spec/TimersRatesNames.tla on the full domains (timer floor/exactness,
         AMBR and zone/stamp decode o encode identities, calendar round trip, Unpack7 o Pack7 = id).
Stage B: TLC prints the boundary cases of the specification's case structure (MC_C17_gen); the driver
         replays them on nasConvert and also records seeded random cases and compact chunks of the
         full domains (every duration / every AMBR value).
Stage C: every observation is judged by TLC (Trace_C17) with the specification's decoders.
Added after seeded round 4: packed network names are held while other names are packed."""
import json, os, sys
sys.path.insert(0, os.path.dirname(os.path.dirname(os.path.abspath(__file__))))
from vlib import *

# the second pass of the generated cases also runs in a process whose local time zone has daylight-saving rules: what the
# converters make of a time stamp or a zone text is a function of their arguments, not of the host's zone
C17_ZONE = {"TZ": "Europe/Berlin"}

META = dict(
    property_id="C17", engine="tlc-conv",
    technique="TLA+ reference encodings (TS 24.008 timers, TS 24.501 AMBR units, TS 23.040 zone/time stamp, TS 23.038 7-bit packing) with their decode-encode laws model-checked on the full domains; TLC-generated boundary cases and compact full-domain chunks executed on nasConvert and every observation validated by TLC against the specification's decoders",
    level=("model_checking", "The statement is a family of pure functions over finite domains. TLC checks the specification's own encode/decode laws over those domains (all durations, all AMBR values x units, all 159 zones x DST, every calendar day 2000-2099, all names up to 12/16 septets over small alphabets) and then evaluates the specification's verdict predicates on the real converters' outputs: every boundary case derived from the specification's unit/digit/length structure, seeded random cases, and (thorough) every duration 0..1 116 000 and every AMBR value x unit x direction as compact trace events.", "7/C17"),
    level_note="Trusted: TLC, the Go runtime and time package (its calendar is cross-checked against the specification's on every time event). Verdict is decode-based: any octet that decodes to the requested value is accepted (e.g. minus zero for +00:00). Characters are restricted to those whose ASCII code equals the GSM 7-bit code (the character table itself is outside the statement). Instants are sampled (boundaries of every field + seeded), not enumerated. Quick tier: timer 3 complete up to 131 071 s plus windows around every multiple of 10 h; AMBR around 32 768 and the ends plus seeded chunks.",
)

FUNC = {"T2": "GPRSTimer2ToNas", "T2C": "GPRSTimer2ToNas", "T3": "GPRSTimer3ToNas", "T3C": "GPRSTimer3ToNas",
        "AMBR": "ModelsToSessionAMBR", "AMBRC": "ModelsToSessionAMBR", "TZ": "EncodeLocalTimeZoneToNas",
        "DST": "EncodeDaylightSavingTimeToNas", "TZDec": "DecodeLocalTimeZone", "DSTDec": "DecodeDaylightSavingTime",
        "UT": "EncodeUniversalTimeAndLocalTimeZoneToNas", "UTDec": "DecodeUniversalTimeAndLocalTimeZone"}


def func_of(e):
    if e["op"] == "Name":
        return e["kind"] + "NetworkNameToNas"
    return FUNC[e["op"]]


def single_case(e, k):
    """the driver case that reproduces event e (element k of a chunk)"""
    op = e["op"]
    if op in ("T2", "T3"): return dict(op=op, d=e["d"])
    if op in ("T2C", "T3C"): return dict(op=op[:2], d=e["lo"] + k)
    if op == "AMBR": return dict(op="AMBR", dlv=e["dlv"], dlu=e["dlu"], ulv=e["ulv"], ulu=e["ulu"])
    if op == "AMBRC":
        c = dict(op="AMBR", dlv=e["dlv"], dlu=e["dlu"], ulv=e["ulv"], ulu=e["ulu"])
        c["dlv" if e["dir"] == "dl" else "ulv"] = e["lo"] + k
        return c
    if op in ("TZ", "DST"): return dict(op="TZ", q=e["q"], dst=e["dst"], text=e["txt"])
    if op == "TZDec": return dict(op="TZDec", o=e["in"][0])
    if op == "DSTDec": return dict(op="DSTDec", d=e["in"][0])
    if op == "UT" and e["kind"]:      # an instant in a tz-database location
        return dict(op="UTLoc", loc=e["kind"], un=e["un"])
    if op == "UT":
        y, mo, d, h, mi, s, off = e["st"]
        return dict(op="UT", st=dict(y=y, mo=mo, d=d, h=h, mi=mi, s=s, q=off // 900), o=e["out"] if len(e["out"]) == 7 else [0] * 7)
    if op == "UTDec":
        return dict(op="UTDecOnly", o=e["in"])
    if op == "Name": return dict(op="Name", kind=e["kind"], name=e["txt"])
    raise Infra("no case for " + op)


def run(c):
    thorough = c.tier == "thorough"
    sd = c.spec_dir("specA")
    # ---- stage A: laws of the specification on the full domains
    if thorough:
        for f in ("MC_C17.cfg", "MC_C17_gen.cfg"):
            p = os.path.join(sd, f)
            t = open(p).read().replace("NameLen2 = 12", "NameLen2 = 16").replace("NameLen4 = 6", "NameLen4 = 8")
            t = t.replace("T3Dense = 131071", "T3Dense = 1116000").replace("AmbrAllPairs = FALSE", "AmbrAllPairs = TRUE")
            open(p, "w").write(t)
    c.stage_a(sd, "MC_C17", "MC_C17", timeout=2400, workers=min(NCPU, 12))
    # ---- stage B: boundary cases from the specification's case structure
    res = c.tlc(sd, "MC_C17", "MC_C17_gen", timeout=600, workers=4)
    if not res.clean:
        raise Infra("case generator failed:\n" + res.out[-2000:])
    c.cov["states"] += res.distinct; c.cov["transitions"] += res.generated
    cases = [json.loads(json.loads(ln)) for ln in res.printed if ln.startswith('"{')]
    if len(cases) != res.distinct or len(cases) < 4000:
        raise Infra("case list incomplete: %d printed, %d distinct states" % (len(cases), res.distinct))
    cases.sort(key=lambda x: json.dumps(x, sort_keys=True))
    c.cov["generated_cases"] = len(cases)
    # ---- real code
    drv = c.build_driver("conv17")
    cp = os.path.join(c.scratch, "cases.json"); json.dump(cases, open(cp, "w"))
    out1 = os.path.join(c.scratch, "replay.ndjson"); out2 = os.path.join(c.scratch, "record.ndjson")
    c.run_driver(drv, ["replay", cp, out1])
    c.run_driver(drv, ["record", out2], timeout=1200)
    ev1 = read_ndjson(out1)
    c.other_env = C17_ZONE      # a mismatch that does not reproduce under the default configuration is confirmed under this one
    events = ev1 + read_ndjson(out2) + c.second_pass(drv, ["replay", cp, os.path.join(c.scratch, "replayT.ndjson")], os.path.join(c.scratch, "replayT.ndjson"), ev1, extra_env=C17_ZONE)
    # chunk events are heavy (thousands of evaluations each): interleave them over the shards
    heavy = [e for e in events if e.startswith(('{"op":"T2C"', '{"op":"T3C"', '{"op":"AMBRC"'))]
    hs = set(heavy); light = [e for e in events if e not in hs]
    nsh = 12 if thorough else 8
    order = []
    for k in range(nsh):
        order += heavy[k::nsh] + light[k::nsh]
    events = order
    # ---- stage C
    mism = c.validate("Trace_C17", events, shards=nsh, timeout=2400)
    evals, intervals = 0, {}
    for ln in events:
        e = json.loads(ln)
        if e["op"] in ("T2C", "T3C", "AMBRC"):
            n = len(e["out"]) // (6 if e["op"] == "AMBRC" else 1)
            evals += n
            key = (e["op"], e["dir"], e["dlu"], e["ulu"], e["dlv"] if e["dir"] != "dl" else -1, e["ulv"] if e["dir"] != "ul" else -1)
            intervals.setdefault(key, []).append((e["lo"], e["lo"] + n))
        else:
            evals += 1
            inp = (e["op"], e["kind"], e["d"], e["q"], e["dst"] if e["op"] != "UT" else 0, tuple(e["txt"]), tuple(e["in"]), tuple(e["st"]) if e["op"] == "UT" else (), e["dlv"], e["dlu"], e["ulv"], e["ulu"])
            trivial = (e["op"] in ("T2", "T3") and e["d"] == 0) or (e["op"] == "Name" and not e["txt"])
            if not trivial:
                c.count_distinct(inp)
    chunk_distinct = 0
    for key, iv in intervals.items():
        iv.sort(); cur_lo, cur_hi = iv[0]
        for lo, hi in iv[1:]:
            if lo <= cur_hi: cur_hi = max(cur_hi, hi)
            else: chunk_distinct += cur_hi - cur_lo; cur_lo, cur_hi = lo, hi
        chunk_distinct += cur_hi - cur_lo

    def ev_of(idx): return json.loads(events[idx])

    def classify(idx, t):
        e = ev_of(idx)
        cls, k, n = t[3], int(t[4]), int(t[5])
        if cls == "SANITY":
            raise Infra("the Go time package and the specification's calendar disagree on event %s" % events[idx][:300])
        case = single_case(e, k)
        what = "%s: input %s -> observed %s%s is not allowed by TimersRatesNames (%d such input(s) in this event)" % (
            func_of(e), json.dumps(case)[:200],
            (e["out"][6 * k:6 * k + 6] if e["op"] == "AMBRC" else e["out"][k:k + 1] if e["op"] in ("T2C", "T3C") else (e["out"] or e["otxt"] or e["st"])),
            (" panic " + e["pan"]) if e["pan"] else "", n)
        return (func_of(e), cls or ("panic" if e["pan"] else "wrong-value"), what,
                dict(case=case, observed=e if len(events[idx]) < 2000 else dict(op=e["op"], lo=e["lo"], k=k, out=e["out"][6 * k:6 * k + 6] if e["op"] == "AMBRC" else e["out"][k:k + 1]),
                     how="driver conv17 replay [case] out.ndjson; validate out.ndjson with spec/trace/Trace_C17"))

    fresh = {}

    def confirm(idx, t):
        e = ev_of(idx)
        case = single_case(e, int(t[4]))
        if case["op"] == "UTDecOnly":
            return True      # decode of octets the same process produced; reproduced through the UT case
        p = os.path.join(c.scratch, "confirm.json"); json.dump([case], open(p, "w"))
        o = os.path.join(c.scratch, "confirm.ndjson")
        c.run_driver(drv, ["replay", p, o])
        evs = read_ndjson(o)
        again = c.validate("Trace_C17", evs, shards=1)
        c.cov["traces_validated_against_impl"] -= len(evs)
        if any(m[1][3] == t[3] for m in again):
            return True
        # the single case did not show it (the case may not carry everything the run had): repeat the whole
        # seeded run in a fresh process; the same observation again is a reproduction (TLC already judged that line)
        if "all" not in fresh:
            o1 = os.path.join(c.scratch, "replay2.ndjson"); o2 = os.path.join(c.scratch, "record2.ndjson")
            c.run_driver(drv, ["replay", cp, o1]); c.run_driver(drv, ["record", o2], timeout=1200)
            fresh["all"] = set(read_ndjson(o1)) | set(read_ndjson(o2))
        return events[idx] in fresh["all"]
    c.triage(mism, classify, confirm, per_class=2, total=24)
    c.cov["evaluations"] = evals
    c.cov["distinct_nontrivial"] = len(c._distinct) + chunk_distinct
    c.cov["rule"] = ("cases = calls of the real converters; distinct non-trivial = distinct (operation, input) pairs: single events (%d, excluding duration 0 and the empty name) "
                     "+ elements of compact full-domain chunks after merging overlapping ranges (%d)" % (len(c._distinct), chunk_distinct))
    c.cov["chunk_events"] = len(heavy)
    c.cov["exhaustive"] = bool(thorough)
    for i in (0, len(events) // 3, 2 * len(events) // 3, len(events) - 1):
        c.sample(events[i], maxlen=400)
    c.sample(cases[len(cases) // 2])
    c.assumptions += [
        "timer domain 0..11 160 s (timer 2) and 0..1 116 000 s (timer 3); a deactivated timer counts as more than any request",
        "AMBR text is '<decimal 0..65535> <Kbps|Mbps|Gbps|Tbps|Pbps>' for both directions",
        "zone text is sign HH:MM on the quarter-hour grid with optional +1/+2; zone/DST pairs whose effective offset leaves -19:45..+19:45 are outside the statement",
        "time stamps follow TS 23.040 (the fields are the clock reading at the given offset); years 2000-2099; instants sampled at every field boundary plus seeded, in fixed zones and in 13 tz-database locations (winter, summer and around every offset transition; needs the system or embedded tz database)",
        "names of 0..64 septets; characters with identical ASCII and GSM 7-bit codes must unpack to themselves; for the other septets (code 0, control codes, DEL, and $ @ _) the count of septets, the spare bits and every neighbour are required as always, the value under either reading where both exist (NameOKAny)",
        "quick tier: timer 3 dense to 131 071 s + windows, AMBR chunks around 32 768/ends/seeded; thorough: full domains" if not thorough else "thorough: every duration and every AMBR value x unit x direction observed",
    ]


if __name__ == "__main__":
    main("C17", run)
