#!/usr/bin/env python3
"""C18 - UE policy container codec is total, round-trips, and codes PLMNs per TS 24.008.
Stage A: TLC checks the laws of spec/UePolicy.tla on exhaustively enumerated small domains
         (Parse(Marshal(x)) = x for <= 2 x 2 x 2 nesting, PLMN digit codec on every MCC x MNC) and runs the
         parser machine UePolicyParser on every input of the generator tree (every prefix, every length field
         replaced): strictly decreasing measure, no deadlock, agreement with the recursive parser, canonicity.
Stage B: TLC (MC_C18_gen) chooses structures (0..3 sublists x 0..3 instructions x 0..3 parts, contents 0/1/300,
         command/complete/reject/other types), rows of (MCC, MNC) and the malformed inputs derived from the
         specification's encodings; the driver builds them through the real API, encodes, decodes and offers the
         malformed inputs to every decoding entry point under ev.Guard + watchdog; it also records seeded random runs.
         Histories (UePolicyHistory / MC_C18_hist): TLC explores encode / append-a-fresh-item / adopt-decoded /
         encode-again histories on one structure, checks that an encoding is always Marshal of the current value
         (plus the growth law), and prints every history; the driver replays each on ONE live object.
Stage C: every event is judged by TLC (Trace_C18): octets = Marshal, lengths/projection = Proj, PLMN octets per
         TS 24.008, encodings decode to their structure, no panic, no hang.
Added after seeded rounds 3-5: encodings held across other encodings; PLMN set on an object that already carries one; decode into a container that already received a message of the same type; part contents crossing 2^15; lists built with ONE reused working variable, MCC/MNC reported by built entries judged."""
import json, os, sys
sys.path.insert(0, os.path.dirname(os.path.dirname(os.path.abspath(__file__))))
from vlib import *

META = dict(
    property_id="C18", engine="tlc-uepolicy",
    technique="TLA+ grammar of TS 24.501 Annex D (marshal, strict recursive parser, parser machine with termination measure, TS 24.008 PLMN codec, encode/grow/adopt history machine) model-checked by TLC; TLC-generated structures, histories on one live object, PLMN rows and malformed inputs replayed on the real uePolicyContainer API; recorded events trace-validated by TLC against Marshal / Proj / Parse of the specification",
    level=("model_checking", "The specification's laws (parse after marshal is the identity, the parser machine terminates with a strictly decreasing measure on every input of the mutation tree and agrees with the recursive parser, the PLMN digit codec round-trips on all MCC x MNC) are checked exhaustively by TLC on small domains; the real code is bound by replaying TLC-chosen structures and malformed inputs and by validating every recorded observation (octets, lengths, projections, PLMN octets, panic/hang) with a total TLA+ trace specification.", "7/C18"),
    level_note="Trusted: TLC, the Go runtime, ev.Guard/watchdog. Domain: structures built through the API with Len fields left zero, MCC 100..999, MNC 10..999 given as integers, cause 0x6F; contents below 65535 octets. Exhaustive only on the small domains of stage A; the real code sees the generated shapes, all MCC x boundary MNC (thorough: all MCC x all MNC) and seeded random inputs. The IE is modelled with its IEI octet as the library carries it.",
)

HIST_OPS = ("TraceReset", "HNew", "HGrow", "HAdopt", "HEnc")


def is_hist(ln):
    return ln.startswith('{"op":"TraceReset"') or ln.startswith('{"op":"HNew"') or ln.startswith('{"op":"HGrow"') or \
        ln.startswith('{"op":"HAdopt"') or ln.startswith('{"op":"HEnc"')


def history_case(hevents, idx):
    """the whole history (TraceReset .. next TraceReset) that contains event idx, as a generator case"""
    lo = idx
    while lo > 0 and not hevents[lo].startswith('{"op":"TraceReset"'): lo -= 1
    hi = idx + 1
    while hi < len(hevents) and not hevents[hi].startswith('{"op":"TraceReset"'): hi += 1
    case = dict(k="hist", kind=None, val=[], ops=[])
    for ln in hevents[lo:hi]:
        e = json.loads(ln)
        if e["op"] == "HNew": case["kind"], case["val"] = e["hkind"], e["val"]
        elif e["op"] == "HEnc": case["ops"].append(dict(op="enc"))
        elif e["op"] == "HAdopt": case["ops"].append(dict(op="adopt"))
        elif e["op"] == "HGrow": case["ops"].append(dict(op="grow", level=e["level"], s=e["s"], i=e["i"], item=e["item"]))
    return case, idx - lo


DEC_OPS = ("DecodeMsg", "ListUnmarshal", "ContentUnmarshal", "InstrsUnmarshal", "PartsUnmarshal",
           "ResultUnmarshal", "RContentUnmarshal", "ResultsUnmarshal")


def case_of_event(e):
    """the single generator case that reproduces an event"""
    if e["op"] == "Build":
        return dict(k="build", st=e["st"], jobs=[])
    if e["op"] == "PlmnRow":
        return dict(k="plmn", which=e["which"], axis=e["axis"], fixed=e["fixed"], vary=e["vary"])
    return dict(k="dec", jobs=[dict(ops=[e["op"]], base=e["in"], cuts=[len(e["in"])], patches=[])])


def describe(e, t):
    cls, a = t[3], t[4]
    if e["op"] == "PlmnRow" and (e["panic"] or e["hang"] or not e["octs"]):
        return "SetPlmnDigit (%s) row %s=%d x %s: panic=%s %s %s hang=%s" % (e["which"], e["axis"], e["fixed"], e["vary"][:12], e["panic"], e["fn"], e["kind"], e["hang"])
    if e["op"] == "PlmnRow":
        i = max(0, min(int(a) - 1, len(e["vary"]) - 1))
        mcc, mnc = (e["fixed"], e["vary"][i]) if e["axis"] == "mcc" else (e["vary"][i], e["fixed"])
        return "SetPlmnDigit(%d, %d) (%s) -> octets %s err=%s, recovered mcc/mnc %s" % (mcc, mnc, e["which"], e["octs"][i], e["errs"][i], e["rt"][i])
    if e["op"] == "Build":
        st = e["st"]
        return "message type %d with %d sublists / %d subresults: enc=%s... (%d octets) eerr=%s derr=%s" % (
            st["type"], len(st["subs"]), len(st["srs"]), e["enc"][:24], len(e["enc"]), e["eerr"], e["derr"])
    return "%s(%s%s) -> err=%s panic=%s %s %s hang=%s" % (e["op"], e["in"][:40], "..." if len(e["in"]) > 40 else "", e["err"], e["panic"], e["fn"], e["kind"], e["hang"])


def run(c):
    thorough = c.tier == "thorough"
    workers = min(8, NCPU)
    sd = c.spec_dir("specA")
    # ---- stage A: laws of the specification + parser machine on the mutation tree
    if thorough:
        p = os.path.join(sd, "MC_C18.cfg")
        cfg = open(p).read().replace("MachPart = 1", "MachPart = 2").replace("FullPlmn = FALSE", "FullPlmn = TRUE")
        cfg = cfg.replace("MaxRes = 2", "MaxRes = 3").replace("MachRes = 2", "MachRes = 3")
        open(p, "w").write(cfg)
    c.stage_a(sd, "MC_C18", "MC_C18", workers=workers, timeout=3000)
    # ---- histories: laws of UePolicyHistory + every history printed for replay
    if thorough:
        p = os.path.join(sd, "MC_C18_hist.cfg")
        cfg = open(p).read().replace("Rich = FALSE", "Rich = TRUE")
        open(p, "w").write(cfg)
    resh = c.stage_a(sd, "MC_C18_hist", "MC_C18_hist", workers=workers, timeout=1800)
    hcases = [json.loads(json.loads(ln)) for ln in resh.printed if ln.startswith('"{')]
    if len(hcases) < 100 or any(x.get("k") != "hist" for x in hcases):
        raise Infra("history generator produced %d histories" % len(hcases))
    hcases.sort(key=lambda x: json.dumps(x, sort_keys=True))
    # ---- stage B: generated cases
    if thorough:
        p = os.path.join(sd, "MC_C18_gen.cfg")
        cfg = open(p).read().replace("Thorough = FALSE", "Thorough = TRUE").replace("BigLimit = 400", "BigLimit = 1000")
        open(p, "w").write(cfg)
    res = c.tlc(sd, "MC_C18_gen", "MC_C18_gen", workers=workers, timeout=1800)
    if not res.clean:
        raise Infra("case generator failed:\n" + res.out[-2000:])
    c.cov["states"] += res.distinct; c.cov["transitions"] += res.generated
    cases = [json.loads(json.loads(ln)) for ln in res.printed if ln.startswith('"{')]
    if len(cases) != res.distinct:
        raise Infra("case list incomplete: %d printed, %d descriptors" % (len(cases), res.distinct))
    cases.sort(key=lambda x: json.dumps(x, sort_keys=True)[:200])
    cases += hcases
    c.cov["generated_cases"] = dict(histories=len(hcases), build=sum(1 for x in cases if x["k"] == "build"), plmn_rows=sum(1 for x in cases if x["k"] == "plmn"),
                                    malformed=sum(len(j["ops"]) * (len(j["cuts"]) + len(j["patches"])) for x in cases for j in x.get("jobs", [])))
    # ---- drive the real code
    drv = c.build_driver("uepol")
    cp = os.path.join(c.scratch, "cases.json"); json.dump(cases, open(cp, "w"))
    out1 = os.path.join(c.scratch, "replay.ndjson"); out2 = os.path.join(c.scratch, "record.ndjson")
    c.run_driver(drv, ["replay", cp, out1], timeout=1800)
    c.run_driver(drv, ["record", out2], timeout=1800)
    ev1 = read_ndjson(out1)
    # (histories are left out of the second pass: their events only mean something in sequence)
    allev = ev1 + read_ndjson(out2) + [x for x in c.second_pass(drv, ["replay", cp, os.path.join(c.scratch, "replayT.ndjson")], os.path.join(c.scratch, "replayT.ndjson"), ev1, timeout=1800) if not is_hist(x)]
    events = [ln for ln in allev if not is_hist(ln)]
    hevents = [ln for ln in allev if is_hist(ln)]
    # ---- stage C
    mism = c.validate("Trace_C18", events, shards=14 if thorough else 12, timeout=2400)
    hmism = c.validate("Trace_C18", hevents, shards=6 if thorough else 4, timeout=2400, stateful=True)
    lenient = [0]

    def classify(idx, t):
        if len(t) < 5:
            raise Infra("unparsable MISMATCH line %r" % (t,))
        if t[2] == "INFO":
            lenient[0] += int(t[4]); return None
        e = json.loads(events[idx])
        if t[3] == "panic-nonlib":
            raise Infra("panic outside the library (harness problem): %s" % events[idx][:600])
        return (t[2], t[3], describe(e, t), dict(case=case_of_event(e), observed=e if len(events[idx]) < 4000 else events[idx][:4000],
                                                 how="driver: uepol replay <file with [case]> out.ndjson; validate out.ndjson with spec/trace/Trace_C18"))

    def confirm(idx, t):
        e = json.loads(events[idx])
        cp2 = os.path.join(c.scratch, "confirm.json"); json.dump([case_of_event(e)], open(cp2, "w"))
        out3 = os.path.join(c.scratch, "confirm.ndjson")
        c.run_driver(drv, ["replay", cp2, out3])
        ev3 = read_ndjson(out3)
        again = c.validate("Trace_C18", ev3, shards=1)
        c.cov["traces_validated_against_impl"] -= len(ev3)
        return any(m[1][2] == t[2] and m[1][3] == t[3] for m in again)
    c.triage(mism, classify, confirm)
    seen1 = dict(c.cov.get("mismatch_classes", {}))

    def hclassify(idx, t):
        if len(t) < 5:
            raise Infra("unparsable MISMATCH line %r" % (t,))
        if t[2] == "INFO":
            return None
        if t[3] in ("bad-history", "panic-nonlib"):
            raise Infra("history replay problem (%s): %s" % (t[3], hevents[idx][:600]))
        case, pos = history_case(hevents, idx)
        e = json.loads(hevents[idx])
        what = "history on one %s structure, %d operations (%s); at operation %d (%s): " % (
            case["kind"], len(case["ops"]), " ".join(o["op"] + (":" + o["level"] if o["op"] == "grow" else "") for o in case["ops"]), pos - 1, e["op"])
        if e["op"] == "HEnc":
            what += "enc=%s (%d octets) eerr=%s derr=%s is not Marshal of the current value / does not decode to it" % (e["enc"][:40], len(e["enc"]), e["eerr"], e["derr"])
        else:
            what += "ok=%s panic=%s hang=%s" % (e["ok"], e["panic"], e["hang"])
        return (t[2], t[3], what, dict(case=case, observed=e if len(hevents[idx]) < 4000 else hevents[idx][:4000],
                                       how="driver: uepol replay <file with [case]> out.ndjson; validate out.ndjson with spec/trace/Trace_C18"))

    def hconfirm(idx, t):
        case, _ = history_case(hevents, idx)
        cp2 = os.path.join(c.scratch, "hconfirm.json"); json.dump([case], open(cp2, "w"))
        out3 = os.path.join(c.scratch, "hconfirm.ndjson")
        c.run_driver(drv, ["replay", cp2, out3])
        ev3 = read_ndjson(out3)
        again = c.validate("Trace_C18", ev3, shards=1, stateful=True)
        c.cov["traces_validated_against_impl"] -= len(ev3)
        return any(m[1][2] == t[2] and m[1][3] == t[3] for m in again)
    c.triage(hmism, hclassify, hconfirm)
    seen1.update(c.cov.get("mismatch_classes", {}))
    c.cov["mismatch_classes"] = seen1
    if lenient[0]:
        c.note("%d malformed inputs were accepted without error by the decoders (lenient: a truncated region or a missing trailing field ends the list silently); information only, C18 demands totality on malformed input" % lenient[0])
    # ---- binding self-test: a corrupted logged field must be rejected by TLC
    badidx = {i for i, _ in mism}
    probe = None
    for i, ln in enumerate(events):
        if i not in badidx or not c.violations:      # prefer an event TLC accepted (on the unchanged tree every Build carries the known PLMN class)
            if ln.startswith('{"op":"Build"') and '"type":1' in ln[:60] and len(ln) < 3000:
                e = json.loads(ln)
                if e["st"]["subs"] and e["st"]["subs"][0]["ins"] and not e["panic"] and not e["derr"] and e["dec"]["subs"]:
                    probe = e; break
    if probe is not None:
        e1 = json.loads(json.dumps(probe)); e1["enc"][-1] = (e1["enc"][-1] + 1) % 256
        e2 = json.loads(json.dumps(probe)); e2["dec"]["subs"][0]["ins"][0]["len"] += 1
        e3 = json.loads(json.dumps(probe)); e3["dec"]["subs"][0]["plmn"][0] ^= 0x10
        st = c.validate("Trace_C18", [json.dumps(x) for x in (probe, e1, e2, e3)], shards=1)
        c.cov["traces_validated_against_impl"] -= 4
        base = {m[1][3] for m in st if m[0] == 0}
        ok = all({m[1][3] for m in st if m[0] == k} - base for k in (1, 2, 3))
        if ok:
            c.cov["binding_selftest"] = "3 corrupted copies of a recorded Build event (last enc octet +1; decoded instruction length +1; decoded PLMN octet flipped) were each rejected by Trace_C18 with a class the original does not have"
        elif not c.violations:
            raise Infra("binding self-test failed: corrupted events were not rejected (%r)" % sorted((m[0], m[1][3]) for m in st))
    if "binding_selftest" not in c.cov:
        if not c.violations:
            raise Infra("no Build event suitable for the binding self-test")
        c.cov["binding_selftest"] = "skipped: the run already has violations"
    # ---- evidence
    nbuild = ndec = npairs = 0
    for ln in events:
        if ln.startswith('{"op":"Build"'):
            nbuild += 1
            k = ln[:ln.index(',"perr"')]
            if '"subs":[{' in k or '"srs":[{' in k: c.count_distinct(hash(k))
        elif ln.startswith('{"op":"PlmnRow"'):
            e = json.loads(ln)
            for i, v in enumerate(e["vary"]):
                mcc, mnc = (e["fixed"], v) if e["axis"] == "mcc" else (v, e["fixed"])
                npairs += 1
                if 100 <= mcc <= 999 and 10 <= mnc <= 999: c.count_distinct((e["which"], mcc, mnc))
        else:
            ndec += 1
            k = ln[:ln.index(',"err"')]
            if not k.endswith('"in":[]'): c.count_distinct(hash(k))
    nhist = nhenc = 0
    cur = None
    for ln in hevents:
        if ln.startswith('{"op":"TraceReset"'):
            if cur: c.count_distinct(hash(cur))
            cur = ""; nhist += 1
        else:
            nhenc += ln.startswith('{"op":"HEnc"')
            cur += ln[:ln.index(',"panic"')] if not ln.startswith('{"op":"HEnc"') else "E"
    if cur: c.count_distinct(hash(cur))
    c.cov["evaluations"] = 4 * nbuild + ndec + npairs + 4 * nhenc + (len(hevents) - nhist - nhenc)
    c.cov["events"] = dict(build=nbuild, decode=ndec, plmn_rows=len(events) - nbuild - ndec, plmn_pairs=npairs, histories=nhist, history_encodings=nhenc)
    c.cov["rule"] = ("evaluations = real API calls (4 per built message: encode, decode, IE marshal, IE unmarshal; one per decoding call; one SetPlmnDigit + marshal/unmarshal per (MCC, MNC)); "
                     "a history operation counts like its calls; distinct non-trivial = distinct histories (initial value + operations) + distinct built messages with at least one sublist/subresult + distinct (entry point, non-empty octet string) decodings + distinct in-domain (setter, MCC, MNC)")
    c.cov["exhaustive"] = False
    for i in (0, len(events) // 3, len(events) - 1):
        c.sample(events[i])
    c.sample(hcases[len(hcases) // 2])
    c.assumptions += ["built through the API: Len fields left zero, the IE length set from the marshalled contents with its setter, cause 0x6F, PLMN through SetPlmnDigit with MCC 100..999 and MNC 10..999 (an integer MNC below 100 is a two-digit MNC)",
                      "values SetPlmnDigit rejects are outside the domain; values it accepts outside 0..999 get no verdict",
                      "histories only ADD fresh items (Len fields zero) to a live structure; they do not change the contents of a part that has been encoded (the library documents that a part whose Len is non-zero keeps it: a caller-supplied length)",
                      "malformed input: only totality (no panic, no hang) is demanded; octets that are the encoding of a structure must decode to it",
                      "stage A exhaustive for <= 2 x 2 x 2 nesting with contents of 0/1 octets; parser machine on the mutation tree of <= 2 x 2 x %d" % (2 if thorough else 1)]


if __name__ == "__main__":
    main("C18", run)
