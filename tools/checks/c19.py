#!/usr/bin/env python3
"""C19 - the library is safe for concurrent use on independent values.
Stage A: Concurrency.tla - N callers x programs, call/return as separate steps, every interleaving for 3 callers x 3 calls:
GlobalsNeverWritten, ResultsSequential, AllFinish; the deliberately broken library variant (argument parked in a package
level cell) must VIOLATE ResultsSequential (shows the property discriminates).
Binding: race-detector builds run TLC-generated cases from 2..64 goroutines (GOMAXPROCS 1, 2, 16; seeded start offsets and
yields) on per-goroutine values; each goroutine keeps its own trace, and every trace is validated by TLC against the same
sequential operators as the sequential checks (a result that depends on another goroutine's activity is a mismatch); race
reports with a frame in the library are violations.
 * message codec: harness/cmd/codec runpar (plus shared, read-only decoded messages), judged by Trace_C19;
 * every other family - conversions (C17), identities (C12), slice / area lists (C13), helpers on UE-supplied contents (C14, mostly malformed
   contents: the refusal and warning paths), the NULL algorithms and refusals of the security API (C08 laws, family f08), QoS rules and flow descriptions (C15),
   PCO / PSI (C16), UE policy container (C18), ciphering / MAC (C06, C07), IE field accessors (C09): harness/cmd/conc runs
   the families' own case formats (their own TLC generator configurations, plus cases taken from the traces their drivers
   record) through copies of their per-operation functions (tools/conc_sync.py; a drift guard compares the copies with the
   family drivers event by event) and each goroutine's trace is judged by the family's own trace specification.
   Values: per-goroutine values throughout; in addition every goroutine calls the identity getters on the SAME decoded
   5GS mobile identity elements (f12), some goroutines cipher / MAC under the SAME key and others under different keys
   at the same time (f06, f07), and family fmsg lets all goroutines read (project, re-encode) messages decoded before
   they started while the owner of each receive buffer ciphers that buffer in place (cmd/codec's Shared events, Trace_C19).
   Schedules: aligned (all goroutines in the same operation kind at the same time, different argument values), staggered,
   alternating.  A mismatch counts only if the same cases, run single-threaded in a fresh process in that goroutine's exact
   order, do not produce the same event (otherwise it is the family's own finding).
Added after seeded rounds 4-5: refusal-path inputs and the unknown-identifier path of every decoder in the concurrent codec cases."""
import copy, json, os, random, re, sys, time
from concurrent.futures import ThreadPoolExecutor
sys.path.insert(0, os.path.dirname(os.path.abspath(__file__)))
from codec_common import *
import c19fam

META = dict(
    property_id="C19", engine="tlc-concurrency",
    technique="TLC explores all interleavings of the caller model (and shows the broken variant fails); race-detector builds of the drivers run TLC-generated cases of every family (codec, conversions, identities, lists, QoS, PCO/PSI, UE policy, ciphering/MAC, IE accessors) from up to 64 goroutines and every per-goroutine trace is validated by TLC against the family's sequential specification",
    level=("exploration", "Schedules of the real code are sampled (goroutine counts, GOMAXPROCS, seeded offsets and yields), not enumerated: the Go scheduler is not controllable below call granularity. The race detector's happens-before analysis flags an unsynchronised shared access without needing the unlucky interleaving, and TLC judges every result of every goroutine against the sequential value.", "7/C19"),
    level_note="Trusted: the Go race detector, TLC. Model-level exhaustiveness (all interleavings, 3 callers x 3 calls) is about the abstract caller model only. Hidden shared state that is properly synchronised and never influences a result is not observable. The race detector only sees accesses the harness does not itself order: the concurrent driver keeps mutexes, helper goroutines, encoding/json, fmt and reflect look-ups out of the phase in which the goroutines call the library; synchronisation the library itself performs on a path (logging, fmt, sync.Pool) can still hide an unsynchronised access next to it. Every operation kind of every family runs in every configuration; every IE accessor pair runs in the two-goroutine configuration, a seeded sample in the others. Stateful objects (NAS COUNT, identifier allocator, growing UE-policy objects) are outside: the property is about independent values. Readers of a shared message treat what a read accessor returns as their own value (every multi-octet accessor of the library hands out a copy) and decipher it in place; the payloads of neighbouring goroutines lie back to back in one array (disjoint sub-slices of one buffer are distinct values).",
)

CONFIGS_Q = [(2, 16, 8), (8, 2, 2), (64, 16, 1), (16, 1, 1)]       # (goroutines, GOMAXPROCS, rounds)
BATCH = 150000        # events validated (and then dropped) at a time
# race reports go to files; a longer per-goroutine access history keeps the "previous access" of a report restorable when the
# two accesses are far apart (the runtime drops a report whose previous stack it cannot restore)
GORACE = "halt_on_error=0 exitcode=0 history_size=5 log_path=%s/race"
CONFIGS_T = [(2, 16, 30), (3, 2, 20), (8, 2, 10), (64, 16, 4), (16, 1, 6), (32, 4, 6)]


def race_reports(logdir):
    lib, other = [], 0
    for f in sorted(os.listdir(logdir)):
        if not f.startswith("race"): continue
        txt = open(os.path.join(logdir, f), errors="ignore").read()
        for blk in txt.split("WARNING: DATA RACE")[1:]:
            if "github.com/free5gc/nas" in blk: lib.append(blk[:1500])
            else:
                other += 1
                if other == 1: log("race report without a library frame:\n" + blk[:2500])
    return lib, other


def race_fn(blk):
    """the first library function named in a race report"""
    fn = re.search(r"(github\.com/free5gc/nas\S*)", blk)
    if not fn: return "library"
    name = fn.group(1)
    return name[:-2] if name.endswith("()") else name


def family_codec(c, thorough, gen):
    rng = c.rng
    drv = c.build_driver("codec", race=True)
    pool = [g for g in gen if TBL[g["m"]]["family"] != "ENV"]
    cases = [dict(k="dec", entry="plain", inp=g["inp"]) for g in rng.sample(pool, min(len(pool), 350 if not thorough else 1500))]
    wants = [(g["m"], g["w"]) for g in pool if g["g"]]
    cases += [dict(k="rt", m=m, mand=w["mand"], opt=w["opt"], via="plain") for m, w in rng.sample(wants, min(len(wants), 150 if not thorough else 500))]
    # the refusal paths as well (foreign discriminators, unknown message types, too-short, nil): an error value, a logger call or
    # a counter on a path that every goroutine takes at once is shared state like any other
    for b0 in range(0, 256, 5):
        if b0 in (0x7E, 0x2E): continue
        cases.append(dict(k="dec", entry="plain", inp=[b0, (b0 * 7) % 256, 0x41, 0x00, 0x01]))
    for mt in (0x00, 0x40, 0x69, 0xC0, 0xFF):
        cases.append(dict(k="dec", entry="plain", inp=[0x7E, 0x00, mt, 0x00])); cases.append(dict(k="dec", entry="plain", inp=[0x2E, 0x01, 0x01, mt, 0x00]))
    for inp in ([], [0x7E], [0x2E, 0x00], [0x7E, 0x00]):
        cases.append(dict(k="dec", entry="plain", inp=inp))
    cases.append(dict(k="dec", entry="plain"))
    for t in TABLES:                                  # the unknown-identifier path of every decoder
        if t["family"] == "ENV": continue
        u = unknown_octet(t["name"])
        cases.append(dict(k="dec", entry="plain", inp=plain_minimal(t["name"]) + [u, u, u]))
    rng.shuffle(cases)
    cp = os.path.join(c.scratch, "c19-codec-cases.ndjson")
    with open(cp, "w") as f:
        for x in cases: f.write(json.dumps(x, separators=(",", ":")) + "\n")
    # all per-goroutine traces are validated; the operations are pure, so events are independent and can be sharded freely.
    # Events are validated in batches and dropped (a thorough run writes millions of events).
    batch, origin, seen, total = [], [], {}, [0]

    def flush():
        if not batch: return
        mism = c.validate("Trace_C19", batch, shards=min(14, max(1, len(batch) // 400)))
        for idx, t in mism:
            tag, gid, i, n, procs, rounds = origin[idx]
            seen[t[2]] = seen.get(t[2], 0) + 1
            if seen[t[2]] > 2: continue
            e = json.loads(batch[idx])
            c.report("concurrent-" + e["op"], t[2], "goroutine %s of %d (GOMAXPROCS=%d), event %d: %s" % (gid, n, procs, i, t[2]),
                     dict(config=dict(goroutines=n, gomaxprocs=procs, rounds=rounds, family="codec"), observed=e))
        total[0] += len(batch)
        del batch[:]; del origin[:]
    for n, procs, rounds in (CONFIGS_T if thorough else CONFIGS_Q):
        tag = "codec-%d-%d" % (n, procs)
        logdir = c.sub("race-" + tag)
        prefix = os.path.join(logdir, "g")
        env = dict(GOMAXPROCS=str(procs), GORACE=GORACE % logdir)
        c.run_driver(drv, ["runpar", cp, prefix, n, rounds], env=env, timeout=2400)
        lib, other = race_reports(logdir)
        if other:
            raise Infra("race reported in harness code only (%d reports) - harness bug" % other)
        for blk in lib[:3]:
            c.report("race", race_fn(blk), "data race reported by the race detector with %d goroutines, GOMAXPROCS=%d" % (n, procs),
                     dict(config=dict(goroutines=n, gomaxprocs=procs, rounds=rounds, family="codec"), report=blk))
        files = sorted(f for f in os.listdir(logdir) if f.startswith("g.") and f.endswith(".ndjson"))
        if len(files) != n: raise Infra("expected %d goroutine traces, found %d" % (n, len(files)))
        first_op = None
        for f in files:
            evs = read_ndjson(os.path.join(logdir, f))
            os.unlink(os.path.join(logdir, f))
            gid = f.split(".")[1]
            first_op = first_op or (json.loads(evs[0])["op"] if evs else None)
            batch.extend(evs); origin.extend((tag, gid, i, n, procs, rounds) for i in range(len(evs)))
            c.count_distinct((tag, gid))
            if len(batch) >= BATCH: flush()
        c.sample(dict(config=tag, goroutine_traces=len(files), first_op=first_op))
    flush()
    return total[0]


# ---------------------------------------------------------------------------------------------------------------------
# the other families (conversions, identities, lists, QoS, PCO/PSI, UE policy, ciphering/MAC): harness/cmd/conc
def mode_of(n, rounds):
    """alternate = even rounds aligned (same operation kind at the same time in all goroutines, different values),
    odd rounds staggered (different operations overlap); single-round configurations take one of the two"""
    if rounds >= 2: return "alternate"
    return "aligned" if n >= 32 else "staggered"


def prepare_pools(c, fams):
    """TLC generators of all families side by side; meanwhile the families' own drivers are built (drift guard, recorded traces)"""
    sd = c.spec_dir("gen19")
    out = {}

    def one(f):
        pool, res = f.pool(c, sd)
        return f.name, pool, res

    def drv(f):
        d = c.build_driver(f.driver, overlay=c._c19_overlay if f.driver == "ietypes" else None)
        evs = None
        if f.records:
            o = os.path.join(c.scratch, "c19-rec-%s.ndjson" % f.driver)
            c.run_driver(d, ["record", o], env=dict(VERIF_TIER="quick"), timeout=900)
            evs = read_ndjson(o)
        return f.name, d, evs
    with ThreadPoolExecutor(max_workers=len(fams) + 2) as ex:
        futs = [ex.submit(one, f) for f in fams]
        dfuts = []
        built = {}
        for f in fams:                               # f06 and f07 share cmd/sec; fmsg has no family driver
            if f.driver is None: continue
            if f.driver not in built:
                built[f.driver] = ex.submit(drv, f)
            dfuts.append((f, built[f.driver]))
        for fu in futs:
            name, pool, res = fu.result()
            out[name] = dict(pool=pool, states=res.distinct, transitions=res.generated, wall=res.wall)
        for f, fu in dfuts:
            _, d, events = fu.result()
            out[f.name]["driver"] = d
            if f.records:
                n0 = len(out[f.name]["pool"])
                f.add_recorded(out[f.name]["pool"], events)
                out[f.name]["recorded"] = len(out[f.name]["pool"]) - n0
    return out


def write_cases(d, f, plan):
    cases, blocks, lo = [], [], 0
    for name, cs in plan:
        if not cs: continue
        cases += cs; blocks.append([lo, lo + len(cs)]); lo += len(cs)
    cp = os.path.join(d, "cases-%s.json" % f.name)
    json.dump(cases, open(cp, "w"), separators=(",", ":"))
    return cp, cases, blocks


def run_seq(c, drv, f, cases_path, order, tag):
    """the given order of cases, single-threaded, in a fresh process of the concurrent driver"""
    d = c.sub("seq-%s" % f.name)
    k = len(os.listdir(d))
    op = os.path.join(d, "%s-%d.idx" % (tag, k)); out = os.path.join(d, "%s-%d.ndjson" % (tag, k))
    open(op, "w").write("".join("%d\n" % i for i in order))
    c.run_driver(drv, ["runseq", f.name, cases_path, op, out], env=dict(GOMAXPROCS="1", GORACE=GORACE % d), timeout=300)
    return read_ndjson(out)


def drift_guard(c, drv, fams, pools, plans, d):
    """The concurrent driver carries generated copies of the families' per-operation functions (tools/conc_sync.py).  They
    are in step with the family drivers iff a sequential run of the copies writes, event by event, what the family
    driver's own replay writes for the same case file."""
    def one(f):
        if f.driver is None: return None
        cp, cases, _ = write_cases(d, f, plans[f.name])
        ref = os.path.join(d, "ref-%s.ndjson" % f.name)
        c.run_driver(pools[f.name]["driver"], ["replay", cp, ref], timeout=900)
        mine = run_seq(c, drv, f, cp, range(len(cases)), "drift")
        theirs = read_ndjson(ref)
        if mine == theirs: return None
        k = next((i for i, (x, y) in enumerate(zip(mine, theirs)) if x != y), min(len(mine), len(theirs)))
        return "%s: harness/cmd/conc/%s is out of step with harness/cmd/%s (event %d of %d/%d differs: %s | %s) - run tools/conc_sync.py" % (
            f.name, "fsec" if f.driver == "sec" else f.name, f.driver, k, len(mine), len(theirs), (mine[k:k + 1] or ["-"])[0][:160], (theirs[k:k + 1] or ["-"])[0][:160])
    with ThreadPoolExecutor(max_workers=4) as ex:
        return [m for m in ex.map(one, fams) if m]


def run_conc(c, drv, fams, plans, n, procs, rounds, tag):
    """one configuration: manifest + case files, the race-detector run, race reports; returns {family: [(gid, events, order)]}"""
    d = c.sub("conc-" + tag)
    man = dict(families=[])
    paths = {}
    for f in fams:
        cp, cases, blocks = write_cases(d, f, plans[f.name])
        paths[f.name] = cp
        man["families"].append(dict(name=f.name, cases=cp, blocks=blocks))
    mp = os.path.join(d, "manifest.json"); json.dump(man, open(mp, "w"))
    env = dict(GOMAXPROCS=str(procs), GORACE=GORACE % d)
    r = c.run_driver(drv, ["runpar", mp, os.path.join(d, "g"), n, rounds, mode_of(n, rounds)], env=env, timeout=2400, check=False)
    if r.returncode == 4 and os.path.exists(os.path.join(d, "g.hang")):
        # the driver's monitor: a case did not return for 30 s.  Sequentially (fresh process, one goroutine) it must return.
        h = json.load(open(os.path.join(d, "g.hang")))
        f = [x for x in fams if x.name == h["family"]][0]
        case = json.load(open(paths[f.name]))[h["case"]]
        try:
            run_seq(c, drv, f, paths[f.name], [h["case"]], tag + "-hang")
        except Infra:
            raise Infra("%s: case %d does not return within the time limit even single-threaded (the finding of %s; it must not be in the concurrent case list): %s" % (
                f.name, h["case"], f.pid, json.dumps(case)[:300]))
        c.report("concurrent-%s-no-return" % f.pid, "hang", "%s: a call did not return for %d s in goroutine %d of %d (GOMAXPROCS=%d); the same case returns when run single-threaded in a fresh process" % (
            f.name, h["seconds"], h["goroutine"], n, procs), dict(config=dict(goroutines=n, gomaxprocs=procs, rounds=rounds, family=f.name), case=case))
        return None, race_reports(d)[0], man, paths
    if r.returncode == 2 and "fatal error: concurrent map" in (r.stderr or ""):
        # the Go runtime's own detection of an unsynchronised map access ended the process.  Whose map?  The stack of the
        # goroutine that died: runtime frames, then the code that touched the map - the library's if a library frame comes
        # before any frame of the harness.
        blk = r.stderr[r.stderr.index("fatal error: concurrent map"):]
        first = blk.split("\n\n")[1] if "\n\n" in blk else blk
        fns = [ln.split("(")[0].strip() for ln in first.splitlines() if ln and not ln.startswith(("\t", "goroutine ", "fatal error")) and "/" in ln or ln.startswith("main.")]
        fns = [f_ for f_ in fns if not f_.startswith("runtime.")]
        libpos = next((i for i, f_ in enumerate(fns) if "github.com/free5gc/nas" in f_), None)
        harpos = next((i for i, f_ in enumerate(fns) if f_.startswith(("verifharness", "main."))), None)
        if libpos is None or (harpos is not None and harpos < libpos):
            raise Infra("driver died of a concurrent map access outside the library: conc runpar %s\n%s" % (tag, blk[:3000]))
        fn = fns[libpos]
        c.report("race/" + fn, "concurrent-map-access", "the Go runtime stopped the process: %s - a map reached from %s is accessed by several goroutines without synchronisation (%d goroutines, GOMAXPROCS=%d)" % (
            blk.splitlines()[0], fn, n, procs), dict(config=dict(goroutines=n, gomaxprocs=procs, rounds=rounds), stack=first[:3000],
            how="harness/cmd/conc runpar <manifest> <prefix> N rounds alternate (race build); the process ends with the runtime's fatal error"))
        return None, race_reports(d)[0], man, paths
    if r.returncode != 0:
        raise Infra("driver failed rc=%d: conc runpar %s\n%s" % (r.returncode, tag, (r.stderr or "")[-3000:]))
    lib, other = race_reports(d)
    if other:
        raise Infra("race reported in harness code only (%d reports) - harness bug" % other)
    traces = {}
    for f in fams:
        rows = []
        for g in range(n):
            base = os.path.join(d, "g.%s.%d" % (f.name, g))
            if not os.path.exists(base + ".ndjson"): raise Infra("goroutine trace %s missing" % base)
            order = [int(ln.split()[0]) for ln in open(base + ".idx") if ln.strip()]
            rows.append((g, read_ndjson(base + ".ndjson"), order))
            os.unlink(base + ".ndjson"); os.unlink(base + ".idx")
        traces[f.name] = rows
    return traces, lib, man, paths


def family_others(c, thorough, fams, pools, drv):
    scale = 2 if thorough else 1
    races, stats, seen = {}, {}, {}
    clock = dict(run=0.0, val=0.0)
    configs = CONFIGS_T if thorough else CONFIGS_Q

    def fresh():
        return {f.name: dict(events=[], origin=[], runs={}) for f in fams}      # origin: (tag, gid, index in that goroutine's trace)

    def judge(f, acc):
        cc = copy.copy(c); cc.cov = dict(states=0, transitions=0, traces_validated_against_impl=0)
        evs = acc["events"]
        t0 = time.time()
        if getattr(f, "dedupe", False) and evs:
            where = {}
            for i, ln in enumerate(evs): where.setdefault(ln, []).append(i)
            uniq = list(where)
            mu = cc.validate(f.trace, uniq, shards=min(f.shards * (2 if thorough else 1), 14, max(1, len(uniq) // 100)), timeout=3000)
            mism = sorted((i, t) for u, t in mu for i in where[uniq[u]])
            cc.cov["traces_validated_against_impl"] += len(evs) - len(uniq)
            dd = c.cov.setdefault("equal_events_judged_once", {}); dd[f.name] = dd.get(f.name, 0) + len(evs) - len(uniq)
        else:
            mism = cc.validate(f.trace, evs, shards=min(f.shards * (2 if thorough else 1), 14, max(1, len(evs) // 300)), timeout=3000) if evs else []
        return f, acc, mism, cc.cov, time.time() - t0

    def flush(pending):
        """every per-goroutine trace gathered so far is judged by the family's own trace specification (families side by side)"""
        t0 = time.time()
        with ThreadPoolExecutor(max_workers=3) as ex:
            results = list(ex.map(lambda f: judge(f, pending[f.name]), sorted(fams, key=lambda f: -len(pending[f.name]["events"]))))
        for f, acc, mism, cov, wall in results:
            for k in ("states", "transitions", "traces_validated_against_impl"): c.cov[k] += cov[k]
            st = stats.setdefault(f.name, dict(judged_by=f.trace, events=0, validation_s=0.0, generator_s=round(pools[f.name]["wall"], 1),
                                               pool=len(pools[f.name]["pool"]), recorded_cases=pools[f.name].get("recorded", 0)))
            st["events"] += len(acc["events"]); st["validation_s"] = round(st["validation_s"] + wall, 1)
            bad = []
            for i, t in mism:
                v = f.verdict(t)
                if v is not None: bad.append((i, v, t))
            if not bad: continue
            # The sequential behaviour: the exact case order of that goroutine, repeated single-threaded in a fresh process.
            # An event the sequential run writes identically is not a concurrency effect (the family's own finding).
            seq_runs, same_line, nseq, nconc = {}, set(), 0, 0
            for i, v, t in bad:
                tag, g, k = acc["origin"][i]
                line = acc["events"][i]
                if line in same_line:
                    nseq += 1; continue
                run = acc["runs"][(tag, g)]
                if (tag, g) not in seq_runs:
                    if len(seq_runs) >= 120:
                        raise Infra("%s: more than 120 goroutine traces with distinct mismatching events - not triaged" % f.name)
                    seq_runs[(tag, g)] = run_seq(c, drv, f, run["cases"], run["order"], tag)
                sq = seq_runs[(tag, g)]
                if len(sq) == run["n"] and sq[k] == line:
                    same_line.add(line); nseq += 1; continue
                nconc += 1
                seen[(f.name, v)] = seen.get((f.name, v), 0) + 1
                if seen[(f.name, v)] > 2: continue
                cfg = run["cfg"]
                what = ("%s judged by %s: goroutine %d of %d (GOMAXPROCS=%d, %s), event %d: the result of %s is not the sequential specification's (%s), "
                        "and the same cases run single-threaded in a fresh process give %s" % (
                            f.name, f.trace, g, cfg["goroutines"], cfg["gomaxprocs"], cfg["schedule"], k, v[0], v[1] or "value",
                            "a different event there" if len(sq) == run["n"] else "%d events instead of %d" % (len(sq), run["n"])))
                c.report("concurrent-%s-%s" % (f.pid, v[0]), str(v[1]) or "wrong-result", what,
                         dict(config=dict(cfg, family=f.name, goroutine=g, event=k), observed=json.loads(line) if len(line) < 4000 else line[:4000],
                              sequential=(json.loads(sq[k]) if len(sq[k]) < 4000 else sq[k][:4000]) if k < len(sq) else None, mismatch=list(t),
                              how="harness/cmd/conc runpar <manifest> <prefix> N rounds alternate (race build, other goroutines working on different values); "
                                  "validate <prefix>.%s.<g>.ndjson with spec/trace/%s; conc runseq %s <cases> <prefix>.%s.<g>.idx out.ndjson gives the sequential events" % (f.name, f.trace, f.name, f.name)))
            m = st.setdefault("mismatches", dict(total=0, also_sequential=0, concurrent_only=0))
            m["total"] += len(bad); m["also_sequential"] += nseq; m["concurrent_only"] += nconc
            if nseq:
                c.note("%s: mismatching events on concurrent traces that a single-threaded run of the same cases writes identically are the finding of %s, not a concurrency effect (%d in one batch)" % (f.name, f.pid, nseq))
        clock["val"] += time.time() - t0

    pending, npend, first = fresh(), 0, True
    for ci, (n, procs, rounds) in enumerate(configs):
        tag = "%d-%d" % (n, procs)
        plans = {}
        for f in fams:
            rng = random.Random("%d/%s/%s" % (c.seed, f.name, tag))
            plans[f.name] = f.plan(pools[f.name]["pool"], rng, 1 if f.name in ("f06", "f07", "f08", "f09") else scale, wide=(n == 2))
        if first:
            first = False
            drifted = drift_guard(c, drv, fams, pools, plans, c.sub("drift"))
            if drifted and not os.environ.get("VERIF_C19_SKIP_DRIFTED"):
                raise Infra("the concurrent driver's copies are out of step with a family driver:\n" + "\n".join(drifted))
            for m in drifted:        # development only: leave the family out, loudly
                c.note("LEFT OUT (VERIF_C19_SKIP_DRIFTED): " + m)
                fams = [f for f in fams if f.name != m.split(":")[0]]
            pending = fresh()
            c.cov["drift_guard"] = "family driver replay == sequential run of the concurrent driver's copies, event by event: %s" % ", ".join(f.name for f in fams if f.driver)
        t0 = time.time()
        traces, lib, man, paths = run_conc(c, drv, fams, plans, n, procs, rounds, tag)
        clock["run"] += time.time() - t0
        cfg = dict(goroutines=n, gomaxprocs=procs, rounds=rounds, schedule=mode_of(n, rounds))
        for blk in lib:
            races.setdefault(race_fn(blk), (cfg, blk))
        if traces is None:           # a call did not return (reported): this configuration has no traces
            if ci == len(configs) - 1: flush(pending)
            continue
        for f in fams:
            acc = pending[f.name]
            for g, evs, order in traces[f.name]:
                acc["runs"][(tag, g)] = dict(n=len(evs), order=order, cases=paths[f.name], cfg=cfg)
                acc["events"] += evs
                acc["origin"] += [(tag, g, i) for i in range(len(evs))]
                npend += len(evs)
                c.count_distinct((f.name, tag, g))
        if "binding_selftest_conc" not in c.cov:
            # one logged field of a recorded concurrent trace corrupted: TLC must reject exactly that event
            f17 = [f for f in fams if f.name == "f17"]
            line = next((ln for g, evs, _ in (traces["f17"] if f17 else []) for ln in evs if ln.startswith('{"op":"UTDec"') and '"pan":""' in ln), None)
            if line is None:
                c.cov["binding_selftest_conc"] = "skipped: no UTDec event of family f17 in the first configuration"
            else:
                e = json.loads(line); e["st"][6] += 900
                cc = copy.copy(c); cc.cov = dict(states=0, transitions=0, traces_validated_against_impl=0)
                got = [(i, t[2]) for i, t in cc.validate("Trace_C17", [line, json.dumps(e, separators=(",", ":"))], shards=1)]
                if got != [(1, "UTDec")]:
                    raise Infra("binding self-test failed: a corrupted zone offset in a recorded concurrent UTDec event was judged %r by Trace_C17" % (got,))
                c.cov["binding_selftest_conc"] = "zone offset of a recorded concurrent UTDec event (family f17, goroutine trace of configuration %s) moved by a quarter of an hour: Trace_C17 rejects that event and accepts the original" % tag
        c.sample(dict(config="conc-" + tag, schedule=cfg["schedule"], goroutine_traces={f.name: len(traces[f.name]) for f in fams},
                      blocks={x["name"]: len(x["blocks"]) for x in man["families"]}))
        del traces
        if npend >= BATCH or ci == len(configs) - 1:
            flush(pending)
            pending, npend = fresh(), 0
    for key, (cfg, blk) in sorted(races.items())[:6]:
        c.report("race", key, "data race reported by the race detector with %d goroutines, GOMAXPROCS=%d (families other than the codec)" % (cfg["goroutines"], cfg["gomaxprocs"]),
                 dict(config=dict(cfg, family="conc"), report=blk))
    c.cov["families"] = stats
    c.cov["conc_run_s"] = round(clock["run"], 1); c.cov["conc_validation_s"] = round(clock["val"], 1)
    return sum(st["events"] for st in stats.values())


def sec_included(c):
    """ciphering / integrity join only when their own files are complete (another builder may still be working on them)"""
    need = ["spec/mc/MC_C06_gen.tla", "spec/mc/MC_C06_gen.cfg", "spec/mc/MC_C07_gen.cfg", "spec/trace/Trace_C06.tla", "spec/trace/Trace_C07.tla",
            "harness/cmd/sec/main.go", "tools/checks/c06.py", "tools/checks/c07.py"]
    return all(os.path.exists(os.path.join(VERIF, p)) for p in need) and not os.environ.get("VERIF_C19_NOSEC")


def ie_included(c):
    """IE accessors join when their files are there (registry generated from tables/ie_fields.json at check time)"""
    need = ["spec/mc/MC_C09_gen.tla", "spec/mc/MC_C09_gen.cfg", "spec/trace/Trace_C09.tla", "harness/cmd/ietypes/main.go", "harness/cmd/conc/f09/f09.go",
            "tables/ie_fields.json", "tools/checks/c09.py"]
    return all(os.path.exists(os.path.join(VERIF, p)) for p in need) and not os.environ.get("VERIF_C19_NOIE")


def run(c):
    thorough = c.tier == "thorough"
    sd = c.spec_dir("mc19")
    c.stage_a(sd, "MC_C19", "MC_C19", coverage=True)
    res = c.tlc(sd, "MC_C19", "MC_C19_broken", workers=2)
    if res.violated != "ResultsSequential":
        raise Infra("the broken library variant was not rejected by the model: the property would be vacuous")
    c.cov["binding_selftest"] = "broken variant (argument parked in a package-level cell) violates ResultsSequential in the model"
    with_ie = ie_included(c)
    fams = c19fam.families(with_sec=sec_included(c), with_ie=with_ie)
    c._c19_overlay = None
    if with_ie:      # the constructor registry of the IE types: generated plumbing, given to the builds as an overlay
        hd = os.path.join(c.scratch, "harness")
        reg = {}
        for pkg, rel in (("f09", "cmd/conc/f09/reg_gen.go"), ("main", "cmd/ietypes/reg_gen.go")):
            src = os.path.join(c.scratch, "reg_gen_%s.go" % pkg)
            with open(src, "w") as fh: fh.write(c19fam.F09.registry(pkg))
            reg[os.path.join(hd, rel)] = src
        c._c19_overlay = os.path.join(c.scratch, "c19-overlay.json")
        json.dump({"Replace": reg}, open(c._c19_overlay, "w"))
    # first build: copies the harness (not thread-safe), before any thread starts
    conc = c.build_driver("conc", race=True, tags="verif,c19ie" if with_ie else "verif", overlay=c._c19_overlay)
    with ThreadPoolExecutor(max_workers=1) as ex:
        fut = ex.submit(prepare_pools, c, fams)         # the families' generators work while the codec family runs
        gen = mc_codec(c, 1, shards=3, liveness=False)
        total = family_codec(c, thorough, gen)
        pools = fut.result()
    # shared decoded messages: the codec generator's valid inputs
    pools["fmsg"]["pool"] = [g for g in gen if g["g"] and g["ok"] and TBL[g["m"]]["family"] != "ENV"]
    if "f15s" in pools: pools["f15s"]["pool"] = pools["f15"]["pool"]      # shared parsed QoS values: family f15's cases
    del gen
    for f in fams:
        c.cov["states"] += pools[f.name]["states"]; c.cov["transitions"] += pools[f.name]["transitions"]
    total_codec = total
    total += family_others(c, thorough, fams, pools, conc)
    c.cov["families"]["codec"] = dict(judged_by="Trace_C19", events=total_codec)
    c.cov["evaluations"] = total
    c.cov["rule"] = ("cases = events of library calls made concurrently (codec family + %s); distinct non-trivial = distinct (family, configuration, goroutine) traces, "
                     "each validated in full by TLC against the family's sequential specification" % ", ".join(f.name for f in fams))
    c.assumptions += ["schedules are sampled, not enumerated", "race detector happens-before analysis",
                      "a goroutine may go on using (ciphering in place) the buffer a shared message was decoded from: buffer and decoded message are distinct values",
                      "stateful objects (NAS COUNT, identifier allocator) are outside: the property is about independent values",
                      "a mismatch on a concurrent trace counts only if a single-threaded run of the same case in a fresh process does not show it"]


if __name__ == "__main__":
    main("C19", run, level="exploration")
