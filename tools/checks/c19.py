#!/usr/bin/env python3
"""C19 - the library is safe for concurrent use on independent values.
Stage A: Concurrency.tla - N callers x programs, call/return as separate steps, every interleaving for 3 callers x 3 calls:
GlobalsNeverWritten, ResultsSequential, AllFinish; the deliberately broken library variant (argument parked in a package
level cell) must VIOLATE ResultsSequential (shows the property discriminates).
Binding: the family drivers are rebuilt with the race detector and run the same TLC-generated cases from 2..64 goroutines
(GOMAXPROCS 1, 2, 16; seeded start offsets and yields) on per-goroutine values plus shared, read-only decoded messages;
each goroutine writes its own trace, and every trace is validated by TLC against the same sequential operators as the
sequential checks (a result that depends on another goroutine's activity is a mismatch); race reports with a frame in
the library are violations."""
import json, os, re, sys
sys.path.insert(0, os.path.dirname(os.path.abspath(__file__)))
from codec_common import *

META = dict(
    property_id="C19", engine="tlc-concurrency",
    technique="TLC explores all interleavings of the caller model (and shows the broken variant fails); race-detector builds of the drivers run TLC-generated cases from up to 64 goroutines and every per-goroutine trace is validated by TLC against the sequential specification",
    level=("exploration", "Schedules of the real code are sampled (goroutine counts, GOMAXPROCS, seeded offsets and yields), not enumerated: the Go scheduler is not controllable below call granularity. The race detector's happens-before analysis flags an unsynchronised shared access without needing the unlucky interleaving, and TLC judges every result of every goroutine against the sequential value.", "7/C19"),
    level_note="Trusted: the Go race detector, TLC. Model-level exhaustiveness (all interleavings, 3 callers x 3 calls) is about the abstract caller model only. Hidden shared state that is properly synchronised and never influences a result is not observable.",
)

CONFIGS_Q = [(2, 16, 8), (8, 2, 2), (64, 16, 1), (16, 1, 1)]       # (goroutines, GOMAXPROCS, rounds)
CONFIGS_T = [(2, 16, 30), (3, 2, 20), (8, 2, 10), (64, 16, 4), (16, 1, 6), (32, 4, 6)]


def race_reports(logdir):
    lib, other = [], 0
    for f in sorted(os.listdir(logdir)):
        if not f.startswith("race"): continue
        txt = open(os.path.join(logdir, f), errors="ignore").read()
        for blk in txt.split("WARNING: DATA RACE")[1:]:
            if "github.com/free5gc/nas" in blk: lib.append(blk[:1500])
            else: other += 1
    return lib, other


def family_codec(c, thorough):
    rng = c.rng
    gen = mc_codec(c, 1, shards=3, liveness=False)
    drv = c.build_driver("codec", race=True)
    pool = [g for g in gen if TBL[g["m"]]["family"] != "ENV"]
    cases = [dict(k="dec", entry="plain", inp=g["inp"]) for g in rng.sample(pool, min(len(pool), 350 if not thorough else 2500))]
    wants = [(g["m"], g["w"]) for g in pool if g["g"]]
    cases += [dict(k="rt", m=m, mand=w["mand"], opt=w["opt"], via="plain") for m, w in rng.sample(wants, min(len(wants), 150 if not thorough else 900))]
    rng.shuffle(cases)
    cp = os.path.join(c.scratch, "c19-codec-cases.ndjson")
    with open(cp, "w") as f:
        for x in cases: f.write(json.dumps(x, separators=(",", ":")) + "\n")
    allev, origin = [], []
    for n, procs, rounds in (CONFIGS_T if thorough else CONFIGS_Q):
        tag = "codec-%d-%d" % (n, procs)
        logdir = c.sub("race-" + tag)
        prefix = os.path.join(logdir, "g")
        env = dict(GOMAXPROCS=str(procs), GORACE="halt_on_error=0 exitcode=0 log_path=%s/race" % logdir)
        c.run_driver(drv, ["runpar", cp, prefix, n, rounds], env=env, timeout=2400)
        lib, other = race_reports(logdir)
        if other:
            raise Infra("race reported in harness code only (%d reports) - harness bug" % other)
        for blk in lib[:3]:
            fn = re.search(r"(github.com/free5gc/nas[^\s(]*)", blk)
            c.report("race", fn.group(1) if fn else "library", "data race reported by the race detector with %d goroutines, GOMAXPROCS=%d" % (n, procs),
                     dict(config=dict(goroutines=n, gomaxprocs=procs, rounds=rounds, family="codec"), report=blk))
        files = sorted(f for f in os.listdir(logdir) if f.startswith("g.") and f.endswith(".ndjson"))
        if len(files) != n: raise Infra("expected %d goroutine traces, found %d" % (n, len(files)))
        for f in files:
            evs = read_ndjson(os.path.join(logdir, f))
            gid = f.split(".")[1]
            for i, ln in enumerate(evs):
                allev.append(ln); origin.append((tag, gid, i, n, procs, rounds))
            c.count_distinct((tag, gid))
        c.sample(dict(config=tag, goroutine_traces=len(files), first_op=json.loads(allev[-1])["op"]))
    # all per-goroutine traces are validated; the operations are pure, so events are independent and can be sharded freely
    mism = c.validate("Trace_C19", allev, shards=14)
    seen = {}
    for idx, t in mism:
        tag, gid, i, n, procs, rounds = origin[idx]
        seen[t[2]] = seen.get(t[2], 0) + 1
        if seen[t[2]] > 2: continue
        e = json.loads(allev[idx])
        c.report("concurrent-" + e["op"], t[2], "goroutine %s of %d (GOMAXPROCS=%d), event %d: %s" % (gid, n, procs, i, t[2]),
                 dict(config=dict(goroutines=n, gomaxprocs=procs, rounds=rounds, family="codec"), observed=e))
    total = len(allev)
    return total


def run(c):
    thorough = c.tier == "thorough"
    sd = c.spec_dir("mc19")
    c.stage_a(sd, "MC_C19", "MC_C19")
    res = c.tlc(sd, "MC_C19", "MC_C19_broken", workers=2)
    if res.violated != "ResultsSequential":
        raise Infra("the broken library variant was not rejected by the model: the property would be vacuous")
    c.cov["binding_selftest"] = "broken variant (argument parked in a package-level cell) violates ResultsSequential in the model"
    total = family_codec(c, thorough)
    c.cov["evaluations"] = total
    c.cov["rule"] = "cases = library calls made concurrently; distinct non-trivial = distinct (configuration, goroutine) traces, each validated in full against the sequential specification"
    c.assumptions += ["schedules are sampled, not enumerated", "race detector happens-before analysis"]


if __name__ == "__main__":
    main("C19", run, level="exploration")
