#!/usr/bin/env python3
"""C20 - policy-section ID allocator never hands out a live or out-of-range ID.
Stage A: TLC checks IdAllocImpl (the allocator as implemented) exhaustively for every small range:
         InBounds, Fresh, FailOnlyWhenFull, FreedIsReusable, NoHang + refinement of abstract IdAlloc.
Stage B: every edge of that state graph (printed by TLC) is replayed on the real allocator;
         TLC -simulate chooses long histories over larger ranges; the driver records seeded histories.
Stage C: all observed histories are validated by TLC against the abstract IdAlloc (verdict) and the
         implementation-shaped model (information).
Added after seeded round 3: allocators spanning more than 2^16 / 2^24 identifiers driven at narrowing boundaries; histories of 6 000 / 40 000 calls on one allocator; state-guided steering through the snapshot hook (the verdict stays with the abstract model)."""
import json, os, sys
sys.path.insert(0, os.path.dirname(os.path.dirname(os.path.abspath(__file__))))
from vlib import *

META = dict(
    property_id="C20", engine="tlc-idalloc",
    technique="TLC exhaustive model of the allocator + refinement; every model edge and TLC-simulated histories replayed on the real allocator; recorded histories trace-validated by TLC against the abstract allocator",
    level=("model_checking", "The allocator is a small state machine: TLC enumerates every reachable state of the implementation-shaped model for all ranges of size <= 5 (quick) / 6 (thorough), checks the four listed properties and refinement of the abstract allocator, and every edge of that graph is executed on the real code; long real histories (ranges up to ~2000/8000) are judged by TLC against the abstract allocator, so any correct scan strategy is accepted.", "7/C20"),
    level_note="Trusted: TLC, the Go runtime, the verif snapshot hook (read-only). Domain: 0 <= min <= max, in-range arguments of either sign. Bounded: exhaustive only for small ranges; larger ranges by seeded histories.",
)


def hist_from_events(evs):
    """events (dicts) of one history -> Hist json for driver replay"""
    h = None
    for e in evs:
        if e["op"] == "New":
            h = dict(min=e["min"], max=e["max"], ops=[])
        elif e["op"] in ("Allocate", "AllocateInRange", "FreeID"):
            h["ops"].append(dict(op=e["op"], a=e.get("a", 0), b=e.get("b", 0), id=e.get("id", 0)))
    return h


def run(c):
    thorough = c.tier == "thorough"
    sd = c.spec_dir("specA")
    # ---- stage A
    cfgA = open(os.path.join(sd, "MC_C20.cfg")).read()
    if thorough:
        cfgA = cfgA.replace("MaxSize = 5", "MaxSize = 6").replace("MaxLo = 2", "MaxLo = 3")
        open(os.path.join(sd, "MC_C20.cfg"), "w").write(cfgA)
    c.stage_a(sd, "MC_C20", "MC_C20", timeout=1500, coverage=True)
    # ---- stage B1: all edges
    cfgG = open(os.path.join(sd, "MC_C20_gen.cfg")).read()
    if thorough:
        cfgG = cfgG.replace("MaxSize = 4", "MaxSize = 5")
        open(os.path.join(sd, "MC_C20_gen.cfg"), "w").write(cfgG)
    res = c.tlc(sd, "MC_C20", "MC_C20_gen", timeout=900)
    if not res.clean:
        raise Infra("edge generator failed:\n" + res.out[-2000:])
    c.cov["states"] += res.distinct; c.cov["transitions"] += res.generated
    edges = [json.loads(json.loads(ln)) for ln in res.printed if ln.startswith('"{')]
    if len(edges) != res.distinct:
        raise Infra("edge list incomplete: %d printed, %d distinct states" % (len(edges), res.distinct))
    # BFS shortest histories to every node (min,max,off,used)
    succ, start = {}, []
    def node(mn, mx, off, used): return (mn, mx, off, tuple(sorted(used)))
    for e in edges:
        if e["op"] == "New":
            start.append(node(e["minv"], e["maxv"], 0, [])); continue
        src = node(e["minv"], e["maxv"], e["poff"], [x - e["minv"] for x in e["pre"]])
        dst = node(e["minv"], e["maxv"], e["off"], e["used"])
        succ.setdefault(src, []).append((e, dst))
    path = {s: [] for s in start}
    q = list(start)
    while q:
        s = q.pop(0)
        for e, d in succ.get(s, []):
            if d not in path:
                path[d] = path[s] + [e]; q.append(d)
    hists = []
    for s, outs in succ.items():
        if s not in path:
            raise Infra("edge source state unreachable in BFS: %r" % (s,))
        for e, d in outs:
            ops = [dict(op=x["op"], a=x["a"], b=x["b"], id=x["id"]) for x in path[s] + [e]]
            hists.append(dict(min=s[0], max=s[1], ops=ops))
            c.count_distinct(("edge", s, e["op"], e["a"], e["b"], e["id"] if e["op"] == "FreeID" else 0))
    n_edges = len(hists)
    # ---- stage B2: TLC-simulated long histories over larger ranges
    simcfg = "SPECIFICATION Spec\nCONSTANTS MinLo = 0 MaxLo = 3 MaxSize = %d ArgSlack = 2\nINVARIANTS InBounds Fresh FailOnlyWhenFull NoHang\nCHECK_DEADLOCK FALSE\n" % (12 if not thorough else 32)
    open(os.path.join(sd, "MC_C20_sim.cfg"), "w").write(simcfg)
    nsim = 100 if not thorough else 600
    res = c.tlc(sd, "MC_C20", "MC_C20_sim", workers=1, simulate="file=beh,num=%d" % nsim, depth=(80 if not thorough else 200), timeout=900)
    nsimh = 0
    for beh in read_sim_behaviours(sd, "beh"):
        s0 = beh[0][1]
        cur = dict(min=s0["minv"], max=s0["maxv"], ops=[])
        for _, st in beh[1:]:
            la = st["last"]
            cur["ops"].append(dict(op=la["op"], a=la["a"], b=la["b"], id=la["id"]))
        hists.append(cur); nsimh += 1
    if nsimh < nsim // 2:
        raise Infra("simulation produced too few behaviours (%d)" % nsimh)
    c.cov["transitions"] += res.generated
    c.cov["simulated_histories"] = nsimh
    # ---- drive the real code
    drv = c.build_driver("idalloc")
    hp = os.path.join(c.scratch, "hists.json"); json.dump(hists, open(hp, "w"))
    out1 = os.path.join(c.scratch, "replay.ndjson"); out2 = os.path.join(c.scratch, "record.ndjson")
    c.run_driver(drv, ["replay", hp, out1])
    c.run_driver(drv, ["record", out2])
    events = read_ndjson(out1) + read_ndjson(out2)
    c.cov["evaluations"] = sum(1 for e in events if '"TraceReset"' not in e[:40])
    # ---- stage C
    mism = c.validate("Trace_C20", events, stateful=True, shards=12)
    def history_of(idx):
        lo = idx
        while lo > 0 and '"TraceReset"' not in events[lo][:40]: lo -= 1
        evs = [json.loads(x) for x in events[lo:idx + 1]]
        return evs, hist_from_events(evs)

    def classify(idx, t):
        evs, h = history_of(idx)
        e = evs[-1]
        cls = "hang-not-full" if e.get("hang") else "fail-not-full" if e["err"] else ("out-of-bounds" if not (h["min"] <= e["id"] <= h["max"]) else "live-id")
        return (e["op"], cls, "history min=%d max=%d, %d ops; observed id=%s err=%s is not a step of IdAlloc" % (h["min"], h["max"], len(h["ops"]), e["id"], e["err"]),
                dict(history=h, observed=e, how="driver idalloc replay [history] out.ndjson; validate with Trace_C20"))

    def confirm(idx, t):
        evs, h = history_of(idx)
        hp2 = os.path.join(c.scratch, "confirm.json"); json.dump([h], open(hp2, "w"))
        out3 = os.path.join(c.scratch, "confirm.ndjson")
        c.run_driver(drv, ["replay", hp2, out3])
        again = c.validate("Trace_C20", read_ndjson(out3), stateful=True, shards=1)
        c.cov["traces_validated_against_impl"] -= len(evs)
        return bool(again)
    c.triage(mism, classify, confirm)
    nhist = sum(1 for e in events if '"New"' in e[:40])
    nh = sum(1 for x in events if '"hang":true' in x)
    if nh:
        c.note("%d call(s) did not return within 2 s (judged by TLC like a failed allocation: a violation only where the property forbids failing)" % nh)
    c.cov["distinct_nontrivial"] = len(c._distinct) + (nhist - n_edges)
    c.cov["rule"] = ("cases = real allocator calls; distinct non-trivial = distinct (source state, operation, arguments) edges of the "
                     "exhaustive model graph replayed (%d) + distinct simulated/recorded histories (%d); a history is non-trivial when it has at least one operation" % (n_edges, nhist - n_edges))
    c.cov["edges_replayed"] = n_edges
    c.cov["histories"] = nhist
    c.cov["exhaustive"] = False
    for i in (0, len(events) // 2, len(events) - 1):
        c.sample(events[i])
    c.sample(hists[n_edges // 2])
    c.assumptions += ["domain: 0 <= min <= max; in-range arguments of either sign",
                      "exhaustive for ranges of size <= %d, min <= %d; larger ranges sampled" % (6 if thorough else 5, 3 if thorough else 2)]


if __name__ == "__main__":
    main("C20", run)
