#!/usr/bin/env python3
"""C10 - decode and encode are pure: no input mutation, no aliasing, deterministic.
Stage A: MC_C10 - the decoder machine over a heap of cells (input = cell 1, every buffer-backed element gets a fresh
cell holding a copy), environment actions ScribbleInput / ScribbleMsg after termination, and an encoder machine
appending to a caller's prefix: TLC checks InputNeverWritten, NoAlias, FreshCells, ScribbleInputHarmless,
ScribbleMsgHarmless, MsgUntouchedByEncode, EncodeResult and the action property OutOnlyGrows on every path of the
generator tree.  Stage B: the same tree provides inputs (accepted and rejected) and message values.
Stage C: the driver performs exactly the model's environment actions on the real objects (snapshot, decode, invert the
input, re-project, invert every message octet, re-read the input, decode again; encode into pre-filled buffers of
0/1/17/4096 octets twice) and TLC checks the observations.
Added after seeded rounds 3-5: the second decode runs in other memory than the first (cap = len vs. spare capacity with a sentinel); the second encoding goes into a buffer that was grown, used, Reset and prefixed; the outer header view is compared before and after ALL encodings, including hand-assembled messages."""
import json, os, sys
sys.path.insert(0, os.path.dirname(os.path.abspath(__file__)))
from codec_common import *

META = dict(
    property_id="C10", engine="tlc-codec",
    technique="TLC model-checks a heap-of-cells model of decoder/encoder purity (no write to the input cell, fresh cells, scribble actions, output only grows); the same scribble/double-run actions are executed on real messages and buffers and trace-validated by TLC",
    level=("model_checking", "Purity is stated on an explicit heap model and checked by TLC on every path of the bounded generator; the binding executes the model's environment actions (scribble either side, run twice, pre-filled buffers) on the real code for every generated input and message value and lets TLC compare before/after observations.", "7/C10"),
    level_note="Trusted: TLC, Go reflection (projection and scribbling of message octets). Aliasing is detected through its observable effect (a mutation on one side showing on the other); hidden state that never influences results is not observable.",
)


def run(c):
    thorough = c.tier == "thorough"
    rng = c.rng
    sd = c.spec_dir("mc10")
    if thorough:
        cfg = open(os.path.join(sd, "MC_C10.cfg")).read().replace("MaxOpt = 1", "MaxOpt = 2").replace("MsgHi = 45", "MsgHi = 12")
        open(os.path.join(sd, "MC_C10.cfg"), "w").write(cfg)
    c.stage_a(sd, "MC_C10", "MC_C10", timeout=2400, coverage=not thorough)
    gen = mc_codec(c, 2 if thorough else 1, shards=9 if thorough else 3, liveness=False, deep=() if thorough else deep_messages(c, 5))
    drv = c.build_driver("codec")
    cases = []
    use = gen if not thorough else rng.sample(gen, min(len(gen), 40000))
    for g in use:
        t = TBL[g["m"]]
        if t["family"] == "ENV":          # the envelope's own decoder is reachable by direct call only
            cases.append(dict(k="pured", entry="body", m=g["m"], inp=g["inp"]))
            cases.append(dict(k="pured", entry="body", m=g["m"], inp=g["inp"] + [0x7E, 0x00, 0x43, 0x11, 0x22]))
            continue
        cases.append(dict(k="pured", entry="plain", inp=g["inp"]))
        if rng.random() < 0.3:
            cases.append(dict(k="pured", entry="gmm" if t["family"] == "GMM" else "gsm", inp=g["inp"]))
        c.count_distinct(("d", tuple(g["inp"])))
        if rng.random() < (0.25 if not thorough else 0.1):
            for v in hdr_variants(g["m"], g["inp"]):
                cases.append(dict(k="pured", entry="plain", inp=v))
    # every message's minimal instance and every proper prefix of it with the header octets routing ignores at their reserved /
    # extreme values (PTI 255, PDU session identity 255, spare half octet 15): accepted or rejected, the input stays as it was
    for t in TABLES:
        if t["family"] == "ENV": continue
        b = plain_minimal(t["name"])
        vs = [b[:1] + [0xFF] + b[2:], b[:1] + [0xF0] + b[2:]] if t["family"] == "GMM" else [b[:2] + [0xFF] + b[3:], b[:1] + [0xFF, 0xFF] + b[3:], b[:1] + [0x00, 0xFF] + b[3:]]
        for v in vs:
            for k in range(3, len(v) + 1):
                if k <= 40 or k == len(v): cases.append(dict(k="pured", entry="plain", inp=v[:k]))
    for m, (b0, singles) in sorted(singles_by_message(gen).items()):   # an unknown identifier, THEN known elements (every message)
        u = unknown_octet(m)
        for e in sorted(singles, key=len)[:3] + sorted(singles, key=len)[-1:]:
            cases.append(dict(k="pured", entry="plain", inp=b0 + [u] + e))
            cases.append(dict(k="pured", entry="plain", inp=b0 + e + [u, u] + e))
    # every value of every one-octet length field WITH that much content behind it (a length the tables do not allow must be
    # refused without the input having been touched on the way): one accepted representative per (message, element)
    rep = {}
    for g in sorted((g for g in gen if g["ok"] and not g["unk"] and TBL[g["m"]]["family"] != "ENV"), key=lambda g: -len(g["inp"])):
        for pos, lsz, sname in length_positions(g["m"], g["inp"]):
            rep.setdefault((g["m"], sname, lsz), (g["inp"], pos))
    tailpad = [(i * 37 + 11) % 255 + 1 for i in range(300)]
    for (mname, sname, lsz), (inp, pos) in sorted(rep.items()):
        if lsz != 1: continue
        for v in range(256):
            if v != inp[pos]:
                cases.append(dict(k="pured", entry="plain", inp=inp[:pos] + [v] + inp[pos + 1:] + tailpad))
    c.cov["length_octets_swept_with_content"] = sum(1 for (_, _, l) in rep if l == 1)
    accd = [g for g in use if g["ok"] and TBL[g["m"]]["family"] != "ENV"]
    for g in rng.sample(accd, min(len(accd), 300 if not thorough else 3000)):      # the same messages inside a security-protected envelope
        for sht in (1, 2, 3, 4):
            cases.append(dict(k="pured", entry="plain", inp=wrapped(g["inp"], sht)))
    for name, b in samples(3000 if not thorough else 70000):
        cases.append(dict(k="pured", entry="plain", inp=b))
        if len(b) < 300:
            cases.append(dict(k="pured", entry="plain", inp=wrapped(b, 2)))
    wants = [(g["m"], g["w"]) for g in gen if g["g"] and TBL[g["m"]]["family"] != "ENV"]
    if thorough: wants = rng.sample(wants, min(len(wants), 20000))
    bym = {}
    for m, w in wants:
        bym.setdefault(m, []).append(w)
        cases.append(dict(k="puree", m=m, mand=w["mand"], opt=w["opt"], pre=rng.choice([0, 1, 17])))
        # array-backed elements holding octets of a longer, earlier value behind their present length: encoding reads the
        # first Len octets and leaves the rest of the caller's object alone
        t_ = TBL[m]; stale = json.loads(json.dumps(w)); touched = False
        for kind, slots in (("mand", [x for x in t_["slots"] if x["mand"]]), ("opt", [x for x in t_["slots"] if not x["mand"]])):
            for k, s_ in enumerate(slots):
                v = stale[kind][k]
                if v["p"] and s_["data"] == "arr" and s_["lsz"] > 0 and v["len"] < len(v["v"]):
                    v["v"] = v["v"][:v["len"]] + [0xEE - i for i in range(len(v["v"]) - v["len"])]; touched = True
        if touched: cases.append(dict(k="puree", m=m, mand=stale["mand"], opt=stale["opt"], pre=rng.choice([0, 3])))
        if rng.random() < 0.15:         # the same message assembled by hand: the outer header view carries the message type only
            cases.append(dict(k="puree", m=m, mand=w["mand"], opt=w["opt"], pre=rng.choice([0, 5]), hz=True))
        c.count_distinct(("e", m, json.dumps(w, sort_keys=True)))
    for m, ws in bym.items():
        full = merge_wants(m, ws)
        for fv in fill_variants(m, full):                                              # constant contents (all 0x00, 0xFF, ...)
            cases.append(dict(k="puree", m=m, mand=fv["mand"], opt=fv["opt"], pre=rng.choice([0, 17])))
        seenset = set()
        for w in ws:                                                                   # all-zero / all-ones contents of every single element
            key = json.dumps([s_["p"] for s_ in w["opt"]])
            if key in seenset: continue
            seenset.add(key)
            fvs = fill_variants(m, w)
            cases.append(dict(k="puree", m=m, mand=fvs[0]["mand"], opt=fvs[0]["opt"], pre=1))
            cases.append(dict(k="puree", m=m, mand=fvs[1]["mand"], opt=fvs[1]["opt"], pre=0))
        for pre in (0, 1, 17, 4096):
            cases.append(dict(k="puree", m=m, mand=full["mand"], opt=full["opt"], pre=pre))
    # all encoded messages are kept and encoded once more at the end, over a second later (one event, Trace_C10!PureLater)
    cases.append(dict(k="later"))
    events, hang = run_codec(c, drv, cases)
    if hang is not None:
        c.report("Purity", "hang", "case %d did not return" % hang, cases[hang]); events = events[:hang]
    c.cov["evaluations"] = len(events)
    mism = c.validate("Trace_C10", events, shards=14)

    def classify(idx, t):
        if t[0] != "MISMATCH": return None
        e = json.loads(events[idx])
        if e["op"] == "PureLater":
            return ("Encode", t[2], "%d of %d messages encode to other octets %d ms later; first: case %s, %s -> %s" % (
                len(e["which"]), e["n"], e["wait"], e["which"][:1], e["first"][0][:40], e["later"][0][:40]),
                dict(case=[cases[k] for k in e["which"][:3]] + [cases[idx]], observed=dict(which=e["which"], first=e["first"][:3], later=e["later"][:3], wait=e["wait"])))
        return ("Decode" if e["op"] == "PureD" else "Encode", t[2], "%s: %s" % (e.get("m") or e["d1"]["msg"] or e.get("entry"), t[2]),
                dict(case=cases[idx], observed={k: v for k, v in e.items() if k not in ("inp", "mand", "opt")}))

    def confirm(idx, t):
        if cases[idx].get("k") == "later":
            e = json.loads(events[idx])
            return confirm_by_tlc(c, drv, cases[idx], "Trace_C10", t[2], context=[cases[k] for k in e["which"][:3]])
        return confirm_by_tlc(c, drv, cases[idx], "Trace_C10", t[2], context=cases[max(0, idx - 2):idx])
    c.triage(mism, classify, confirm)
    def _c(e): e["inp_after"] = [(e["inp_after"][0] + 1) % 256] + e["inp_after"][1:]; return e
    binding_selftest(c, "Trace_C10", events, lambda x: x.startswith('{"op":"PureD"') and '"inp_after":[' in x and '"inp_after":[]' not in x, _c, "the input slice logged as modified after decoding")
    c.cov["notes_octets"] = sum(1 for _, t in mism if t[0] == "NOTE")
    c.cov["rule"] = "cases = purity experiments on the real code (decode: snapshot/scribble/double run; encode: pre-filled buffer/double run); distinct non-trivial = distinct inputs (decode) and distinct message values (encode)"
    for i in (0, len(events) // 2, len(events) - 1):
        c.sample(events[i], maxlen=500)


if __name__ == "__main__":
    main("C10", run)
