"""Shared orchestration for C06 / C07 (value conformance of the ciphering / integrity functions).
Only plumbing: copy vectors next to the specs, let TLC generate the lattice, run the driver, let TLC
validate the observations, match mismatches against known findings."""
import json, os, sys
sys.path.insert(0, os.path.dirname(os.path.dirname(os.path.abspath(__file__))))
from vlib import *

VEC = os.path.join(VERIF, "tables", "vectors")


def vector_files():
    return {os.path.join(VEC, f): f for f in sorted(os.listdir(VEC)) if f.endswith(".json")}


def set_constants(sd, cfg, subst):
    """rewrite `Name = value` constant assignments of a cfg in the scratch copy"""
    import re
    p = os.path.join(sd, cfg + ".cfg"); s = open(p).read()
    for k, v in subst.items():
        s2 = re.sub(r"\b%s = (\{[^}]*\}|\"[^\"]*\"|\S+)" % re.escape(k), "%s = %s" % (k, v), s, count=1)
        if s2 == s and ("%s = %s" % (k, v)) not in s:
            raise Infra("constant %s not found in %s.cfg" % (k, cfg))
        s = s2
    open(p, "w").write(s)


def generate_cases(c, sd, module, cfg):
    res = c.tlc(sd, module, cfg, workers=2, timeout=900)
    if not res.clean:
        raise Infra("case generator failed:\n" + res.out[-2000:])
    cases = [json.loads(json.loads(ln)) for ln in res.printed if ln.startswith('"{')]
    if len(cases) != res.distinct - 1:
        raise Infra("case list incomplete: %d printed, %d distinct states" % (len(cases), res.distinct))
    c.cov["states"] += res.distinct; c.cov["transitions"] += res.generated
    # TLC's print order depends on worker scheduling: fix the replay order.  Cases with the same fixed key and COUNT are
    # replayed back to back (bearer, direction, length varying), so that a result depending on the previous call shows.
    cases.sort(key=lambda e: (e["grp"] > 0, e["grp"], e["seq"], e["op"], e["alg"], json.dumps(e["key"]), json.dumps(e["cnt"]), e["nbits"], e["bearer"], e["dir"], e["dpat"]))
    return cases


def case_of_event(e):
    """exact re-run of an observed call: concrete key, count and data"""
    op = e["op"]
    if op[:3] in ("NEA", "NIA") and op[3:].isdigit():
        op = op[:3]
    return dict(op=op, alg=e["alg"], key=e["key"], cnt=e["cnt"], bearer=e["bearer"], dir=e["dir"], nbits=e["nbits"], dpat=0, data=e["data"], grp=0, seq=0)


def run_value_conformance(c, kind, trace_module, gen_module, gen_cfg, gen_subst, shards):
    """stage B + C shared by C06 (kind=cipher) and C07 (kind=mac); returns (cases, events)"""
    sd = c.spec_dir("specB", vector_files())
    if gen_subst:
        set_constants(sd, gen_cfg, gen_subst)
    cases = generate_cases(c, sd, gen_module, gen_cfg)
    drv = c.build_driver("sec")
    cp = os.path.join(c.scratch, "cases.json"); json.dump(cases, open(cp, "w"))
    out1 = os.path.join(c.scratch, "replay.ndjson"); out2 = os.path.join(c.scratch, "record.ndjson")
    c.run_driver(drv, ["replay", cp, out1])
    c.run_driver(drv, ["record", kind, out2])
    ev1, ev2 = read_ndjson(out1), read_ndjson(out2)
    if len(ev1) != len(cases):
        raise Infra("driver replayed %d of %d cases" % (len(ev1), len(cases)))
    events = ev1 + ev2
    # interleave long and short events so that shards have similar cost
    order = sorted(range(len(events)), key=lambda i: len(events[i]))
    shards = int(os.environ.get("VERIF_SHARDS", shards))     # development on a shared box: fewer JVMs
    nsh = shards
    perm = [i for s in range(nsh) for i in order[s::nsh]]
    events = [events[i] for i in perm]
    c.cov["evaluations"] = len(events)
    c.cov["generated_cases"] = len(ev1); c.cov["recorded_random_calls"] = len(ev2)
    mism = c.validate(trace_module, events, shards=shards, timeout=3000)

    order_note = {}

    def classify(idx, t):
        e = json.loads(events[idx]); verdict = t[5]
        if verdict == "out-of-domain":
            raise Infra("the driver made a call outside the domain of the property: %s" % events[idx][:300])
        cls = {"value": "wrong-output", "length": "wrong-length", "error": "unexpected-error", "panic": "panic", "result-changed": "result-changed-by-later-call"}.get(verdict, verdict)
        if verdict == "panic" and e["nbits"] == 0:
            cls = "nia1-panic-empty-message" if (e["alg"] == 1 and kind == "mac" and e["pfn"].endswith("security.NIA1")) else "panic-empty-input"
        if verdict == "panic" and not e.get("plib"):
            raise Infra("panic outside the library in the driver: %s" % e.get("pfn"))
        what = "%s alg=%d bearer=%d dir=%d nbits=%d: %s (key=%s count=%s)" % (
            e["op"], e["alg"], e["bearer"], e["dir"], e["nbits"],
            "panic in " + e["pfn"] if verdict == "panic" else
            "the slice returned by the previous call was changed by this call (held %s, expected the caller's own bytes)" % e["held"][:8] if verdict == "result-changed" else
            "observed %s differs from the standard function (%s)" % (e["out"][:16], verdict),
            bytes(e["key"]).hex(), bytes(e["cnt"]).hex())
        obj = dict(case=case_of_event(e), observed=e,
                   how="harness/cmd/sec: sec replay [case] out.ndjson ; validate out.ndjson with spec/trace/%s" % trace_module)
        order_note["obj"] = obj
        return (e["op"], cls, what, obj)

    full = {}

    def confirm(idx, t):
        # (1) the call alone, in a fresh process
        e = json.loads(events[idx])
        p = os.path.join(c.scratch, "confirm.json"); json.dump([case_of_event(e)], open(p, "w"))
        o = os.path.join(c.scratch, "confirm.ndjson")
        c.run_driver(drv, ["replay", p, o])
        again = c.validate(trace_module, read_ndjson(o), shards=1)
        c.cov["traces_validated_against_impl"] -= 1
        if again:
            return True
        # (2) the result may depend on the calls made before it: the complete run once more, in fresh processes
        if not full:
            o1 = os.path.join(c.scratch, "replay2.ndjson"); o2 = os.path.join(c.scratch, "record2.ndjson")
            c.run_driver(drv, ["replay", cp, o1]); c.run_driver(drv, ["record", kind, o2])
            ev2 = read_ndjson(o1) + read_ndjson(o2)
            ev2 = [ev2[i] for i in perm]
            if ev2 == events:
                full["mism"] = {i for i, _ in mism}
            else:
                full["mism"] = {i for i, _ in c.validate(trace_module, ev2, shards=shards, timeout=3000)}
                c.cov["traces_validated_against_impl"] -= len(ev2)
        if idx in full["mism"]:
            c.note("%s nbits=%d: wrong only after the preceding calls of the run (not when called alone in a fresh process): the result depends on earlier calls" % (e["op"], e["nbits"]))
            inv = {o: n for n, o in enumerate(perm)}
            o0 = perm[idx]
            order_note["obj"]["preceding_calls"] = [case_of_event(json.loads(events[inv[j]])) for j in range(max(0, o0 - 12), o0)]
            order_note["obj"]["how"] = "the result depends on earlier calls: sec replay [preceding_calls + case] out.ndjson ; validate with spec/trace/%s" % trace_module
            return True
        return False
    c.triage(mism, classify, confirm)
    for ln in events:
        e = json.loads(ln)
        if e["nbits"] > 0:
            c.count_distinct((e["op"], e["alg"], e["bearer"], e["dir"], e["nbits"], tuple(e["key"]), tuple(e["cnt"]), hash(tuple(e["data"]))))
    for i in (0, len(events) // 3, 2 * len(events) // 3, len(events) - 1):
        c.sample(events[i], maxlen=400)
    return cases, events
