#!/usr/bin/env python3
"""C03 - re-encoding a decoded message is stable, and byte-exact for canonical input.
Stage A/B: invariant ReEncode of MC_Codec (d2 = d1, e2 = e1, Canonical(inp) => e1 = inp) on every accepted path of the
generator tree, which includes reordered, duplicated and unknown optional elements at depth 2; inputs printed.
Further inputs: permutations of up to 3 optional elements, each element duplicated with different contents, every unknown
identifier octet (incl. the half-octet alias values 0x00-0x0F) inserted between elements, the repository samples.
Stage C: the real chain decode->encode->decode->encode is observed and TLC checks the three laws on the observed values
and decides canonicity of the input by its own table-driven parse.
Added after seeded round 7: every pair of different optional elements in definition order, contents salted per element.
Added after seeded rounds 3-5: structured contents for every element (byte level); optional parts of exactly 65 536 octets; every projecting decode is followed by a second decode of the same input into another message that is scribbled over before the first is read."""
import itertools, json, os, sys
sys.path.insert(0, os.path.dirname(os.path.abspath(__file__)))
from codec_common import *

META = dict(
    property_id="C03", engine="tlc-codec",
    technique="TLC model-checks the re-encoding fixed point and canonical byte-exactness on the generator tree (reordered/duplicated/unknown elements) and emits the inputs; the real decode-encode-decode-encode chain is trace-validated by TLC, canonicity decided by the table-driven parse",
    level=("model_checking", "The three laws are invariants of the table-driven codec on every accepted path of the bounded generator; each path plus derived permutations/duplicates/unknown-identifier insertions is run through the real chain and the observed octets and messages are compared by TLC.", "7/C03"),
    level_note="Trusted: TLC, Go reflection, tables/messages.json (canonical is decided by the tables). Whether a non-canonical input is accepted at all is not judged here.",
)


def elems(g):
    """split a canonical generated input into header+mandatory part and list of optional elements (by re-generation order)"""
    return g


def run(c):
    thorough = c.tier == "thorough"
    rng = c.rng
    gen = mc_codec(c, 2, shards=9, liveness=False) if thorough else mc_codec(c, 1, shards=3, liveness=False, deep=deep_messages(c, 8))
    drv = c.build_driver("codec")
    cases, seen = [], set()

    def add(inp):
        k = tuple(inp)
        if k in seen: return
        seen.add(k); cases.append(dict(k="re", inp=list(inp)))
    disp = [g for g in gen if TBL[g["m"]]["family"] != "ENV"]
    for g in disp: add(g["inp"])
    # derive: per message, the mandatory part and the single-element suffixes (from depth-1 in-grammar paths with n = 1)
    bym = {}
    for g in disp:
        if g["g"] and not g["unk"]: bym.setdefault(g["m"], []).append(g)
    for m, gs in bym.items():
        base = min((g for g in gs if g["n"] == 0), key=lambda g: len(g["inp"]), default=None)
        if base is None: continue
        nb = len(base["inp"])
        singles = [g["inp"][nb:] for g in gs if g["n"] == 1 and g["inp"][:nb] == base["inp"]]
        if not singles: continue
        known = set()
        for s in TBL[m]["slots"]:
            if not s["mand"]: known.add(s["iei"]); 
        pick = singles if len(singles) <= 10 else rng.sample(singles, 10)
        # permutations of up to 3 elements
        for r in (2, 3):
            combos = list(itertools.permutations(pick[:6 if thorough else 4], r))
            for p in (combos if thorough else rng.sample(combos, min(len(combos), 12))):
                add(base["inp"] + [b for e in p for b in e])
        # duplicates with different contents
        for e in pick:
            e2 = list(e); e2[-1] = (e2[-1] + 1) % 256 if len(e2) > 2 else e2[-1]
            add(base["inp"] + e + e2)
            add(base["inp"] + e2 + e)
        # the same element twice with DIFFERENT lengths (long then short, short then long)
        byiei = {}
        for e in singles: byiei.setdefault(e[0], []).append(e)
        for iei, es in byiei.items():
            es = sorted(es, key=len)
            if len(es) >= 2 and len(es[0]) != len(es[-1]):
                add(base["inp"] + es[-1] + es[0]); add(base["inp"] + es[0] + es[-1])
                if len(es) >= 3: add(base["inp"] + es[len(es) // 2] + es[0])
        # every pair of different elements in definition order (canonical), each with contents of its own, and the full set
        for v in canonical_pairs(m, base["inp"], singles, rng=rng, per_pair=3 if thorough else 1): add(v)
        # every small value (thorough: every value) of each one-octet mandatory element, with each optional element behind it
        for v in mand_value_inputs(m, base["inp"], singles, range(256) if thorough else list(range(16)) + [0x1F, 0x55, 0x80, 0xF1, 0xFF]): add(v)
        # contents that look structured (code + inner big-endian length / count smaller than the content) for every element
        for iei, es in byiei.items():
            for v in structured_elements(m, max(es, key=len)): add(base["inp"] + v)
        for v in exact_64k_inputs(m, base["inp"], singles): add(v)
        # header octets that routing ignores, non-zero
        for e in pick[:3]:
            for v in hdr_variants(m, base["inp"] + e): add(v)
        # ... and every value of each such octet on the bare message (thorough: also with one element behind it)
        for v in hdr_sweep(m, base["inp"]): add(v)
        if thorough:
            for v in hdr_sweep(m, base["inp"] + pick[0], step=3): add(v)
        # unknown identifier octets between / around elements
        unk = [b for b in range(256) if (b if b < 128 else b // 16) not in known]
        alias = [b for b in range(16)]
        for b in (unk if thorough else rng.sample(unk, min(len(unk), 12))) + alias:
            e = rng.choice(pick)
            add(base["inp"] + [b] + e); add(base["inp"] + e + [b])
    for name, b in samples(3000 if not thorough else 70000):
        add(b)
    events, hang = run_codec(c, drv, cases)
    if hang is not None:
        c.report("ReEncode", "hang", "case %d did not return within 20 s" % hang, cases[hang]); events = events[:hang]
    c.cov["evaluations"] = len(events)
    mism = c.validate("Trace_C03", events, shards=14)
    acc = 0
    for i, ln in enumerate(events):
        if '"ok":true' in ln[:ln.find('"d1"')] if '"d1"' in ln else False:
            acc += 1; c.count_distinct(i)

    def classify(idx, t):
        e = json.loads(events[idx])
        return ("ReEncode", t[2], "%s: %s" % (e["d1"]["msg"] or "?", t[2]),
                dict(case=cases[idx], observed={k: e[k] for k in ("ok", "e1ok", "e1", "d2ok", "e2ok", "e2", "panic", "pfn")}, how="harness codec run; validate with Trace_C03"))

    def confirm(idx, t):
        return confirm_by_tlc(c, drv, cases[idx], "Trace_C03", t[2], context=cases[max(0, idx - 2):idx])
    c.triage(mism, classify, confirm)
    def _c(e): e["e2"] = e["e2"][:-1] + [(e["e2"][-1] + 1) % 256]; return e
    binding_selftest(c, "Trace_C03", events, lambda x: '"e2ok":true' in x, _c, "the last octet of the second re-encoding changed")
    c.cov["accepted_inputs"] = acc
    c.cov["rule"] = "cases = decode-encode-decode-encode chains on the real code; distinct non-trivial = distinct inputs the real decoder accepted (the laws say nothing about rejected inputs)"
    for i in (0, len(events) // 2, len(events) - 1):
        c.sample(events[i], maxlen=500)
    c.assumptions += ["canonical = Canonical(M, inp) of NasCodec.tla (known elements only, at most once, table order, identifiers in proper octet form)"]


if __name__ == "__main__":
    main("C03", run)
