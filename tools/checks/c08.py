#!/usr/bin/env python3
"""C08 - security API laws: involution, length, prefix stability, keystream independence, validation, NULL algorithms.
Stage A: TLC model-checks SecurityApi (payload cells, Encrypt / Mac actions over an UNINTERPRETED keystream function chosen
         nondeterministically per parameter point) exhaustively on small payloads: Accounting, LengthPreserved, Involution,
         PrefixStable, KsIndependent (invariants), ErrUntouched, GuardExact, NullIdentity, MacShape, MacPure (action
         properties); a second configuration sweeps the guard boundaries, a third the result cells (MacFresh, ResultOwned:
         a returned MAC is a fresh cell the caller may write into).
Stage B: TLC enumerates law-directed histories for every payload length 0..67 and every algorithm (MC_C08_gen), TLC
         -simulate walks the state machine itself; the driver executes them on real buffers, and records the full
         guard cube alg 0..255 x bearer 0..255 x direction 0..255 for both calls plus seeded histories.
Stage C: the trace specification (SecurityApi's own variables, keystream learned from the first observation of each
         point) checks the laws on the observed histories.
Added after seeded rounds 3-5: payload lengths around powers of two (255..4096), 8193 and 65 537 octets in the quick tier."""
import json, os, sys
from concurrent.futures import ThreadPoolExecutor
sys.path.insert(0, os.path.dirname(os.path.abspath(__file__)))
from seclib import *

META = dict(
    property_id="C08", engine="tlc-crypto",
    technique="TLA+ state machine of the security API over an uninterpreted keystream function, model-checked exhaustively on small payloads; TLC-generated and TLC-simulated call histories, the full guard cube and seeded histories executed on real payload buffers; before/after copies of payload, key and message validated by a TLC trace specification that tracks every payload cell",
    level=("model_checking", "The API laws are invariants and action properties of an explicit state machine whose keystream is an arbitrary function of the parameters; TLC checks them for every reachable state on small payloads (all keystream functions on up to 2-3 points), and the same machine, tracking the real buffers event by event, decides every observed call: guards over the complete 256^3 cube for both calls, involution / prefix / independence at every payload length 0..67 for every algorithm, nil and empty payloads, MAC shape, input purity, panics.", "7/C08"),
    level_note="Trusted: TLC, the Go runtime. The concrete keystream values are C06/C07's business; here only that they are a function of (algorithm, key, COUNT, bearer, direction). Bounded: payload lengths 0..67 dense (thorough: up to 400 and selected larger), keys/counts sampled.",
)

CALL = dict(Encrypt="NASEncrypt", Mac="NASMacCalculate")


def read_behaviours(directory, prefix):
    """like vlib.read_sim_behaviours, but accepts action labels with parameters (`<Encrypt(2,1,3,2,32,1) line ...>`)"""
    import re
    behs = []
    for fn in sorted(f for f in os.listdir(directory) if f.startswith(prefix + "_")):
        txt = open(os.path.join(directory, fn)).read()
        def wanted(text):      # only `last` and `cell` (ks has record-valued keys, which vlib's value parser does not hash)
            out = {}
            for part in re.split(r"(?m)^/\\ ", text):
                mm = re.match(r"(last|cell) = ", part.strip())
                if mm: out[mm.group(1)] = parse_tla_value(part.strip()[mm.end():])
            return out
        states = [(m.group(1), wanted(m.group(2)))
                  for m in re.finditer(r"\\\* <(\w+)[^\n]*? line[^\n]*\nSTATE_\d+ == \n(.*?)(?=\n\n|\Z)", txt, re.S)]
        if states: behs.append(states)
        os.unlink(os.path.join(directory, fn))
    return behs


def sim_histories(c, sd, nsim, depth):
    """random walks of SecurityApi chosen by TLC -simulate, concretised: symbol s at position i of a payload becomes a
    block of `scale` octets base[i] xor (0xff if s else 0) - prefix relations and equalities are preserved"""
    res = c.tlc(sd, "MC_C08", "MC_C08_sim", workers=1, simulate="file=beh,num=%d" % nsim, depth=depth, timeout=900)
    c.cov["transitions"] += res.generated
    hists = []
    for beh in read_behaviours(sd, "beh"):
        scale = c.rng.choice([1, 1, 2, 3, 5, 8, 13, 21])
        base = [c.rng.randrange(256) for _ in range(3 * scale)]
        ops, loaded = [], set()
        for _, st in beh[1:]:
            la = st["last"]
            if la["op"] == "Load":
                p = st["cell"][la["c"] - 1] if isinstance(st["cell"], list) else st["cell"][la["c"]]
                if p == "Nil":
                    ops.append(dict(op="Load", cell=la["c"], nil=True))
                else:
                    data = [base[i * scale + j] ^ (255 if s else 0) for i, s in enumerate(p) for j in range(scale)]
                    ops.append(dict(op="Load", cell=la["c"], nil=False, datab=data, len=len(data)))
                loaded.add(la["c"])
            elif la["op"] in ("Encrypt", "Mac"):
                if la["c"] not in loaded:        # the model starts with nil cells
                    ops.append(dict(op="Load", cell=la["c"], nil=True)); loaded.add(la["c"])
                ops.append(dict(op=la["op"], cell=la["c"], alg=la["alg"], key=la["key"], cnt=la["cnt"], bearer=la["bearer"], dir=la["dir"]))
        if ops:
            hists.append(ops)
    if len(hists) < nsim // 2:
        raise Infra("simulation produced too few behaviours (%d)" % len(hists))
    return hists


def run(c):
    thorough = c.tier == "thorough"
    sd = c.spec_dir("specA")
    # ---- stage A: two configurations, concurrently
    if thorough:
        set_constants(sd, "MC_C08", dict(WithNil="TRUE", Algs="{0, 1, 2, 3, 4}"))
    with ThreadPoolExecutor(max_workers=2) as ex:
        futs = [ex.submit(c.stage_a, sd, "MC_C08", cfg, workers=max(2, NCPU // 2), timeout=3000) for cfg in ("MC_C08", "MC_C08_guard")]
        for f in futs:
            f.result()
    c.stage_a(sd, "MC_C08", "MC_C08_fresh", workers=4, timeout=600)
    # ---- stage B
    if thorough:
        set_constants(sd, "MC_C08_gen", dict(BigOctets="{100, 127, 128, 129, 255, 256, 257, 1000, 4096, 8192, 8193, 65535, 65536, 65537, 131079}"))
    res = c.tlc(sd, "MC_C08_gen", "MC_C08_gen", workers=2, timeout=900)
    if not res.clean:
        raise Infra("history generator failed:\n" + res.out[-2000:])
    hists = [json.loads(json.loads(ln)) for ln in res.printed if ln.startswith('"[')]
    if len(hists) != res.distinct - 1:
        raise Infra("history list incomplete: %d printed, %d distinct states" % (len(hists), res.distinct))
    c.cov["states"] += res.distinct; c.cov["transitions"] += res.generated
    hists.sort(key=lambda h: json.dumps(h, sort_keys=True))
    ngen = len(hists)
    sims = sim_histories(c, sd, 300 if not thorough else 3000, 14 if not thorough else 20)
    hists += sims
    drv = c.build_driver("sec")
    hp = os.path.join(c.scratch, "hists.json"); json.dump(hists, open(hp, "w"))
    out1 = os.path.join(c.scratch, "hist.ndjson"); out2 = os.path.join(c.scratch, "record.ndjson")
    c.run_driver(drv, ["hist", hp, out1])
    c.run_driver(drv, ["record08", out2])
    events = read_ndjson(out1) + read_ndjson(out2)
    is_reset = lambda s: '"TraceReset"' in s[:40]
    c.cov["evaluations"] = sum(1 for e in events if not is_reset(e) and '"op":"Load"' not in e[:40]) + 2 * 256 * 65536 - 512
    c.cov["guard_cube_calls"] = 2 * 256 * 65536
    # ---- stage C
    shards = int(os.environ.get("VERIF_SHARDS", 12))
    mism = c.validate("Trace_C08", events, stateful=True, shards=shards, timeout=3000)

    def history_of(idx):
        lo = idx
        while lo > 0 and not is_reset(events[lo]): lo -= 1
        evs = [json.loads(x) for x in events[lo + 1:idx + 1]]
        ops = []
        for e in evs:
            if e["op"] == "Load":
                ops.append(dict(op="Load", cell=e["cell"], nil=e["nil"], datab=e["after"], len=len(e["after"])))
            elif e["op"] in ("Encrypt", "Mac"):
                ops.append(dict(op=e["op"], cell=e["cell"], alg=e["alg"], bearer=e["bearer"], dir=e["dir"], keyb=e["key"], cntb=e["cnt"]))
        return evs, ops

    cur = {}

    def classify(idx, t):
        e = json.loads(events[idx]); kind = t[4]
        if kind == "continuity":
            raise Infra("harness lost track of a payload cell at event %d" % idx)
        if e["panic"] and not e["plib"] and e["op"] != "Cube":
            raise Infra("panic outside the library in the driver: %s" % e.get("pfn"))
        if e["op"] == "Cube":
            op = CALL[e["call"]]
            what = "guard cube alg=%d: %s; accepted %d (bearer,direction) pairs, expected %d; changed-payload set %s panics %s" % (
                e["alg"], kind, len(e["acc"]), 64 if e["alg"] <= 3 else 0, e["chg"][:6], e["pan"][:6])
            return (op, kind, what, dict(cube=dict(call=e["call"], alg=e["alg"]), observed=dict(acc=e["acc"][:80], chg=e["chg"][:80], pan=e["pan"][:80]),
                                         how="harness/cmd/sec: sec cube %s %d out.ndjson ; validate with spec/trace/Trace_C08" % (e["call"], e["alg"])))
        op = CALL[e["op"]]
        cls = "result-changed-by-later-call" if kind == "result-changed" else kind
        if kind == "panic" and not e["nil"] and len(e["before"]) == 0:
            cls = "panic-empty-payload"
            if e["op"] == "Mac":
                cls = "nia1-panic-empty-message" if (e["alg"] == 1 and e["pfn"].endswith("security.NIA1")) else "panic-empty-message"
        evs, ops = history_of(idx)
        what = "%s alg=%d bearer=%d dir=%d payload %s: %s%s (history of %d operations)" % (
            op, e["alg"], e["bearer"], e["dir"], "nil" if e["nil"] else "%d octets" % len(e["before"]), kind,
            " in " + e["pfn"] if e["panic"] else "", len(ops))
        cur["obj"] = dict(history=ops, observed=e, how="harness/cmd/sec: sec hist [[history]] out.ndjson ; validate with spec/trace/Trace_C08")
        return (op, cls, what, cur["obj"])

    full = {}

    def confirm(idx, t):
        e = json.loads(events[idx])
        o = os.path.join(c.scratch, "confirm.ndjson")
        # (1) the history alone, in a fresh process
        if e["op"] == "Cube":
            c.run_driver(drv, ["cube", e["call"], e["alg"], o])
        else:
            evs, ops = history_of(idx)
            p = os.path.join(c.scratch, "confirm.json"); json.dump([ops], open(p, "w"))
            c.run_driver(drv, ["hist", p, o])
        evs2 = read_ndjson(o)
        again = c.validate("Trace_C08", evs2, stateful=True, shards=1)
        c.cov["traces_validated_against_impl"] -= len(evs2)
        if any(m[1][4] == t[4] for m in again):
            return True
        # (2) the keystream function is global: the observation may contradict an earlier history.  The complete run again, fresh processes.
        if not full:
            o1 = os.path.join(c.scratch, "hist2.ndjson"); o2 = os.path.join(c.scratch, "record2.ndjson")
            c.run_driver(drv, ["hist", hp, o1]); c.run_driver(drv, ["record08", o2])
            ev2 = read_ndjson(o1) + read_ndjson(o2)
            if ev2 == events:
                full["mism"] = {i for i, _ in mism}
            else:
                full["mism"] = {i for i, _ in c.validate("Trace_C08", ev2, stateful=True, shards=shards, timeout=3000)}
                c.cov["traces_validated_against_impl"] -= len(ev2)
        if idx in full["mism"]:
            c.note("%s alg=%d: %s only in the context of the earlier histories of the run (the same parameter point gave another keystream before)" % (e["op"], e["alg"], t[4]))
            if "obj" in cur:
                cur["obj"]["how"] = ("contradicts an observation of the same parameter point in an earlier history: run the complete generated set "
                                     "(bin/vcheck C08 with VERIF_KEEP=1 keeps hists.json; sec hist hists.json out.ndjson) and validate with spec/trace/Trace_C08")
            return True
        return False
    c.triage(mism, classify, confirm)
    # ---- coverage
    nh = 0
    for ln in events:
        if is_reset(ln):
            nh += 1; continue
        e = json.loads(ln)
        if e["op"] in ("Encrypt", "Mac"):
            c.count_distinct((e["op"], e["alg"], e["bearer"], e["dir"], e["nil"], len(e["before"]), tuple(e["key"][:4]), tuple(e["cnt"]), hash(tuple(e["before"]))))
        elif e["op"] == "Cube":
            c.count_distinct(("Cube", e["call"], e["alg"]))
    c.cov["distinct_nontrivial"] = len(c._distinct)
    c.cov["rule"] = ("cases = real NASEncrypt / NASMacCalculate calls (histories) + 2 x 256 x 65536 guard-cube calls logged as 512 slice events; distinct "
                     "non-trivial = distinct (call, algorithm, bearer, direction, nil, payload, key, COUNT) observations in histories + distinct cube slices")
    c.cov["histories"] = nh; c.cov["generated_histories"] = ngen; c.cov["simulated_histories"] = len(sims)
    c.cov["exhaustive"] = False
    c.cov["guard_cube_exhaustive"] = True
    for i in (1, len(events) // 2, len(events) - 1):
        c.sample(events[i], maxlen=500)
    c.sample(hists[ngen // 2], maxlen=500)
    c.assumptions += ["the keystream is treated as an arbitrary function of (algorithm, key, COUNT, bearer, direction): its values are checked by C06",
                      "guards: complete cube alg 0..255 x bearer 0..255 x direction 0..255 on a 5-octet payload for both calls; other laws on sampled keys / counts"]


if __name__ == "__main__":
    main("C08", run)
