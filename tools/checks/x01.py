#!/usr/bin/env python3
"""X01 - growth beyond the listed properties (DESIGN 13 item 6): the NAS SECURE CHANNEL a 5G core builds from
the pieces of this library (TS 33.501 6.4 / TS 24.501 4.4), one direction of one security context.
Not registered in MANIFEST.json; run as   python3 tools/checks/x01.py [--tier quick|thorough]
(VERIF_SEED, VERIF_REPO as for the registered checks).  See docs/X01-secure-channel.md.

Stage A: TLC checks spec/NasSecureChannel.tla exhaustively on small moduli (SQN modulus 4, overflow modulus 2..3:
         SQN wrap, overflow carry and the wrap of the whole count are reachable) with abstract cryptography:
         Authenticity, NoReplay, NoReorderAcceptOld, TamperRejected, AcceptWindow, ReceiverNotAhead, CountMonotone,
         RejectIsNoOp, DesyncIsPermanent on a hostile network; RoundTrip on a network that only delays (every start
         count, across carry and wrap); Resync (SqnMod-1 losses tolerated).  NEGATIVE CONTROLS, which must FAIL:
         one more loss (desync boundary), NIA0 (tampering/replay undetected), the sender running through the end of
         the count space, and the receiver's estimate wrapping in the last overflow epoch.
Stage B: TLC generates behaviours of the same specification with the REAL moduli: -simulate walks from start counts
         next to every boundary and the exhaustive set of all behaviours of a small depth; harness/cmd/channel
         replays them on the real library (all NEA0-3 x NIA0-3, both directions, bearers 0/1/31) and records its
         own seeded behaviours.
Stage C: every event is validated by TLC against spec/trace/Trace_X01.tla (abstract channel tracked next to the
         observation; MAC and ciphertext octets recomputed from spec/Eea.tla / spec/Eia.tla for short messages)."""
import json, os, sys
from concurrent.futures import ThreadPoolExecutor
sys.path.insert(0, os.path.dirname(os.path.dirname(os.path.abspath(__file__))))
from vlib import *

META = dict(
    property_id="X01", engine="tlc-channel",
    technique="TLC exhaustive model of the NAS secure channel (sender/receiver counts, hostile network, abstract cryptography) on small moduli with negative controls; TLC-simulated and exhaustively enumerated behaviours with the real moduli replayed on a sender/receiver composed from the real library calls; every recorded step trace-validated by TLC against the abstract channel and, for short messages, the standard cipher/MAC specifications",
    level=("model_checking", "The channel is a finite state machine once the moduli are small: TLC enumerates every reachable state and checks the listed safety properties and the documented boundaries (negative controls must fail).  The real composition (security.Count, NASEncrypt, NASMacCalculate, the security-protected envelope, the plain codec) is bound to it by replaying TLC-chosen behaviours and judging every step with a total trace specification that runs the abstract channel with the real moduli.", "13 item 6"),
    level_note="Trusted: TLC, the Go runtime, the driver's composition (it is the system under test together with the library). Cryptography abstract in stage A (keystreams independent, MAC collision-free); concrete octets checked for plain messages of at most 32 octets only. Bounded: exhaustive for SQN modulus 4 / overflow modulus 2..3, at most 3 messages, 2 wires in flight and 3-4 environment actions; real moduli by simulation and depth-4/5 enumeration.",
)

ALL_CTX = [(nia, nea, d, b) for nia in range(4) for nea in range(4) for d in (0, 1) for b in (0, 1, 31)]
STUB = """---------------------------- MODULE ChanConcrete ----------------------------
EXTENDS Integers, Sequences, Bitwise
ChanHasConcrete == FALSE
ChanCipher(nea, kenc, c, bearer, dir, data) == <<>>
ChanMac(nia, kint, c, bearer, dir, sqn, ct) == <<>>
=============================================================================
"""
KAT = """---- MODULE MC_X01_concrete ----
EXTENDS ChanConcrete, TLC
K == <<1,2,3,4,5,6,7,8,9,10,11,12,13,14,15,16>>
D == <<126,0,67,115,0,17>>
ASSUME \\A a \\in 0..3 : Len(ChanCipher(a, K, 65535, 1, 0, D)) = 6 /\\ Len(ChanMac(a, K, 16777215, 31, 1, 255, D)) = 4
ASSUME \\A a \\in 1..3 : ChanCipher(a, K, 7, 0, 1, ChanCipher(a, K, 7, 0, 1, D)) = D
ASSUME ChanCipher(0, K, 7, 0, 1, D) = D /\\ ChanMac(0, K, 7, 0, 1, 7, D) = <<0, 0, 0, 0>>
VARIABLE x
Init == x = 0
Next == x' = x
====
"""


def set_cfg(sd, name, new_name, repl):
    """derive a configuration from a committed one by textual replacement (read fully, then write)"""
    txt = open(os.path.join(sd, name + ".cfg")).read()
    for a, b in repl:
        if a not in txt:
            raise Infra("cfg %s: %r not found" % (name, a))
        txt = txt.replace(a, b)
    with open(os.path.join(sd, new_name + ".cfg"), "w") as f:
        f.write(txt)
    return new_name


def expect_violation(c, sd, cfg, prop, what, workers=4):
    """negative control: the configuration must violate exactly `prop`"""
    res = c.tlc(sd, "MC_X01", cfg, workers=workers, timeout=900)
    if res.rc == 124:
        raise Infra("negative control timed out: " + cfg)
    if res.violated != prop:
        raise Infra("negative control %s: expected %s to be violated, TLC says %r\n%s" % (cfg, prop, res.violated, res.out[-1500:]))
    c.cov["states"] += res.distinct; c.cov["transitions"] += res.generated
    c.cov["stage_a"].append(dict(config=cfg, generated=res.generated, distinct=res.distinct, wall_s=round(res.wall, 1),
                                 expected_violation=prop, shows=what))


def read_walks(directory, prefix):
    """behaviours written by `tlc -simulate file=<prefix>`: only the start count and the `last` record of every state are
    needed (vlib.read_sim_behaviours parses the whole states, logs included: far too slow for long walks)"""
    import re
    out = []
    for fn in sorted(f for f in os.listdir(directory) if f.startswith(prefix + "_")):
        txt = open(os.path.join(directory, fn)).read()
        os.unlink(os.path.join(directory, fn))
        states = txt.split("\nSTATE_")[1:]
        if not states: continue
        m = re.search(r"(?m)^/\\ sc = (\d+)", states[0])
        lasts = []
        for st in states[1:]:
            m2 = re.search(r"(?ms)^/\\ last = (\[.*?\])\s*(?=^/\\ |\Z)", st)
            lasts.append(parse_tla_value(m2.group(1)))
        out.append((int(m.group(1)), lasts))
    return out


def acts_of(recs):
    return [dict(act=r["act"], i=r["i"], m=r["m"], n=r["n"], f=r["f"], b=r["b"], c=r["c"]) for r in recs]


def boundary(prev, cur):
    """which boundary a counter crossed between two observations"""
    if cur < prev: return "count-wrap"
    if (prev >> 8) != (cur >> 8):
        return "carry-16" if (prev >> 16) != (cur >> 16) else "sqn-wrap"
    return ""


def run(c):
    thorough = c.tier == "thorough"
    sd = c.spec_dir("specA")
    import time
    def phase(name):
        log("-- %s done at +%.1fs" % (name, time.time() - c.t0))
    # ---- are the concrete cipher specifications usable?  (another builder owns them: read-only, fall back to abstract)
    with open(os.path.join(sd, "MC_X01_concrete.tla"), "w") as f: f.write(KAT)
    with open(os.path.join(sd, "MC_X01_concrete.cfg"), "w") as f: f.write("INIT Init\nNEXT Next\n")
    res = c.tlc(sd, "MC_X01_concrete", workers=1, timeout=300)
    concrete = res.clean and not os.environ.get("X01_ABSTRACT")       # X01_ABSTRACT=1 forces the fallback (abstract checks only)
    extra = None
    if not concrete:
        c.note("spec/Eea.tla / spec/Eia.tla not usable (%s): MAC and ciphertext octets are NOT checked in this run, abstract checks only" %
               ("forced by X01_ABSTRACT" if res.clean else res.errors[0][:120] if res.errors else "rc=%d" % res.rc))
        stub = os.path.join(c.scratch, "ChanConcrete.tla")
        with open(stub, "w") as f: f.write(STUB)
        extra = {stub: "ChanConcrete.tla"}
    c.cov["concrete_crypto_checked"] = concrete

    # ---- stage A: the laws of the specification on small moduli (jobs run a few at a time)
    wk = 6 if thorough else 4
    pos, neg = [], []
    pos.append(("MC_X01" if thorough else set_cfg(sd, "MC_X01", "MC_X01_q", [("Starts = {0, 2, 6}", "Starts = {2}"), ("Skips = {1, 3, 4, 5}", "Skips = {3, 4}")]), wk))
    pos.append(("MC_X01_refuse" if thorough else set_cfg(sd, "MC_X01_refuse", "MC_X01_refuse_q", [("Starts = {5, 8, 10}", "Starts = {8}"), ("Skips = {1, 3, 4}", "Skips = {3}")]), wk))
    pos.append(("MC_X01_fifo", 2))
    pos.append(("MC_X01_resync", 2))
    if thorough:     # the hostile network once more with NEA0 and the other direction, and with a third wire in flight
        pos.append((set_cfg(sd, "MC_X01", "MC_X01_nea0", [("Ctx <- CtxSec", "Ctx <- CtxNea0"), ("Starts = {0, 2, 6}", "Starts = {3}")]), wk))
        pos.append((set_cfg(sd, "MC_X01", "MC_X01_cap3", [("NetCap = 2", "NetCap = 3"), ("Starts = {0, 2, 6}", "Starts = {2}"), ("Skips = {1, 3, 4, 5}", "Skips = {4}"), ("Msgs = {1, 2}", "Msgs = {1}")]), wk))
    # negative controls (documented boundaries of the design): each must FAIL
    neg.append(("MC_X01_desync", "NoReject", "SqnMod consecutive losses desynchronise: the next wire is rejected"))
    neg.append(("MC_X01_nia0", "TamperRejectedP", "NIA0: a tampered wire is accepted"))
    neg.append((set_cfg(sd, "MC_X01_nia0", "MC_X01_nia0_auth", [("TamperRejectedP", "AuthenticityP")]), "AuthenticityP", "NIA0: something that was never sent is delivered"))
    neg.append((set_cfg(sd, "MC_X01_nia0", "MC_X01_nia0_replay", [("TamperRejectedP", "NoReplayP")]), "NoReplayP", "NIA0: a wire is accepted twice"))
    neg.append(("MC_X01_wrap", "NoReplayEver", "after the sender ran through the end of the count space an old wire verifies again"))
    neg.append(("MC_X01_lastepoch", "NoReplayEver", "in the last overflow epoch the receiver's estimate overflow+1 wraps: a wire of epoch 0 verifies again (RefuseWrap closes it)"))
    with ThreadPoolExecutor(max_workers=3) as ex:
        futs = [ex.submit(c.stage_a, sd, "MC_X01", cfg, workers=w, timeout=2400) for cfg, w in pos]
        futs += [ex.submit(expect_violation, c, sd, cfg, prop, what, 2) for cfg, prop, what in neg]
        for f in futs:
            f.result()

    phase('stage A')
    # ---- stage B: behaviours chosen by TLC, real moduli
    rng = c.rng
    ctxs = list(ALL_CTX); rng.shuffle(ctxs)
    hists = []

    def add(start, acts, origin):
        nia, nea, d, b = ctxs[len(hists) % len(ctxs)]
        hists.append(dict(nia=nia, nea=nea, dir=d, bearer=b, start=start, acts=acts,
                          kenc=[rng.randrange(256) for _ in range(16)], kint=[rng.randrange(256) for _ in range(16)], origin=origin))
    nsim = 1500 if thorough else 160
    depth = 45 if thorough else 40
    res = c.tlc(sd, "MC_X01_gen", "MC_X01_gen", workers=1, simulate="file=beh,num=%d" % nsim, depth=depth, timeout=1500)
    behs = read_walks(sd, "beh")
    if len(behs) < nsim // 2:
        raise Infra("simulation produced too few behaviours (%d)\n%s" % (len(behs), res.out[-1500:]))
    c.cov["transitions"] += res.generated
    for start, lasts in behs:
        add(start, acts_of(lasts), "simulate")
    nsimh = len(hists)
    enum_cfgs = [set_cfg(sd, "MC_X01_enum", "MC_X01_enum_%d" % s, [("Starts = {254}", "Starts = {%d}" % s), ("Depth = 4", "Depth = %d" % d)])
                 for s, d in (((254, 5), (65535, 4), (16777214, 4)) if thorough else ((254, 4),))]
    for cfg in enum_cfgs:
        res = c.tlc(sd, "MC_X01_gen", cfg, workers=4, timeout=1500)
        if not res.clean:
            raise Infra("enumeration failed:\n" + res.out[-2000:])
        c.cov["states"] += res.distinct; c.cov["transitions"] += res.generated
        n0 = len(hists)
        for ln in res.printed:
            if ln.startswith('"['):
                recs = json.loads(json.loads(ln))
                add(recs[0]["c"], acts_of(recs[1:]), "enum")
        if len(hists) == n0:
            raise Infra("enumeration printed nothing:\n" + res.out[-1500:])
    c.cov["simulated_behaviours"] = nsimh
    c.cov["enumerated_behaviours"] = len(hists) - nsimh

    phase('generation')
    drv = c.build_driver("channel")
    hp = os.path.join(c.scratch, "hists.json")
    with open(hp, "w") as f: json.dump(hists, f)
    out1 = os.path.join(c.scratch, "replay.ndjson"); out2 = os.path.join(c.scratch, "record.ndjson")
    c.run_driver(drv, ["replay", hp, out1])
    c.run_driver(drv, ["record", out2])
    events = read_ndjson(out1) + read_ndjson(out2)
    c.cov["evaluations"] = sum(1 for e in events if '"TraceReset"' not in e[:40])

    phase('driver')
    # ---- stage C
    tcfg = "Trace_X01" if thorough else "Trace_X01_quick"      # quick: MAC/ciphertext recomputed at every 2nd event
    mism = c.validate("Trace_X01", events, stateful=True, shards=12 if thorough else 10, extra_files=extra, timeout=2400, cfg=tcfg)

    phase('validation')
    def history_of(idx):
        lo = idx
        while lo > 0 and '"TraceReset"' not in events[lo][:40]: lo -= 1
        evs = [json.loads(x) for x in events[lo:idx + 1]]
        r = evs[0]
        h = dict(nia=r["nia"], nea=r["nea"], dir=r["dir"], bearer=r["bearer"], kenc=r["kenc"], kint=r["kint"], start=r["start"],
                 acts=[dict(act=e["op"], i=e["i"], m=e["m"], n=e["n"], f=e["f"], b=e["b"], c=e["c"]) for e in evs[1:]])
        return lo, evs, h
    # only the first disagreement of a behaviour is a verdict: the later ones follow from it
    first = {}
    for idx, t in mism:
        lo, _, _ = history_of(idx)
        if lo not in first or idx < first[lo][0] or (idx == first[lo][0] and t[3] != "harness" and first[lo][1][3] == "harness"):
            first[lo] = (idx, t)
    firsts = sorted(first.values(), key=lambda x: x[0])
    for idx, t in firsts:
        if t[3] == "harness":
            raise Infra("the trace specification cannot follow the driver's own bookkeeping at event %d (%s): harness problem" % (idx, t))

    def classify(idx, t):
        lo, evs, h = history_of(idx)
        e = evs[-1]
        small = {k: (v if not isinstance(v, list) or len(v) <= 48 else v[:48] + ["..."]) for k, v in e.items()}
        what = ("%s under NIA%d/NEA%d dir %d bearer %d, start count %d, step %d of the behaviour: the real composition disagrees with the channel specification (%s); tracked sender/receiver count before the step %s/%s"
                % (t[2], h["nia"], h["nea"], h["dir"], h["bearer"], h["start"], idx - lo, t[3], t[6], t[7]))
        return (t[2], t[3], what, dict(history=h, observed=small, how="harness/cmd/channel replay [history] out.ndjson; validate out.ndjson with spec/trace/Trace_X01"))

    def confirm(idx, t):
        lo, evs, h = history_of(idx)
        hp2 = os.path.join(c.scratch, "confirm.json")
        with open(hp2, "w") as f: json.dump([h], f)
        out3 = os.path.join(c.scratch, "confirm.ndjson")
        c.run_driver(drv, ["replay", hp2, out3])
        ev3 = read_ndjson(out3)
        again = c.validate("Trace_X01", ev3, stateful=True, shards=1, extra_files=extra)      # every event concrete
        c.cov["traces_validated_against_impl"] -= len(ev3)
        return any(a[1][3] == t[3] for a in again)
    c.triage(firsts, classify, confirm)

    # ---- the binding must discriminate: corrupt single logged fields of recorded behaviours and require TLC to object
    rec = [json.loads(x) for x in read_ndjson(out2)]
    cut = [i for i, e in enumerate(rec) if e["op"] == "TraceReset"]
    nia_of, cur = {}, None
    for i, e in enumerate(rec):
        if e["op"] == "TraceReset": cur = e["nia"]
        nia_of[i] = cur
    def pick(pred):
        for i, e in enumerate(rec):
            if nia_of[i] != 0 and pred(e): return i
        raise Infra("self-test: no suitable recorded event")
    targets = {}
    i = pick(lambda e: e["op"] == "Deliver" and e["ok"]); targets[i] = ("ok", "rejected")
    j = pick(lambda e: e["op"] == "Send" and len(e["wire"]) > 8); targets[j] = ("mac", "header")
    k = pick(lambda e: e["op"] == "Deliver" and e["ok"] and e["rget"] % 256 == 0); targets[k] = ("rget", "receiver-count")
    sel = []
    for idx, (field, want) in sorted(targets.items()):
        lo = max(x for x in cut if x <= idx); hi = min([x for x in cut if x > idx] + [len(rec)])
        evs = [dict(e) for e in rec[lo:hi]]
        e = evs[idx - lo] = dict(evs[idx - lo])
        if field == "ok": e["ok"] = False
        elif field == "mac": e["wire"] = list(e["wire"]); e["wire"][1] ^= 1
        else: e["rget"] -= 256
        sel.append((sum(len(x[2]) for x in sel) + idx - lo, want, [json.dumps(x) for x in evs]))
    flat = sum([x[2] for x in sel], [])
    got = c.validate("Trace_X01", flat, stateful=True, shards=1, extra_files=extra)
    c.cov["traces_validated_against_impl"] -= len(flat)
    for pos, want, _ in sel:
        if not any(g[0] == pos and g[1][3] == want for g in got):
            raise Infra("self-test: a corrupted %s field at event %d was not rejected by the trace specification (got %s)" % (want, pos, [(g[0], g[1][3]) for g in got][:6]))
    c.cov["selftest_corrupted_fields_rejected"] = len(sel)
    phase('self-test')

    # ---- coverage accounting (information; no verdicts here)
    stats = dict(accepted=0, rejected=0, accepted_undecodable=0, sqn_wraps=0, carries_into_bit16=0, crossed_00FFFF_010000=0, count_wraps=0, concrete_short=0)
    ctx = None; ps = pr = 0; nhist = 0
    per_ctx = {}
    for ln in events:
        e = json.loads(ln)
        if e["op"] == "TraceReset":
            ctx = (e["nia"], e["nea"], e["dir"], e["bearer"]); ps, pr = e["sget"], e["rget"]; nhist += 1
            per_ctx[ctx] = per_ctx.get(ctx, 0) + 1
            continue
        bs, br = boundary(ps, e["sget"]), boundary(pr, e["rget"])
        for b in (bs, br):
            if b == "sqn-wrap": stats["sqn_wraps"] += 1
            elif b == "carry-16": stats["carries_into_bit16"] += 1
            elif b == "count-wrap": stats["count_wraps"] += 1
        for a, b in ((ps, e["sget"]), (pr, e["rget"])):
            if a <= 0x00ffff < b: stats["crossed_00FFFF_010000"] += 1
        if e["op"] == "Deliver":
            stats["accepted" if e["ok"] else "rejected"] += 1
            if e["ok"] and not e["dec"]: stats["accepted_undecodable"] += 1
        if e["op"] in ("Send", "Reflect", "Skip") and 0 < len(e["plain"]) <= 32: stats["concrete_short"] += 1
        c.count_distinct(ctx + (e["op"], e["ok"], e["dec"], e["f"], bs, br, min(len(e["plain"]), 33) > 32))
        ps, pr = e["sget"], e["rget"]
    phase('accounting')
    if len(per_ctx) != len(ALL_CTX):
        raise Infra("only %d of %d security contexts were exercised" % (len(per_ctx), len(ALL_CTX)))
    for k in ("sqn_wraps", "crossed_00FFFF_010000", "count_wraps", "accepted", "rejected"):
        if stats[k] == 0:
            raise Infra("no behaviour reached: " + k)
    c.cov.update(stats)
    c.cov["behaviours"] = nhist
    c.cov["contexts"] = len(per_ctx)
    c.cov["exhaustive"] = False
    c.cov["rule"] = ("cases = actions performed on the real composition (one event each); distinct non-trivial = distinct "
                     "(NIA, NEA, direction, bearer, action, accepted, decoded, tampered field, boundary crossed by the sender count, "
                     "boundary crossed by the receiver count, long/short message) combinations observed; every action changes or "
                     "queries the channel state, so none is trivial")
    for i in (1, len(events) // 3, len(events) - 1):
        c.sample(events[i], maxlen=500)
    c.sample({k: v for k, v in hists[nsimh].items() if k not in ("kenc", "kint")})
    c.assumptions += ["abstract cryptography in stage A: keystreams of different (COUNT, BEARER, DIRECTION) points and bit flips are independent; the MAC is collision-free (the 32-bit MAC is, up to 2^-32 per attempt)",
                      "guarantees are stated for NIA1-3 and until the sender count or an accepted estimate runs through the end of the count space (negative controls show what happens otherwise)",
                      "stage A moduli: SQN 4, overflow 2..3; at most 3 messages, 2-3 wires in flight, 3-4 environment actions",
                      "the receiver is the contract of docs/X01-secure-channel.md (estimate, verify, then store estimate+1; nothing changes on rejection), composed by harness/cmd/channel from the library's calls: free5gc's own nas_security differs (it overwrites the stored count before verifying)",
                      "concrete MAC/ciphertext octets checked only for plain messages of at most 32 octets" + ("" if concrete else " - NOT in this run (cipher specifications unusable)")]


if __name__ == "__main__":
    if "--tier" in sys.argv:
        os.environ["VERIF_TIER"] = sys.argv[sys.argv.index("--tier") + 1]
    main("X01", run)
