#!/usr/bin/env python3
"""C15 - QoS rules and QoS flow descriptions: total parser, exact round trip.
Stage A: TLC runs the small-step reader machine of Qos.tla (rules and descriptions) on the whole generator tree:
         every marshalled case (all 18 component types, all 6 operations, delete-filter form, 15 filters, 63 parameters),
         every proper prefix, every identifier octet replaced by unknown values, enlarged counts; checks the strictly
         decreasing measure (termination), agreement with the declarative grammar, Parse(Marshal(x)) = x, the prefix
         law and "unknown identifier => error"; liveness on a smaller tree.
Stage B: TLC prints every case with its single-octet replacements; the driver builds the real structs, marshals,
         unmarshals the form, every prefix and every replacement; plus seeded random values / octets / edits.
Stage C: every observation is judged by TLC (Trace_C15) against QosGrammar.
Added after seeded round 4: results of a round trip are held while a perturbed value goes through marshal / parse / marshal."""
import json, os, sys
from concurrent.futures import ThreadPoolExecutor
sys.path.insert(0, os.path.dirname(os.path.dirname(os.path.abspath(__file__))))
from vlib import *

META = dict(
    property_id="C15", engine="tlc-qos",
    technique="TLC model of the QoS rule / flow description readers as a small-step machine checked against a declarative grammar on a generator tree; the TLC-generated values, all their prefixes and identifier/count replacements replayed through the real MarshalBinary/UnmarshalBinary; all observations trace-validated by TLC against the grammar",
    level=("model_checking", "The grammar of TS 24.501 9.11.4.12/13 is an explicit TLA+ specification (Marshal, total Parse, and a reader machine with a termination measure). TLC enumerates the generator tree (component lists over all 18 types, all 6 operations, filter and rule lists, parameter lists over the 7 kinds, boundary counts 0/15/63, boundary field values) with every prefix and identifier replacement, and the same cases are executed on the real code; every real result (octets, parsed values, errors, panics) is judged by TLC against the specification.", "7/C15"),
    level_note="Trusted: TLC, the Go runtime, the driver's struct<->record projection. Bounded: lists of <= 2 rules x <= 2 filters x <= 2 components enumerated (plus boundary-count cases); larger structures and arbitrary octets only by seeded sampling. The 18 component types are those the property lists (IPv6 types are treated as unknown, as the library does). Differences on malformed input other than the four listed verdict classes are reported as notes.",
)


def case_of_event(e):
    k = "rules" if e["op"].startswith("Rules") else "descs"
    if e["op"].endswith("RoundTrip"):
        return dict(kind=k, x=e["x"], muts=[], cuts=False, bytes=[])
    return dict(kind=k[0] + "bytes", x=[], muts=[], cuts=False, bytes=e["bytes"])


DESCR = {
    "truncated": "the reader returns no error on an input that ends inside an element (strict grammar: truncated)",
    "length": "the reader returns no error on an input whose length field contradicts its content (rule length / parameter length not enforced)",
    "spare/value": "input with spare bits set is accepted and the spare bits are kept in the value",
    "spare/refused": "input with spare bits set is refused",
}


def run(c):
    thorough = c.tier == "thorough"
    sd = c.spec_dir("specA")
    jobs = [("MC_C15", "MC_C15_t" if thorough else "MC_C15", 8 if thorough else 6), ("MC_C15", "MC_C15_live", 3)]
    gencfg = "MC_C15_gen_t" if thorough else "MC_C15_gen"
    with ThreadPoolExecutor(max_workers=3) as ex:
        futs = [ex.submit(c.stage_a, c.spec_dir("specA-" + cfg), mod, cfg, workers=w, timeout=1500) for mod, cfg, w in jobs]
        res = c.tlc(sd, "MC_C15", gencfg, workers=3, timeout=900)
        if not res.clean:
            raise Infra("case generator failed:\n" + res.out[-2000:])
        cases = [json.loads(json.loads(ln)) for ln in res.printed if ln.startswith('"{')]
        if len(cases) != res.distinct:
            raise Infra("generator: %d cases printed, %d states" % (len(cases), res.distinct))
        c.cov["states"] += res.distinct; c.cov["transitions"] += res.generated
        for f in futs:
            f.result()
    nm = 0
    for x in cases:
        x["cuts"] = True; x["bytes"] = []
        nm += len(x["muts"])
        c.count_distinct(("case", json.dumps(x["x"], sort_keys=True)))
    c.cov["generated_cases"] = len(cases)
    c.cov["generated_replacements"] = nm
    # ---- drive the real code
    drv = c.build_driver("qos")
    cp = os.path.join(c.scratch, "cases.json"); json.dump(cases, open(cp, "w"))
    out1 = os.path.join(c.scratch, "replay.ndjson"); out2 = os.path.join(c.scratch, "record.ndjson")
    c.run_driver(drv, ["replay", cp, out1])
    c.run_driver(drv, ["record", out2])
    ev1 = read_ndjson(out1)
    events = ev1 + read_ndjson(out2) + c.second_pass(drv, ["replay", cp, os.path.join(c.scratch, "replayT.ndjson")], os.path.join(c.scratch, "replayT.ndjson"), ev1)
    calls = 0
    for ln in events:
        op = ln[7:ln.index('"', 7)]
        calls += 3 if op.endswith("RoundTrip") else 1
        j = ln.index('"uerr"')
        c.count_distinct(hash(ln[:j]))
    c.cov["evaluations"] = calls
    # ---- stage C
    mism = c.validate("Trace_C15", events, shards=14 if thorough else 12, timeout=2400)

    def ev_at(idx): return json.loads(events[idx])

    def classify(idx, t):
        e = ev_at(idx)
        op, cls = t[2], t[3]
        inp = e["x"] if op.endswith("RoundTrip") else e["bytes"]
        what = "%s: observation not allowed by the specification (class %s, detail %s); input %s" % (op, cls, t[4] if len(t) > 4 else "", json.dumps(inp)[:240])
        if e.get("panic"):
            what += "; panic in " + e.get("pfn", "")
        return (op, cls, what, dict(case=case_of_event(e), observed=e if len(events[idx]) < 4000 else "see case",
                                     how="driver qos replay [case] out.ndjson; validate out.ndjson with Trace_C15"))

    def confirm(idx, t):
        p2 = os.path.join(c.scratch, "confirm.json"); json.dump([case_of_event(ev_at(idx))], open(p2, "w"))
        o3 = os.path.join(c.scratch, "confirm.ndjson")
        c.run_driver(drv, ["replay", p2, o3])
        evs = read_ndjson(o3)
        again = c.validate("Trace_C15", evs, shards=1)
        c.cov["traces_validated_against_impl"] -= len(evs)
        return any(a[1][3] == t[3] for a in again)
    c.triage(mism, classify, confirm, per_class=2, total=16)
    # ---- binding self-test: corrupt logged fields of recorded events; TLC must reject exactly those
    badidx = {m[0] for m in mism}
    clean = [x for i, x in enumerate(events) if i not in badidx and '"panic":false' in x and '"merr":false' in x]
    ea = next(json.loads(x) for x in clean if x.startswith('{"op":"RulesRoundTrip"') and '"comps":[{' in x)
    ea["back"][0]["filters"][0]["comps"][0]["t"] = 48 if ea["back"][0]["filters"][0]["comps"][0]["t"] != 48 else 133
    eb = next(json.loads(x) for x in clean if x.startswith('{"op":"DescsRoundTrip"') and '"params":[{' in x)
    eb["bytes"][-1] ^= 1
    ec = next(json.loads(x) for x in clean if x.startswith('{"op":"RulesUnmarshal"') and '"uerr":true' in x and '"bytes":[]' not in x)
    good = json.dumps(ec)
    st = c.validate("Trace_C15", [json.dumps(ea), good, json.dumps(eb)], shards=1)
    c.cov["traces_validated_against_impl"] -= 3
    got = sorted((m[0], m[1][3]) for m in st)
    if got != [(0, "roundTrip"), (2, "octets"), (2, "remarshal")]:
        raise Infra("binding self-test failed: corrupted events were judged %r" % (got,))
    c.cov["binding_selftest"] = "2 corrupted recorded events (one parsed component type, one marshalled octet) rejected by TLC, the untouched event accepted"
    for d in sorted(c._c15_div):
        c.note("information (not a verdict): %s %s (at least %d observations)" % (d[0], DESCR.get(d[1], d[1]), c._c15_div[d]))
    c.cov["distinct_nontrivial"] = len(c._distinct)
    c.cov["rule"] = ("evaluations = real MarshalBinary/UnmarshalBinary calls (a round trip is 3); distinct non-trivial = distinct generated values + "
                     "distinct (operation, input) observations; an empty octet string counts once per operation")
    c.cov["exhaustive"] = False
    for i in (0, len(events) // 3, 2 * len(events) // 3, len(events) - 1):
        c.sample(events[i])
    c.sample(cases[len(cases) // 2])
    c.assumptions += ["values given to MarshalBinary are well formed (QosGrammar!WFRules / WFDescs): <= 15 filters, filter identifier <= 15, filter contents <= 255 octets, <= 63 parameters, IPv4 address and mask of 4 octets, MAC of 6 octets",
                      "a 'delete packet filters' rule (operation 5) carries packet filter identifiers only",
                      "the rule layout always includes precedence and QFI (DESIGN Appendix A), for every operation",
                      "IPv6 component types (0x21, 0x23) are outside the 18 types of the property and count as unknown"]


_orig_tlc = Check.tlc
def _tlc(self, workdir, module, cfg=None, **kw):
    res = _orig_tlc(self, workdir, module, cfg, **kw)
    if module == "Trace_C15":
        for ln in res.printed:
            t = parse_tla_tuple(ln)
            if not t: continue
            if t[0] == "HARNESS":
                raise Infra("harness problem reported by the trace specification: %r" % (t,))
            if t[0] == "DIVERGE":
                k = (t[2], t[3]); self._c15_div[k] = self._c15_div.get(k, 0) + 1
    return res
Check.tlc = _tlc
Check._c15_div = {}


if __name__ == "__main__":
    main("C15", run)
