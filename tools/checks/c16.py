#!/usr/bin/env python3
"""C16 - protocol configuration options and PDU session bitmaps round-trip.
Stage A: TLC checks the three-state reader machine (Pco.tla) over every unit list of the small domain and EVERY
         truncation point: accounting, termination measure, units = sub-sequences of the input at the grammar's
         positions, order, agreement with the declarative grammar, Parse(Marshal(x)) = x; liveness on a smaller
         domain; all 65 536 bitmaps (Psi.tla) in both directions.
Stage B: TLC prints unit lists (0..4 units) with their truncation points and all octet strings of length <= 5 over
         {0,1,2,0x80,0xFF}; the driver replays them through Marshal/UnMarshal, converts all 65 536 bitmaps in both
         directions and records seeded random lists / octet strings.
Stage C: every observation is judged by TLC (Trace_C16) against PcoGrammar / Psi.
Added after seeded rounds 3-4: `PcoHeld` (result slice and parsed object re-read after two other lists went through); every object that parsed an input is marshalled again (`re`)."""
import json, os, sys
from concurrent.futures import ThreadPoolExecutor
sys.path.insert(0, os.path.dirname(os.path.dirname(os.path.abspath(__file__))))
from vlib import *

META = dict(
    property_id="C16", engine="tlc-pco",
    technique="TLC model of the PCO reader as a state machine (every truncation point of every small unit list) + exhaustive bitmap laws; TLC-generated unit lists, prefixes and malformed octet strings replayed through Marshal/UnMarshal, all 65 536 bitmaps through PSIToBooleanArray/PSIToBuf; all observations trace-validated by TLC against the grammar",
    level=("model_checking", "The reader is a three-state machine with a remaining-octets account: TLC enumerates it on every prefix of every marshalled list of <= 3 units (identifier classes x lengths {0,1,2,255}) and on every octet string of length <= 5 over a 5-letter alphabet, checks termination by a strictly decreasing measure, that every unit is SubSeq(input, at, at+len-1) at the grammar's position, and Parse(Marshal(x)) = x; the bitmap laws are checked for all 65 536 values in the model and, through the trace specification, on the real code for all 65 536 values in both directions.", "7/C16"),
    level_note="Trusted: TLC, the Go runtime. PCO domain on the real code: TLC-generated lists up to 4 units + seeded random lists/octet strings (bounded, not all lists); bitmaps: complete. On inexact inputs only 'no panic/hang' and 'delivered units are the input's units' are judged (error or not is not fixed by the property).",
)

INV = "TypeOK Accounting MeasureBounded UnitsInInput Ordered AgreesWithGrammar RoundTrip Truncated FirstOctet ExactIffWhole ExactAccepted"


def case_of_event(e):
    if e["op"] in ("PcoRoundTrip", "PcoHeld"):
        return dict(kind="units", units=e["units"], cuts=[])
    if e["op"] == "PcoUnMarshal":
        return dict(kind="bytes", data=e["bytes"])
    if e["op"] in ("PsiToBool", "PsiToBuf"):
        first = e["in"][0]
        base = (first[0] + 256 * first[1]) if e["op"] == "PsiToBool" else sum(b << i for i, b in enumerate(first))
        return dict(kind="psi", base=base)
    return None


def run(c):
    thorough = c.tier == "thorough"
    sd = c.spec_dir("specA")
    # ---- stage A (independent configurations, run side by side)
    jobs = [("MC_C16_psi", "MC_C16_psi", 3), ("MC_C16", "MC_C16_live", 3)]
    jobs += [("MC_C16", "MC_C16", 8)] if thorough else [("MC_C16", "MC_C16_q2", 6), ("MC_C16", "MC_C16_q3", 2)]
    with ThreadPoolExecutor(max_workers=4) as ex:
        futs = [ex.submit(c.stage_a, c.spec_dir("specA-" + cfg), mod, cfg, workers=w, timeout=1500) for mod, cfg, w in jobs]
        # ---- stage B: generators, meanwhile
        if thorough:
            p = os.path.join(sd, "MC_C16_gen.cfg")
            txt = open(p).read().replace("Ids = {0, 65535}", "Ids = {0, 13, 65535}")
            open(p, "w").write(txt)
        cases = []
        for cfg in ("MC_C16_gen", "MC_C16_gen4"):
            res = c.tlc(sd, "MC_C16", cfg, workers=3, timeout=900)
            if not res.clean:
                raise Infra("case generator %s failed:\n%s" % (cfg, res.out[-2000:]))
            got = [json.loads(json.loads(ln)) for ln in res.printed if ln.startswith('"{')]
            if len(got) != res.distinct:
                raise Infra("generator %s: %d cases printed, %d states" % (cfg, len(got), res.distinct))
            c.cov["states"] += res.distinct; c.cov["transitions"] += res.generated
            cases += got
        for f in futs:
            f.result()
    n_lists = sum(1 for x in cases if x["kind"] == "units")
    n_free = len(cases) - n_lists
    for x in cases:
        x.setdefault("units", []); x.setdefault("cuts", []); x.setdefault("data", [])
    c.cov["generated_unit_lists"] = n_lists
    c.cov["generated_free_inputs"] = n_free
    # ---- drive the real code
    drv = c.build_driver("pco")
    cp = os.path.join(c.scratch, "cases.json"); json.dump(cases, open(cp, "w"))
    out1 = os.path.join(c.scratch, "replay.ndjson"); out2 = os.path.join(c.scratch, "record.ndjson")
    c.run_driver(drv, ["replay", cp, out1])
    c.run_driver(drv, ["record", out2])
    ev1 = read_ndjson(out1)
    events = ev1 + read_ndjson(out2) + c.second_pass(drv, ["replay", cp, os.path.join(c.scratch, "replayT.ndjson")], os.path.join(c.scratch, "replayT.ndjson"), ev1)
    calls = 0
    for ln in events:
        op = ln[7:ln.index('"', 7)]
        if op == "PcoRoundTrip": calls += 2
        elif op == "PcoHeld": calls += 4
        elif op.startswith("Psi"): calls += 256
        else: calls += 1
        if op.startswith("Pco"):
            j = ln.index('"back"')
            c.count_distinct(hash(ln[:j]))
    c.cov["evaluations"] = calls
    # ---- stage C
    mism = c.validate("Trace_C16", events, shards=14 if thorough else 12)
    def ev_at(idx): return json.loads(events[idx])

    def classify(idx, t):
        e = ev_at(idx)
        op, cls = t[2], t[3]
        what = "%s: observation not allowed by the specification (%s, detail %s)" % (op, cls, t[4] if len(t) > 4 else "")
        if op.startswith("Pco"):
            what += "; input %s" % json.dumps(e["units"] if op in ("PcoRoundTrip", "PcoHeld") else e["bytes"])[:200]
        return (op, cls, what, dict(case=case_of_event(e), observed=e if len(events[idx]) < 4000 else "see case",
                                     how="driver pco replay [case] out.ndjson; validate out.ndjson with Trace_C16"))

    def confirm(idx, t):
        cs = case_of_event(ev_at(idx))
        if cs is None: return False
        cs.setdefault("units", []); cs.setdefault("cuts", []); cs.setdefault("data", [])
        p2 = os.path.join(c.scratch, "confirm.json"); json.dump([cs], open(p2, "w"))
        o3 = os.path.join(c.scratch, "confirm.ndjson")
        c.run_driver(drv, ["replay", p2, o3])
        evs = read_ndjson(o3)
        again = c.validate("Trace_C16", evs, shards=1)
        c.cov["traces_validated_against_impl"] -= len(evs)
        return any(a[1][3] == t[3] for a in again)
    c.triage(mism, classify, confirm)
    # ---- binding self-test: corrupt one logged field of two recorded events; TLC must reject exactly those
    if c.violations:
        c.cov["binding_selftest"] = "skipped: the run already reports violations"
        return _finish_cov(c, events, cases)
    badidx = {m[0] for m in mism}
    clean = [x for i, x in enumerate(events) if i not in badidx and '"panic":false' in x]
    ea = next(json.loads(x) for x in clean if x.startswith('{"op":"PcoRoundTrip"') and '"contents":[' in x and '"contents":[]' not in x)
    k = next(i for i, u in enumerate(ea["back"]) if u["contents"])
    ea["back"][k]["contents"][-1] ^= 1
    eb = next(json.loads(x) for x in clean if x.startswith('{"op":"PsiToBool"'))
    eb["out"][200][9] ^= 1
    ec = next(json.loads(x) for x in clean if x.startswith('{"op":"PcoUnMarshal"') and '"back":[{' in x)
    ec["bytes"][3] = (ec["bytes"][3] + 1) % 256           # the unit's length octet in the input no longer matches the logged unit
    good = next(x for x in clean if x.startswith('{"op":"PsiToBuf"'))
    st = c.validate("Trace_C16", [json.dumps(ea), good, json.dumps(eb), json.dumps(ec)], shards=1)
    c.cov["traces_validated_against_impl"] -= 4
    got = sorted((m[0], m[1][3]) for m in st)
    if got != [(0, "round-trip"), (2, "bitmap"), (3, "contents-not-in-input")] and got != [(0, "round-trip"), (2, "bitmap"), (3, "contents-not-in-input"), (3, "exact-input-refused")]:
        raise Infra("binding self-test failed: corrupted events were judged %r" % (got,))
    c.cov["binding_selftest"] = "3 corrupted recorded events (one contents octet, one bitmap entry, one input octet) rejected by TLC, the untouched event accepted"
    return _finish_cov(c, events, cases)


def _finish_cov(c, events, cases):
    for d in sorted(c._c16_div):
        c.note("information (not a verdict): %s - input class '%s' (at least %d observations)" % (
            {"accepted": "UnMarshal returns no error on an inexact input", "unitsDropped": "UnMarshal does not deliver every complete unit of an inexact input"}.get(d[0], d[0]), d[1], c._c16_div[d]))
    c.cov["distinct_nontrivial"] = len(c._distinct) + 2 * 65536
    c.cov["rule"] = ("evaluations = real API calls (a round trip is 2, a bitmap chunk event 256); distinct non-trivial = distinct PCO inputs "
                     "(unit list or octet string, %d) + 65 536 octet pairs + 65 536 bitmaps" % len(c._distinct))
    c.cov["exhaustive"] = False
    c.cov["exhaustive_part"] = "bitmaps: all 65 536 values in both directions on the real code; PCO lists: bounded"
    for i in (0, len(events) // 3, len(events) - 1):
        c.sample(events[i])
    c.sample(cases[len(cases) // 2])
    c.assumptions += ["unit lists given to Marshal are well formed: LengthOfContents = len(Contents) <= 255",
                      "UnMarshal is called on a fresh ProtocolConfigurationOptions value (it appends to the receiver)",
                      "PSIToBooleanArray is judged on two-octet buffers"]


# validate() only returns MISMATCH tuples; DIVERGE/HARNESS lines are collected by wrapping Check.tlc
_orig_tlc = Check.tlc
def _tlc(self, workdir, module, cfg=None, **kw):
    res = _orig_tlc(self, workdir, module, cfg, **kw)
    if module == "Trace_C16":
        if not hasattr(self, "_c16_div"): self._c16_div = {}
        for ln in res.printed:
            t = parse_tla_tuple(ln)
            if not t: continue
            if t[0] == "HARNESS":
                raise Infra("harness problem reported by the trace specification: %r" % (t,))
            if t[0] == "DIVERGE":
                k = (t[3], t[4]); self._c16_div[k] = self._c16_div.get(k, 0) + 1
    return res
Check.tlc = _tlc
Check._c16_div = {}


if __name__ == "__main__":
    main("C16", run)
