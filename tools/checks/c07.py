#!/usr/bin/env python3
"""C07 - NIA1/NIA2/NIA3 MACs equal the standard 128-EIA1/2/3 functions.
Stage A: TLC checks the TLA+ reference (Gf64, Cmac, Eia over Snow3G / Zuc / Aes128) against every published vector,
         the GF(2^64) product exhaustively on the basis, and MAC laws for every message length of a dense range.
Stage B: TLC enumerates the parameter lattice (bearer x direction grid, every message bit length incl. 0, exact
         multiples of 8/32/64/128, key/COUNT patterns incl. walking bits); the driver replays it into
         security.NIA1/2/3 and security.NASMacCalculate and records seeded random calls.
Stage C: TLC recomputes every MAC with the reference and compares the 4 octets.
Added after seeded rounds 3-4: lengths 2^k, 2^k-1, 8193 and 65 537 octets in the quick lattice; the frozen EIA3 corner points of the ZUC arithmetic as generated cases (stage A re-establishes each with the TLA+ model)."""
import os, sys
sys.path.insert(0, os.path.dirname(os.path.abspath(__file__)))
from seclib import *

META = dict(
    property_id="C07", engine="tlc-crypto",
    technique="TLA+ reference of 128-EIA1/2/3 (GF(2^64) evaluation hash over SNOW 3G, AES-CMAC, ZUC universal hash) validated by TLC on the published vectors and on algebraic laws; TLC-generated parameter lattice and seeded random calls run on the real functions; every observed MAC recomputed and compared by TLC trace validation",
    level=("model_checking", "The oracle is an executable TLA+ specification written from the standards; TLC validates it on every published test set, determines the GF(2^64) product exhaustively on the basis and checks MAC laws for every message length of a dense range; TLC enumerates the bearer x direction grid, every message length residue (incl. 0 and exact multiples of 64) and walking key/COUNT bits, and decides for every real call whether the 4 MAC octets equal the specification. Conformance on the explored lattice, not a proof for all keys.", "7/C07"),
    level_note="Trusted: TLC, the Go runtime, the published vectors. Domain: bearer 0..31, direction 0..1, algorithm identity 1..3, message of exactly LENGTH bits in ceil(LENGTH/8) octets with zero pad bits; 128-EIA2 and the wrapper on whole octets.",
)


def run(c):
    thorough = c.tier == "thorough"
    sd = c.spec_dir("specA", vector_files())
    if thorough:
        set_constants(sd, "MC_C07", dict(MaxBits=200))
    c.stage_a(sd, "MC_C07", "MC_C07", timeout=2400)
    subst = None
    if thorough:
        subst = dict(MaxBits=2100, MaxBytes=300, BigBits="{2047, 2048, 2049, 4095, 4096, 4097, 16384, 65535, 131072}", BigBytes="{511, 512, 513, 1024, 4096}",
                     GridBits="{0, 1, 7, 8, 31, 32, 33, 40, 63, 64, 65, 67, 128, 200}", Reps=4, LongOctets="{4097, 4112, 8193, 65535}", SeqGroups=12)
    cases, events = run_value_conformance(c, "mac", "Trace_C07", "MC_C06_gen", "MC_C07_gen", subst, shards=14 if thorough else 12)
    c.cov["distinct_nontrivial"] = len(c._distinct)
    c.cov["rule"] = ("cases = calls of the real integrity entry points; distinct non-trivial = distinct (operation, algorithm, key, COUNT, bearer, "
                     "direction, bit length, message) tuples with a non-empty message, each recomputed by TLC")
    c.cov["exhaustive"] = False
    c.assumptions += ["message of exactly LENGTH bits, zero pad bits (the input domain of the standards)",
                      "bearer 0..31, direction 0..1, algorithm identity 1..3 (other values belong to C08)"]


if __name__ == "__main__":
    main("C07", run)
