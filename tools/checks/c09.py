#!/usr/bin/env python3
"""C09 - each IE field accessor reads and writes exactly its documented bits.
Oracle: tables/ie_fields.json (layout annotations `Row, sBit, len = [r0, r1], s, n` of the 737 annotated accessor
        pairs + 5 unannotated Iei/Len pairs placed by the TS 24.501 format of their element; extracted ONCE at the
        pinned commit, frozen) rendered as spec/IeFieldTable.tla, and the
        reference accessors GetField/SetField of spec/IeLayout.tla.  Nothing of it is regenerated here.
Stage A: MC_C09      every (type, field, prior, value) case of spec/IeCases.tla as a state: round trip,
                     non-interference with every non-overlapping field, Iei/Len kept, no bit outside the
                     field changes, octet-arithmetic and bit-by-bit formulations agree, idempotence, fit.
         MC_C09_oct  every shape (start bit, width) of a bit field inside one octet x all 256 contents x
                     all 256 values (thorough; boundary values in quick), two-octet shapes x all contents.
Stage B: MC_C09_gen prints, per field, the priors and values of IeCases; the driver (reflection over a
         generated list of constructors) writes the prior contents, calls Get, Set, reads Iei/Len/all
         octets back and calls Get again; it also records seeded random cases and folds, per bit field
         and value, the function table over all 256 priors of the touched octet into digests.
Stage C: TLC validates every event against spec/trace/Trace_C09.tla, which names the class of a mismatch.
Known on the unchanged tree: the four 10-bit setters clear the six low bits of their second octet.
Added after seeded rounds 3-5: slice arguments are inverted as soon as the setter returned; elements beyond 255 octets; cold-start ordering processes (one accessor per field shape first, thorough: every accessor); every small value of the length indicator as prior; the element just long enough for the field to exist; max-1 / min+1 values."""
import json, os, sys
sys.path.insert(0, os.path.dirname(os.path.dirname(os.path.abspath(__file__))))
from vlib import *
from concurrent.futures import ThreadPoolExecutor

META = dict(
    property_id="C09", engine="tlc-ielayout",
    technique="TLC checks the layout semantics (GetField/SetField over the frozen table of all 742 accessor pairs, 737 of them from the source annotations) exhaustively per field shape; TLC-generated (prior, value) cases and seeded random cases are executed on every real accessor pair by reflection and every observation (getter before, Iei/Len/all octets and getter after) is validated by TLC; all 256 priors x values of every bit field by digest conformance",
    level=("model_checking", "The specification is a table of documented bit positions plus reference accessors; TLC enumerates, for every type and field, the boundary priors (all 0/1, 0x55/0xAA, walking bits, seeded) and values and checks round trip, non-interference and locality, and exhaustively all one-octet field shapes over all contents and values. Each real accessor pair is bound to it case by case: TLC compares the observed element and getter results with SetField/GetField, and for every bit field the full function table (256 priors of its octet x values; all 256 values in thorough) through weighted sums modulo three primes folded independently by the driver and by TLC.", "7/C09"),
    level_note="Trusted: TLC, Go reflection, the frozen annotation table (the `len = INF` fields are octet strings from row r0 whatever their sBit says). Octet-string fields and multi-octet contents are sampled by the stated patterns, not exhaustively. SetLen of Buffer-backed elements (allocator) is judged on Len/Iei only; the DNN text accessor (a label coding, not a bit field) is judged by its own specification (MiscConvert.tla, RFC 1035 labels) on generated names and buffers, not exhaustively.",
)

KNOWN_CLASS = {"low6": "second-octet-low-bits-cleared"}


def dnn_text_accessor(c, sd):
    for mod, cfg in (("MC_X02_dnn", "MC_X02_dnn"), ("MC_X02_dnn", "MC_X02_dnn_text"), ("MC_X02_dnn", "MC_X02_dnn_buf")):
        c.stage_a(sd, mod, cfg, workers=2, timeout=900)
    cases, seen = [], set()
    for cfg in ("MC_X02_dnn_gen", "MC_X02_dnn_gentext", "MC_X02_dnn_genbuf"):
        res = c.tlc(sd, "MC_X02_dnn", cfg, workers=2, timeout=900)
        if not res.clean:
            raise Infra("case generator %s failed:\n%s" % (cfg, res.out[-2000:]))
        c.cov["states"] += res.distinct; c.cov["transitions"] += res.generated
        for ln in res.printed:
            if ln.startswith('"{'):
                x = json.loads(json.loads(ln)); k = json.dumps(x, sort_keys=True)
                if x.get("kind") in ("dnn", "dnnbuf") and k not in seen:
                    seen.add(k); cases.append(x)
    if len(cases) < 200:
        raise Infra("DNN case generators printed only %d cases" % len(cases))
    for i, x in enumerate(cases):
        if x["kind"] == "dnn": x["preset"] = i % 2 == 1
    drv = c.build_driver("misc")
    cp = os.path.join(c.scratch, "dnn-cases.json"); json.dump(cases, open(cp, "w"))
    out = os.path.join(c.scratch, "dnn.ndjson")
    c.run_driver(drv, ["replay", cp, out])
    evs = [x for x in read_ndjson(out) if x.startswith('{"op":"Dnn')]
    if len(evs) < len(cases):
        raise Infra("misc driver produced %d DNN events for %d cases" % (len(evs), len(cases)))
    mism = c.validate("Trace_X02", evs, shards=2)
    c.cov["dnn_text_accessor_events"] = len(evs)

    def txt(a): return "".join(chr(x) if 32 <= x < 127 else "\\x%02x" % x for x in a)

    def case_of(e):
        return dict(kind="dnn", name=e["name"], preset=e["preset"]) if e["op"] == "DnnSet" else dict(kind="dnnbuf", buf=e["buf"])

    def classify(idx, t):
        e = json.loads(evs[idx])
        what = ("SetDNN(\"%s\") -> buffer %s, GetDNN \"%s\"" % (txt(e["name"])[:100], e["buf"][:24], txt(e["get"])[:80])) if e["op"] == "DnnSet" \
            else "GetDNN on buffer %s -> \"%s\"" % (e["buf"][:40], txt(e["get"])[:80])
        return ("DNN." + ("SetDNN" if e["op"] == "DnnSet" else "GetDNN"), t[3], "%s (%s): %s" % (t[2], t[3], what),
                dict(case=case_of(e), observed=e, how="harness/cmd/misc replay [case] out.ndjson; validate with spec/trace/Trace_X02"))

    def confirm(idx, t):
        p2 = os.path.join(c.scratch, "dnn-confirm.json"); json.dump([case_of(json.loads(evs[idx]))], open(p2, "w"))
        o3 = os.path.join(c.scratch, "dnn-confirm.ndjson")
        c.run_driver(drv, ["replay", p2, o3])
        again = c.validate("Trace_X02", [x for x in read_ndjson(o3) if x.startswith('{"op":"Dnn')], shards=1)
        return any(a[1][2] == t[2] and a[1][3] == t[3] for a in again)
    mc = dict(c.cov.get("mismatch_classes", {}))
    c.triage(mism, classify, confirm, per_class=2, total=8)
    mc.update(c.cov.get("mismatch_classes", {})); c.cov["mismatch_classes"] = mc


def load_table():
    return json.load(open(os.path.join(VERIF, "tables", "ie_fields.json")))


def registry_go(tab):
    L = ['// generated at check time from tables/ie_fields.json (type names only): plumbing', 'package main', '',
         'import "github.com/free5gc/nas/nasType"', '', 'var Types = map[string]func() any{']
    L += ['\t"%s": func() any { return &nasType.%s{} },' % (t["type"], t["type"]) for t in tab["types"]]
    return "\n".join(L + ['}']) + "\n"


def run(c):
    thorough = c.tier == "thorough"
    tab = load_table()
    sd = c.spec_dir("specA")
    seedc = c.seed % 1000

    def setcfg(name, **kv):
        p = os.path.join(sd, name + ".cfg"); s = open(p).read()
        for k, v in kv.items():
            import re
            s2 = re.sub(r"\b%s = \w+" % k, "%s = %s" % (k, v), s)
            if s2 == s and ("%s = %s" % (k, v)) not in s:
                raise Infra("cfg %s has no constant %s" % (name, k))
            s = s2
        open(p, "w").write(s)
    wide = "TRUE" if thorough else "FALSE"
    setcfg("MC_C09", Wide=wide, Seed=seedc)
    setcfg("MC_C09_gen", Wide=wide, Seed=seedc)
    setcfg("MC_C09_oct", Full=wide)
    # ---- stage A
    c.stage_a(sd, "MC_C09", "MC_C09", workers=(12 if thorough else 6), timeout=3000)
    c.stage_a(sd, "MC_C09_oct", "MC_C09_oct", workers=(12 if thorough else 6), timeout=3000)
    # ---- stage B: cases from the specification's case structure
    res = c.tlc(sd, "MC_C09_gen", "MC_C09_gen", workers=2, timeout=1800)
    if not res.clean:
        raise Infra("case generator failed:\n" + res.out[-2000:])
    c.cov["states"] += res.distinct; c.cov["transitions"] += res.generated
    cases = []
    for ln in res.printed:
        if not ln.startswith('"{'): continue
        o = json.loads(json.loads(ln))
        if "overlap" in o:
            c.note("documented fields of %s share bits: %s / %s (exempt from mutual non-interference only)" % tuple(o["overlap"]))
            continue
        o["groups"].sort(key=lambda g: (g["walk"], g["L"]))       # base groups first
        cases.append(o)
    cases.sort(key=lambda o: (o["ti"], o["fi"]))
    npairs = sum(len(t["fields"]) for t in tab["types"])
    nstring = sum(1 for t in tab["types"] for f in t["fields"] if f["kind"] == "string")
    if len(cases) != npairs - nstring:
        raise Infra("generator printed %d fields, table has %d (+%d excluded)" % (len(cases), npairs - nstring, nstring))
    for o in cases:   # the generator and the frozen JSON must describe the same table
        t = tab["types"][o["ti"] - 1]; f = t["fields"][o["fi"] - 1]
        if t["type"] != o["type"] or f["name"] != o["field"]:
            raise Infra("IeFieldTable.tla and tables/ie_fields.json disagree at %r" % ((o["ti"], o["fi"]),))
    # every small value of the element's length indicator as prior (0..16), contents 0x55, two values: what an accessor reads and
    # writes does not depend on the number the length field happens to hold; and the field's last row for the driver's size sweep
    for o in cases:
        t = tab["types"][o["ti"] - 1]; f = t["fields"][o["fi"] - 1]
        o["r1"] = f["r1"] if (f["kind"] in ("bits", "array") and t.get("container") == "buffer") else -1
        g0 = o["groups"][0]
        if o["r1"] >= 0 and not g0["walk"] and g0["priors"] and o["r1"] + 1 < g0["L"]:
            # the element just long enough for the field to exist (its last row is the last octet present), and one octet more
            p0 = g0["priors"][0]
            for L in (o["r1"] + 1, o["r1"] + 2):
                o["groups"].append(dict(L=L, walk=False, priors=[dict(iei=p0["iei"], len=p0["len"], oct=[b] * L) for b in (255, 85, 0)], values=g0["values"][:3]))
        if g0["walk"] or not g0["priors"] or g0["priors"][0]["len"] < 0 or f["kind"] == "len": continue
        L = g0["L"]
        pri = [dict(iei=g0["priors"][0]["iei"], len=k, oct=[85] * L) for k in range(17)]
        o["groups"].append(dict(L=L, walk=False, priors=pri, values=g0["values"][:2]))
    ncases = sum(len(g["priors"]) * len(g["values"]) for o in cases for g in o["groups"])
    # ---- driver (registry = plumbing, generated from the list of type names)
    reg = os.path.join(c.scratch, "reg_gen.go"); open(reg, "w").write(registry_go(tab))
    ov = os.path.join(c.scratch, "overlay.json")
    json.dump({"Replace": {os.path.join(c.scratch, "harness", "cmd", "ietypes", "reg_gen.go"): reg}}, open(ov, "w"))
    drv = c.build_driver("ietypes", overlay=ov)
    calls = 0
    def drive(args, **kw):
        nonlocal calls
        r = c.run_driver(drv, args, **kw)
        for ln in r.stderr.splitlines():
            if ln.startswith("calls "): calls += int(ln.split()[1])
        return r
    cp = os.path.join(c.scratch, "cases.json"); json.dump(cases, open(cp, "w"))
    out1 = os.path.join(c.scratch, "replay.ndjson"); out2 = os.path.join(c.scratch, "record.ndjson"); out3 = os.path.join(c.scratch, "digest.ndjson")
    drive(["replay", cp, out1], timeout=1800)
    nrec = 100000 if thorough else 15000
    drive(["record", cp, out2, nrec], timeout=1800)
    # digests: every bit field; values = the generator's boundary values (quick) / all (thorough)
    jobs = []
    for o in cases:
        f = tab["types"][o["ti"] - 1]["fields"][o["fi"] - 1]
        if f["kind"] != "bits": continue
        g = o["groups"][0]
        if g["walk"]: raise Infra("generator printed no base group for %s.%s" % (o["type"], o["field"]))
        single = f["r0"] == f["r1"]
        if thorough:
            vals = list(range(f_argmax(f) + 1)) if single else sorted(set(g["values"]) | {c.rng.randrange(65536) for _ in range(8)})
            p1s = [-1] if single else list(range(256))
        else:
            vals = g["values"]
            p1s = [-1] if single else sorted({0, 255, 85, 170, c.rng.randrange(256), c.rng.randrange(256)})
        jobs.append(dict(ti=o["ti"], fi=o["fi"], type=o["type"], field=o["field"], r0=f["r0"], r1=f["r1"], L=g["L"], values=vals, p1s=p1s))
    jp = os.path.join(c.scratch, "jobs.json"); json.dump(jobs, open(jp, "w"))
    drive(["digest", jp, out3], timeout=1800)
    # cold-start ordering: fresh processes in which ONE accessor is the first library call (one representative per distinct
    # field shape (kind, rows, start bit, width) in quick, every accessor in thorough), then one case of every accessor
    shapes = {}
    for k, o in enumerate(cases):
        f = tab["types"][o["ti"] - 1]["fields"][o["fi"] - 1]
        shapes.setdefault((f["kind"], f["r1"] - f["r0"], f.get("sbit"), f.get("n")), []).append(k)
    firsts = list(range(len(cases))) if thorough else sorted(c.rng.choice(v) for v in shapes.values())
    c.cov["cold_start_orders"] = len(firsts)
    def one_order(k):
        o = os.path.join(c.scratch, "order-%d.ndjson" % k)
        r = c.run_driver(drv, ["order", cp, o, k], timeout=600)
        n = sum(int(ln.split()[1]) for ln in r.stderr.splitlines() if ln.startswith("calls "))
        ev_ = read_ndjson(o); os.unlink(o)
        return ev_, n
    oevents, oowner = [], []
    with ThreadPoolExecutor(max_workers=12) as ex:
        for k, (ev_, n) in zip(firsts, ex.map(one_order, firsts)):
            oowner += [(k, j) for j in range(len(ev_))]; oevents += ev_; calls += n
    events = read_ndjson(out1) + read_ndjson(out2)
    nplain = len(events)
    devents = read_ndjson(out3)
    # events are independent: deal them round-robin so that every validator shard gets the same mix of element sizes
    events = [x for k in range(12) for x in events[k::12]]
    devents = [x for k in range(12) for x in devents[k::12]]
    if nplain != ncases + nrec:
        raise Infra("driver wrote %d events for %d cases" % (len(events), ncases + nrec))
    c.cov["evaluations"] = calls
    # ---- stage C
    mism = c.validate("Trace_C09", events, shards=12, timeout=3000)
    dmism = c.validate("Trace_C09", devents, shards=12, timeout=3000)
    if any(t[2] == "badevent" for _, t in mism + dmism):
        raise Infra("trace spec could not interpret an event (table/driver plumbing): %r" % ([x for x in mism + dmism if x[1][2] == "badevent"][:3],))

    def case_of(e):
        kind = tab["types"][e["ti"] - 1]["fields"][e["fi"] - 1]["kind"]
        val = e["vs"] if kind in ("array", "slice") else e["v"]
        return dict(ti=e["ti"], fi=e["fi"], type=e["type"], field=e["field"], kind=kind,
                    groups=[dict(L=len(e["poct"]), priors=[dict(iei=e["piei"], len=e["plen"], oct=e["poct"])], values=[val])])

    def describe(e, cls):
        f = tab["types"][e["ti"] - 1]["fields"][e["fi"] - 1]
        return ("%s.Set%s(%s) on Iei=%s Len=%s contents=%s -> Iei=%s Len=%s contents=%s, Get before=%s after=%s%s; documented rows [%d,%d] bit %d len %s" % (
            e["type"], e["field"], e["vs"] if e["v"] < 0 else e["v"], e["piei"], e["plen"], e["poct"], e["qiei"], e["qlen"], e["qoct"],
            e["gs0"] if e["g0"] < 0 else e["g0"], e["gs1"] if e["g1"] < 0 else e["g1"], (" PANIC in " + e["panic"]) if e["panic"] else "",
            f["r0"], f["r1"], f["sbit"], "INF" if f["n"] < 0 else f["n"]))[:900]

    seen = {}

    def batch_triage(evs, mm, per_class=2, cap=60):
        """pick representatives per (operation, class), reproduce them all in one fresh driver process + one TLC run, report"""
        reps = []
        for idx, t in mm:
            e = json.loads(evs[idx]); cls = KNOWN_CLASS.get(t[2], t[2])
            k = ("%s.Set%s" % (e["type"], e["field"]), cls)
            seen[k] = seen.get(k, 0) + 1
            if seen[k] <= per_class and len(reps) < cap:
                reps.append((k, e))
        if not reps: return
        cj = os.path.join(c.scratch, "confirm.json"); json.dump([case_of(e) for _, e in reps], open(cj, "w"))
        co = os.path.join(c.scratch, "confirm.ndjson")
        c.run_driver(drv, ["replay", cj, co])
        cev = read_ndjson(co)
        again = dict((i, t) for i, t in c.validate("Trace_C09", cev, shards=1))
        c.cov["traces_validated_against_impl"] -= len(cev)
        for i, (k, e) in enumerate(reps):
            if i not in again or KNOWN_CLASS.get(again[i][2], again[i][2]) != k[1]:
                c.note("mismatch %s/%s not reproduced in a fresh process (ignored)" % k); seen[k] -= 1
                continue
            e2 = json.loads(cev[i])
            c.report(k[0], k[1], describe(e2, k[1]),
                     dict(case=case_of(e), observed=e2, how="harness/cmd/ietypes replay [case] out.ndjson (registry from tables/ie_fields.json); validate with spec/trace/Trace_C09"))
    batch_triage(events, mism)
    # cold-start orders: a mismatch there may exist only in that order; it is confirmed by running the same order again in a
    # fresh process and finding the same class at the same position
    omism = c.validate("Trace_C09", oevents, shards=12, timeout=3000)
    if any(t[2] == "badevent" for _, t in omism):
        raise Infra("trace spec could not interpret an order event: %r" % ([x for x in omism if x[1][2] == "badevent"][:3],))
    per_first = {}
    for idx, t in omism:
        e = json.loads(oevents[idx]); cls = KNOWN_CLASS.get(t[2], t[2])
        k = ("%s.Set%s" % (e["type"], e["field"]), cls)
        if k in c.known_hits or any(v["what"].startswith("%s/%s" % k) for v in c.violations): continue
        per_first.setdefault(oowner[idx][0], []).append((oowner[idx][1], k, e))
    for first, items in sorted(per_first.items())[:3]:
        ev2, _ = one_order(first)
        again = dict((i, t) for i, t in c.validate("Trace_C09", ev2, shards=1))
        c.cov["traces_validated_against_impl"] -= len(ev2)
        fo = cases[first]
        for pos, k, e in items[:2]:
            if pos not in again or KNOWN_CLASS.get(again[pos][2], again[pos][2]) != k[1]:
                c.note("mismatch %s/%s in the cold-start order of case %d not reproduced (ignored)" % (k + (first,))); continue
            seen[k] = seen.get(k, 0) + 1
            c.report(k[0], k[1] + "-after-cold-start-order", describe(json.loads(ev2[pos]), k[1]) + " - in a fresh process whose FIRST library call was %s.%s" % (fo["type"], fo["field"]),
                     dict(first_call=dict(type=fo["type"], field=fo["field"], case_index=first), observed=json.loads(ev2[pos]),
                          how="harness/cmd/ietypes order cases.json out.ndjson %d ; validate with spec/trace/Trace_C09 (event %d)" % (first, pos)))

    # digest mismatches: class low6 = the recorded wrong table exactly; anything else is expanded into its 256 cases
    dk, expand = {}, []
    for idx, t in dmism:
        e = json.loads(devents[idx])
        if t[2] == "low6":
            k = ("%s.Set%s" % (e["type"], e["field"]), KNOWN_CLASS["low6"])
            dk.setdefault(k, []).append(e)
        else:
            expand.append(e)
    c.cov["digests_differing"] = len(dmism)
    for k, es in sorted(dk.items()):
        if k not in c.known_hits and not any(v["what"].startswith("%s/%s" % k) for v in c.violations):
            # not already reported through an individual case: reproduce one digest in a fresh process
            e = es[0]
            j = [x for x in jobs if x["ti"] == e["ti"] and x["fi"] == e["fi"]][0]
            j1 = dict(j, values=[e["v"]], p1s=[e["p1"]])
            jp2 = os.path.join(c.scratch, "confirm-jobs.json"); json.dump([j1], open(jp2, "w"))
            do = os.path.join(c.scratch, "confirm-digest.ndjson")
            c.run_driver(drv, ["digest", jp2, do])
            again = c.validate("Trace_C09", read_ndjson(do), shards=1)
            c.cov["traces_validated_against_impl"] -= 1
            if again and again[0][1][2] == "low6":
                c.report(k[0], k[1], "function table of %s over all 256 values of the second octet (value %d, first octet %d) equals the recorded wrong table" % (k[0], e["v"], e["p1"]),
                         dict(digest_job=j1, observed=e, how="harness/cmd/ietypes digest [job] out.ndjson; validate with spec/trace/Trace_C09"))
        seen[k] = seen.get(k, 0) + len(es)
    if expand:
        xcases, per_field = [], {}
        for e in expand:
            kf = (e["ti"], e["fi"])
            per_field[kf] = per_field.get(kf, 0) + 1
            if per_field[kf] > 2 or len(xcases) >= 40: continue
            f = tab["types"][e["ti"] - 1]["fields"][e["fi"] - 1]
            pri = []
            for x in range(256):
                oct_ = [(165 + 37 * j) % 256 for j in range(e["L"])]
                if e["p1"] >= 0: oct_[f["r0"]] = e["p1"]
                oct_[f["r1"]] = x
                pri.append(dict(iei=e["piei"], len=e["plen"], oct=oct_))
            xcases.append(dict(ti=e["ti"], fi=e["fi"], type=e["type"], field=e["field"], kind="bits", groups=[dict(L=e["L"], priors=pri, values=[e["v"]])]))
        xj = os.path.join(c.scratch, "expand.json"); json.dump(xcases, open(xj, "w"))
        xo = os.path.join(c.scratch, "expand.ndjson")
        drive(["replay", xj, xo])
        xev = read_ndjson(xo)
        xm = c.validate("Trace_C09", xev, shards=8)
        if not xm:
            c.note("%d digest(s) differed but no element of the expanded chunks did (not reproduced)" % len(expand))
        batch_triage(xev, xm)
    c.cov["mismatch_classes"] = {"%s/%s" % k: v for k, v in seen.items() if v > 0}

    # ---- the one TEXT accessor pair: DNN.SetDNN / GetDNN (documented layout: RFC 1035 labels, TS 23.003 9.1).  Specified in
    # spec/MiscConvert.tla (label coding, laws model-checked by MC_X02_dnn*), cases printed by TLC (names at the label-length
    # boundaries, empty labels, short texts, buffers), executed by the misc driver, judged by Trace_X02.
    dnn_text_accessor(c, sd)

    # ---- binding self-test, AFTER the verdict phase and never in its way: observations of events that validated
    # cleanly are corrupted; TLC must reject exactly those and keep accepting the untouched ones
    if c.violations:
        c.cov["binding_selftest"] = "skipped: the run has violations"
    else:
        badidx = {i for i, _ in mism}
        sl = [events[i] for i in range(len(events)) if i not in badidx][:300]; ks = []
        for k, fld in ((100, "qoct"), (200, "g1")):
            if k >= len(sl): continue
            ce = json.loads(sl[k])
            if fld == "qoct" and ce["qoct"]: ce["qoct"][-1] ^= 4
            elif ce["g1"] >= 0: ce["g1"] ^= 1
            elif ce["gs1"]: ce["gs1"][0] ^= 1
            else: continue
            sl[k] = json.dumps(ce); ks.append(k)
        if not ks:
            c.note("binding self-test skipped: no suitable clean events")
        else:
            bm = sorted(i for i, _ in c.validate("Trace_C09", sl, shards=1))
            c.cov["traces_validated_against_impl"] -= len(sl)
            if bm != ks:
                raise Infra("binding self-test failed: corrupted clean events %r, TLC rejected %r" % (ks, bm))
            c.cov["binding_selftest"] = "one bit of the logged contents / getter result of %d cleanly validated real events corrupted: rejected by TLC at exactly those events, the other %d stay accepted" % (len(ks), len(sl) - len(ks))

    # ---- coverage
    import hashlib, re
    trivial = re.compile(r'"piei":(-1|0),"plen":(-1|0),"poct":\[(0,)*0\],"v":(0|-1),"vs":\[(0,?)*\]')
    triv = 0
    for ln in events:
        i = ln.index('"g0"')
        c.count_distinct(hashlib.md5(ln[:i].encode()).digest()[:10])
        if trivial.search(ln): triv += 1
    ndig = 256 * len(devents)
    c.cov["distinct_nontrivial"] = len(c._distinct) - triv + ndig
    c._distinct = set()
    c.cov["rule"] = ("case = one accessor pair executed on one (prior contents, value): Get, Set, read back Iei/Len/all octets, Get; distinct = distinct (type, field, prior, value) "
                     "among the individually validated events (%d, minus %d trivial ones: zero value on all-zero contents) + %d (prior octet, value) pairs covered by digest conformance (%d digests x 256 priors)" % (
                         c.cov["distinct_nontrivial"] - ndig + triv, triv, ndig, len(devents)))
    c.cov["accessor_pairs"] = len(cases)
    c.cov["types"] = len(tab["types"])
    c.cov["generated_cases"] = ncases
    c.cov["recorded_cases"] = nrec
    c.cov["digest_events"] = len(devents)
    c.cov["exhaustive"] = False
    for i in (0, len(events) // 3, len(events) // 2, len(events) - 1):
        c.sample(events[i])
    c.sample(devents[len(devents) // 2])
    c.assumptions += ["oracle = layout annotations frozen in tables/ie_fields.json at commit %s (%d pairs, %d types; 5 Iei/Len pairs without annotation are placed by the IE format of TS 24.501); accessors added later are not covered" % (tab["source_commit"][:12], npairs, len(tab["types"])),
                      "`len = INF` fields are octet strings starting at row r0 (their sBit is not meaningful); set = copy into the existing contents",
                      "SetLen of Buffer-backed elements is the allocator: judged on Len, Iei and GetLen only; DNN.GetDNN/SetDNN (text) excluded",
                      "Buffer-backed elements are given contents at least as long as their documented fixed part",
                      "digest conformance: all 256 priors of the touched octet x %s per bit field, other octets held at a fixed pattern" % ("all 256 values" if thorough else "the boundary values")]


def f_argmax(f):
    return 255 if f["stype"] == "uint8" else 65535


if __name__ == "__main__":
    main("C09", run)
