#!/usr/bin/env python3
"""C04 - wire format of every message matches the TS 24.501 message tables.
The tables (tables/messages.json -> NasTables.tla) are the specification; NasCodec.tla is the independent
table-driven codec.  Stage A/B (one TLC run): on every path of the generative grammar - every message x every slot x
declared length in {min-1,min,min+1,mid,max-1,max,max+1} x truncation class, position alone / after another element
(depth 2 in thorough) - the decoder machine accepts iff the path is inside the grammar and recovers the fields; every path
is printed as a concrete input.  Stage C: the real decoders run on those inputs, on every prefix of every accepted one and
of the repository samples; the real encoders run on the message values; TLC compares accept/reject, routed message, every
field and every encoded octet with the table-driven codec.
Added after seeded rounds 3-5: the complete optional set followed by one more / one cut-short element; out-of-bounds declared lengths (max+1, max+2, top of the length field's range) with the content present; optional parts of exactly 65 536 octets."""
import json, os, sys
sys.path.insert(0, os.path.dirname(os.path.abspath(__file__)))
from codec_common import *

META = dict(
    property_id="C04", engine="tlc-codec",
    technique="TLC-enumerated generative grammar of the message tables (every slot x length class x truncation) replayed into the real decoders/encoders; observations trace-validated by TLC against the table-driven TLA+ codec",
    level=("model_checking", "The message tables are finite: TLC enumerates every path of the generative grammar (all 45 messages, all 357 slots, 7 length classes, 4 truncation classes; pairs of optional elements in the thorough tier), checks on the decoder machine that acceptance equals grammar membership and that fields are recovered, and each path is executed on the real code with accept/reject, every field value and every encoded octet judged by TLC against the table-driven codec.", "7/C04"),
    level_note="Trusted: TLC, Go reflection, tables/messages.json as the stand-in for TS 24.501 clause 8 (extracted once at the pinned commit, cross-checked against the 88 repository samples). Inputs containing identifiers unknown to the message are outside the verdict (NOTE). Content octets are patterns, not all 256^n values.",
)


def run(c):
    thorough = c.tier == "thorough"
    gen = mc_codec(c, 2 if thorough else 1, shards=9 if thorough else 3, liveness=not thorough, deep=() if thorough else deep_messages(c, 4))
    drv = c.build_driver("codec")
    cases = []
    fam_entry = {"GMM": "gmm", "GSM": "gsm"}
    rng = c.rng
    for g in gen:
        t = TBL[g["m"]]
        if t["family"] == "ENV":
            cases.append(dict(k="dec", entry="body", m=g["m"], inp=g["inp"]))
            continue
        cases.append(dict(k="dec", entry="plain", inp=g["inp"]))
        if not thorough or rng.random() < 0.15:
            cases.append(dict(k="dec", entry=fam_entry[t["family"]], inp=g["inp"]))
            cases.append(dict(k="dec", entry="body", m=g["m"], inp=g["inp"]))
        c.count_distinct((g["m"], tuple(g["inp"][len(header(g["m"])):])) if g["n"] >= 1 else ("hdr", g["m"]))
        if rng.random() < 0.1:
            for v in hdr_variants(g["m"], g["inp"]):
                cases.append(dict(k="dec", entry="plain", inp=v))
    acc = [g for g in gen if g["ok"] and not g["unk"]]
    if thorough: acc = rng.sample(acc, min(len(acc), 12000))
    seenp = set()
    for g in acc:                               # every truncation point of every accepted input
        for i in range(len(g["inp"])):
            key = (g["m"], tuple(g["inp"][:i]))
            if key in seenp: continue
            seenp.add(key)
            cases.append(dict(k="dec", entry="body", m=g["m"], inp=g["inp"][:i]) if TBL[g["m"]]["family"] == "ENV"
                         else dict(k="dec", entry="plain", inp=g["inp"][:i]))
    for m, (base, singles) in singles_by_message(gen).items():      # repeated element, later copy of a different length
        for v in dup_variants(base, singles):
            cases.append(dict(k="dec", entry="plain", inp=v))
    for m, (base, singles) in singles_by_message(gen).items():      # every pair of different elements in definition order, salted
        for v in canonical_pairs(m, base, singles):
            cases.append(dict(k="dec", entry="plain", inp=v))
    for m, (base, singles) in singles_by_message(gen).items():      # small values of each one-octet mandatory element x each optional element
        for v in mand_value_inputs(m, base, singles, list(range(8)) + [0x0F, 0x80, 0xFF] if not thorough else range(0, 256, 3)):
            cases.append(dict(k="dec", entry="plain", inp=v))
    for m, (base, singles) in singles_by_message(gen).items():      # one element 17 / 33 / 70 times, contents differing, then more
        for v in many_occurrences(m, base, singles, per_msg=3 if not thorough else 8):
            cases.append(dict(k="dec", entry="plain", inp=v))
    for m, (base, singles) in singles_by_message(gen).items():      # an optional part of exactly 64 KiB
        for v in exact_64k_inputs(m, base, singles):
            cases.append(dict(k="dec", entry="plain", inp=v))
    for m, (base, singles) in singles_by_message(gen).items():      # every optional element present, then one more / one cut short
        for v in full_plus_inputs(base, singles, unknown_octet(m)):
            cases.append(dict(k="dec", entry="plain", inp=v))
    for t in TABLES:                                                  # every value (spare bits included) of every half-octet element
        if t["family"] == "ENV": continue
        halves = [s_ for s_ in t["slots"] if not s_["mand"] and s_["half"]]
        if not halves: continue
        base = plain_minimal(t["name"])
        for s_ in halves:
            for v in range(16):
                cases.append(dict(k="dec", entry="plain", inp=base + [s_["iei"] * 16 + v]))
        cases.append(dict(k="dec", entry="plain", inp=base + [s_["iei"] * 16 + 15 - k for k, s_ in enumerate(halves)]))
    for t in TABLES:                                                  # out-of-bounds declared lengths with the content present
        if t["family"] == "ENV": continue
        for v in oob_full_inputs(t["name"]):
            cases.append(dict(k="dec", entry="plain", inp=v))
    for name, b in samples(4000 if not thorough else 70000):
        cases.append(dict(k="dec", entry="plain", inp=b))
        pts = range(len(b)) if len(b) <= 200 else sorted(set(list(range(64)) + [rng.randrange(len(b)) for _ in range(60)]))
        if len(b) > 6000: pts = list(pts)[:40]
        for i in pts:
            cases.append(dict(k="dec", entry="plain", inp=b[:i]))
    # encoder: message values of the grammar, via both encode entry points, plus adversarial fills
    wants = [(g["m"], g["w"]) for g in gen if g["g"]]
    slots_pinned = set()
    for m, w in wants:
        for k, s in enumerate(w["mand"]): slots_pinned.add((m, "m", k))
        for k, s in enumerate(w["opt"]):
            if s["p"]: slots_pinned.add((m, "o", k))
    if thorough: wants = rng.sample(wants, min(len(wants), 20000))
    for m, w in wants:
        vias = ["body"] if TBL[m]["family"] == "ENV" else ["plain", "body"]
        for via in vias:
            cases.append(dict(k="rt", m=m, mand=w["mand"], opt=w["opt"], via=via))
    for m, w in rng.sample(wants, min(len(wants), 150 if not thorough else 1500)):
        for fv in fill_variants(m, w):
            cases.append(dict(k="rt", m=m, mand=fv["mand"], opt=fv["opt"], via="body"))
    # full sets of optional elements per message (composed from TLC-emitted slot values)
    bym = {}
    for m, w in wants: bym.setdefault(m, []).append(w)
    for m, ws in bym.items():
        full = merge_wants(m, ws)
        cases.append(dict(k="rt", m=m, mand=full["mand"], opt=full["opt"], via="body"))
        for fv in fill_variants(m, full):               # every element of the message with each adversarial content fill
            cases.append(dict(k="rt", m=m, mand=fv["mand"], opt=fv["opt"], via="body"))
        for _ in range(4 if not thorough else 40):
            sub = merge_wants(m, rng.sample(ws, min(len(ws), rng.randint(2, 6))))
            cases.append(dict(k="rt", m=m, mand=sub["mand"], opt=sub["opt"], via="body" if TBL[m]["family"] == "ENV" else "plain"))
    events, hang = run_codec(c, drv, cases)
    if hang is not None:
        c.report("Decode", "hang", "case %d did not return within 20 s" % hang, cases[hang])
        events = events[:hang]
    c.cov["evaluations"] = len(events)
    mism = c.validate("Trace_C04", events, shards=14)
    notes = 0

    def classify(idx, t):
        if t[0] != "MISMATCH": return None
        e = json.loads(events[idx])
        op = e["op"] if e["op"] != "Dec" else "Decode/" + (e.get("msg") or "?")
        return ("Encode" if e["op"] == "RT" else "Decode", t[2],
                "%s: observed %s; the table-driven codec says otherwise (%s)" % (e.get("m") or e.get("msg") or e.get("entry"), "ok" if e.get("ok", e.get("encok")) else "error", t[2]),
                dict(case=cases[idx], observed=e, how="harness codec run <case as ndjson> out journal; validate with Trace_C04"))

    def confirm(idx, t):
        return confirm_by_tlc(c, drv, cases[idx], "Trace_C04", t[2], context=cases[max(0, idx - 2):idx])
    c.triage(mism, classify, confirm)
    def _c(e): e["ok"] = not e["ok"]; return e
    binding_selftest(c, "Trace_C04", events, lambda x: x.startswith('{"op":"Dec"') and '"ok":false' in x and '"panic":false' in x, _c, "a rejected decode logged as accepted")
    c.cov["notes_unknown_iei"] = sum(1 for _, t in mism if t[0] == "NOTE")
    c.cov["slots_pinned"] = "%d of 357 table slots carried a value in at least one in-grammar generated message" % len(slots_pinned)
    c.cov["generated_paths"] = len(gen)
    c.cov["rule"] = ("cases = decode/encode calls on the real code; distinct non-trivial = distinct generated (message, element octets after the header) paths of the grammar tree "
                     "with at least one element beyond the bare header; prefixes, samples and encoder cases come on top")
    for i in (0, len(events) // 3, 2 * len(events) // 3, len(events) - 1):
        c.sample(events[i], maxlen=400)
    c.assumptions += ["tables/messages.json is the stand-in for the TS 24.501 message tables",
                      "content octets are position patterns and adversarial constant fills, not all values",
                      "unknown identifiers are outside the verdict"]


if __name__ == "__main__":
    main("C04", run)
