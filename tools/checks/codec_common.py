"""Shared by the codec checks C01-C05, C10: TLC generation (MC_Codec), case derivation, driver runs."""
import glob, json, os, subprocess, sys
sys.path.insert(0, os.path.dirname(os.path.dirname(os.path.abspath(__file__))))
from vlib import *

TABLES = json.load(open(os.path.join(VERIF, "tables", "messages.json")))
TBL = {m["name"]: m for m in TABLES}


def header(m):
    t = TBL[m]
    if t["family"] == "GSM": return [0x2E, 0, 0, t["msgtype"]]
    if t["family"] == "GMM": return [0x7E, 0, t["msgtype"]]
    return [0x7E, 2]


def deep_messages(c, k, maxoptslots=10):
    """seeded choice of k message indices (1-based) with at most maxoptslots optional slots, for depth-2 runs in the quick tier"""
    idx = [i + 1 for i, t in enumerate(TABLES) if 1 <= sum(1 for s in t["slots"] if not s["mand"]) <= maxoptslots]
    return sorted(c.rng.sample(idx, min(k, len(idx))))


def mc_codec(c, maxopt, shards=None, timeout=1500, workers=None, liveness=True, deep=(), coverage=False):
    """stage A + B in one TLC run per shard of the message range: invariants of the decoder machine and of
    the codec laws are checked on every path of the generator tree while each complete input is printed."""
    sd = c.spec_dir("mc-codec")
    shards = shards or 1
    per = (45 + shards - 1) // shards
    cases = []
    cfg = open(os.path.join(sd, "MC_Codec.cfg")).read()
    jobs = []
    for k in range(shards):
        lo, hi = k * per + 1, min(45, (k + 1) * per)
        if lo > hi: continue
        name = "MC_Codec_%d" % k
        t = cfg.replace("MaxOpt = 1", "MaxOpt = %d" % maxopt).replace("MsgLo = 1", "MsgLo = %d" % lo).replace("MsgHi = 45", "MsgHi = %d" % hi)
        if not liveness:
            t = t.replace("PROPERTY Terminates\n", "")
        open(os.path.join(sd, name + ".cfg"), "w").write(t)
        jobs.append(name)
    for i in deep:                      # selected messages additionally at depth 2 (pairs, reordering, duplicates)
        name = "MC_Codec_deep%d" % i
        t = cfg.replace("MaxOpt = 1", "MaxOpt = 2").replace("MsgLo = 1", "MsgLo = %d" % i).replace("MsgHi = 45", "MsgHi = %d" % i).replace("PROPERTY Terminates\n", "")
        open(os.path.join(sd, name + ".cfg"), "w").write(t)
        jobs.append(name)
    w = workers or max(2, NCPU // max(1, min(len(jobs), 8)))
    with ThreadPoolExecutor(max_workers=min(len(jobs), 8)) as ex:
        results = list(ex.map(lambda n: c.tlc(sd, "MC_Codec", n, workers=w, timeout=timeout, xmx="6g", coverage=coverage and "deep" not in n), jobs))
    for name, res in zip(jobs, results):
        if res.rc == 124: raise Infra("MC_Codec timed out (%s)" % name)
        if not res.clean:
            raise Infra("MC_Codec stage A failed (%s): spec-level problem\n%s" % (name, res.out[-3000:]))
        c.cov["states"] += res.distinct; c.cov["transitions"] += res.generated
        c.cov["stage_a"].append(dict(config="%s MaxOpt=%d" % (name, maxopt), generated=res.generated, distinct=res.distinct, wall_s=round(res.wall, 1),
                                     invariants="DTypeOK DProgress DPosOK DAllocBound DAgrees GrammarAgrees WantRecovered RoundTrip ReEncode" + (" + PROPERTY Terminates" if liveness else "")))
        if coverage and "deep" not in name:
            vac, zer = coverage_report(res.out)
            c.cov["stage_a"][-1]["vacuous_actions"] = vac
            c.cov["stage_a"][-1]["never_evaluated_expressions"] = len(zer)
            c.cov["stage_a"][-1]["never_evaluated_sample"] = zer[:8]
            if vac: c.note("stage A %s: actions never taken: %s" % (name, ", ".join(vac)))
        for ln in res.printed:
            if ln.startswith('"{'):
                g = json.loads(json.loads(ln))
                if "deep" in name and g["n"] < 2: continue       # depth-1 paths of this message are already in the base run
                cases.append(g)
    if not cases:
        raise Infra("MC_Codec printed no cases")
    return cases


def samples(maxlen=None):
    """the repository's own sample messages (inputs only, never an oracle)"""
    out = []
    for f in sorted(glob.glob(os.path.join(REPO, "testdata", "G*Message", "*"))):
        b = open(f, "rb").read()
        if maxlen is None or len(b) <= maxlen:
            out.append((os.path.basename(f), list(b)))
    return out


def run_codec(c, drv, cases, name="cases", timeout=1800):
    """run the driver on a list of case dicts; returns list of event lines aligned with cases
    (a `rand` case yields several events; then alignment is by order only).  Hang -> (idx) reported."""
    cp = os.path.join(c.scratch, name + ".ndjson"); op = os.path.join(c.scratch, name + ".out.ndjson"); jp = os.path.join(c.scratch, name + ".journal")
    with open(cp, "w") as f:
        for x in cases: f.write(json.dumps(x, separators=(",", ":")) + "\n")
    r = c.run_driver(drv, ["run", cp, op, jp], timeout=timeout, check=False)
    hang = None
    if r.returncode == 4:
        j = open(jp).read().splitlines()
        hl = [x for x in j if x.startswith("HANG")]
        hang = int(hl[-1].split()[1]) if hl else -1
    elif r.returncode != 0:
        raise Infra("codec driver failed rc=%d: %s" % (r.returncode, (r.stderr or "")[-2000:]))
    ev = read_ndjson(op)
    os.unlink(cp)
    return ev, hang


def confirm_case(c, drv, case, pred):
    """re-run one case in a fresh process; pred(event dict) says whether the observation repeats"""
    ev, hang = run_codec(c, drv, [case], name="confirm")
    if hang is not None: return True
    return bool(ev) and pred(json.loads(ev[0]))


def structured(n, kind, v):
    """n content octets that LOOK like a small structured value: a code / identifier followed by a big-endian length or count
    field that is smaller than the content (an EAP packet, a TLV, a list header ...) - a codec that interprets contents
    (trims to an inner length, validates a count) only reacts to such contents.  kind A: v v 00 v v.., B: v 00 v v.., C: 00 v v.."""
    head = {"A": [v, v, 0, v], "B": [v, 0, v], "C": [0, v]}[kind]
    return (head + [v] * n)[:n]


STRUCT_FILLS = [(k, v) for k in "ABC" for v in (1, 2, 3, 4, 5, 8)]


def structured_elements(msg, e):
    """byte-level: the optional element e (identifier, length field, contents) with structured contents of the same length"""
    sl = next((s_ for s_ in TBL[msg]["slots"] if not s_["mand"] and not s_["half"] and s_["iei"] == e[0]), None)
    if sl is None or sl["lsz"] == 0: return []
    off = 1 + sl["lsz"]; n = len(e) - off
    if n < 6: return []
    return [e[:off] + structured(n, k, v) for k, v in STRUCT_FILLS]


def fill_variants(msg, want):
    """adversarial content fills for a TLC-emitted message value: every content octet := an identifier of the same
    message / 0x00 / 0xFF / 0x7E / 0x2E (lengths, identifiers and header octets untouched)"""
    t = TBL[msg]; ieis = [s["iei"] for s in t["slots"] if not s["mand"] and not s["half"]]
    fills = [0x00, 0xFF, 0x7E, 0x2E] + ieis[:3]
    out = []
    nh = len(header(msg))
    for fv in fills + STRUCT_FILLS:
        fillf = (lambda n: [fv] * n) if isinstance(fv, int) else (lambda n, kv=fv: structured(n, kv[0], kv[1]))
        w = json.loads(json.dumps(want))
        mslots = [s for s in t["slots"] if s["mand"]]
        for i, (s, ts) in enumerate(zip(w["mand"], mslots)):
            if i >= nh:
                n = s["len"] if ts["lsz"] > 0 else len(s["v"])
                s["v"] = fillf(n) + [0] * (len(s["v"]) - n) if isinstance(fv, tuple) else [fv] * len(s["v"])
        optslots = [s for s in t["slots"] if not s["mand"]]
        for s, ts in zip(w["opt"], optslots):
            if s["p"] and not ts["half"]:
                n = s["len"] if ts["lsz"] > 0 else len(s["v"])
                s["v"] = fillf(n) + [0] * (len(s["v"]) - n)
        out.append(w)
    return out


def merge_wants(msg, wants):
    """compose one message value from several TLC-emitted ones of the same message (union of present optional slots)"""
    w = json.loads(json.dumps(wants[0]))
    for o in wants[1:]:
        for k, s in enumerate(o["opt"]):
            if s["p"]: w["opt"][k] = json.loads(json.dumps(s))
    # TLC fills contents by position in the input; single-element values of equal-length elements therefore carry the SAME
    # octets.  In a composed value every element gets contents of its own (salted by its slot), so that an element that
    # reads or overwrites a neighbour's storage shows.
    if len(wants) > 1:
        optslots = [s_ for s_ in TBL[msg]["slots"] if not s_["mand"]]
        for k, (s, ts) in enumerate(zip(w["opt"], optslots)):
            if s["p"] and not ts["half"]:
                n = s["len"] if ts["lsz"] > 0 else len(s["v"])
                s["v"] = [(x + 29 * (k + 1) + i * (k % 7)) % 256 if i < n else x for i, x in enumerate(s["v"])]
    return w


def minimal_value(name):
    """shortest well-formed message value of a table: mandatory slots at minimum length, contents zero, header octets set"""
    t = TBL[name]; hdr = header(name)
    mand = []
    for k, s in enumerate(x for x in t["slots"] if x["mand"]):
        if k < len(hdr):
            mand.append(dict(p=True, iei=0, len=0, v=[hdr[k]])); continue
        if s["lsz"] == 0:
            mand.append(dict(p=True, iei=0, len=0, v=[0] * s["max"]))
        else:
            mn = min(s["lens"]) if s["lens"] else s["min"]
            v = [0] * (s["cap"] if s["data"] == "arr" else mn)
            mand.append(dict(p=True, iei=0, len=mn, v=v))
    opt = [dict(p=False, iei=0, len=0, v=[]) for s in t["slots"] if not s["mand"]]
    return dict(mand=mand, opt=opt)


def hdr_variants(name, inp):
    """the header octets routing and framing do not interpret (security header type / PDU session id, PTI) set to non-zero
    values: the same message, other don't-care octets"""
    t = TBL[name]; out = []
    if t["family"] == "GMM" and len(inp) >= 3:
        for v in (0x10, 0xF7):
            out.append(inp[:1] + [v] + inp[2:])
    elif t["family"] == "GSM" and len(inp) >= 4:
        for a, b in ((5, 7), (0xFE, 0x41), (0x0F, 0xC8), (0x80, 0xFF)):
            out.append(inp[:1] + [a, b] + inp[3:])
    return out


def hdr_sweep(name, inp, step=1):
    """every value of each header octet that routing and framing do not interpret, one octet at a time (a header octet
    written or read through a text / signed / narrowed conversion is right for most values and wrong for a range)"""
    t = TBL[name]; out = []
    if t["family"] == "GMM" and len(inp) >= 3:
        out += [inp[:1] + [v] + inp[2:] for v in range(0, 256, step)]
    elif t["family"] == "GSM" and len(inp) >= 4:
        out += [inp[:1] + [v] + inp[2:] for v in range(0, 256, step)]
        out += [inp[:2] + [v] + inp[3:] for v in range(0, 256, step)]
    return out


def hdr_variants_any(inp):
    """the same input with other values in the header octets routing does not look at (by discriminator octet)"""
    out = []
    if len(inp) >= 3 and inp[0] == 0x7E:
        for v in (0x04, 0x10, 0xF7):
            if inp[1] != v: out.append(inp[:1] + [v] + inp[2:])
    elif len(inp) >= 4 and inp[0] == 0x2E:
        for a, b in ((5, 7), (0xFE, 0x41)):
            out.append(inp[:1] + [a, b] + inp[3:])
    return out


def _enc_slot(val, ts):
    return ([val["len"]] if ts["lsz"] == 1 else [val["len"] >> 8, val["len"] & 255] if ts["lsz"] == 2 else []) + val["v"][:(val["len"] if ts["lsz"] else len(val["v"]))]


def plain_minimal(name):
    """octets of the minimal instance of a message (mandatory part only)"""
    t = TBL[name]; mv = minimal_value(name)
    return [x for val, ts in zip(mv["mand"], [q for q in t["slots"] if q["mand"]]) for x in _enc_slot(val, ts)]


def encode_value(name, w):
    """octets of a message value (table-driven; optional elements in table order, half-octet elements as one octet)"""
    t = TBL[name]; out = []
    for val, ts in zip(w["mand"], [q for q in t["slots"] if q["mand"]]):
        out += _enc_slot(val, ts)
    for val, ts in zip(w["opt"], [q for q in t["slots"] if not q["mand"]]):
        if not val["p"]: continue
        out += [val["v"][0]] if ts["half"] else [ts["iei"]] + _enc_slot(val, ts)
    return out


def retyped_inputs(name, thorough=False):
    """the octets of well-formed instances of every OTHER message of the family, sent under the message type of `name`: the
    minimal instance as it is, and with every content octet set to an optional-element identifier of `name` (so that the
    decoder `name` routes to meets its own identifiers inside what another layout calls contents - and an identifier
    followed by an impossible length makes it fail where the sibling layout succeeds); the repository's samples likewise.
    Routing follows the type octet alone: one body, the one the type names, or an error."""
    t = TBL[name]; pos = 2 if t["family"] == "GMM" else 3
    fills = [s_["iei"] for s_ in t["slots"] if not s_["mand"] and not s_["half"]]
    fills = fills if thorough else fills[:4]
    out = []
    for o in TABLES:
        if o["family"] != t["family"] or o["name"] == name: continue
        base = plain_minimal(o["name"])
        out.append(base[:pos] + [t["msgtype"]] + base[pos + 1:])
        nh = len(header(o["name"]))
        mslots = [q for q in o["slots"] if q["mand"]]
        for fv in fills:
            mv = minimal_value(o["name"])
            for k, (val, ts) in enumerate(zip(mv["mand"], mslots)):
                if k >= nh: val["v"] = [fv] * len(val["v"])
            b = encode_value(o["name"], mv)
            out.append(b[:pos] + [t["msgtype"]] + b[pos + 1:])
            # ... and with a longer variable-length mandatory element (room for an identifier, a length and contents)
            grew = False
            for k, (val, ts) in enumerate(zip(mv["mand"], mslots)):
                if k >= nh and ts["lsz"] > 0 and ts["data"] == "buf" and ts["max"] >= val["len"] + 6:
                    val["len"] += 6; val["v"] = [fv] * val["len"]; grew = True
            if grew:
                b = encode_value(o["name"], mv)
                out.append(b[:pos] + [t["msgtype"]] + b[pos + 1:])
    return out


def enveloped_inputs(inner):
    """`inner` (a well-formed plain message) behind a few octets that look like a framing header - a one- or two-octet length
    of what follows (exact and off by one or two), alone or behind a foreign discriminator, once and twice: routing looks at
    the FIRST octet, anything that is not 0x7E / 0x2E there is an error, whatever lies further inside"""
    out = []
    n0 = len(inner)
    for k in (-2, -1, 0, 1, 2):
        n = n0 + k
        if n < 0: continue
        pres = [[n >> 8, n & 255], [n & 255], [0, n >> 8, n & 255]] + [[d, n & 255] for d in (0x01, 0x0F, 0x7F, 0xFF)]
        for pre in pres:
            out.append(pre + inner)
        if k == 0:
            one = [n >> 8, n & 255] + inner
            m = len(one)
            out.append([m >> 8, m & 255] + one); out.append([0x01, m & 255] + one)
    return out


def mand_octet_positions(name):
    """offsets, in the minimal instance, of the one-octet mandatory V elements behind the header (payload container type,
    cause, request type halves ...): values a decoder may branch on"""
    t = TBL[name]; mv = minimal_value(name); nh = len(header(name)); pos = 0; out = []
    for k, (val, ts) in enumerate(zip(mv["mand"], [q for q in t["slots"] if q["mand"]])):
        n = len(_enc_slot(val, ts))
        if k >= nh and ts["lsz"] == 0 and n == 1: out.append(pos)
        pos += n
    return out


def mand_value_inputs(name, base, singles, values):
    """the minimal instance with each one-octet mandatory element set to each of `values`, followed by one optional element
    (each identifier once, contents salted) and by the complete optional set: what is decoded of the optional part does not
    depend on a mandatory value"""
    out = []
    poss = [p for p in mand_octet_positions(name) if p < len(base)]
    if not poss: return out
    one = {}
    for e in sorted(singles, key=len):
        k = e[0] if e[0] < 128 else e[0] // 16
        if k not in one or (len(one[k]) < 4 <= len(e)): one[k] = e
    order = [s_["iei"] for s_ in TBL[name]["slots"] if not s_["mand"]]
    els = [salted(name, one[k], 0x61 + 3 * i) for i, k in enumerate(order) if k in one]
    for p in poss:
        for v in values:
            b = base[:p] + [v] + base[p + 1:]
            for e in els: out.append(b + e)
            if len(els) > 1: out.append(b + [x for e in els for x in e])
    return out


def many_occurrences(msg, base, singles, counts=(17, 33, 70), per_msg=3):
    """one small optional element k times, every copy with contents of its own (the LAST one is the message's value), then:
    nothing / the same element cut short / every other optional element once / an unknown identifier.  A decoder that stops
    looking after some number of elements keeps an earlier copy and accepts what follows unread."""
    out = []
    byiei = {}
    for e in sorted(singles, key=len):
        k = e[0] if e[0] < 128 else e[0] // 16
        byiei.setdefault(k, e)
    small = sorted(byiei.items(), key=lambda kv: (len(kv[1]), kv[0]))
    picks = [kv for kv in small if len(kv[1]) >= 2][:per_msg] or small[:1]
    others = lambda k: [x for kk, e in small if kk != k for x in salted(msg, e, 0x27 + kk)]
    u = unknown_octet(msg)
    for k, e in picks:
        for n in counts:
            run = [x for i in range(n) for x in salted(msg, e, (0x11 + 7 * i) % 251)]
            out.append(base + run)
            if len(e) > 2: out.append(base + run + e[:len(e) - 1])
            out.append(base + run + others(k))
            out.append(base + run + [u])
    return out


def container_slots(name):
    """names of the elements of a message that carry another message or an arbitrary octet string of up to 64 KiB"""
    return [s["name"] for s in TBL[name]["slots"] if s["lsz"] == 2 and s["data"] == "buf" and s["max"] >= 65535
            and any(k in s["name"] for k in ("Container", "EAP"))]


def with_container(name, sname, inner, fixed=0):
    """minimal instance of `name` whose element `sname` (mandatory or optional) carries `inner`; every one-octet mandatory V
    element after the header is set to `fixed` (payload container type and the like)"""
    t = TBL[name]; mv = minimal_value(name); nh = len(header(name)); out = []
    mslots = [q for q in t["slots"] if q["mand"]]
    for k, (val, ts) in enumerate(zip(mv["mand"], mslots)):
        if ts["name"] == sname:
            out += [len(inner) >> 8, len(inner) & 255] + inner
        elif k >= nh and ts["lsz"] == 0 and ts["max"] == 1:
            out += [fixed]
        else:
            out += _enc_slot(val, ts)
    s = next(q for q in t["slots"] if q["name"] == sname)
    if not s["mand"]:
        out += [s["iei"], len(inner) >> 8, len(inner) & 255] + inner
    return out


def oob_full_inputs(name):
    """for every element of a message whose length field could express more than its maximum: the element with a declared
    length just above the maximum and at the top of the length field's range (where an addition in the field's own width
    wraps around), WITH that many content octets present - only the bounds guard can reject these"""
    t = TBL[name]; mv = minimal_value(name); nh = len(header(name)); out = []
    mslots = [q for q in t["slots"] if q["mand"]]
    def lens(s):
        top = 256 ** s["lsz"] - 1
        mx = max(s["lens"]) if s.get("lens") else s["max"]
        if mx >= top: return []
        return sorted({mx + 1, mx + 2, top - 2, top - 1, top} - {l for l in (s.get("lens") or [])})
    def enc_len(s, l): return [l] if s["lsz"] == 1 else [l >> 8, l & 255]
    body = lambda skip=None, repl=None: [x for k, (val, ts) in enumerate(zip(mv["mand"], mslots)) for x in (repl if ts["name"] == skip else _enc_slot(val, ts))]
    for s in t["slots"]:
        if s["lsz"] == 0: continue
        for l in lens(s):
            el = enc_len(s, l) + [(i * 13 + 5) % 256 for i in range(l)]
            if s["mand"]:
                out.append(body(skip=s["name"], repl=el))
            elif not s["half"]:
                out.append(body() + [s["iei"]] + el)
    return out


def exact_64k_inputs(name, base, singles):
    """the optional part of a message made exactly 65 536 octets long (and 65 536 octets left after a first small element):
    a count of octets left that is kept in 16 bits reads 0 there.  One input per element whose length field can express it."""
    t = TBL[name]; out = []
    small = min(singles, key=len) if singles else None
    for s_ in t["slots"]:
        if s_["mand"] or s_["half"] or s_["lsz"] != 2 or s_["max"] < 65533: continue
        big = [s_["iei"], 0xFF, 0xFD] + [(i * 29 + 7) % 256 for i in range(65533)]          # 3 + 65533 = 65536 octets
        out.append(base + big)
        if small is not None and small[0] != s_["iei"]: out.append(base + small + big)
        break
    return out


def full_plus_inputs(base, singles, unknown):
    """the complete set of optional elements of a message (one per identifier, table order as generated) followed by one MORE
    element: each element again with other contents (last duplicate wins), each element cut short, an unknown identifier"""
    byiei = {}
    for e in singles: byiei.setdefault(e[0] if e[0] < 128 else e[0] // 16, []).append(e)
    firsts = [min(es, key=len) for _, es in sorted(byiei.items())]
    full = base + [x for e in firsts for x in e]
    out = [full, full + [unknown]]
    for _, es in sorted(byiei.items()):
        a, b = min(es, key=len), max(es, key=len)
        alt = [a[0]] + [(x ^ 0x5A) if i >= len(a) - 1 and len(a) > 2 else x for i, x in enumerate(a[1:], 1)] if a == b else b
        out.append(full + alt)
        if len(a) > 1:
            out.append(full + a[:1]); out.append(full + a[:-1])
    return out


def confirm_by_tlc(c, drv, case, trace_module, cls, context=()):
    """re-run one case in a fresh driver process - alone, and if that does not reproduce, after the cases that
    preceded it (the driver interleaves a call on the previous case's message, so a mismatch may need that
    history) - and let TLC judge the new observation: confirmed when the same class is reported for the case again"""
    for hist in ([case], list(context) + [case]):
        if len(hist) == 1 and hist[0].get("k") == "rand": return True
        ev, hang = run_codec(c, drv, hist, name="confirm")
        if hang is not None: return True
        if len(ev) != len(hist): continue
        n0 = c.cov["traces_validated_against_impl"]
        mism = c.validate(trace_module, ev, shards=1)
        c.cov["traces_validated_against_impl"] = n0
        if any(t[0] == "MISMATCH" and t[2] == cls and i == len(hist) - 1 for i, t in mism): return True
        if not context: break
    return False


def length_positions(name, inp):
    """positions (0-based) and widths of the length fields the table-driven parse of inp visits: [(pos, lsz, slotname)]"""
    t = TBL[name]; out = []; pos = 0
    for sl in (x for x in t["slots"] if x["mand"]):
        if sl["lsz"] == 0:
            pos += sl["max"]
        else:
            if pos + sl["lsz"] > len(inp): return out
            l = inp[pos] if sl["lsz"] == 1 else inp[pos] * 256 + inp[pos + 1]
            out.append((pos, sl["lsz"], sl["name"])); pos += sl["lsz"] + l
        if pos > len(inp): return out
    opt = {}
    for sl in t["slots"]:
        if not sl["mand"]: opt.setdefault(sl["iei"], sl)
    while pos < len(inp):
        b = inp[pos]; tag = b // 16 if b >= 128 else b
        sl = opt.get(tag)
        if sl is None or sl["half"]: pos += 1; continue
        pos += 1
        if sl["lsz"] == 0: pos += sl["max"]; continue
        if pos + sl["lsz"] > len(inp): return out
        l = inp[pos] if sl["lsz"] == 1 else inp[pos] * 256 + inp[pos + 1]
        out.append((pos, sl["lsz"], sl["name"])); pos += sl["lsz"] + l
    return out


def unknown_octet(name):
    known = {s["iei"] for s in TBL[name]["slots"] if not s["mand"]}
    for b in (0x02, 0x03, 0x04, 0x05, 0x06, 0x07):
        if b not in known: return b
    return next(b for b in range(16, 128) if b not in known)


def binding_selftest(c, trace_module, events, pick, corrupt, what, stateful=False):
    """Demonstrate the binding on this very run: take a recorded event that validated cleanly, corrupt one logged
    field, and require that TLC accepts the original and rejects exactly the corrupted copy.  Runs after the verdict
    phase and only when the run has no violation; a failure is an infrastructure error, never a verdict."""
    if c.violations:
        c.cov["binding_selftest"] = "skipped: the run already reports violations"; return
    src = next((e for e in events if pick(e)), None)
    if src is None:
        c.cov["binding_selftest"] = "skipped: no suitable recorded event"; return
    bad = corrupt(json.loads(src))
    n0 = c.cov["traces_validated_against_impl"]
    mism = c.validate(trace_module, [src, json.dumps(bad)], shards=1, stateful=stateful)
    c.cov["traces_validated_against_impl"] = n0
    got = sorted({i for i, t in mism if t[0] == "MISMATCH"})
    if got != [1]:
        raise Infra("binding self-test failed for %s: corrupted copy of a recorded event (%s) gave mismatches at %r, expected exactly [1]" % (trace_module, what, got))
    c.cov["binding_selftest"] = "a recorded event was accepted by TLC and its copy with %s was rejected" % what


def singles_by_message(gen):
    """per message: (shortest all-mandatory accepted input, list of single optional elements as octet lists) from depth-1 paths"""
    out = {}
    bym = {}
    for g in gen:
        if g["g"] and not g["unk"] and TBL[g["m"]]["family"] != "ENV": bym.setdefault(g["m"], []).append(g)
    for m, gs in bym.items():
        base = min((g for g in gs if g["n"] == 0), key=lambda g: len(g["inp"]), default=None)
        if base is None: continue
        nb = len(base["inp"])
        singles = [g["inp"][nb:] for g in gs if g["n"] == 1 and g["inp"][:nb] == base["inp"]]
        if singles: out[m] = (base["inp"], singles)
    return out


def dup_variants(base, singles):
    """the same element twice with DIFFERENT lengths (long then short, short then long, mid then short)"""
    out = []; byiei = {}
    for e in singles: byiei.setdefault(e[0], []).append(e)
    for iei, es in byiei.items():
        es = sorted(es, key=len)
        if len(es) >= 2 and len(es[0]) != len(es[-1]):
            out.append(base + es[-1] + es[0]); out.append(base + es[0] + es[-1])
            if len(es) >= 3: out.append(base + es[len(es) // 2] + es[0])
    return out


def salted(msg, e, salt):
    """the optional element e (octet list: identifier, length field, contents) with contents of its own: octet i of the
    contents := (salt + i * step) mod 256, identifier and length untouched.  TLC fills contents by position in the input,
    so two single elements of one message carry the same leading octets; an element that reads or overwrites a sibling's
    storage only shows when the siblings differ."""
    sl = next((s_ for s_ in TBL[msg]["slots"] if not s_["mand"] and (e[0] if e[0] < 128 else e[0] // 16) == s_["iei"]), None)
    if sl is None or sl["half"]: return list(e)
    off = 1 + sl["lsz"]
    return list(e[:off]) + [(salt + i * (1 + salt % 5)) % 256 for i in range(len(e) - off)]


def canonical_pairs(msg, base, singles, rng=None, per_pair=1):
    """every pair of different optional elements of the message in DEFINITION order (a canonical input), each with contents
    of its own; plus the complete optional set in definition order, salted.  `singles`: single optional elements as octet
    lists (from depth-1 paths); per element the shortest with at least two content octets is preferred."""
    order = [s_ for s_ in TBL[msg]["slots"] if not s_["mand"]]
    byslot = {}
    for e in singles:
        for k, s_ in enumerate(order):
            if (e[0] if e[0] < 128 else e[0] // 16) == s_["iei"]:
                byslot.setdefault(k, []).append(e); break
    out = []
    def choose(k, r):
        es = sorted(byslot[k], key=len)
        good = [e for e in es if len(e) - 1 - order[k]["lsz"] >= 2] or es
        return good[min(r, len(good) - 1)] if rng is None else (good[0] if r == 0 else rng.choice(good))
    ks = sorted(byslot)
    for r in range(per_pair):
        for a in range(len(ks)):
            for b in range(a + 1, len(ks)):
                i, j = ks[a], ks[b]
                out.append(base + salted(msg, choose(i, r), 0x81 + 3 * i + r) + salted(msg, choose(j, r), 0x42 + 5 * j + 2 * r))
        if len(ks) >= 3:
            out.append(base + [x for k in ks for x in salted(msg, choose(k, r), 0x31 + 7 * k + r)])
    return out


def wrapped(inp, sht):
    """a plain message inside a security-protected envelope (what a core network actually receives):
    EPD, security header type, MAC(4), SQN, then the plain message"""
    return [0x7E, sht, 0xA1, 0xB2, 0xC3, 0xD4, 0x2A] + inp
