#!/usr/bin/env python3
"""C12 - subscriber and network identities convert faithfully between wire and text.
Stage A: TLC checks Identity.tla: for every identity kind the four operators ToWire/FromWire/ToText/FromText
         (each written on its own from TS 24.008 / 23.003 / 24.501) are mutually inverse on enumerated domains
         (all 1000 MCC x all 2-/3-digit MNC, regions x all 1024 x 64 set/pointer pairs, boundary GUTI / S-TMSI /
         SUCI / PEI cross products), invalid texts are rejected, published examples pin the layouts.
Stage B: TLC generates the conformance cases from the same case structure (MC_C12_gen); the driver replays every
         function named under observe_at on each case, enumerates all 65 536 set x pointer pairs and all 65 536 text
         tails, and records seeded random identities; thorough: digests of the function tables over all 2^24 AMF ids.
Stage C: TLC (Trace_C12) evaluates the specification on every logged input and compares with the logged output.
Added after seeded rounds 3-5: the octets handed to a rendering function are compared after the call and the same element is rendered twice; one long-lived element per contents length is refilled in place before rendering; history-dependent confirmation."""
import json, os, sys
sys.path.insert(0, os.path.dirname(os.path.dirname(os.path.abspath(__file__))))
from vlib import *

META = dict(
    property_id="C12", engine="tlc-identity",
    technique="TLA+ specification of the identity layouts and texts (Identity.tla) model-checked for mutual inverseness on enumerated domains; TLC-generated boundary cases, exhaustive set x pointer enumeration, seeded random identities and (thorough) digests over all 2^24 AMF identifiers replayed on the real converters; every recorded call validated by TLC against the specification operators",
    level=("model_checking", "The conversions are pure functions: TLC proves the specification's two directions mutually inverse on the enumerated domains (1.1 M PLMNs, regions x 65 536 set/pointer pairs, boundary cross products of GUTI, S-TMSI, SUCI, IMEI/IMEISV), and every real call (TLC-generated cases for each function of observe_at, all 65 536 set x pointer pairs, seeded random identities, invalid texts) is judged by TLC against those operators; thorough adds digest conformance over all 2^24 AMF identifiers.", "7/C12"),
    level_note="Trusted: TLC, the Go runtime, the reading of TS 24.008 10.5.1.13 / TS 23.003 / TS 24.501 9.11.3.4 summarised in DESIGN.md Appendix A. Domain: valid identities (spare bits zero, digits decimal); octets that are no valid identity give no verdict (counted). TMSI, MSIN and scheme outputs are sampled (boundaries + seeded random), not enumerated.",
)

INPUT_KEYS = ("ts", "b", "n")
W = int(os.environ.get("VERIF_WORKERS", "0")) or None
SH = int(os.environ.get("VERIF_SHARDS", "0")) or 12


def text(cps):
    return "".join(chr(x) for x in cps)


def describe(e):
    parts = []
    if e.get("ts"): parts.append("text=" + repr([text(t) for t in e["ts"]]))
    if e.get("b"): parts.append("octets=" + bytes(e["b"]).hex())
    if e.get("n"): parts.append("n=%s" % e["n"])
    out = []
    if e.get("panic"): out.append("PANIC in " + e.get("pfn", ""))
    if e.get("err"): out.append("error")
    if e.get("ots"): out.append("text=" + repr([text(t) for t in e["ots"]]))
    if e.get("ob"): out.append("octets=" + bytes(e["ob"]).hex())
    if e.get("on"): out.append("n=%s" % e["on"])
    if (e.get("hts"), e.get("hb"), e.get("hn")) != (e.get("ots"), e.get("ob"), e.get("on")) and "hts" in e:
        out.append("BUT READ AGAIN after %s later calls: text=%r octets=%s n=%s" % (e.get("hc"), [text(t) for t in e["hts"]], bytes(e["hb"]).hex(), e["hn"]))
    return "%s(%s) -> %s" % (e["op"], ", ".join(parts), ", ".join(out) or "nothing")


def run(c):
    thorough = c.tier == "thorough"
    sd = c.spec_dir("specA")

    def patch(name, pairs):
        p = os.path.join(sd, name); s = open(p).read()
        for a, b in pairs:
            if a not in s: raise Infra("cannot patch %s: %r not found" % (name, a))
            s = s.replace(a, b)
        open(p, "w").write(s)
    if thorough:
        patch("MC_C12.cfg", [("RegQuick", "RegFull"), ("RiQuick", "RiFull"), ("Deep = FALSE", "Deep = TRUE")])
        patch("MC_C12_gen.cfg", [("Big = FALSE", "Big = TRUE")])
    # ---- stage A
    resA = c.stage_a(sd, "MC_C12", "MC_C12", workers=W, timeout=2400)
    nreg = 6 if thorough else 3
    c.cov["stage_a_values"] = dict(plmn=1000 * 1100, amf=nreg * 65536, note="plmn and amf leaves quantify over 1100 MNCs / 64 pointers inside one state")
    # ---- stage B: generated cases
    resG = c.tlc(sd, "MC_C12_gen", "MC_C12_gen", workers=min(W or 4, 4), timeout=900)
    if not resG.clean:
        raise Infra("case generator failed:\n" + resG.out[-2000:])
    c.cov["states"] += resG.distinct; c.cov["transitions"] += resG.generated
    cases = [json.loads(json.loads(ln)) for ln in resG.printed if ln.startswith('"{')]
    fams = {}
    for k in cases: fams[k["fam"]] = fams.get(k["fam"], 0) + 1
    if len(cases) < 15000 or len(fams) < 8:
        raise Infra("case generator produced too few cases: %r" % fams)
    c.cov["generated_cases"] = fams
    drv = c.build_driver("identity")
    cp = os.path.join(c.scratch, "cases.json"); json.dump(cases, open(cp, "w"))
    out1 = os.path.join(c.scratch, "replay.ndjson"); out2 = os.path.join(c.scratch, "record.ndjson")
    c.run_driver(drv, ["replay", cp, out1])
    c.run_driver(drv, ["record", out2])
    ev1 = read_ndjson(out1)
    events = ev1 + read_ndjson(out2) + c.second_pass(drv, ["replay", cp, os.path.join(c.scratch, "replayT.ndjson")], os.path.join(c.scratch, "replayT.ndjson"), ev1)
    n_explicit = len(events)
    if thorough:
        out3 = os.path.join(c.scratch, "digest.ndjson")
        c.run_driver(drv, ["digest", out3], timeout=1200)
        dig = read_ndjson(out3)
        if len(dig) != 5 * 256: raise Infra("digest file incomplete")
    else:
        dig = []
    # ---- stage C
    mism = c.validate("Trace_C12", events, shards=SH)
    if dig:
        # digest events are heavy (65 536 evaluations of the specification each): spread them evenly
        order = sorted(range(len(dig)), key=lambda i: (i % SH, i))
        dig = [dig[i] for i in order]
        mism += [(n_explicit + i, t) for i, t in c.validate("Trace_C12", dig, shards=SH, timeout=3000)]
    events += dig
    stats = dict(judged=0, skipped=0)
    notes = set()

    def ev_of(idx): return json.loads(events[idx])

    def validate_small(lines):
        r = c.validate("Trace_C12", lines, shards=1 if len(lines) < 5000 else SH)
        c.cov["traces_validated_against_impl"] -= len(lines)
        return [(i, t) for i, t in r if t[2] not in ("STATS", "NOTE")]

    def classify(idx, t):
        op, cls = t[2], t[3]
        if op == "STATS":
            stats["judged"] += int(t[3]); stats["skipped"] += int(t[4]); return None
        if op == "NOTE":
            if cls in notes: return None
            notes.add(cls)
            c.note("%s (information only, e.g. %s)" % (cls, describe(ev_of(idx)))); return None
        e = ev_of(idx)
        rop = "AmfIdToModels" if cls == "low-set-bits-unshifted" else op
        obj = dict(event=e, how="harness/cmd/identity redo <event.json> <out.ndjson>, then validate out.ndjson with spec/trace/Trace_C12.tla")
        what = describe(e) + " is not what Identity.tla defines (%s)" % cls
        if cls == "result-changed-after-return":
            obj["then_call"] = partner(idx)
            obj["how"] = "harness/cmd/identity redo <file holding the JSON array [event] + then_call> <out.ndjson>; validate out.ndjson with spec/trace/Trace_C12.tla (first line)"
        if op == "Digest" and cls == "digest-differs":
            # name the failing inputs: log every element of the chunk as ordinary events
            table, chunk = e["n"]
            outx = os.path.join(c.scratch, "expand.ndjson")
            c.run_driver(drv, ["expand", table, chunk, outx])
            ex = read_ndjson(outx)
            mm = validate_small(ex)
            if mm:
                e2 = json.loads(ex[mm[0][0]])
                obj["first_failing_element"] = e2
                what = "digest of table %d chunk %d differs; first failing element: %s (%s), %d elements of the chunk differ" % (table, chunk, describe(e2), mm[0][1][3], len(mm))
                rop = e2["op"]
            else:
                what = "digest of table %d chunk %d differs from the specification's" % (table, chunk)
        return (rop, cls, what, obj)

    def partner(idx):
        """a later (else earlier) event of the same function with different arguments: run after the repeated call while its result is held"""
        e = ev_of(idx)
        def inp(x): return {k: v for k, v in x.items() if k in INPUT_KEYS}
        for j in list(range(idx + 1, min(idx + 400, len(events)))) + list(range(idx - 1, max(idx - 400, -1), -1)):
            if ('"op":"%s"' % e["op"]) in events[j][:60]:
                o = json.loads(events[j])
                if inp(o) != inp(e) and not o.get("hang"): return [o]
        return []

    def confirm(idx, t):
        e = ev_of(idx)
        pe = os.path.join(c.scratch, "one.json"); json.dump([e] + (partner(idx) if e["op"] != "Digest" else []), open(pe, "w"))
        po = os.path.join(c.scratch, "one.ndjson")
        c.run_driver(drv, ["redo", pe, po])
        again = validate_small(read_ndjson(po))
        if any(i == 0 and tt[3] == t[3] for i, tt in again): return True
        if e["op"] == "Digest": return False
        # the result may depend on what was rendered BEFORE it (a long-lived element refilled in place, library state): the
        # preceding events of the same operation first, then the event, in one fresh process
        prev, same = [], 0
        for j in range(idx - 1, max(idx - 3000, -1), -1):
            if ('"op":"%s"' % e["op"]) in events[j][:60]:
                o = json.loads(events[j])
                if len(prev) < 4:
                    prev.insert(0, o)
                elif len(o.get("b", [])) == len(e.get("b", [])) and o.get("b") != e.get("b") and same < 3:
                    prev.insert(0, o); same += 1       # an earlier input of the same length (the same long-lived element)
                if len(prev) >= 4 and same >= 3: break
        json.dump(prev + [e], open(pe, "w"))
        c.run_driver(drv, ["redoafter", pe, po])
        again = validate_small(read_ndjson(po))
        return any(tt[3] == t[3] for i, tt in again)
    seen = c.triage(mism, classify, confirm, per_class=2, total=16)
    # ---- binding self-test: corrupt one logged code point of an accepted event, TLC must reject exactly that event
    bad = {i for i, _ in mism}
    acc = [i for i, x in enumerate(events[:n_explicit]) if '"op":"GutiToStringWithError"' in x[:50] and i not in bad and '"err":false' in x]
    if acc:
        i = acc[len(acc) // 2]; e = ev_of(i); e["ots"][0][7] ^= 1
        r = validate_small([events[i - 1], json.dumps(e), events[i + 1]])
        hit = [tt for k, tt in r if tt[2] == "GutiToStringWithError"]
        if not hit:
            raise Infra("binding self-test failed: a corrupted character in a recorded GutiToStringWithError event was accepted by Trace_C12")
        c.cov["binding_selftest"] = "flipped one bit of the 8th character of the GUTI text of recorded event %d (GutiToStringWithError): TLC reports %s" % (i, hit[0][3])
    # ---- evidence
    for ln in events[:n_explicit]:
        c.count_distinct(ln[:ln.index('"ots"')])
    c.cov["evaluations"] = n_explicit + (5 * (1 << 24) if thorough else 0)
    c.cov["judged_events"] = stats["judged"]
    c.cov["skipped_out_of_domain"] = stats["skipped"]
    if stats["judged"] < 0.9 * (len(events) - sum(v for k, v in seen.items())) - 1:
        raise Infra("too many events outside the domain of the property: judged ok %d, skipped %d of %d" % (stats["judged"], stats["skipped"], len(events)))
    c.cov["distinct_nontrivial"] = max(0, len(c._distinct) - stats["skipped"])
    c._distinct = set()
    c.cov["rule"] = ("cases = real calls of the converters; distinct non-trivial = distinct (operation, input) pairs minus the %d events whose input TLC found outside the "
                     "property's domain (no verdict); digests (thorough) add 5 function tables x 2^24 AMF identifiers counted under evaluations only" % stats["skipped"])
    c.cov["exhaustive"] = False
    c.cov["digest_chunks"] = len(dig)
    for i in (0, n_explicit // 3, n_explicit // 2, n_explicit - 1):
        c.sample(events[i])
    c.sample(cases[len(cases) // 2])
    c.assumptions += ["valid identities only: spare bits zero, decimal digits where the layout says digit; other octet strings give no verdict",
                      "text of a 5G-GUTI is MCC MNC || 6 hex || 8 hex, of an AMF id 6 hex digits, of a SUCI / PEI as in TS 23.003 / TS 29.571 (DESIGN.md Appendix A)",
                      "set x pointer is enumerated completely; region, TMSI, MSIN and scheme output by boundaries and seeded random values" + ("; all 2^24 AMF identifiers by digest" if thorough else "")]


if __name__ == "__main__":
    main("C12", run)
