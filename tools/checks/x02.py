#!/usr/bin/env python3
"""X02 - growth beyond the listed properties: the remaining hand-written converters (functions of the library no
other check executes), specified in TLA+ from the standards (spec/MiscConvert.tla, spec/PcoBuilder.tla):
PCO list builders (TS 24.008 Table 10.5.154), PDU session type (24.501 9.11.4.11), ngKSI (9.11.3.32), DNN
(TS 23.003 9.1), UE parameters update transparent container (9.11.3.53A), 5G-S-TMSI text, 5GMM cause names,
header octets, GetPlmnDigit of UE policy sublist / subresult.
Not registered in MANIFEST.json; run as   python3 tools/checks/x02.py [--tier quick|thorough]
(VERIF_SEED, VERIF_REPO as for the registered checks).  See docs/X02-misc-converters.md.

Stage A: TLC checks the specification's own laws: the finite tables for every octet / octet pair / (AMF set id, AMF
         pointer) (MC_X02), the PLMN inverse (MC_X02_plmn), the builder machine exhaustively to depth 3/4 with its
         invariants incl. "every built list is read back exactly by the grammar of C16" (MC_X02_pco), the DNN coding
         over label lists at the boundaries 0/1/62/63/64 and all short texts / buffers (MC_X02_dnn*), the UPU
         container round trip through a declarative reader (MC_X02_upu).
Stage B: TLC prints cases: every builder history of depth <= 2/3 and simulated walks of depth 9, DNN names, texts
         and buffers, UPU containers; harness/cmd/misc replays them on the real API and records the finite tables in
         full plus seeded random inputs.
Stage C: every event is judged by TLC (spec/trace/Trace_X02.tla)."""
import json, os, sys
from concurrent.futures import ThreadPoolExecutor
sys.path.insert(0, os.path.dirname(os.path.dirname(os.path.abspath(__file__))))
from vlib import *

META = dict(
    property_id="X02", engine="tlc-misc",
    technique="TLC-checked pure specification of the remaining converters (laws on finite/small domains, the PCO list under construction as a state machine whose every reachable list is read back by the C16 grammar); TLC-generated builder histories, names, buffers and containers replayed into the real API, the finite tables recorded in full; all observations trace-validated by TLC",
    level=("model_checking", "The tables (PDU session type, ngKSI, header octets, 5G-S-TMSI, PLMN digits) are finite: TLC checks their laws for every value and the trace specification compares the real functions on every value.  The builder machine is explored exhaustively to depth 3 (quick) / 4 (thorough) over 9 address arguments and 7 MTUs; DNN and UPU laws over boundary-shaped small domains.  The real code is bound by replaying TLC-chosen inputs and judging every observation with a total trace specification.", "13 item 6"),
    level_note="Trusted: TLC, the Go runtime.  On the real code: tables complete; builder histories, names, buffers, containers bounded (TLC-generated + seeded random).  The width of the UPU data-set length field (two octets) is written from memory of TS 24.501 figure 9.11.3.53A.4 and could not be re-read offline.",
)

A_INV = dict(
    MC_X02="PduLaws KsiLaws TmsiLaws HexLaws HdrLaws",
    MC_X02_plmn="PlmnLaws",
    MC_X02_pco="PbRows PbHistory PbErrors PbContents PbGrammar PbLength PbFrame",
    MC_X02_dnn="DnnRoundTrip DnnText DnnWellFormedShape DnnClassTotal",
    MC_X02_dnn_text="TextLaws", MC_X02_dnn_buf="BufLaws",
    MC_X02_upu="UpuRoundTrip UpuLength UpuFixed UpuNssai UpuReadingsDiffer",
)


def set_cfg(sd, name, new_name, repl):
    txt = open(os.path.join(sd, name + ".cfg")).read()
    for a, b in repl:
        if a not in txt:
            raise Infra("cfg %s: %r not found" % (name, a))
        txt = txt.replace(a, b)
    with open(os.path.join(sd, new_name + ".cfg"), "w") as f:
        f.write(txt)
    return new_name


def expect_violation(c, sd, module, cfg, prop, what):
    """negative control: the configuration must violate exactly `prop`"""
    res = c.tlc(sd, module, cfg, workers=1, timeout=600)
    if res.rc == 124:
        raise Infra("negative control timed out: " + cfg)
    if res.violated != prop:
        raise Infra("negative control %s: expected %s to be violated, TLC says %r\n%s" % (cfg, prop, res.violated, res.out[-1500:]))
    c.cov["states"] += res.distinct; c.cov["transitions"] += res.generated
    c.cov["stage_a"].append(dict(config=cfg, generated=res.generated, distinct=res.distinct, wall_s=round(res.wall, 1),
                                 expected_violation=prop, shows=what))


def case_of_event(e):
    op = e["op"]
    if op == "PcoBuild": return dict(kind="pco", ops=e["ops"])
    if op in ("PduToModels", "PduToNas", "KsiToModels", "KsiToNas"): return dict(kind="tables")
    if op == "CauseText": return dict(kind="causes")
    if op == "DnnSet": return dict(kind="dnn", name=e["name"], preset=e["preset"])
    if op == "DnnGet": return dict(kind="dnnbuf", buf=e["buf"])
    if op == "UpuToNas":
        return dict(kind="upu", text=True, reg=e["reg"], ack=e["ack"], mac=e["mac"], ctr=e["ctr"], sets=e["sets"])
    if op == "Tmsi":
        return dict(kind="tmsi", how=e["how"], set=e["set"], ptr=e["ptr"], order=e["order"], buf=e["octs"] if e["how"] == "raw" else e["tmsi"])
    if op == "SecHdr": return dict(kind="sechdr", rows=e["in"])
    if op == "HdrSet": return dict(kind="hdrset", which=e["which"], f=e["f"], buf=e["pre"])
    if op == "PlmnRow": return dict(kind="plmnrow", which=e["which"], mcc=e["mcc"], mncs=e["mncs"])
    if op == "PlmnParse": return dict(kind="plmnparse", which=e["which"], how=e["how"], rows=e["octs"])
    if op == "PlmnFresh": return dict(kind="fresh", which=e["which"])
    return None


def calls_of(e):
    op = e["op"]
    if op == "PcoBuild": return len(e["ops"]) + 2
    if op in ("PduToModels", "KsiToModels"): return len(e["in"])
    if op == "PduToNas": return len(e["in"])
    if op == "KsiToNas": return len(e["out"])
    if op == "DnnSet": return 3
    if op == "Tmsi": return 4 if e["how"] == "set" else 1
    if op == "CauseText": return len(e["out"])
    if op == "SecHdr": return 2 * len(e["in"])
    if op == "HdrSet": return 2 * len(e["vs"])
    if op == "PlmnRow": return 2 * len(e["mncs"])
    if op == "PlmnParse": return 2 * len(e["octs"])
    return 1


def txt(runes):
    return "".join(chr(x) if 32 <= x < 127 else "\\x%02x" % x for x in runes)


def describe(e):
    op = e["op"]
    if op == "PcoBuild": return "calls %s" % json.dumps([(o["k"], o["ip"] or o["mtu"]) for o in e["ops"]])[:260]
    if op == "DnnSet": return "SetDNN(\"%s\") -> buffer %s, GetDNN \"%s\"" % (txt(e["name"])[:120], e["buf"][:24], txt(e["get"])[:80])
    if op == "DnnGet": return "GetDNN on buffer %s -> \"%s\"" % (e["buf"][:40], txt(e["get"])[:80])
    if op == "UpuToNas": return "UpuInfoToNas(reg=%s ack=%s mac=%s counter=%s, %d data set(s)) -> %d octets starting %s" % (
        e["reg"], e["ack"], txt(e["mac"]), txt(e["ctr"]), len(e["sets"]), len(e["out"]), e["out"][:1] + ["..."] + e["out"][19:27])
    if op == "Tmsi": return "octets %s -> \"%s\"" % (e["octs"], txt(e["text"]))
    if op == "PlmnRow": return "%s.SetPlmnDigit(%d, mnc) then GetPlmnDigit" % (e["which"], e["mcc"])
    if op == "PlmnParse": return "%s (%s) GetPlmnDigit" % (e["which"], e["how"])
    if op == "PlmnFresh": return "new %s object, GetPlmnDigit" % e["which"]
    return ""


def run(c):
    thorough = c.tier == "thorough"
    sd = c.spec_dir("specA")
    # ---- stage A: the specification's own laws (independent configurations side by side)
    jobs = [("MC_X02", "MC_X02", 2), ("MC_X02_dnn", "MC_X02_dnn", 2), ("MC_X02_dnn", "MC_X02_dnn_text", 1), ("MC_X02_dnn", "MC_X02_dnn_buf", 1)]
    if thorough:
        jobs.append(("MC_X02", "MC_X02_plmn_all", 4))
        jobs.append(("MC_X02_pco", set_cfg(sd, "MC_X02_pco", "MC_X02_pco_4", [("PbMaxOps = 3", "PbMaxOps = 4")]), 6))
        jobs.append(("MC_X02_upu", "MC_X02_upu", 3))
    else:
        jobs.append(("MC_X02", "MC_X02_plmn", 1))
        jobs.append(("MC_X02_pco", "MC_X02_pco", 3))
        jobs.append(("MC_X02_upu", set_cfg(sd, "MC_X02_upu", "MC_X02_upu_q", [("MaxSets = 3", "MaxSets = 2")]), 2))
    cases = []
    with ThreadPoolExecutor(max_workers=3) as ex:
        futs = [ex.submit(c.stage_a, sd, mod, cfg, workers=w, timeout=1500) for mod, cfg, w in jobs]
        futs.append(ex.submit(expect_violation, c, sd, "MC_X02_pco", "MC_X02_pco_neg", "PbNoRefusal", "refusing calls are reachable in the builder machine (PbErrors / PbFrame are not vacuous)"))
        futs.append(ex.submit(expect_violation, c, sd, "MC_X02_upu", "MC_X02_upu_neg", "UpuOneOctetReadable", "the declarative reader (two-octet lengths) does not read a container written with one-octet lengths"))
        for f in futs:
            f.result()
    for rec in c.cov["stage_a"]:
        if "expected_violation" in rec: continue
        rec["laws"] = A_INV.get(rec["config"], A_INV.get(rec["config"].rsplit("_", 1)[0], ""))
    # ---- stage B: cases printed by TLC
    gens = [("MC_X02_pco", "MC_X02_pco_gen" if not thorough else set_cfg(sd, "MC_X02_pco_gen", "MC_X02_pco_gen3", [("PbMaxOps = 2", "PbMaxOps = 3")])),
            ("MC_X02_dnn", "MC_X02_dnn_gen"), ("MC_X02_dnn", "MC_X02_dnn_gentext"), ("MC_X02_dnn", "MC_X02_dnn_genbuf"),
            ("MC_X02_upu", "MC_X02_upu_gen" if thorough else set_cfg(sd, "MC_X02_upu_gen", "MC_X02_upu_genq", [("SecLens = {1, 255, 256, 300}", "SecLens = {1, 255, 256}"), ("MaxSnssai = 2", "MaxSnssai = 1")]))]

    def gen(job):
        mod, cfg = job
        res = c.tlc(sd, mod, cfg, workers=2, timeout=900)
        if not res.clean:
            raise Infra("case generator %s failed:\n%s" % (cfg, res.out[-2000:]))
        got = [json.loads(json.loads(ln)) for ln in res.printed if ln.startswith('"{')]
        if not got:
            raise Infra("generator %s printed nothing" % cfg)
        return got, res
    seen = set()
    with ThreadPoolExecutor(max_workers=3) as ex:
        for got, res in ex.map(gen, gens):
            c.cov["states"] += res.distinct; c.cov["transitions"] += res.generated
            for x in got:
                k = json.dumps(x, sort_keys=True)
                if k not in seen:
                    seen.add(k); cases.append(x)
    nsim = 1200 if thorough else 150
    res = c.tlc(sd, "MC_X02_pco", "MC_X02_pco_sim", workers=1, simulate="file=beh,num=%d" % nsim, depth=10, timeout=900)
    behs = read_sim_behaviours(sd, "beh")
    if len(behs) < nsim // 2:
        raise Infra("simulation produced too few behaviours (%d)\n%s" % (len(behs), res.out[-1500:]))
    c.cov["transitions"] += res.generated
    for b in behs:
        ops = b[-1][1]["pbOps"]
        x = dict(kind="pco", ops=[dict(k=o["k"], ip=o["ip"], mtu=o["mtu"]) for o in ops])
        k = json.dumps(x, sort_keys=True)
        if k not in seen:
            seen.add(k); cases.append(x)
    for i, x in enumerate(cases):
        if x["kind"] == "dnn": x["preset"] = i % 2 == 1
        if x["kind"] == "upu": x["upper"] = i % 3 == 2
    by_kind = {}
    for x in cases: by_kind[x["kind"]] = by_kind.get(x["kind"], 0) + 1
    c.cov["generated_cases"] = by_kind
    c.cov["simulated_builder_walks"] = len(behs)

    # ---- drive the real code
    drv = c.build_driver("misc")
    cp = os.path.join(c.scratch, "cases.json"); json.dump(cases, open(cp, "w"))
    out1 = os.path.join(c.scratch, "replay.ndjson"); out2 = os.path.join(c.scratch, "record.ndjson")
    c.run_driver(drv, ["replay", cp, out1])
    c.run_driver(drv, ["record", out2])
    events = read_ndjson(out1) + read_ndjson(out2)
    per_op, calls = {}, 0
    for ln in events:
        e = json.loads(ln)
        per_op[e["op"]] = per_op.get(e["op"], 0) + 1
        calls += calls_of(e)
        if e["op"] in ("PcoBuild", "DnnSet", "DnnGet", "UpuToNas", "Tmsi"):
            c.count_distinct(hash(json.dumps(case_of_event(e), sort_keys=True)))
    c.cov["events_per_operation"] = per_op
    c.cov["evaluations"] = calls

    # ---- stage C
    mism = c.validate("Trace_X02", events, shards=6)
    def ev_at(idx): return json.loads(events[idx])

    def classify(idx, t):
        e = ev_at(idx)
        op, cls = t[2], t[3]
        what = "%s: observation not allowed by the specification (%s, detail %s); %s" % (op, cls, t[4] if len(t) > 4 else "", describe(e))
        return (op, cls, what, dict(case=case_of_event(e), observed=e if len(events[idx]) < 3000 else "see case",
                                     how="harness/cmd/misc replay [case] out.ndjson; validate out.ndjson with spec/trace/Trace_X02"))

    def confirm(idx, t):
        cs = case_of_event(ev_at(idx))
        if cs is None: return False
        p2 = os.path.join(c.scratch, "confirm.json"); json.dump([cs], open(p2, "w"))
        o3 = os.path.join(c.scratch, "confirm.ndjson")
        c.run_driver(drv, ["replay", p2, o3])
        evs = read_ndjson(o3)
        again = c.validate("Trace_X02", evs, shards=1)
        c.cov["traces_validated_against_impl"] -= len(evs)
        return any(a[1][2] == t[2] and a[1][3] == t[3] for a in again)
    c.triage(mism, classify, confirm, per_class=2, total=24)

    # ---- binding self-test: corrupt one logged field of recorded events; TLC must reject exactly those
    if c.violations:
        c.cov["binding_selftest"] = "skipped: the run already reports violations"
    else:
        badidx = {m[0] for m in mism}
        clean = [json.loads(x) for i, x in enumerate(events) if i not in badidx and '"panic":false' in x]
        def pick(pred):
            for e in clean:
                if pred(e): return json.loads(json.dumps(e))
            raise Infra("self-test: no suitable recorded event")
        tests = []
        e = pick(lambda e: e["op"] == "PcoBuild" and e["lists"] and any(u["contents"] for u in e["lists"][-1]))
        u = next(u for u in e["lists"][-1] if u["contents"]); u["contents"][-1] ^= 1
        tests.append((e, {"unit", "marshal-octets", "round-trip", "result-changed-after-return"}))
        e = pick(lambda e: e["op"] == "PcoBuild" and any(e["errs"]))
        k = e["errs"].index(True); e["errs"][k] = False
        tests.append((e, {"wrong-address-accepted", "unit"}))
        e = pick(lambda e: e["op"] == "DnnSet" and len(e["buf"]) > 3 and e["buf"] != e["prev"] and 0 not in e["buf"])
        e["buf"][0] += 1
        tests.append((e, {"well-formed-name-octets", "ill-formed-name-mangled", "result-changed-after-return"}))
        def exact_std(b):          # only to choose a self-test target: a buffer that is a sequence of complete labels of 1..63 octets
            p = 0
            while p < len(b):
                if not 1 <= b[p] <= 63 or p + b[p] > len(b) - 1: return False
                p += 1 + b[p]
            return True
        e = pick(lambda e: e["op"] == "DnnGet" and len(e["get"]) > 2 and exact_std(e["buf"]))
        e["get"][-1] ^= 2
        tests.append((e, {"text"}))
        e = pick(lambda e: e["op"] == "UpuToNas" and len(e["out"]) == 19)
        e["out"][0] ^= 4
        tests.append((e, {"header", "result-changed-after-return"}))
        e = pick(lambda e: e["op"] == "Tmsi")
        e["text"][3] = 103
        tests.append((e, {"text"}))
        e = pick(lambda e: e["op"] == "KsiToModels")
        e["ksi"][200] = (e["ksi"][200] + 1) % 8
        tests.append((e, {"ngksi-to-models"}))
        e = pick(lambda e: e["op"] == "PlmnRow" and not e["serr"][500])
        e["g"][500][1] += 1
        tests.append((e, {"getter-not-inverse-of-setter", "getter-vs-octets"}))
        e = pick(lambda e: e["op"] == "HdrSet" and e["which"] == "gsm" and e["f"] == "mt")
        e["posts"][9][2], e["posts"][9][3] = e["posts"][9][3], e["posts"][9][2]
        tests.append((e, {"header-field"}))
        good = json.dumps(pick(lambda e: e["op"] == "PduToNas"))
        lines = []
        for e, _ in tests:
            lines += [json.dumps(e), good]
        st = c.validate("Trace_X02", lines, shards=1)
        c.cov["traces_validated_against_impl"] -= len(lines)
        got = {}
        for i, t in st: got.setdefault(i, set()).add(t[3])
        for k, (e, want) in enumerate(tests):
            g = got.get(2 * k, set())
            if not g or not g <= want:
                raise Infra("binding self-test: corrupted %s event judged %r, expected a non-empty subset of %r" % (e["op"], sorted(g), sorted(want)))
            if (2 * k + 1) in got:
                raise Infra("binding self-test: the untouched event was rejected: %r" % got[2 * k + 1])
        c.cov["binding_selftest"] = "%d recorded events with one corrupted field each (list contents octet, error flag, DNN buffer octet, GetDNN text, UPU header octet, 5G-S-TMSI text digit, ngKSI entry, GetPlmnDigit entry, header octets swapped) rejected by TLC, the untouched events between them accepted" % len(tests)

    # ---- information and coverage accounting
    for k in sorted(c._x02_div):
        c.note("information (not a verdict): %s %s%s (%d observation(s) printed)" % (k[0], k[1], (" / " + str(k[2])) if k[2] != "" else "", c._x02_div[k]))
    c.cov["distinct_nontrivial"] = len(c._distinct) + 256 + 256 + 256 + 65536 // 64
    c.cov["rule"] = ("evaluations = real API calls (a builder history is its calls + Marshal + UnMarshal, a table event one call per entry); "
                     "distinct non-trivial = distinct builder histories / names / buffers / containers / TMSI octets (%d) + the table entries" % len(c._distinct))
    c.cov["exhaustive"] = False
    c.cov["exhaustive_part"] = ("on the real code: PDU session type and ngKSI for all 256 octets, Cause5GMMToString for all 256 values, header setters for all 256 values, "
                                "GetSecurityHeaderType for every second octet, AMF set id 0..1023 and pointer 0..63 in Get5GSTMSI; GetPlmnDigit after SetPlmnDigit for %s" %
                                ("every MCC x MNC in -1..1001" if thorough else "21 MCC rows x every MNC"))
    for i in (0, len(events) // 2, len(events) - 1):
        c.sample(events[i], maxlen=400)
    c.sample(cases[len(cases) // 2])
    c.assumptions += ["UPU data-set length field: two octets (from memory of TS 24.501 figure 9.11.3.53A.4, not re-read offline)",
                      "UpuInfo texts as the data model defines them (32 / 4 hexadecimal digits, secured packet as hexadecimal text - the library's convention; TS 29.503 says base64); other texts: no panic only",
                      "DNN names that TS 23.003 does not call well formed may be refused (object unchanged) or carried label by label; nothing else",
                      "GetEPD / GetSecurityHeaderType are judged on arrays that have the octet (a NAS message has at least 2 octets); a panic on a shorter array is reported as information"]


_orig_tlc = Check.tlc
def _tlc(self, workdir, module, cfg=None, **kw):
    res = _orig_tlc(self, workdir, module, cfg, **kw)
    if module == "Trace_X02":
        for ln in res.printed:
            t = parse_tla_tuple(ln)
            if not t: continue
            if t[0] == "HARNESS":
                raise Infra("harness problem reported by the trace specification: %r" % (t,))
            if t[0] == "DIVERGE":
                d = t[4] if len(t) > 4 and isinstance(t[4], str) else ""
                k = (t[2], t[3], d); self._x02_div[k] = self._x02_div.get(k, 0) + 1
    return res
Check.tlc = _tlc
Check._x02_div = {}


if __name__ == "__main__":
    if "--tier" in sys.argv:
        os.environ["VERIF_TIER"] = sys.argv[sys.argv.index("--tier") + 1]
    main("X02", run)
