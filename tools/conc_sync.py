#!/usr/bin/env python3
"""conc_sync.py - regenerate harness/cmd/conc/f*/ from the family drivers.

The concurrent driver of C19 (harness/cmd/conc) calls the SAME per-operation functions as the families' own
drivers (cmd/conv17, identity, arealists, qos, pco, uepol, sec) and must emit EXACTLY their event shapes, because
each goroutine's trace is validated by the family's own trace specification.  The family drivers keep their
writer (and some keep more per-run state: the queue of held results) in package-level variables of package main,
which N goroutines cannot share.  This tool copies the part of each driver that executes a case into a package
harness/cmd/conc/<family>/, mechanically turned into methods of a per-goroutine Runner:

  * the package-level writer `w` and every package-level state variable become fields of Runner,
  * every function that (transitively) touches them becomes a method of *Runner,
  * functions that take the writer as a parameter get the Sink interface instead of *ev.Writer,
  * a few named, checked text replacements per family (watchdog period, child-process path left out),
  * a small hand-written tail per family: Load (case file of the family's replay format), Run (one case, the
    loop body of the family's replay), Finish (flush of held results).

Nothing else is changed: the library calls, the event structs and their JSON keys are the family's.
Run it after a family driver changed:      python3 tools/conc_sync.py        (writes harness/cmd/conc/f*/)
                                           python3 tools/conc_sync.py --check (exit 1 if a copy is out of date)
The C19 check additionally compares, at check time, the events of each family driver's `replay` with the events of
the concurrent driver run sequentially on the same cases (drift guard)."""
import os, re, subprocess, sys

VERIF = os.path.dirname(os.path.dirname(os.path.abspath(__file__)))
CMD = os.path.join(VERIF, "harness", "cmd")
RECV = "rnr"


class SyncError(Exception):
    pass


def func_spans(text):
    """(start, end, name, is_method) of every top-level function of a gofmt'ed source text"""
    spans = []
    for m in re.finditer(r"(?m)^func (\([^)]*\) )?(\w+)\(", text):
        start = m.start()
        eol = text.index("\n", start)
        line = text[start:eol]
        if line.rstrip().endswith("}") and "{" in line:      # one-line function
            end = eol + 1
        else:
            e = re.compile(r"(?m)^}\n").search(text, eol)
            if not e: raise SyncError("cannot find the end of func %s" % m.group(2))
            end = e.end()
        spans.append((start, end, m.group(2), bool(m.group(1))))
    return spans


def state_vars(text):
    """package-level `var ( ... )` blocks and single `var x T = ...` lines: [(name, type, init)], text without them"""
    out = []

    def one(name, rest):
        rest = re.sub(r"\s*//.*$", "", rest).strip()
        typ, init = rest, None
        if "=" in rest:
            typ, init = [x.strip() for x in rest.split("=", 1)]
        if not typ:
            m = re.fullmatch(r"((?:map\[[^\]]+\]|\[\])[\w\[\]\.\*]+)\{\}", init or "")
            if not m: raise SyncError("cannot infer the type of package-level variable %s = %s" % (name, init))
            typ = m.group(1)
        out.append((name, typ, init))

    def block(m):
        for ln in m.group(1).splitlines():
            if not ln.strip() or ln.strip().startswith("//"): continue
            mm = re.match(r"\t(\w+)\s*(.*)$", ln)
            if not mm: raise SyncError("cannot parse variable line %r" % ln)
            one(mm.group(1), mm.group(2))
        return ""
    text = re.sub(r"(?m)^var \(\n(.*?)^\)\n", block, text, flags=re.S)

    def single(m):
        if m.group(1) in KEEP_VARS: return m.group(0)
        one(m.group(1), m.group(2))
        return ""
    text = re.sub(r"(?m)^(?://[^\n]*\n)*var (\w+)\s+([^\n{(]*)\n", single, text)
    return out, text


KEEP_VARS = set()      # set per family: read-only tables that stay package-level variables


def methodize(body, state, extra_roots=()):
    """turn every function that touches the state (directly or through a call) into a method of *Runner"""
    names = [n for n, _, _ in state]
    spans = func_spans(body)
    fbody = {name: body[s:e] for s, e, name, meth in spans if not meth}

    def touches(txt, ids):
        return any(re.search(r"(?<![\w.])%s\b" % re.escape(i), txt) for i in ids)
    meth = {n for n, t in fbody.items() if touches(t, names) or n in extra_roots}
    changed = True
    while changed:
        changed = False
        for n, t in fbody.items():
            if n not in meth and any(re.search(r"(?<![\w.])%s\(" % re.escape(m), t) for m in meth):
                meth.add(n); changed = True
    out, pos = [], 0
    for s, e, name, is_m in spans:
        out.append(body[pos:s]); pos = e
        t = body[s:e]
        for v in names:
            if re.search(r"(?<![\w.])%s\s*(:=|,\s*\w+\s*:=)" % re.escape(v), t) or re.search(r"\bvar %s\b" % re.escape(v), t):
                raise SyncError("func %s declares a local named like the state variable %s" % (name, v))
            if v == "w":
                t = re.sub(r"(?<![\w.])w\.Emit\(", RECV + ".W.Emit(", t)
                if re.search(r"(?<![\w.])w\b(?!\s*:)", t.replace(RECV + ".W.Emit(", "")) and name in meth and "w *ev.Writer" not in t and "w Sink" not in t:
                    raise SyncError("func %s uses the writer other than through w.Emit" % name)
            else:
                t = re.sub(r"(?<![\w.])%s\b(?!\s*:[^=])" % re.escape(v), "%s.%s" % (RECV, v), t)
        for m in sorted(meth, key=len, reverse=True):
            t = re.sub(r"(?<![\w.])%s\(" % re.escape(m), "%s.%s(" % (RECV, m), t)
        if not is_m and name in meth:
            t = t.replace("func %s.%s(" % (RECV, name), "func (%s *Runner) %s(" % (RECV, name), 1)
        out.append(t)
    out.append(body[pos:])
    return "".join(out), meth


def imports_for(src, text, extra=()):
    blk = re.search(r"(?m)^import \(\n(.*?)^\)\n", src, flags=re.S).group(1)
    std, mod = [], []
    lines = [ln.strip() for ln in blk.splitlines() if ln.strip()] + ['"%s"' % x for x in tuple(extra) + ("verifharness/cmd/conc/nopool",)]
    seen = set()
    for ln in lines:
        m = re.fullmatch(r'(?:(\w+|_) )?"([^"]+)"', ln)
        if not m: raise SyncError("cannot parse import %r" % ln)
        alias, path = m.group(1), m.group(2)
        ident = alias or path.split("/")[-1]
        if alias != "_" and not re.search(r"(?<![\w.])%s\." % re.escape(ident), text): continue
        if path in seen: continue
        seen.add(path)
        (mod if "." in path.split("/")[0] or path.startswith("verifharness") else std).append("\t" + ln)
    own = [x for x in mod if "verifharness" in x]; lib = [x for x in mod if "verifharness" not in x]
    groups = [g for g in (sorted(std), own, sorted(lib)) if g]
    return "import (\n" + "\n\n".join("\n".join(g) for g in groups) + "\n)\n"


GUARDED = '''// guarded runs f under the panic guard in the CALLING goroutine.  The family driver runs it in a helper goroutine with a
// watchdog; here the call stays in the long-lived worker goroutine (the race detector attributes accesses to goroutines and
// recycles the slots of short-lived ones, which would hide accesses of successive helpers from one another), and the
// concurrent driver's monitor watches for calls that do not return.
func guarded(f func()) (pi *ev.PanicInfo, hang bool) { return ev.Guard(f), false }
'''


def unsync(body, pkg):
    """the copied driver text must not synchronise goroutines between two library calls (see cmd/conc/nopool)"""
    if "json.Marshal(" in body:
        body = body.replace("json.Marshal(", "nopool.Marshal(")
    sp = [(s_, e_) for s_, e_, n, _ in func_spans(body) if n == "guarded"]
    if sp:
        s_, e_ = sp[0]
        # the comment lines directly above the function go with it
        head = body[:s_]
        while True:
            m = re.search(r"(?:^|\n)(//[^\n]*\n)$", head)
            if not m: break
            head = head[:m.start(1)]
        body = head + GUARDED + body[e_:]
    for bad in ("sync.", "time.After(", "time.NewTimer(", "go func", "fmt.Sprint", "fmt.Fprint"):
        if bad in body:
            raise SyncError("%s: the copied text of the family driver synchronises or formats through pools (%s): adapt tools/conc_sync.py" % (pkg, bad))
    return body


SINK = "// Sink receives the events of one goroutine.\ntype Sink interface{ Emit(v interface{}) }\n"

LOAD = '''
// Load reads a case file (the format cmd/%(drv)s replays).  Cases are only read once the goroutines run.
func Load(path string) []Case {
	b, err := os.ReadFile(path)
	if err != nil {
		ev.Fatal("%%v", err)
	}
	var cs []Case
	if err := json.Unmarshal(b, &cs); err != nil {
		ev.Fatal("%%v", err)
	}%(norm)s
	return cs
}
'''


def runner_decl(state, recv_field="W"):
    fields = "".join("\t%s %s\n" % (n, t) for n, t, _ in state if n != "w")
    inits = "".join("\t%s.%s = %s\n" % (RECV, n, i) for n, t, i in state if n != "w" and i)
    return (SINK + "\n// Runner runs cases for one goroutine: the writer and the per-run state of the family driver are its fields.\n"
            "type Runner struct {\n\tW Sink\n" + fields + "}\n\n// NewRunner makes the runner of one goroutine.\nfunc NewRunner(w Sink) *Runner {\n\t" + RECV + " := &Runner{W: w}\n" + inits +
            "\treturn " + RECV + "\n}\n")


def replace_all(text, pairs, fam):
    for old, new in pairs:
        if old not in text:
            raise SyncError("%s: the text %r is not in the family driver any more: adapt tools/conc_sync.py" % (fam, old[:80]))
        text = text.replace(old, new)
    return text


def cut(src, a, b, fam):
    if a not in src or b not in src: raise SyncError("%s: cut markers %r .. %r not found" % (fam, a, b))
    return src[src.index(a):src.index(b)]


HEAD = '''// Code generated by tools/conc_sync.py from harness/cmd/%(drv)s/main.go; DO NOT EDIT (edit the family driver, then re-run the tool).
//
// Package %(pkg)s: %(what)s for the concurrent driver of C19.
// Per-goroutine Runner instead of package-level writer / state; library calls, event structs and JSON keys are
// the family driver's own, so the traces are validated by spec/trace/%(trace)s.tla.
package %(pkg)s

'''


# --------------------------------------------------------------------------------------------------------------------
def gen_state_family(pkg, drv, trace, what, first, keep=(), patches=(), drop=(), run_tail="", norm="", finish=True, extra_imports=()):
    global KEEP_VARS
    KEEP_VARS = set(keep)
    src = open(os.path.join(CMD, drv, "main.go")).read()
    body = cut(src, first, "func replay(in, out string)", pkg)
    body = replace_all(body, patches, pkg)
    for name in drop:
        sp = [(s, e) for s, e, n, _ in func_spans(body) if n == name]
        if not sp: raise SyncError("%s: func %s to drop not found" % (pkg, name))
        body = body[:sp[0][0]] + body[sp[0][1]:]
    body = unsync(body, pkg)
    state, body = state_vars(body)
    if not any(n == "w" for n, _, _ in state):
        raise SyncError("%s: the package-level writer `var w *ev.Writer` is gone: adapt tools/conc_sync.py" % pkg)
    body, meth = methodize(body, state)
    if "runCase" not in meth: raise SyncError("%s: runCase does not reach the writer" % pkg)
    tail = LOAD % dict(drv=drv, norm=norm)
    tail += "\n// Run executes one case (cmd/%s runCase).\nfunc (%s *Runner) Run(c *Case) { %s.runCase(*c) }\n" % (drv, RECV, RECV)
    if "flushAll" in meth:
        tail += "\n// Finish writes the events still held back (cmd/%s replay does the same after its last case).\nfunc (%s *Runner) Finish() { %s.flushAll() }\n" % (drv, RECV, RECV)
    else:
        tail += "\n// Finish: nothing is held back in this family.\nfunc (%s *Runner) Finish() {}\n" % RECV
    tail += run_tail
    text = runner_decl(state) + "\n" + body + tail
    return HEAD % dict(drv=drv, pkg=pkg, what=what, trace=trace) + imports_for(src, text, ("os", "encoding/json") + tuple(extra_imports)) + "\n" + text


def gen_param_family(pkg, drv, trace, what, first, patches, tail, last="func replay(in, out string)"):
    """drivers whose functions already take the writer as a parameter (qos, pco) or keep it in a session struct (uepol)"""
    src = open(os.path.join(CMD, drv, "main.go")).read()
    body = cut(src, first, last, pkg)
    body = unsync(replace_all(body, patches, pkg), pkg)
    text = SINK + "\n" + body + tail
    if re.search(r"(?m)^var (?!rulesCodec|descsCodec|richRulesOctets|richDescsOctets|allOps|nullJSON)\w+", text):
        raise SyncError("%s: new package-level variable in cmd/%s: %s" % (pkg, drv, re.findall(r"(?m)^var \w+", text)))
    return HEAD % dict(drv=drv, pkg=pkg, what=what, trace=trace) + imports_for(src, text, ("os", "encoding/json", "time")) + "\n" + text


F13_NORM = '''
	for i := range cs { // a case is never written while it runs
		for j := range cs[i].Sn {
			if cs[i].Sn[j].Sd == nil {
				cs[i].Sn[j].Sd = []int{}
			}
		}
		for j := range cs[i].Sn2 {
			if cs[i].Sn2[j].Sd == nil {
				cs[i].Sn2[j].Sd = []int{}
			}
		}
	}'''

F15_TAIL = '''
// Load reads a case file (the format cmd/qos replays) and parses the values, so that running a case only reads it.
func Load(path string) []Case {
	raw, err := os.ReadFile(path)
	if err != nil {
		ev.Fatal("%v", err)
	}
	var cases []Case
	if err := json.Unmarshal(raw, &cases); err != nil {
		ev.Fatal("%v", err)
	}
	for i := range cases {
		cs := &cases[i]
		switch cs.Kind {
		case "rules":
			if err := json.Unmarshal(cs.X, &cs.rules); err != nil {
				ev.Fatal("%v", err)
			}
		case "descs":
			if err := json.Unmarshal(cs.X, &cs.descs); err != nil {
				ev.Fatal("%v", err)
			}
		case "rbytes", "dbytes":
		default:
			ev.Fatal("unknown case kind %q", cs.Kind)
		}
	}
	return cases
}

// Runner runs cases for one goroutine.
type Runner struct{ W Sink }

// NewRunner makes the runner of one goroutine.
func NewRunner(w Sink) *Runner { return &Runner{W: w} }

// Finish: nothing is held back in this family.
func (r *Runner) Finish() {}

// Run executes one case (the loop body of cmd/qos replay).
func (r *Runner) Run(cs *Case) {
	w := r.W
	var c codec
	var x interface{}
	switch cs.Kind {
	case "rules":
		c, x = rulesCodec, cs.rules
	case "descs":
		c, x = descsCodec, cs.descs
	case "rbytes":
		unmarshal(w, rulesCodec, ev.Bytes(cs.Bytes))
		return
	case "dbytes":
		unmarshal(w, descsCodec, ev.Bytes(cs.Bytes))
		return
	}
	m := roundTrip(w, c, x)
	if m == nil {
		return
	}
	if cs.Cuts {
		for n := 0; n < len(m); n++ {
			unmarshal(w, c, m[:n])
		}
	}
	for _, mu := range cs.Muts {
		if len(mu) != 2 || mu[0] < 1 || mu[0] > len(m) {
			ev.Fatal("bad replacement %v for a form of %d octets", mu, len(m))
		}
		d := append([]byte{}, m...)
		d[mu[0]-1] = byte(mu[1])
		unmarshal(w, c, d)
	}
}

// SharedObj: a value built (and, separately, marshalled and parsed) BEFORE the goroutines start; afterwards every goroutine
// only READS the two objects (projection, MarshalBinary) - family f15s of the concurrent driver.
type SharedObj struct {
	c      codec
	x      interface{}
	built  interface{} // built from the case's value, never marshalled before it is shared
	parsed interface{} // parsed from the library's own encoding of the value (nil: does not marshal / parse)
}

// Share prepares the shared objects of a case (nil: the case is an octet string).
func Share(cs *Case) *SharedObj {
	s := &SharedObj{}
	switch cs.Kind {
	case "rules":
		q := buildRules(cs.rules)
		s.c, s.x, s.built = rulesCodec, cs.rules, &q
	case "descs":
		q := buildDescs(cs.descs)
		s.c, s.x, s.built = descsCodec, cs.descs, &q
	default:
		return nil
	}
	ev.Guard(func() {
		m, err := s.c.marshal(s.x)
		if err != nil {
			return
		}
		if obj, err := s.c.parse(append([]byte{}, m...)); err == nil {
			s.parsed = obj
		}
	})
	return s
}

// RunShared reads the shared objects: each event has the shape of the family's RoundTrip event (the value; the octets
// MarshalBinary of the shared object gives NOW, as both encodings; the object as projected now) and is judged like one.
func (r *Runner) RunShared(s *SharedObj) {
	if s == nil {
		return
	}
	for _, obj := range []interface{}{s.built, s.parsed} {
		if obj == nil {
			continue
		}
		e := newEv("RoundTrip", s.c)
		e.X = s.x
		pi, hang := guarded(func() {
			b2, err := s.c.marshalObj(obj)
			e.Back, e.MErr, e.M2Err, e.Bytes, e.Bytes2 = s.c.proj(obj), err != nil, err != nil, ev.Ints(b2), ev.Ints(b2)
		})
		setPanic(&e, pi, hang)
		r.W.Emit(e)
	}
}
'''

F16_TAIL = '''
// Load reads a case file (the format cmd/pco replays).
func Load(path string) []Case {
	b, err := os.ReadFile(path)
	if err != nil {
		ev.Fatal("%v", err)
	}
	var cases []Case
	if err := json.Unmarshal(b, &cases); err != nil {
		ev.Fatal("%v", err)
	}
	for i := range cases {
		if cases[i].Units == nil {
			cases[i].Units = []Unit{}
		}
	}
	return cases
}

// Runner runs cases for one goroutine.
type Runner struct{ W Sink }

// NewRunner makes the runner of one goroutine.
func NewRunner(w Sink) *Runner { return &Runner{W: w} }

// Finish: nothing is held back in this family.
func (r *Runner) Finish() {}

// Run executes one case (the loop body of cmd/pco replay).
func (r *Runner) Run(c *Case) {
	w := r.W
	switch c.Kind {
	case "units":
		m := roundTrip(w, c.Units)
		for _, cut := range c.Cuts {
			if cut >= 0 && cut <= len(m) {
				unmarshal(w, m[:cut])
			}
		}
	case "bytes":
		unmarshal(w, ev.Bytes(c.Data))
	case "psi":
		psiChunk(w, c.Base)
	default:
		ev.Fatal("unknown case kind %q", c.Kind)
	}
}
'''

F18_TAIL = '''
// Load reads a case file (the format cmd/uepol replays); structures are normalised here, before any goroutine starts.
// Histories of one live object (k = hist) are stateful and stay with the sequential check.
func Load(path string) []Case {
	b, err := os.ReadFile(path)
	if err != nil {
		ev.Fatal("%v", err)
	}
	var cs []Case
	if err := json.Unmarshal(b, &cs); err != nil {
		ev.Fatal("%v", err)
	}
	for i := range cs {
		c := &cs[i]
		switch c.K {
		case "build":
			if c.St == nil {
				ev.Fatal("build case without st")
			}
			normSt(c.St)
		case "dec":
		case "plmn":
			if c.Vary == nil {
				c.Vary = []int{}
			}
		default:
			ev.Fatal("case kind %q is not run concurrently", c.K)
		}
	}
	return cs
}

// Finish: nothing is held back in this family.
func (s *Runner) Finish() {}

// Run executes one case (the loop body of cmd/uepol replay).
func (s *Runner) Run(c *Case) {
	switch c.K {
	case "build":
		s.build(*c.St)
		s.runJobs(c.Jobs)
	case "dec":
		s.runJobs(c.Jobs)
	case "plmn":
		s.plmnRow(c.Which, c.Axis, c.Fixed, c.Vary)
	}
}
'''

FSEC_TAIL = '''
// Runner runs cases for one goroutine (cmd/sec: runner, what one driver process remembers between calls).
type Runner struct {
	W Sink
	r *runner
}

// NewRunner makes the runner of one goroutine.  The generator is only used by cases without explicit key / COUNT / data
// (none in the concurrent case files).
func NewRunner(w Sink) *Runner { return &Runner{W: w, r: newRunner(rand.New(rand.NewSource(1)))} }

// Load reads a case file (the format cmd/sec replays).
func Load(path string) []Case {
	b, err := os.ReadFile(path)
	if err != nil {
		ev.Fatal("%v", err)
	}
	var cs []Case
	if err := json.Unmarshal(b, &cs); err != nil {
		ev.Fatal("%v", err)
	}
	return cs
}

// Finish: nothing is held back in this family.
func (r *Runner) Finish() {}

// Run executes one case (the loop body of cmd/sec replay).
func (r *Runner) Run(c *Case) { r.W.Emit(r.r.runCase(*c)) }

// Arena: one array for the payloads of all n goroutines, cut into n lanes.  An even goroutine puts its payload at the END
// of its lane, its odd neighbour at the START of the next one: two goroutines cipher / MAC adjacent, disjoint sub-slices of
// one buffer at the same time, and the capacity of the first runs over the second.  A call that touches octets behind its
// payload (even to write back what it read) touches another goroutine's value.
type Arena struct {
	buf  []byte
	lane int
}

// NewArena sizes the lanes by the longest payload of the case list.
func NewArena(cs []Case, n int) *Arena {
	lane := 64
	for i := range cs {
		if k := len(cs[i].Data) + 64; k > lane {
			lane = k
		}
		if k := (cs[i].Nbits+7)/8 + 64; k > lane {
			lane = k
		}
	}
	return &Arena{buf: make([]byte, lane*n+64), lane: lane}
}

// Place makes runner r (goroutine g) put its payloads into the arena.
func (a *Arena) Place(r *Runner, g int) {
	lo, hi := g*a.lane, (g+1)*a.lane
	r.r.place = func(n int) []byte {
		if n+32 > a.lane {
			return make([]byte, n+24)
		}
		if g%2 == 0 {
			return a.buf[hi-n : hi] // capacity runs on over the neighbour's lane
		}
		return a.buf[lo : lo+n+24] // the odd goroutine checks the 24 octets of its own lane behind its payload
	}
}
'''


def gen_sec():
    src = open(os.path.join(CMD, "sec", "main.go")).read()
    body = cut(src, "// Case is one point of the TLC-generated lattice.", "func replay(in, out string)", "fsec")
    if re.search(r"(?m)^var \w+", body): raise SyncError("fsec: new package-level variable in cmd/sec")
    for need in ("func (r *runner) runCase(c Case) Ev {", "func newRunner(rng *rand.Rand) *runner {"):
        if need not in body: raise SyncError("fsec: %r is gone from cmd/sec: adapt tools/conc_sync.py" % need)
    text = unsync(body, "fsec") + "\n" + SINK + FSEC_TAIL
    return HEAD % dict(drv="sec", pkg="fsec", what="the call function of cmd/sec (C06 / C07: ciphering and integrity entry points)", trace="Trace_C06/Trace_C07") + \
        imports_for(src, text, ("os", "encoding/json", "math/rand")) + "\n" + text


F09_TAIL = '''
// Runner runs cases for one goroutine.  The accessor pairs are bound (reflect look-ups of fields and methods) before the
// goroutines start calling the library: the reflect package and the runtime guard their type caches with locks that the
// race detector sees, so binding between two accessor calls would order the goroutines.  While they work, a scalar
// accessor is a plain call on the goroutine's own element (array and slice accessors still go through reflect.Call).
type Runner struct {
	W     Sink
	bound map[*Case]*binding
}

// NewRunner makes the runner of one goroutine.
func NewRunner(w Sink) *Runner { return &Runner{W: w} }

// Prebind binds every accessor pair of the case list to an element of this goroutine.
func (r *Runner) Prebind(cs []Case) {
	r.bound = make(map[*Case]*binding, len(cs))
	for i := range cs {
		r.bound[&cs[i]] = bind(cs[i].Type, cs[i].Field)
	}
}

// Load reads a case file (the format cmd/ietypes replays).
func Load(path string) []Case { return load(path) }

// Finish: nothing is held back in this family.
func (r *Runner) Finish() {}

// Run executes one case (the loop body of cmd/ietypes replay): every prior x value on this goroutine's element.
func (r *Runner) Run(c *Case) {
	b := r.bound[c]
	if b == nil {
		b = bind(c.Type, c.Field)
	}
	for gi := range c.Groups {
		g := &c.Groups[gi]
		for pi := range g.Priors {
			for _, raw := range g.Values {
				v, vs := value(c.Kind, raw)
				r.W.Emit(b.run(c, &g.Priors[pi], v, vs))
			}
		}
	}
}
'''


def gen_ie():
    """cmd/ietypes: the constructor registry `Types` is generated at check time (reg_gen.go, build tag c19ie)"""
    src = open(os.path.join(CMD, "ietypes", "main.go")).read()
    body = cut(src, "type Elem struct", "func replay(in, out string)", "f09")
    vars_ = re.findall(r"(?m)^var (\w+)", body)
    if vars_ != ["none"]: raise SyncError("f09: package-level variables of cmd/ietypes changed: %s" % vars_)
    for need in ("func bind(typ, field string) *binding {", "func (b *binding) run(c *Case, p *Elem, v int, vs []int) Ev {", "func value(kind string, raw json.RawMessage) (int, []int) {", "func load(path string) []Case {"):
        if need not in body: raise SyncError("f09: %r is gone from cmd/ietypes: adapt tools/conc_sync.py" % need)
    # scalar accessors are called directly (generated closures, see Direct in reg_gen.go / reg_stub.go): reflect.Value.Call
    # and reflect method values take their frames from a sync.Pool
    body = replace_all(body, [("\treturn b\n}\n\nfunc (b *binding) write(p *Elem) {",
                               "\tif a, ok := Direct[typ+\".\"+field]; ok {\n\t\tx := b.rv.Interface()\n\t\tswitch {\n\t\tcase a.G8 != nil && b.g8 != nil:\n"
                               "\t\t\tb.g8, b.s8 = func() uint8 { return a.G8(x) }, func(v uint8) { a.S8(x, v) }\n\t\tcase a.G16 != nil && b.g16 != nil:\n"
                               "\t\t\tb.g16, b.s16 = func() uint16 { return a.G16(x) }, func(v uint16) { a.S16(x, v) }\n\t\t}\n\t}\n"
                               "\treturn b\n}\n\nfunc (b *binding) write(p *Elem) {")], "f09")
    text = SINK + """
// Acc: one scalar accessor pair as plain closures (generated, reg_gen.go)
type Acc struct {
	G8  func(x any) uint8
	S8  func(x any, v uint8)
	G16 func(x any) uint16
	S16 func(x any, v uint16)
}
""" + "\n" + unsync(body, "f09") + F09_TAIL
    return HEAD % dict(drv="ietypes", pkg="f09", what="binding and the per-case run of cmd/ietypes (C09: Get/Set accessor pairs of the information elements)", trace="Trace_C09") + \
        imports_for(src, text, ("os", "encoding/json")) + "\n" + text


F14_TAIL = '''
var byName = func() map[string]int {
	m := map[string]int{}
	for i := range helpers {
		m[helpers[i].name] = i
	}
	return m
}()

const libPrefix = "github.com/free5gc/nas/"

var digits = regexp.MustCompile(`[0-9]+`)

// Runner runs cases for one goroutine (cmd/helpers14: one Call event per case, no watchdog goroutine: the concurrent
// driver's monitor watches for calls that do not return).
type Runner struct{ W Sink }

// NewRunner makes the runner of one goroutine.
func NewRunner(w Sink) *Runner { return &Runner{W: w} }

// Load reads a case file (the format cmd/helpers14 replays).
func Load(path string) []Case {
	b, err := os.ReadFile(path)
	if err != nil {
		ev.Fatal("%v", err)
	}
	var cs []Case
	if err := json.Unmarshal(b, &cs); err != nil {
		ev.Fatal("%v", err)
	}
	for i := range cs {
		if _, ok := byName[cs[i].H]; !ok {
			ev.Fatal("unknown helper %q", cs[i].H)
		}
	}
	return cs
}

// Finish: nothing is held back in this family.
func (r *Runner) Finish() {}

// Run executes one case: the loop body of cmd/helpers14 replay (call under recover, one Call event).
func (r *Runner) Run(c *Case) {
	hi := byName[c.H]
	h := &helpers[hi]
	in := inputBytes(h, c.In)
	if len(in) > h.maxLen { // longer than the information element can carry
		return
	}
	code, fn, kind := cVal, "", ""
	func() {
		defer func() {
			if rec := recover(); rec != nil {
				code = cPanic
				pcs := make([]uintptr, 64)
				n := runtime.Callers(3, pcs)
				fr := runtime.CallersFrames(pcs[:n])
				for {
					f, more := fr.Next()
					if strings.HasPrefix(f.Function, libPrefix) {
						fn = strings.TrimPrefix(f.Function, libPrefix)
						break
					}
					if strings.HasPrefix(f.Function, "main.") || strings.HasPrefix(f.Function, "verifharness") || !more {
						break
					}
				}
				if fn == "" {
					ev.Fatal("panic outside the library: %v", rec)
				}
				kind = digits.ReplaceAllString(fmt.Sprint(rec), "N")
			}
		}()
		code = h.f(in[:len(in):len(in)])
	}()
	e := blank("Call", hi, in)
	e.Cls = clsName[code]
	e.Fn, e.Kind = fn, kind
	r.W.Emit(e)
}
'''


def gen_help():
    src = open(os.path.join(CMD, "helpers14", "main.go")).read()
    table = cut(src, "const (\n\tcVal = iota", "// ---- observation of panics", "f14")
    evs = cut(src, "type Sig struct {", "var w *ev.Writer", "f14")
    case = cut(src, "type Case struct {", "var textAlphabet", "f14")
    if "skipHang" in table or "w.Emit" in table: raise SyncError("f14: the helper table of cmd/helpers14 touches driver state: adapt tools/conc_sync.py")
    text = table + evs + case + SINK + F14_TAIL
    return HEAD % dict(drv="helpers14", pkg="f14", what="the helper table and the Call event of cmd/helpers14 (C14: helpers on UE-supplied contents)", trace="Trace_C14") + \
        imports_for(src, text, ("os", "encoding/json", "fmt", "regexp", "runtime", "strings")) + "\n" + text


def generate():
    out = {}
    out["f14"] = gen_help()
    if os.path.exists(os.path.join(CMD, "ietypes", "main.go")):
        out["f09"] = gen_ie()
    out["f17"] = gen_state_family("f17", "conv17", "Trace_C17", "the converters of cmd/conv17 (C17: timers, session AMBR, time zone / DST / universal time, network names)",
                                  "type Ev struct")
    out["f12"] = gen_state_family(
        "f12", "identity", "Trace_C12", "the converters of cmd/identity (C12: identities between wire and text)", "type Ev struct", keep=("sharedMI",),
        patches=[("func mi(wire []int) *nasType.MobileIdentity5GS {\n\treturn &nasType.MobileIdentity5GS{Len: uint16(len(wire)), Buffer: ev.Bytes(wire)}\n}\n",
                  "// sharedMI: one decoded identity element per distinct wire form of the case file, built by Load before the goroutines start\n"
                  "// and only read afterwards: ALL goroutines call the getters on the SAME element (the family driver builds a fresh element\n"
                  "// per call; a getter is a read, so that must make no difference to any result).\n"
                  "var sharedMI map[string]*nasType.MobileIdentity5GS\n\n"
                  "func mi(wire []int) *nasType.MobileIdentity5GS {\n\tif a := sharedMI[string(ev.Bytes(wire))]; a != nil {\n\t\treturn a\n\t}\n"
                  "\treturn &nasType.MobileIdentity5GS{Len: uint16(len(wire)), Buffer: ev.Bytes(wire)}\n}\n")],
        norm="""
	sharedMI = map[string]*nasType.MobileIdentity5GS{}
	for i := range cs {
		if w := cs[i].W; len(w) > 0 && cs[i].Fam != "plmn" {
			sharedMI[string(ev.Bytes(w))] = &nasType.MobileIdentity5GS{Len: uint16(len(w)), Buffer: ev.Bytes(w)}
		}
	}""")
    out["f13"] = gen_state_family(
        "f13", "arealists", "Trace_C13", "the converters of cmd/arealists (C13: S-NSSAI / NSSAI / rejected NSSAI / TAI list / service area list / LADN)", "type Sn struct",
        patches=[("\t// child process: the result cannot be held across calls of this process; it is logged as read once\n",
                  "\t// the sequential driver runs such an input in a self-limiting child process (possible endless walk); the concurrent\n"
                  "\t// driver never runs it (the case lists exclude them, a stray one is skipped)\n\tif risky {\n\t\treturn\n\t}\n")],
        drop=["ladnChild"], norm=F13_NORM)
    wd = [("w *ev.Writer", "w Sink")]
    out["f15"] = gen_param_family("f15", "qos", "Trace_C15", "value builders, projections, roundTrip and unmarshal of cmd/qos (C15: QoS rules and flow descriptions)", "type Comp struct",
                                  wd + [("\tBytes []int           `json:\"bytes\"`\n}", "\tBytes []int           `json:\"bytes\"`\n\n\trules []Rule // X parsed at load time\n\tdescs []Desc\n}")], F15_TAIL)
    src16 = open(os.path.join(CMD, "pco", "main.go")).read()
    psi = cut(src16, "func bools(a [16]bool) []int {", "func psi(w *ev.Writer) {", "f16")
    out["f16"] = gen_param_family("f16", "pco", "Trace_C16", "roundTrip, unmarshal and the bitmap chunks of cmd/pco (C16: protocol configuration options, PDU session status)", "type Unit struct",
                                  wd, replace_all(psi, [("w *ev.Writer", "w Sink")], "f16") + F16_TAIL)
    out["f18"] = gen_param_family(
        "f18", "uepol", "Trace_C18", "build / decode / PLMN rows of cmd/uepol (C18: the UE policy container codec)",
        "// ---------------------------------------------------------------- structures as chosen by the generator",
        [("var hangs = map[string]int{}\n", ""), ("hangs[", "s.hangs["),
         ("type sess struct{ w *ev.Writer }", "// Runner runs cases for one goroutine (cmd/uepol: sess); the count of calls that did not return is kept per goroutine.\n"
          "type Runner struct {\n\tw     Sink\n\thangs map[string]int\n}\n\n// NewRunner makes the runner of one goroutine.\nfunc NewRunner(w Sink) *Runner { return &Runner{w: w, hangs: map[string]int{}} }"),
         ("(s *sess)", "(s *Runner)")], F18_TAIL)
    out["fsec"] = gen_sec()
    return out


def main():
    check = "--check" in sys.argv
    try:
        files = generate()
    except SyncError as e:
        print("conc_sync: " + str(e)); sys.exit(2)
    stale = []
    for pkg, text in files.items():
        r = subprocess.run(["gofmt"], input=text, capture_output=True, text=True)
        if r.returncode != 0:
            print("conc_sync: gofmt rejects the generated %s:\n%s" % (pkg, r.stderr[:2000])); sys.exit(2)
        text = r.stdout
        d = os.path.join(CMD, "conc", pkg); p = os.path.join(d, pkg + ".go")
        old = open(p).read() if os.path.exists(p) else None
        if old != text:
            stale.append(pkg)
            if not check:
                os.makedirs(d, exist_ok=True)
                with open(p, "w") as f: f.write(text)
    if check:
        print("out of date: %s" % ", ".join(stale) if stale else "harness/cmd/conc copies are up to date")
        sys.exit(1 if stale else 0)
    print("regenerated: %s" % (", ".join(stale) or "nothing (up to date)"))


if __name__ == "__main__":
    main()
