------------------------------ MODULE NasMachine ------------------------------
(* Small-step decoder machine: one step per element read, as the generated decoders proceed
   (mandatory part in table order, then the optional loop: read identifier octet, dispatch,
   read length, check, allocate, read body).  It exists to state the resource half of C01 as
   invariants - Progress (every step consumes input or ends), AllocBound (octets allocated never
   exceed input length + one maximum-size element), no "panic" phase (an array-backed slot never
   receives more than its capacity) - and to tie the big-step operator Decode to a terminating run. *)
EXTENDS NasCodec
VARIABLES dM,       \* index of the message table being decoded (0 = machine idle)
          dinp,     \* the input octets (never written)
          dpos,     \* next octet to read (1-based)
          dphase,   \* "idle" | "mand" | "opt" | "done" | "fail" | "panic"
          dk,       \* next mandatory slot
          dmand, dopt,  \* values stored so far
          dalloc,   \* octets allocated so far
          dsteps    \* steps taken
dvars == <<dM, dinp, dpos, dphase, dk, dmand, dopt, dalloc, dsteps>>

DIdle == dM = 0 /\ dinp = <<>> /\ dpos = 1 /\ dphase = "idle" /\ dk = 1 /\ dmand = <<>> /\ dopt = <<>> /\ dalloc = 0 /\ dsteps = 0
DStart(mi, inp) == /\ dphase = "idle"
                   /\ dM' = mi /\ dinp' = inp /\ dpos' = 1 /\ dphase' = "mand" /\ dk' = 1
                   /\ dmand' = <<>> /\ dopt' = NoOpt(Msgs[mi]) /\ dalloc' = 0 /\ dsteps' = 0
DM == Msgs[dM]
\* would the code slice past an array's capacity?  (unreachable when TableCapOK holds)
Overrun(s, r) == r.ok /\ s.data = "arr" /\ s.lsz > 0 /\ r.val.len > s.cap

DMandStep == /\ dphase = "mand" /\ dk <= Len(DM.mand)
             /\ LET s == DM.mand[dk]  r == Body(dinp, dpos, s, 0) IN
                /\ dalloc' = dalloc + r.alloc
                /\ IF Overrun(s, r) THEN dphase' = "panic" /\ UNCHANGED <<dpos, dk, dmand>>
                   ELSE IF r.ok THEN dpos' = r.pos /\ dk' = dk + 1 /\ dmand' = Append(dmand, r.val) /\ UNCHANGED dphase
                   ELSE dphase' = "fail" /\ UNCHANGED <<dpos, dk, dmand>>
             /\ dsteps' = dsteps + 1 /\ UNCHANGED <<dM, dinp, dopt>>
DMandDone == /\ dphase = "mand" /\ dk > Len(DM.mand)
             /\ dphase' = "opt" /\ dsteps' = dsteps + 1
             /\ UNCHANGED <<dM, dinp, dpos, dk, dmand, dopt, dalloc>>
DOptStep == /\ dphase = "opt" /\ dpos <= Len(dinp)
            /\ LET b == dinp[dpos]  ks == Match(DM, TagOf(b)) IN
               IF ks = {} THEN dpos' = dpos + 1 /\ UNCHANGED <<dopt, dalloc, dphase>>          \* SkipUnknown
               ELSE LET k == First(ks)  s == DM.opt[k] IN
                    IF s.half THEN dpos' = dpos + 1 /\ dopt' = [dopt EXCEPT ![k] = HalfVal(b)] /\ UNCHANGED <<dalloc, dphase>>
                    ELSE LET r == Body(dinp, dpos + 1, s, b) IN
                         /\ dalloc' = dalloc + r.alloc
                         /\ IF Overrun(s, r) THEN dphase' = "panic" /\ UNCHANGED <<dpos, dopt>>
                            ELSE IF r.ok THEN dpos' = r.pos /\ dopt' = [dopt EXCEPT ![k] = r.val] /\ UNCHANGED dphase
                            ELSE dphase' = "fail" /\ UNCHANGED <<dpos, dopt>>
            /\ dsteps' = dsteps + 1 /\ UNCHANGED <<dM, dinp, dk, dmand>>
DOptDone == /\ dphase = "opt" /\ dpos > Len(dinp)
            /\ dphase' = "done" /\ dsteps' = dsteps + 1
            /\ UNCHANGED <<dM, dinp, dpos, dk, dmand, dopt, dalloc>>
DNext == DMandStep \/ DMandDone \/ DOptStep \/ DOptDone
DTerminated == dphase \in {"done", "fail"}

\* ---- invariants (resource half of C01, stated on the machine)
DTypeOK   == dphase \in {"idle", "mand", "opt", "done", "fail"}                 \* in particular never "panic"
DProgress == dM > 0 => dsteps <= (dpos - 1) + Len(DM.mand) + 3                  \* every step consumes input or ends
DPosOK    == dpos <= Len(dinp) + 1
DAllocBound == dalloc <= (dpos - 1) + 65535 /\ dalloc <= Len(dinp) + 65535     \* one max-size element beyond the input
\* a terminated run computes exactly the big-step operator
DAgrees   == (dM > 0 /\ DTerminated) =>
                LET d == Decode(DM, dinp) IN
                /\ d.ok = (dphase = "done")
                /\ d.ok => (d.mand = dmand /\ d.opt = dopt)
================================================================================
