--------------------------------- MODULE Zuc ---------------------------------
(* ZUC, written from "Specification of the 3GPP Confidentiality and Integrity Algorithms
   128-EEA3 & 128-EIA3, Document 2: ZUC Specification" (v1.6): 3.2 LFSR (init / work mode),
   3.3 bit reorganisation, 3.4 nonlinear function F (S-boxes S0,S1; L1,L2), 3.5 key loading,
   3.6 execution.  LFSR cells are integers 1..2^31-1; 32-bit words are pairs <<hi16, lo16>>
   so that nothing exceeds TLC's 32-bit integers. *)
EXTENDS Integers, Sequences, Bitwise, CryptoTables
LOCAL INSTANCE SequencesExt       \* FoldLeft
M31 == 2147483647
Add31(a, b) == IF a > M31 - b THEN a - (M31 - b) ELSE a + b        \* a + b mod (2^31 - 1), 0 represented as 2^31-1
P2(k) == 2^k
Rot31(x, k) == ((x % P2(31 - k)) * P2(k)) + (x \div P2(31 - k))     \* 2^k * x mod (2^31 - 1)
H16(s) == s \div 32768            \* bits 30..15
L16(s) == s % 65536               \* bits 15..0
XorP(a, b) == <<a[1] ^^ b[1], a[2] ^^ b[2]>>
AddP(a, b) == LET lo == a[2] + b[2] hi == a[1] + b[1] + (lo \div 65536) IN <<hi % 65536, lo % 65536>>
RotP(w, k) == LET a == IF k >= 16 THEN <<w[2], w[1]>> ELSE w
                  j == IF k >= 16 THEN k - 16 ELSE k
              IN IF j = 0 THEN a
                 ELSE << ((a[1] * P2(j)) % 65536) + (a[2] \div P2(16 - j)),
                         ((a[2] * P2(j)) % 65536) + (a[1] \div P2(16 - j)) >>
L1(x) == XorP(XorP(XorP(x, RotP(x, 2)), XorP(RotP(x, 10), RotP(x, 18))), RotP(x, 24))
L2(x) == XorP(XorP(XorP(x, RotP(x, 8)), XorP(RotP(x, 14), RotP(x, 22))), RotP(x, 30))
\* S = (S0, S1, S0, S1) on the four octets
SB(w) == << ZS0[(w[1] \div 256) + 1] * 256 + ZS1[(w[1] % 256) + 1], ZS0[(w[2] \div 256) + 1] * 256 + ZS1[(w[2] % 256) + 1] >>
\* state: [s |-> <<s0..s15>>, r1, r2 |-> pairs]
BR(s) == << <<H16(s[16]), L16(s[15])>>, <<L16(s[12]), H16(s[10])>>, <<L16(s[8]), H16(s[6])>>, <<L16(s[3]), H16(s[1])>> >>
FOut(st, X) == AddP(XorP(X[1], st.r1), st.r2)                        \* W = (X0 xor R1) + R2
FNext(st, X) == LET w1 == AddP(st.r1, X[2]) w2 == XorP(st.r2, X[3]) IN
                [r1 |-> SB(L1(<<w1[2], w2[1]>>)), r2 |-> SB(L2(<<w2[2], w1[1]>>))]
Feedback(s) == Add31(Add31(Add31(Add31(Add31(s[1], Rot31(s[1], 8)), Rot31(s[5], 20)), Rot31(s[11], 21)), Rot31(s[14], 17)), Rot31(s[16], 15))
Shift(s, v) == Tail(s) \o <<v>>
Shr1(w) == w[1] * 32768 + (w[2] \div 2)                              \* u = W >> 1 as a 31-bit integer
StepInit(st) == LET X == BR(st.s) w == FOut(st, X) n == FNext(st, X) IN
                [s |-> Shift(st.s, Add31(Feedback(st.s), Shr1(w))), r1 |-> n.r1, r2 |-> n.r2]
StepWork(st) == LET X == BR(st.s) n == FNext(st, X) IN
                [s |-> Shift(st.s, Feedback(st.s)), r1 |-> n.r1, r2 |-> n.r2]
RECURSIVE IterInit(_,_)
IterInit(st, n) == IF n = 0 THEN st ELSE IterInit(StepInit(st), n - 1)
\* 3.5 key loading: s_i = k_i || d_i || iv_i
Load(k, iv) == [s |-> SubSeq([i \in 1..16 |-> k[i] * 8388608 + ZD[i] * 256 + iv[i]], 1, 16), r1 |-> <<0,0>>, r2 |-> <<0,0>>]
ReadyZ(k, iv) == StepWork(IterInit(Load(k, iv), 32))                  \* 32 init rounds, one discarded work round
\* keystream of n 32-bit words (pairs); k, iv: 16 octets each: Z = F xor X3, then LFSR work mode
ZucKS(k, iv, n) ==
  FoldLeft(LAMBDA a, t : LET X == BR(a.st.s) IN [st |-> StepWork(a.st), out |-> Append(a.out, XorP(FOut(a.st, X), X[4]))],
           [st |-> ReadyZ(k, iv), out |-> <<>>], SubSeq([t \in 1..n |-> t], 1, n)).out
\* ---- the rare corners of the arithmetic modulo 2^31-1 (tools/zuccorners finds parameter points that reach them; stage A of
\* C06 / C07 re-establishes with THIS model that each frozen point does, and the points are part of the generated cases).
\* State before clock c: clocks 1..32 are the initialisation rounds, 33 the discarded work round, 34.. the rounds after each word.
RECURSIVE IterWork(_,_)
IterWork(st, n) == IF n = 0 THEN st ELSE IterWork(StepWork(st), n - 1)
StateBefore(k, iv, c) == IF c <= 33 THEN IterInit(Load(k, iv), c - 1) ELSE IterWork(IterInit(Load(k, iv), 32), c - 33)
\* the addends of the feedback in the order of Feedback (u only in initialisation mode and only when it is not zero)
Terms(st, initMode) ==
  LET s == st.s  u == Shr1(FOut(st, BR(s))) IN
  <<s[1], Rot31(s[1], 8), Rot31(s[5], 20), Rot31(s[11], 21), Rot31(s[14], 17), Rot31(s[16], 15)>> \o (IF initMode /\ u # 0 THEN <<u>> ELSE <<>>)
\* value accumulated after adding the first i terms
RECURSIVE AccUpTo(_,_)
AccUpTo(t, i) == IF i = 1 THEN t[1] ELSE Add31(AccUpTo(t, i - 1), t[i])
\* raw sum of the i-th addition (adds term i+1) relative to 2^31-1: acc + t = (2^31-1) + Excess
Excess(t, i) == AccUpTo(t, i) - (M31 - t[i + 1])
SumLo(t) == FoldLeft(LAMBDA a, x : a + (x % 65536), 0, t)
SumHi(t) == FoldLeft(LAMBDA a, x : a + (x \div 65536), 0, t) + (SumLo(t) \div 65536)
Low31(t) == (SumHi(t) % 32768) * 65536 + (SumLo(t) % 65536)          \* low 31 bits of the un-reduced total
Top(t)   == SumHi(t) \div 32768                                        \* the un-reduced total shifted right by 31
CornerHolds(pred, st, initMode) ==
  LET t == Terms(st, initMode)  n == Len(t)  fb == AccUpTo(t, n)
      addp(i, d) == i + 1 <= n /\ (i < 6 \/ initMode) /\ Excess(t, i) = d
  IN CASE pred = "add1_eq_M31" -> addp(1, 0)  [] pred = "add1_eq_2p31" -> addp(1, 1)  [] pred = "add1_eq_M31m1" -> addp(1, -1)
       [] pred = "add2_eq_M31" -> addp(2, 0)  [] pred = "add2_eq_2p31" -> addp(2, 1)  [] pred = "add2_eq_M31m1" -> addp(2, -1)
       [] pred = "add3_eq_M31" -> addp(3, 0)  [] pred = "add3_eq_2p31" -> addp(3, 1)  [] pred = "add3_eq_M31m1" -> addp(3, -1)
       [] pred = "add4_eq_M31" -> addp(4, 0)  [] pred = "add4_eq_2p31" -> addp(4, 1)  [] pred = "add4_eq_M31m1" -> addp(4, -1)
       [] pred = "add5_eq_M31" -> addp(5, 0)  [] pred = "add5_eq_2p31" -> addp(5, 1)  [] pred = "add5_eq_M31m1" -> addp(5, -1)
       [] pred = "add6_eq_M31" -> addp(6, 0)  [] pred = "add6_eq_2p31" -> addp(6, 1)  [] pred = "add6_eq_M31m1" -> addp(6, -1)
       [] pred = "fb_eq_M31" -> fb = M31  [] pred = "fb_eq_1" -> fb = 1  [] pred = "fb_eq_M31m1" -> fb = M31 - 1
       [] pred = "sum_low31_top8" -> Low31(t) >= 2147483640
       [] pred = "sum_low31_bot8" -> Low31(t) < 8
       [] pred = "sum_onefold_ge_2p31" -> Low31(t) > M31 - Top(t)
       [] OTHER -> FALSE
CornerReached(k, iv, clock, pred) == CornerHolds(pred, StateBefore(k, iv, clock), clock <= 32)
\* as octets
ZucBytes(k, iv, nwords) ==
  LET ws == ZucKS(k, iv, nwords) IN
  SubSeq([i \in 1..(4*nwords) |-> LET w == ws[((i-1) \div 4) + 1]  j == (i-1) % 4 IN
            IF j = 0 THEN w[1] \div 256 ELSE IF j = 1 THEN w[1] % 256 ELSE IF j = 2 THEN w[2] \div 256 ELSE w[2] % 256], 1, 4*nwords)
==============================================================================
