------------------------------ MODULE Helpers ------------------------------
(* C14.  What a robust converter does with arbitrary UE-supplied contents.

   For every helper of the property a TOTAL result-class operator: octets (or text) ->
   {"val", "err", "empty"}, written from the information-element layouts of TS 24.501 /
   TS 24.008 / TS 23.003 (DESIGN Appendix A), not from the Go code.  "val": the contents are
   well formed for that helper; "err": malformed, error-returning helper; "empty": malformed (or
   not applicable), helper without error result.  There is no class "panic" and none "does not
   return": that is the property.

   For the three helpers that walk a list of length-prefixed entries (requested NSSAI, LADN
   indication, DNN labels) a small-step model with an explicit termination measure; TLC checks
   on all octet strings up to a length bound over each helper's abstract octet alphabet that
   every step decreases the measure, that the walk ends, and that it ends in the class the
   big-step operator gives. *)
EXTENDS Integers, Sequences, FiniteSets

Classes == {"val", "err", "empty"}
Octets == 0..255

(* ------------------------------------------------------------------ list walkers *)
\* One step of a walker at offset off (0-based) of buf: <<status, next offset, entries so far>>.
\* status "run" continues; "done"/"err" are final.

\* Requested NSSAI (TS 24.501 9.11.3.37): entries  length(1) || S-NSSAI value(length),
\* S-NSSAI value length in {1, 2, 4, 5, 8} (9.11.2.8).
SnssaiLengths == {1, 2, 4, 5, 8}
NssaiStep(buf, off, n) ==
  IF off >= Len(buf) THEN <<"done", off, n>>
  ELSE LET L == buf[off + 1] IN
       IF off + 1 + L > Len(buf) THEN <<"err", off, n>>            \* entry runs past the end
       ELSE IF L \notin SnssaiLengths THEN <<"err", off, n>>
       ELSE <<"run", off + 1 + L, n + 1>>

\* LADN indication (TS 24.501 9.11.3.29): entries  length(1) || DNN value(length); a zero-length
\* entry is an empty DNN value and still consumes its length octet.
LadnStep(buf, off, n) ==
  IF off >= Len(buf) THEN <<"done", off, n>>
  ELSE LET L == buf[off + 1] IN
       IF off + 1 + L > Len(buf) THEN <<"err", off, n>>
       ELSE <<"run", off + 1 + L, n + 1>>

\* DNN (TS 23.003 9.1, RFC 1035 3.1): labels  length(1) || label(length); a label running past
\* the end is cut at the end (lenient reading); the text is the labels joined by ".".
\* The third component counts labels, the walker also needs the text length: kept by DnnText below.
DnnStep(buf, off, n) ==
  IF off >= Len(buf) THEN <<"done", off, n>>
  ELSE LET L == buf[off + 1]
           nxt == IF off + 1 + L > Len(buf) THEN Len(buf) ELSE off + 1 + L
       IN <<"run", nxt, n + 1>>

Step(h, buf, off, n) ==
  CASE h = "RequestedNssaiToModels" -> NssaiStep(buf, off, n)
    [] h = "LadnToModels" -> LadnStep(buf, off, n)
    [] h = "DNN.GetDNN" -> DnnStep(buf, off, n)
LoopHelpers == {"RequestedNssaiToModels", "LadnToModels", "DNN.GetDNN"}

\* termination measure of a walk: octets not yet consumed, plus one while the walk is running
Measure(buf, off, status) == (Len(buf) - off) + (IF status = "run" THEN 1 ELSE 0)

\* big-step: iterate Step (recursion on the offset; well founded because every running step
\* strictly increases the offset - checked by TLC as MeasureDecreases on the small-step model)
RECURSIVE Walk(_, _, _, _)
Walk(h, buf, off, n) ==
  LET r == Step(h, buf, off, n) IN
  IF r[1] = "run" THEN Walk(h, buf, r[2], r[3]) ELSE r

\* length of the DNN text: sum of the (cut) label lengths + separators
RECURSIVE DnnTextLen(_, _)
DnnTextLen(buf, off) ==
  IF off >= Len(buf) THEN 0
  ELSE LET L == buf[off + 1]
           cut == IF off + 1 + L > Len(buf) THEN Len(buf) - off - 1 ELSE L
           nxt == off + 1 + cut
       IN cut + (IF nxt < Len(buf) THEN 1 + DnnTextLen(buf, nxt) ELSE 0)

WalkClass(h, buf) ==
  LET r == Walk(h, buf, 0, 0) IN
  CASE h = "RequestedNssaiToModels" -> IF r[1] = "err" THEN "err" ELSE IF r[3] = 0 THEN "empty" ELSE "val"
    [] h = "LadnToModels" -> IF r[1] = "err" \/ r[3] = 0 THEN "empty" ELSE "val"
    [] h = "DNN.GetDNN" -> IF DnnTextLen(buf, 0) = 0 THEN "empty" ELSE "val"

(* ------------------------------------------------------------------ fixed layouts *)
LowNibble(o) == o % 16
HighNibble(o) == o \div 16

\* 5GS mobile identity (9.11.3.4): octet 1 bits 1-3 type of identity
IdKind(buf) ==
  IF Len(buf) = 0 THEN "short"
  ELSE CASE buf[1] % 8 = 0 -> "none" [] buf[1] % 8 = 2 -> "guti" [] buf[1] % 8 = 3 -> "imei"
         [] buf[1] % 8 = 4 -> "stmsi" [] buf[1] % 8 = 5 -> "imeisv"
         [] OTHER -> "suci"                  \* 1, and the unused values 6, 7 "interpreted as SUCI"
SupiFormat(buf) == HighNibble(buf[1]) % 8      \* bits 5-7 of octet 1
\* SUCI: NAI format = type octet + at least one octet of NAI; IMSI format = type, PLMN(3),
\* routing indicator(2), protection scheme(1), home network public key id(1), scheme output(>= 1)
SuciMin(buf) == IF SupiFormat(buf) = 1 THEN 2 ELSE 9
SuciClass(buf) == IF Len(buf) = 0 THEN "err" ELSE IF Len(buf) < SuciMin(buf) THEN "err" ELSE "val"
GutiClass(buf) == IF Len(buf) = 11 THEN "val" ELSE "err"
PeiClass(buf) == IF Len(buf) >= 1 THEN "val" ELSE "err"
NaiClass(buf) == IF Len(buf) >= 2 THEN "val" ELSE "empty"
ErrToEmpty(c) == IF c = "err" THEN "empty" ELSE c
\* UPU acknowledgement (9.11.3.53A): header octet 0x01 + UPU-MAC-IUE (16 octets)
UpuAckClass(buf) == IF Len(buf) = 17 /\ buf[1] = 1 THEN "val" ELSE "err"

\* text getters of nasType.MobileIdentity5GS: the octets a getter reads, by identity kind
GetterNames == {"GetTypeOfIdentity", "GetMobileIdentity", "GetSUCI", "GetPlmnID", "GetMCC", "GetMNC",
                "Get5GGUTI", "GetAmfID", "GetAmfRegionID", "GetAmfSetID", "GetAmfPointer", "Get5GTMSI",
                "GetIMEI", "GetIMEISV", "Get5GSTMSI"}
KindMin(kind, buf) ==
  CASE kind = "suci" -> SuciMin(buf) [] kind = "guti" -> 11 [] kind = "stmsi" -> 7
    [] kind \in {"imei", "imeisv"} -> 1 [] OTHER -> 1
GetterClass(g, buf) ==
  LET kind == IdKind(buf) IN
  CASE g = "GetTypeOfIdentity" -> IF kind \in {"short", "none"} THEN "err" ELSE "val"
    [] g = "GetMobileIdentity" -> IF kind \in {"short", "none"} THEN "err"
                                  ELSE IF Len(buf) < KindMin(kind, buf) THEN "empty" ELSE "val"
    [] g = "GetSUCI" -> IF kind = "suci" /\ Len(buf) >= SuciMin(buf) THEN "val" ELSE "empty"
    [] g \in {"GetPlmnID", "GetMNC"} -> IF Len(buf) >= 4 THEN "val" ELSE "empty"
    [] g = "GetMCC" -> IF Len(buf) >= 3 THEN "val" ELSE "empty"
    [] g = "Get5GGUTI" -> IF Len(buf) >= 11 THEN "val" ELSE "empty"
    [] g = "GetAmfID" -> IF Len(buf) >= 7 THEN "val" ELSE "empty"
    [] g = "GetAmfRegionID" -> IF Len(buf) >= 5 THEN "val" ELSE "empty"
    [] g = "GetAmfSetID" -> IF Len(buf) >= (IF kind = "guti" THEN 7 ELSE IF kind = "stmsi" THEN 3 ELSE 2) THEN "val" ELSE "empty"
    [] g = "GetAmfPointer" -> IF Len(buf) >= (IF kind = "guti" THEN 7 ELSE IF kind = "stmsi" THEN 3 ELSE 1) THEN "val" ELSE "empty"
    [] g = "Get5GTMSI" -> IF (kind = "guti" /\ Len(buf) >= 11) \/ (kind = "stmsi" /\ Len(buf) >= 7) THEN "val" ELSE "empty"
    [] g = "GetIMEI" -> IF kind = "imei" THEN "val" ELSE "empty"
    [] g = "GetIMEISV" -> IF kind = "imeisv" THEN "val" ELSE "empty"
    [] g = "Get5GSTMSI" -> IF Len(buf) >= 3 THEN "val" ELSE "err"

ByteHelpers ==
  {"SuciToStringWithError", "SuciToString", "NaiToString", "GutiToStringWithError", "GutiToString",
   "PeiToStringWithError", "PeiToString", "RequestedNssaiToModels", "SnssaiToModels", "LadnToModels",
   "UESecurityCapabilityToByteArray", "PSIToBooleanArray", "UpuAckToModels", "DNN.GetDNN",
   "DecodeLocalTimeZone", "DecodeDaylightSavingTime", "DecodeUniversalTimeAndLocalTimeZone", "PlmnIDToString"}
  \cup GetterNames          \* methods of nasType.MobileIdentity5GS, named by the getter
\* helpers observed for information only (not in the property's list)
InfoHelpers == {"PlmnIDToString"}

ByteClass(h, buf) ==
  CASE h = "SuciToStringWithError" -> SuciClass(buf)
    [] h = "SuciToString" -> ErrToEmpty(SuciClass(buf))
    [] h = "NaiToString" -> NaiClass(buf)
    [] h = "GutiToStringWithError" -> GutiClass(buf)
    [] h = "GutiToString" -> ErrToEmpty(GutiClass(buf))
    [] h = "PeiToStringWithError" -> PeiClass(buf)
    [] h = "PeiToString" -> ErrToEmpty(PeiClass(buf))
    [] h \in LoopHelpers -> WalkClass(h, buf)
    [] h = "UpuAckToModels" -> UpuAckClass(buf)
    [] h = "PlmnIDToString" -> IF Len(buf) >= 3 THEN "val" ELSE "empty"
    \* fixed-size elements and bitmaps: every contents is a value (short contents read as zero)
    [] h \in {"SnssaiToModels", "UESecurityCapabilityToByteArray", "PSIToBooleanArray", "DecodeLocalTimeZone",
              "DecodeDaylightSavingTime", "DecodeUniversalTimeAndLocalTimeZone"} -> "val"
    [] OTHER -> GetterClass(h, buf)

(* ------------------------------------------------------------------ text inputs *)
\* text is a sequence of code points
IsDigit(c) == c \in 48..57
IsHex(c) == c \in 48..57 \/ c \in 65..70 \/ c \in 97..102
AllHex(t) == \A i \in 1..Len(t) : IsHex(t[i])
\* 5G-GUTI text: MCC(3 digits) MNC(2 or 3 digits) AMF id(6 hex) 5G-TMSI(8 hex): 19 or 20 characters
GutiTextOK(t) ==
  /\ Len(t) \in {19, 20}
  /\ \A i \in 1..(Len(t) - 14) : IsDigit(t[i])
  /\ \A i \in (Len(t) - 13)..Len(t) : IsHex(t[i])
\* AMF id text: 6 hex digits
AmfIdTextOK(t) == Len(t) = 6 /\ AllHex(t)
AllZeroHex(t) == \A i \in 1..Len(t) : t[i] = 48
TextHelpers == {"GutiToNasWithError", "GutiToNas", "AmfIdToNasWithError", "AmfIdToNas"}
TextClass(h, t) ==
  CASE h = "GutiToNasWithError" -> IF GutiTextOK(t) THEN "val" ELSE "err"
    [] h = "GutiToNas" -> IF GutiTextOK(t) THEN "val" ELSE "empty"
    [] h = "AmfIdToNasWithError" -> IF AmfIdTextOK(t) THEN "val" ELSE "err"
    [] h = "AmfIdToNas" -> IF AmfIdTextOK(t) /\ ~AllZeroHex(t) THEN "val" ELSE "empty"

AllHelpers == ByteHelpers \cup TextHelpers
=============================================================================
