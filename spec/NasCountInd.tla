---------------------------- MODULE NasCountInd ----------------------------
(* C11, unbounded arguments: the counter laws as an inductive invariant for Apalache.
   Same operators as NasCount.tla, every argument of every operation quantified over its whole type. *)
EXTENDS Integers
VARIABLE
  \* @type: Int;
  c
M == 16777216
OvfOf(x) == x \div 256
SqnOf(x) == x % 256
Init == c \in 0..0
IndInit == c \in Int /\ c >= 0 /\ c < M
Set(o, s)      == c' = o * 256 + s
SetSQN(s)      == c' = OvfOf(c) * 256 + s
SetOverflow(o) == c' = o * 256 + SqnOf(c)
AddOne         == c' = (c + 1) % M
Read           == c' = c
Next == \/ \E o \in Int, s \in Int : o >= 0 /\ o <= 65535 /\ s >= 0 /\ s <= 255 /\ Set(o, s)
        \/ \E s \in Int : s >= 0 /\ s <= 255 /\ SetSQN(s)
        \/ \E o \in Int : o >= 0 /\ o <= 65535 /\ SetOverflow(o)
        \/ AddOne
        \/ Read
\* the property's action clauses, for EVERY argument value (action invariant: Apalache checks it on every transition from IndInit)
IncrDigits(x, y) ==
  IF SqnOf(x) < 255 THEN SqnOf(y) = SqnOf(x) + 1 /\ OvfOf(y) = OvfOf(x)
  ELSE /\ SqnOf(y) = 0
       /\ OvfOf(y) = (IF OvfOf(x) = 65535 THEN 0 ELSE OvfOf(x) + 1)
StepLaws ==
  /\ AddOne => (IncrDigits(c, c') /\ (IF c = M - 1 THEN c' = 0 ELSE c' = c + 1))
  /\ \A s \in Int : (s >= 0 /\ s <= 255 /\ SetSQN(s)) => (OvfOf(c') = OvfOf(c) /\ SqnOf(c') = s)
  /\ \A o \in Int : (o >= 0 /\ o <= 65535 /\ SetOverflow(o)) => (SqnOf(c') = SqnOf(c) /\ OvfOf(c') = o)
  /\ \A o \in Int, s \in Int : (o >= 0 /\ o <= 65535 /\ s >= 0 /\ s <= 255 /\ Set(o, s)) => (OvfOf(c') = o /\ SqnOf(c') = s)
  /\ Read => c' = c
IndInv == /\ c >= 0 /\ c < M
          /\ c = OvfOf(c) * 256 + SqnOf(c)
          /\ OvfOf(c) >= 0 /\ OvfOf(c) <= 65535 /\ SqnOf(c) >= 0 /\ SqnOf(c) <= 255
=============================================================================
