------------------------------ MODULE IeLayout ------------------------------
(* C09 - what "reads and writes exactly its documented bits" means.
   An information element is  [iei, len, oct]:  the identifier and length scalars kept outside
   the contents (-1 when the type has none) and the contents as a sequence of octets.
   A field descriptor (IeFieldTable) documents where a field lives, in the conventions of the
   TS 24.501 figures: row r0 (0-based octet index), start bit sbit (8 = most significant), n bits
   running towards the less significant bits and continuing at bit 8 of the next row.
     bits   n <= 16 bits, within one octet or spanning octets (e.g. 10-bit AMF set id, rows 1-2, bit 8)
     array  whole octets r0..r1 as an octet string of fixed length
     slice  n = INF: the rest of the contents from row r0 (get = copy of oct[r0..], set = copy
            into it: no resize, a longer value is cut, a shorter one leaves the tail)
     iei, len  the scalars
   GetField / SetField are the reference accessors.  They are defined twice for bit fields:
   by octet arithmetic (ExtractBits / ReplaceBits, row by row) and bit by bit (BitAt); stage A
   checks that both agree and satisfy the laws of the property on every type of the table. *)
EXTENDS Integers, Sequences, IeFieldTable

Min(a, b) == IF a < b THEN a ELSE b
Max(a, b) == IF a > b THEN a ELSE b

\* ---- one octet: bits s, s-1, ..., s-n+1 (bit 8 = most significant, bit 1 = least)
ExtractBits(o, s, n)    == (o \div 2^(s - n)) % 2^n
ReplaceBits(o, s, n, v) == o - ExtractBits(o, s, n) * 2^(s - n) + (v % 2^n) * 2^(s - n)

\* ---- bit fields by octet arithmetic, row by row
RECURSIVE GetBits(_, _, _, _)
GetBits(oct, row, s, n) ==
  IF n = 0 THEN 0
  ELSE LET h == Min(n, s) IN ExtractBits(oct[row + 1], s, h) * 2^(n - h) + GetBits(oct, row + 1, 8, n - h)
RECURSIVE SetBits(_, _, _, _, _)
SetBits(oct, row, s, n, v) ==                  \* v is first truncated to n bits by the caller
  IF n = 0 THEN oct
  ELSE LET h == Min(n, s)
       IN SetBits([oct EXCEPT ![row + 1] = ReplaceBits(@, s, h, v \div 2^(n - h))], row + 1, 8, n - h, v % 2^(n - h))

\* ---- the same, bit by bit: position p counts from the most significant bit of row 0
BitAt(oct, p)  == (oct[(p \div 8) + 1] \div 2^(7 - (p % 8))) % 2
FirstPos(f)    == f.r0 * 8 + (8 - f.sbit)
RECURSIVE GetBitsB(_, _, _)
GetBitsB(oct, p, n) == IF n = 0 THEN 0 ELSE BitAt(oct, p) * 2^(n - 1) + GetBitsB(oct, p + 1, n - 1)
\* the octet string that has the bits of v at positions p0 .. p0+n-1 and the bits of oct elsewhere
SetBitsB(oct, p0, n, v) ==
  [i \in 1..Len(oct) |->
     IF (i - 1) * 8 + 7 < p0 \/ (i - 1) * 8 >= p0 + n THEN oct[i]          \* octet wholly outside the field
     ELSE
     LET bit(k) == LET p == (i - 1) * 8 + (7 - k) IN          \* k = 0 is the least significant bit of octet i
                   IF p >= p0 /\ p < p0 + n THEN (v \div 2^(n - 1 - (p - p0))) % 2 ELSE BitAt(oct, p)
     IN bit(0) + 2 * bit(1) + 4 * bit(2) + 8 * bit(3) + 16 * bit(4) + 32 * bit(5) + 64 * bit(6) + 128 * bit(7)]

\* ---- field level
IsScalar(f) == f.kind \in {"bits", "iei", "len"}
LenMod(t)   == 2^t.lenBits
GetField(e, f) ==
  CASE f.kind = "iei"   -> e.iei
    [] f.kind = "len"   -> e.len
    [] f.kind = "bits"  -> GetBits(e.oct, f.r0, f.sbit, f.n)
    [] f.kind = "array" -> SubSeq(e.oct, f.r0 + 1, f.r1 + 1)
    [] f.kind = "slice" -> SubSeq(e.oct, f.r0 + 1, Len(e.oct))
\* v: a number for scalar kinds, an octet string for array / slice
SetField(e, f, v) ==
  CASE f.kind = "iei"   -> [e EXCEPT !.iei = v % 256]
    [] f.kind = "len"   -> [e EXCEPT !.len = v % 2^f.n]
    [] f.kind = "bits"  -> [e EXCEPT !.oct = SetBits(@, f.r0, f.sbit, f.n, v % 2^f.n)]
    [] f.kind = "array" -> [e EXCEPT !.oct = [i \in 1..Len(@) |-> IF i - 1 >= f.r0 /\ i - 1 <= f.r1 THEN v[i - f.r0] ELSE @[i]]]
    [] f.kind = "slice" -> LET k == Min(Len(v), Len(e.oct) - f.r0)
                           IN [e EXCEPT !.oct = [i \in 1..Len(@) |-> IF i > f.r0 /\ i <= f.r0 + k THEN v[i - f.r0] ELSE @[i]]]
\* what set-then-get must return: the value truncated to the field width
Truncated(e, f, v) ==
  CASE f.kind \in {"iei", "len", "bits"} -> v % 2^f.n
    [] f.kind = "array" -> v
    [] f.kind = "slice" -> LET room == Len(e.oct) - f.r0 IN
                           [i \in 1..room |-> IF i <= Len(v) THEN v[i] ELSE e.oct[f.r0 + i]]

\* ---- where a field lives, as a range of bit positions of the contents (scalars: none)
InContents(f) == f.kind \in {"bits", "array", "slice"}
LoPos(f) == IF f.kind = "bits" THEN FirstPos(f) ELSE f.r0 * 8
HiPos(f) == CASE f.kind = "bits" -> FirstPos(f) + f.n - 1
              [] f.kind = "array" -> f.r1 * 8 + 7
              [] OTHER -> 1000000                  \* INF
Overlaps(f, g) == IF InContents(f) /\ InContents(g) THEN LoPos(f) <= HiPos(g) /\ LoPos(g) <= HiPos(f)
                  ELSE f.kind = g.kind             \* a scalar only overlaps itself
\* octets of the contents a field touches (0-based rows), within contents of L octets
Rows(f, L) == IF ~InContents(f) THEN {} ELSE {r \in 0..(L - 1) : r >= LoPos(f) \div 8 /\ r <= HiPos(f) \div 8}
=============================================================================
