INIT Init
NEXT Next
CONSTANTS MaxSets = 2 SecLens = {1, 255, 256, 300} MaxSnssai = 2
INVARIANTS Emit
CHECK_DEADLOCK FALSE
