------------------------------ MODULE MC_C11 ------------------------------
(* Stage A for C11.  MC_C11_full.cfg: every one of the 2^24 counter values is an initial state
   (thorough).  MC_C11.cfg: the boundary window (every SQN x the overflow values around 0, the
   16-bit sign boundary and the top) as sources, through an ACTION_CONSTRAINT, so that every
   transition leaving a window state - including the ones that leave the window, e.g. the carry
   out of overflow 2 - is checked (quick). *)
EXTENDS NasCount
WinOvf  == {0, 1, 2, 32767, 32768, 65534, 65535}
Window  == {o * 256 + s : o \in WinOvf, s \in 0..255}
All     == 0..(M - 1)
McSqn   == {0, 1, 127, 128, 254, 255}
McOvf   == {0, 1, 255, 256, 32767, 32768, 65534, 65535}
McSet   == {<<0, 0>>, <<0, 255>>, <<1, 0>>, <<255, 255>>, <<256, 1>>, <<32767, 255>>, <<32768, 0>>, <<65535, 254>>, <<65535, 255>>}
FullSqn == {0, 128, 255}
FullOvf == {0, 32768, 65535}
FullSet == {<<0, 0>>, <<65535, 255>>}
FromWindow == c \in Window
\* 256 increments = one step of the overflow part, same sequence number (window model only)
Lap == LET y == Iter(c, 256) IN SqnOf(y) = SqnOf(c) /\ OvfOf(y) = (OvfOf(c) + 1) % 65536
\* k increments in a row are one addition of k modulo 2^24
Runs == \A k \in {2, 3, 17, 257} : Iter(c, k) = AddRunF(c, k)
============================================================================
