------------------------------ MODULE MC_X03_rd ------------------------------
(* X03, stage A, law (1) at the level of the readers: every reader of ReceivedMessage is TOTAL on every contents the
   message decoder can hand it - i.e. on every octet string the table slot admits (declared-length bounds, fixed sizes).
   Exhaustive over two small alphabets: all strings up to RdLenA over ten octets that matter to the grammars (type
   octets, length octets, filler nibbles, 0xF2 / 0xF4, 0x80) and all strings up to RdLenB over four octets, each used
   raw and written over the head of the kind's default well-formed contents (so that fixed-size elements and elements
   with a minimum length are reached).  TLC stops with an evaluation error if any operator of Identity, AreaLists,
   Psi, PcoGrammar, QosGrammar, TimersRatesNames, MiscConvert or IeLayout is applied outside its domain.
   RdCases: every case of X03Cases reads as it says on the reader alone. *)
EXTENDS X03Cases
CONSTANTS RdLenA, RdLenB
VARIABLES rdRow, rdC
RdA == {0, 1, 2, 4, 15, 17, 96, 128, 242, 255}
RdB == {0, 1, 3, 255}
RdStrings == UNION {[1..m -> RdA] : m \in 0..RdLenA} \cup UNION {[1..m -> RdB] : m \in 0..RdLenB}
RdSlot(i) == LET M == Msgs[MsgByName(RxBound[i].m)]  at == RxSlotAt(M, RxBound[i].s) IN
             IF at[1] = "mand" THEN M.mand[at[2]] ELSE M.opt[at[2]]
\* one row per distinct (reader, element, slot bounds)
RdRows == {i \in 1..Len(RxBound) : \A j \in 1..(i - 1) : ~(RxBound[j].r = RxBound[i].r /\ RxBound[j].s = RxBound[i].s /\ RdSlot(j) = RdSlot(i))}
RdAdmits(s, c) == IF s.half THEN Len(c) = 1 ELSE IF s.lsz = 0 THEN Len(c) = s.max ELSE LenOk(s, Len(c))
RdOver(str, base) == IF Len(str) >= Len(base) THEN str ELSE str \o SubSeq(base, Len(str) + 1, Len(base))
Init == /\ rdRow \in RdRows
        /\ \E str \in RdStrings : \E over \in BOOLEAN :
             LET base == XcCases(RxBound[rdRow].r, RxBound[rdRow].s)[1].c
                 c == IF over THEN RdOver(str, base) ELSE str IN
             RdAdmits(RdSlot(rdRow), c) /\ rdC = c
Next == UNCHANGED <<rdRow, rdC>>
Spec == Init /\ [][Next]_<<rdRow, rdC>>

RdShape(kind, rs) == LET ab == RxAbsent(kind) IN
                     /\ Len(rs) = Len(ab)
                     /\ \A i \in 1..Len(ab) : rs[i].a = ab[i].a /\ rs[i].b = ab[i].b /\ RxReadingOK(rs[i]) /\ rs[i].st # "absent"
RdTotal == LET row == RxBound[rdRow] IN RdShape(row.r, RxRead(row.r, row.s, rdC))
\* the case tables: admitted by at least one slot or deliberately out of bounds; well-formed ones read as they say
RdCases == \A i \in RdRows : LET cs == XcCases(RxBound[i].r, RxBound[i].s) IN
             \A k \in 1..Len(cs) : XcCaseOK(RxBound[i].r, RxBound[i].s, cs[k])
ASSUME RdCases
=============================================================================
