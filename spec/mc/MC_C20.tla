---- MODULE MC_C20 ----
(* Exhaustive model of the allocator as implemented, for every small range.
   Because `last` carries the pre-state (live set, scan offset), the operation, its arguments
   and its result, every distinct state IS one edge of the underlying state graph;
   EmitEdge prints each as JSON so that the harness can replay every edge on the real code. *)
EXTENDS IdAllocImpl, Json
EmitEdge == PrintT(ToJson([minv |-> minv, maxv |-> maxv, op |-> last.op, a |-> last.a, b |-> last.b,
                           id |-> last.id, ok |-> last.ok, pre |-> last.pre, poff |-> last.poff,
                           off |-> offset, used |-> used]))
====
