SPECIFICATION Spec
CONSTANTS MaxComps = 1 MaxParams = 1 UnkComp = {0, 255} UnkParam = {0, 8} FullUnk = {}
PROPERTIES Terminates MeasureDecreases
