SPECIFICATION Spec
CONSTANTS Cells = {1} Algs = {0, 1, 2, 3, 4, 255} Keys = {1} Counts = {7} Bearers = {0, 31, 32, 255} Dirs = {0, 1, 2, 255}
          Sym = {0, 1} MaxLen = 1 Pats <- OnePat MacVals <- TwoMacs MaxRes = 0 MacTop = 1 Nil = Nil MaxPoints = 1 WithNil = TRUE
INVARIANTS TypeOK Accounting LengthPreserved Involution
PROPERTIES ErrUntouched GuardExact NullIdentity MacShape MacPure
CHECK_DEADLOCK FALSE
