INIT GenInit
NEXT Halt
CONSTANTS MaxComps = 2 MaxParams = 3 UnkComp = {0, 2, 33, 35, 136, 255} UnkParam = {0, 8, 255} FullUnk = {"mix"}
INVARIANTS EmitCase
CHECK_DEADLOCK FALSE
