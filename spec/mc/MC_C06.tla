------------------------------- MODULE MC_C06 -------------------------------
(* Stage A for C06: the reference operators are validated on every run, independently of the Go code.
   Each state of this specification is one proof obligation (`item`); TLC evaluates all of them (in
   parallel) and the invariant ItemOK must hold for every one:
     * every published vector of tables/vectors (SNOW 3G and ZUC keystream sets, UEA2/128-EEA1, 128-EEA2,
       128-EEA3 test sets, FIPS-197 blocks, SP 800-38A CTR) is reproduced bit for bit;
     * table laws, exhaustively over all octets: the four S-boxes are permutations, MUL_alpha and DIV_alpha are
       inverse GF(2^32) maps;
     * every frozen 128-EEA3 corner point (tables/vectors/zuc_corners.json) does drive THIS model's LFSR into the stated rare
       case of the arithmetic modulo 2^31-1 at the stated clock (so the generated cases built on them cover those branches);
     * laws of the confidentiality functions on every bit length 0..MaxBits for every algorithm: involution,
       bit-prefix stability (the first m bits of EEA(d, n) are EEA(d, m)), keystream independence of the
       plaintext, the NULL algorithm, dependence on DIRECTION and BEARER only through the specified IV octet. *)
EXTENDS Eea, Json, TLC, FiniteSets
CONSTANTS MaxBits
VARIABLE item
V1 == JsonDeserialize("eea1.json").cases
V2 == JsonDeserialize("eea2.json").cases
V3 == JsonDeserialize("eea3.json").cases
VS == JsonDeserialize("snow3g.json").cases
VZ == JsonDeserialize("zuc.json").cases
VA == JsonDeserialize("aes.json")
KC == JsonDeserialize("ks_corners.json")           \* frozen keystream corner points: a word equal to its predecessor, all zero, all ones
ZC == JsonDeserialize("zuc_corners.json")          \* frozen corner points of the ZUC arithmetic (tools/zuccorners)
IdxOf(s) == 1..Len(s)
Items ==
  ({"eea1"} \X IdxOf(V1) \X {0}) \cup ({"eea2"} \X IdxOf(V2) \X {0}) \cup ({"eea3"} \X IdxOf(V3) \X {0})
  \cup ({"snow3g"} \X IdxOf(VS) \X {0}) \cup ({"zuc"} \X IdxOf(VZ) \X {0})
  \cup ({"aesblock"} \X IdxOf(VA.block) \X {0}) \cup ({"aesctr"} \X IdxOf(VA.ctr) \X {0})
  \cup ({"zuccorner"} \X {i \in IdxOf(ZC) : ZC[i].kind = "eea3"} \X {0})
  \cup ({"kscorner"} \X IdxOf(KC) \X {0})
  \cup ({"perm"} \X (1..4) \X {0})
  \cup ({"alpha"} \X (1..4) \X (0..255))
  \cup ({"laws"} \X (0..3) \X (0..MaxBits))
Perm(T) == Len(T) = 256 /\ {T[i] : i \in 1..256} = 0..255
WordAt(pos, c) == [i \in 1..4 |-> IF i = pos THEN c ELSE (37 * i + c) % 256]
\* deterministic test material for the laws
LK == V1[1].key
LC == V3[1].cnt
Pat(n, salt) == SubSeq([i \in 1..n |-> (i * 73 + salt * 151 + (i * i) * 31) % 256], 1, n)
Laws(alg, n) ==
  LET nb == NBytes(n)
      d == Pat(nb, 1)  d2 == Pat(nb, 2)
      c == EEA(alg, LK, LC, 13, 1, d, n)
      c2 == EEA(alg, LK, LC, 13, 1, d2, n)
  IN /\ IsOctets(c, nb)
     /\ EEA(alg, LK, LC, 13, 1, c, n) = MaskBits(d, n)                               \* involution
     /\ XorS(c, MaskBits(d, n)) = XorS(c2, MaskBits(d2, n))                           \* keystream independent of the plaintext
     /\ \A m \in {0, n \div 2, n - 1} : m >= 0 => EEA(alg, LK, LC, 13, 1, d, m) = MaskBits(c, m)   \* bit-prefix stability
     /\ alg = 0 => c = MaskBits(d, n)
     /\ (alg # 0 /\ n >= 32) => /\ EEA(alg, LK, LC, 13, 0, d, n) # c                  \* DIRECTION, BEARER, COUNT and key all matter
                                /\ EEA(alg, LK, LC, 12, 1, d, n) # c
                                /\ EEA(alg, LK, [LC EXCEPT ![4] = (@ + 1) % 256], 13, 1, d, n) # c
                                /\ EEA(alg, [LK EXCEPT ![16] = (@ + 1) % 256], LC, 13, 1, d, n) # c
ItemOK ==
  LET k == item[1]  i == item[2]  j == item[3] IN
  CASE k = "eea1" -> LET c == V1[i] IN EEA1(c.key, c.cnt, c.bearer, c.dir, c.data, c.nbits) = MaskBits(c.out, c.nbits)
    [] k = "eea2" -> LET c == V2[i] IN EEA2(c.key, c.cnt, c.bearer, c.dir, c.data, c.nbits) = MaskBits(c.out, c.nbits)
    [] k = "eea3" -> LET c == V3[i] IN EEA3(c.key, c.cnt, c.bearer, c.dir, c.data, c.nbits) = MaskBits(c.out, c.nbits)
    [] k = "snow3g" -> LET c == VS[i] IN Snow3gWords(c.key, c.iv, Len(c.out) \div 4) = c.out
    [] k = "zuc" -> LET c == VZ[i] IN ZucWords(c.key, c.iv, Len(c.out) \div 4) = c.out
    [] k = "aesblock" -> LET c == VA.block[i] IN AES!Encrypt(c.key, c.data) = c.out
    [] k = "aesctr" -> LET c == VA.ctr[i] IN AES!CtrXor(c.key, c.ctr, c.data) = c.out
    [] k = "zuccorner" -> LET c == ZC[i] IN ZUC!CornerReached(c.key, EEA3iv(c.cnt, c.bearer, c.dir), c.clock, c.pred)
    [] k = "kscorner" -> LET c == KC[i]  n == c.word + 1
                             ks == IF c.alg = 1 THEN EEA1ks(c.key, c.cnt, c.bearer, c.dir, 32 * n)
                                   ELSE ZUC!ZucBytes(c.key, EEA3iv(c.cnt, c.bearer, c.dir), n)
                             w(q) == SubSeq(ks, 4 * q - 3, 4 * q)
                         IN CASE c.pred = "word_repeats" -> w(c.word) = w(c.word + 1)
                              [] c.pred = "zero_word" -> w(c.word) = <<0, 0, 0, 0>>
                              [] c.pred = "ones_word" -> w(c.word) = <<255, 255, 255, 255>>
                              [] OTHER -> FALSE
    [] k = "perm" -> Perm(CASE i = 1 -> S3G!SR [] i = 2 -> S3G!SQ [] i = 3 -> ZUC!ZS0 [] OTHER -> ZUC!ZS1)
    [] k = "alpha" -> LET w == WordAt(i, j) IN S3G!DivAlphaW(S3G!MulAlphaW(w)) = w /\ S3G!MulAlphaW(S3G!DivAlphaW(w)) = w
    [] k = "laws" -> Laws(i, j)
    [] OTHER -> TRUE
\* root -> NGroups group nodes -> the items of the group: every TLC worker takes groups from the queue
NGroups == 24
Init == item = <<"root", 0, 0>>
Hash(it) == (it[2] * 7 + it[3] * 13 + Len(it[1])) % NGroups
Next == \/ item[1] = "root" /\ \E g \in 0..(NGroups - 1) : item' = <<"group", g, 0>>
        \/ item[1] = "group" /\ \E it \in Items : Hash(it) = item[2] /\ item' = it
Spec == Init /\ [][Next]_item
==============================================================================
