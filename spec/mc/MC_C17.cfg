SPECIFICATION Spec
CONSTANTS Groups = 16 NameLen2 = 12 NameLen4 = 6 Chunk = 4096 T3Dense = 131071 AmbrAllPairs = FALSE
INVARIANT Laws
CHECK_DEADLOCK FALSE
