------------------------------- MODULE MC_C18 -------------------------------
(* Stage A for C18: the laws of UePolicy on exhaustively enumerated small domains.
   ASSUMEs (evaluated once):
     RoundTripList / RoundTripResult / RoundTripMsg   Parse(Marshal(x)) = x for every structure with
                        at most MaxSub x MaxIns x MaxPart nesting and small contents
     LenPosSound        the length-field positions are inside the encoding, one per element (+ the IE)
     PlmnExample        208/93 -> 02 F8 39
     PlmnDigitsRoundTrip every MCC (3 digits) x every MNC (2 or 3 digits, leading zeros included)
     PlmnIntRoundTrip   the integer form used by the API on all MCC x boundary MNC and vice versa
   State space: the parser machine of UePolicyParser started on every input of the generator tree
   (every prefix of every encoding, every length field replaced by -1, +1, 0, 1, 2, 0xFFFF) of the
   structures up to MachSub x MachIns x MachPart: MeasureNat, StepBound, AgreesWithSpec, Canonical,
   MeasureDecreases, and no deadlock (the machine never gets stuck). *)
EXTENDS UePolicyParser
CONSTANTS MaxSub, MaxIns, MaxPart, MaxRes, MachSub, MachIns, MachPart, MachRes, FullPlmn

SeqsUpTo(S, n) == UNION {[1..k -> S] : k \in 0..n}
Plmn0 == << 2, 248, 57 >>
PartSet == [ty : {1}, c : {<< >>, << 7 >>}]
InstrSet(np) == [upsc : {258}, parts : SeqsUpTo(PartSet, np)]
SubSet(ni, np) == [plmn : {Plmn0}, ins : SeqsUpTo(InstrSet(np), ni)]
Lists(ns, ni, np) == SeqsUpTo(SubSet(ni, np), ns)
ResSet == [upsc : {1, 65535}, ord : {2}, cause : {UeCauseUnspecified}]
SubResSet(nr) == [plmn : {Plmn0}, rs : SeqsUpTo(ResSet, nr)]
Results(ns, nr) == SeqsUpTo(SubResSet(nr), ns)
Msgs == {UeMsg(5, 1, 9, x, << >>, cm) : x \in Lists(2, 2, 1), cm \in {<< >>, << 66, 1 >>}}
        \cup {UeMsg(5, 2, 0, << >>, << >>, << >>)}
        \cup {UeMsg(5, 3, 9, << >>, x, << >>) : x \in Results(2, 2)}

RoundTripList == \A x \in Lists(MaxSub, MaxIns, MaxPart) : UeParseSubs(UeMarshalSubs(x)) = UeOk(x)
RoundTripResult == \A x \in Results(MaxSub, MaxRes) : UeParseSubRess(UeMarshalSubRess(x)) = UeOk(x)
RoundTripMsg == \A m \in Msgs : UeParseMsg(UeMarshalMsg(m)) = UeOk(m)
RECURSIVE CountParts(_)
CountParts(is) == IF is = << >> THEN 0 ELSE 1 + Len(Head(is).parts) + CountParts(Tail(is))
RECURSIVE CountList(_)
CountList(ss) == IF ss = << >> THEN 0 ELSE 1 + CountParts(Head(ss).ins) + CountList(Tail(ss))
LenPosSound ==
  /\ \A m \in Msgs : LET b == UeMarshalMsg(m) lp == UeLenPosMsg(m) IN
        /\ \A p \in lp : p + 1 + UeU16(b, p) <= Len(b)
        /\ m.type = 1 => Cardinality(lp) = 1 + CountList(m.subs)
        /\ m.type = 3 => Cardinality(lp) = 1 + Len(m.srs)
        /\ UeProjMsg(m).len = (IF m.type = 2 THEN 0 ELSE UeU16(b, 4))
  /\ \A x \in Lists(2, 2, 1) : LET b == UeMarshalSubs(x) IN
        \A p \in UeLenPosSubs(x, 1) : p + 1 + UeU16(b, p) <= Len(b)
UnknownTypesRejected == \A t \in (0..255) \ {1, 2, 3} : ~UeParseMsg(<< 5, t >>).ok /\ ~UeParseMsg(<< 5, t, 9, 0, 0 >>).ok

Digit == 0..9
PlmnExample == /\ UePlmnToOctets(208, 93) = << 2, 248, 57 >>
               /\ UePlmnToOctets(1, 1) = << 0, 241, 16 >>
               /\ UePlmnToOctets(310, 410) = << 19, 0, 20 >>
               /\ UeOctetsToPlmn(<< 2, 248, 57 >>) = << 208, 93 >>
PlmnDigitsRoundTrip ==
  \A a \in Digit, b \in Digit, c \in Digit, d \in Digit, e \in Digit :
     LET mccd == << a, b, c >> IN
     /\ LET o == UePlmnDigitsToOctets(mccd, << d, e >>) IN
          UePlmnWellFormed(o) /\ UeOctetsToPlmnDigits(o) = [mccd |-> mccd, mncd |-> << d, e >>]
     /\ \A f \in Digit :
          LET o == UePlmnDigitsToOctets(mccd, << d, e, f >>) IN
          UePlmnWellFormed(o) /\ UeOctetsToPlmnDigits(o) = [mccd |-> mccd, mncd |-> << d, e, f >>]
BoundaryMnc == {0, 1, 9, 10, 11, 12, 19, 20, 21, 89, 90, 98, 99, 100, 101, 102, 109, 110, 111, 120, 123, 199, 200, 210, 321, 899, 900, 909, 910, 989, 990, 998, 999}
BoundaryMcc == {0, 1, 9, 10, 99, 100, 101, 102, 109, 110, 111, 120, 123, 199, 200, 208, 210, 310, 321, 460, 802, 899, 900, 901, 909, 910, 989, 990, 998, 999}
PlmnPairs == IF FullPlmn THEN (0..999) \X (0..999)
             ELSE ((0..999) \X BoundaryMnc) \cup (BoundaryMcc \X (0..999))
\* an MNC given as an integer >= 100 is a three-digit MNC, below 100 a two-digit MNC
PlmnIntRoundTrip == \A pr \in PlmnPairs : LET o == UePlmnToOctets(pr[1], pr[2]) IN
                       UePlmnWellFormed(o) /\ UeOctetsToPlmn(o) = pr /\ (pr[2] < 100 <=> o[2] \div 16 = 15)

ASSUME RoundTripList
ASSUME RoundTripResult
ASSUME RoundTripMsg
ASSUME LenPosSound
ASSUME UnknownTypesRejected
ASSUME PlmnExample
ASSUME PlmnDigitsRoundTrip
ASSUME PlmnIntRoundTrip

\* ---- the generator tree of malformed inputs
MutVals(o) == {v \in {o - 1, o + 1, 0, 1, 2, 65535} : v >= 0 /\ v <= 65535}
Muts(b, lp) == {SubSeq(b, 1, n) : n \in 0..Len(b)} \cup UNION {{UePatch16(b, p, v) : v \in MutVals(UeU16(b, p))} : p \in lp}
\* An initial state holds one structure (its encoding and length-field positions); the first step
\* picks one input of its mutation tree, then the machine runs.  (Choosing the input in a step rather
\* than in Init lets all workers share the enumeration.)
VARIABLE src
Sources ==
  {[b |-> UeMarshalSubs(x), lp |-> UeLenPosSubs(x, 1), g |-> "list"] : x \in Lists(MachSub, MachIns, MachPart)}
  \cup {[b |-> UeMarshalSubRess(x), lp |-> UeLenPosSubRess(x, 1), g |-> "result"] : x \in Results(MachSub, MachRes)}
MInit == /\ src \in Sources
         /\ inp = << >> /\ gram = src.g /\ pos = 1 /\ status = "pick" /\ steps = 0
         /\ stack = << Frame(1, [k |-> "top"]) >>
Pick == /\ status = "pick"
        /\ \E b \in Muts(src.b, src.lp) : PStart(b, src.g)
        /\ UNCHANGED src
MNext == Pick \/ (status # "pick" /\ PNext /\ UNCHANGED src)
MSpec == MInit /\ [][MNext]_<< pvars, src >>
=============================================================================
