INIT PbInit
NEXT PbNext
CONSTANTS PbIps <- IpsSmall PbMtus <- MtusSmall PbMaxOps = 2
INVARIANTS PbNoRefusal
CHECK_DEADLOCK FALSE
