---------------------------- MODULE MC_C14gen ----------------------------
(* Stage B for C14: boundary strings from the case structure of the specification (every length
   guard +- 1 for the fixed layouts; for the list walkers entries whose length octet points at,
   just before and past the end, zero-length entries, maximal length octets; texts of boundary
   lengths with one foreign character).  One JSON case per state, with the specification's class. *)
EXTENDS Helpers, TLC, Json
VARIABLE case
Fill(x, k) == [i \in 1..k |-> x]
Around(S) == {y \in UNION {{g - 1, g, g + 1} : g \in S} : y >= 0}
\* lengths at which the layout of the helper changes (minimum lengths, exact lengths, optional parts)
Guards(x) ==
  CASE x \in {"SuciToStringWithError", "SuciToString"} -> {1, 2, 9}
    [] x = "NaiToString" -> {1, 2}
    [] x \in {"GutiToStringWithError", "GutiToString"} -> {1, 11}
    [] x \in {"PeiToStringWithError", "PeiToString"} -> {1, 8, 9}
    [] x = "SnssaiToModels" -> {1, 4, 5, 8}
    [] x = "UESecurityCapabilityToByteArray" -> {2, 3, 4, 8}
    [] x = "PSIToBooleanArray" -> {2}
    [] x = "UpuAckToModels" -> {1, 17}
    [] x = "DecodeLocalTimeZone" -> {1}
    [] x = "DecodeDaylightSavingTime" -> {1}
    [] x = "DecodeUniversalTimeAndLocalTimeZone" -> {7}
    [] x = "PlmnIDToString" -> {3}
    [] OTHER -> {1, 2, 3, 4, 5, 7, 9, 11, 12}          \* getters: every field offset of the identity layouts
FirstOctets == {0, 1, 9, 17, 33, 2, 242, 3, 11, 4, 244, 5, 13, 6, 7, 255}
Fillers == {0, 33, 240, 255}
FixedCases(x) ==
  {<<>>} \cup {<<f>> \o Fill(p, len - 1) : f \in FirstOctets, p \in Fillers, len \in (Around(Guards(x)) \ {0})}

\* list walkers: concatenations of entries  <<L>> \o payload, payload shorter / equal / longer than L
EntryLens(x) == IF x = "RequestedNssaiToModels" THEN {0, 1, 2, 3, 4, 5, 6, 8, 9} ELSE {0, 1, 2, 3, 5, 9}
Entries(x) == UNION {{<<L>> \o Fill(p, k) : p \in {0, 65}, k \in {y \in {0, L - 1, L, L + 1} : y >= 0 /\ y <= 10}}
                     : L \in EntryLens(x)}
SmallEntries(x) == UNION {{<<L>> \o Fill(65, k) : k \in {y \in {L - 1, L} : y >= 0}} : L \in {0, 1, 2}}
LoopCases(x) ==
  {<<>>} \cup Entries(x) \cup {a \o b : a, b \in Entries(x)}
  \cup {a \o b \o c : a, b, c \in SmallEntries(x)}
  \cup {<<255>> \o Fill(65, k) : k \in {0, 254, 255, 256}}
  \cup {<<1, 65, 255>> \o Fill(65, k) : k \in {253, 254, 255}}

\* texts: boundary lengths beyond the exhaustive sweep, one foreign character at chosen positions
TextBase == {48, 57, 97, 70}
TextLens == {7, 8, 10, 12, 18, 19, 20, 21, 24}
TextCases ==
  UNION {{Fill(b, len)} \cup {[Fill(b, len) EXCEPT ![i] = c] : c \in {103, 233, 97}, i \in {1, 3, 5, 6, 7, len - 8, len - 7, len} \cap (1..len)}
         : b \in TextBase, len \in TextLens}

GenCases ==
  UNION {{[h |-> x, text |-> FALSE, in |-> SubSeq(s, 1, Len(s))] : s \in FixedCases(x)} : x \in ByteHelpers \ LoopHelpers} \* SubSeq: force a tuple
  \cup UNION {{[h |-> x, text |-> FALSE, in |-> s] : s \in LoopCases(x)} : x \in LoopHelpers}
  \cup {[h |-> x, text |-> TRUE, in |-> SubSeq(s, 1, Len(s))] : x \in TextHelpers, s \in TextCases}

GenInit == case \in GenCases
GenNext == FALSE /\ UNCHANGED case
GenSpec == GenInit /\ [][GenNext]_case
\* each case is printed with the class the specification gives it
Emit == PrintT(ToJson([h |-> case.h, text |-> case.text, in |-> case.in,
                       cls |-> IF case.text THEN TextClass(case.h, case.in) ELSE ByteClass(case.h, case.in)]))
GenTotal == (IF case.text THEN TextClass(case.h, case.in) ELSE ByteClass(case.h, case.in)) \in Classes
=============================================================================
