---------------------------- MODULE MC_C14gen ----------------------------
(* Stage B for C14: boundary strings from the case structure of the specification (every length
   guard +- 1 for the fixed layouts; for the list walkers entries whose length octet points at,
   just before and past the end, zero-length entries, maximal length octets; texts of boundary
   lengths with one foreign character; WELL-FORMED lists of many entries for the list walkers: every count
   0..20 and 32, 64, 127 of every entry form, mixed forms, and lists filling the maximum IE length).
   One JSON case per state, with the specification's class. *)
EXTENDS Helpers, TLC, Json
VARIABLE case
Fill(x, k) == [i \in 1..k |-> x]
Around(S) == {y \in UNION {{g - 1, g, g + 1} : g \in S} : y >= 0}
\* lengths at which the layout of the helper changes (minimum lengths, exact lengths, optional parts)
Guards(x) ==
  CASE x \in {"SuciToStringWithError", "SuciToString"} -> {1, 2, 9}
    [] x = "NaiToString" -> {1, 2}
    [] x \in {"GutiToStringWithError", "GutiToString"} -> {1, 11}
    [] x \in {"PeiToStringWithError", "PeiToString"} -> {1, 8, 9}
    [] x = "SnssaiToModels" -> {1, 4, 5, 8}
    [] x = "UESecurityCapabilityToByteArray" -> {2, 3, 4, 8}
    [] x = "PSIToBooleanArray" -> {2}
    [] x = "UpuAckToModels" -> {1, 17}
    [] x = "DecodeLocalTimeZone" -> {1}
    [] x = "DecodeDaylightSavingTime" -> {1}
    [] x = "DecodeUniversalTimeAndLocalTimeZone" -> {7}
    [] x = "PlmnIDToString" -> {3}
    [] OTHER -> {1, 2, 3, 4, 5, 7, 9, 11, 12}          \* getters: every field offset of the identity layouts
FirstOctets == {0, 1, 9, 17, 33, 2, 242, 3, 11, 4, 244, 5, 13, 6, 7, 255}
Fillers == {0, 33, 240, 255}
FixedCases(x) ==
  {<<>>} \cup {<<f>> \o Fill(p, len - 1) : f \in FirstOctets, p \in Fillers, len \in (Around(Guards(x)) \ {0})}

\* list walkers: concatenations of entries  <<L>> \o payload, payload shorter / equal / longer than L
EntryLens(x) == IF x = "RequestedNssaiToModels" THEN {0, 1, 2, 3, 4, 5, 6, 8, 9} ELSE {0, 1, 2, 3, 5, 9}
Entries(x) == UNION {{<<L>> \o Fill(p, k) : p \in {0, 65}, k \in {y \in {0, L - 1, L, L + 1} : y >= 0 /\ y <= 10}}
                     : L \in EntryLens(x)}
SmallEntries(x) == UNION {{<<L>> \o Fill(65, k) : k \in {y \in {L - 1, L} : y >= 0}} : L \in {0, 1, 2}}
LoopCases(x) ==
  {<<>>} \cup Entries(x) \cup {a \o b : a, b \in Entries(x)}
  \cup {a \o b \o c : a, b, c \in SmallEntries(x)}
  \cup {<<255>> \o Fill(65, k) : k \in {0, 254, 255, 256}}
  \cup {<<1, 65, 255>> \o Fill(65, k) : k \in {253, 254, 255}}

\* well-formed lists with many entries (a result that grows per entry must cope with every count the IE can carry)
ManyCounts == (0..20) \cup {32, 64, 127}
MaxIE(x) == IF x = "LadnToModels" THEN 808 ELSE 255      \* contents of an 8-bit-length IE / of the LADN indication (TLV-E, 3-811)
FormSeq(x) == CASE x = "RequestedNssaiToModels" -> <<1, 2, 4, 5, 8>>     \* the S-NSSAI value lengths
                [] x = "LadnToModels" -> <<3, 0, 9, 1, 100>>             \* DNN value lengths (0: empty DNN)
                [] x = "DNN.GetDNN" -> <<3, 1, 9, 2, 62>>                \* label lengths
Forms(x) == {FormSeq(x)[i] : i \in 1..Len(FormSeq(x))}
WfEntry(f, p) == <<f>> \o Fill(p, f)
RECURSIVE Repeat(_, _)
Repeat(e, n) == IF n = 0 THEN <<>> ELSE e \o Repeat(e, n - 1)
RECURSIVE MixedFrom(_, _, _)
MixedFrom(fs, i, n) == IF n = 0 THEN <<>> ELSE WfEntry(fs[((i - 1) % Len(fs)) + 1], 65) \o MixedFrom(fs, i + 1, n - 1)
ManyCases(x) ==
  {s \in UNION {{Repeat(WfEntry(f, p), n) : p \in {65, 1}, n \in ManyCounts} : f \in Forms(x)} : Len(s) <= MaxIE(x)}
  \cup {Repeat(WfEntry(f, 65), MaxIE(x) \div (f + 1)) : f \in Forms(x)}                 \* as many as the IE can carry
  \cup {Repeat(WfEntry(f, 65), (MaxIE(x) - (g + 1)) \div (f + 1)) \o WfEntry(g, 65) : f, g \in Forms(x)}   \* filling the maximum length
  \cup {s \in {MixedFrom(FormSeq(x), k, n) : k \in 1..2, n \in ManyCounts} : Len(s) <= MaxIE(x)}
\* long contents for the helpers that build their text octet by octet
LongFixed(x) == IF x \in {"SnssaiToModels", "DecodeLocalTimeZone", "DecodeDaylightSavingTime", "DecodeUniversalTimeAndLocalTimeZone"} THEN {}
                ELSE {<<f>> \o Fill(p, len - 1) : f \in {1, 17, 3, 13, 242}, p \in {0, 33}, len \in {32, 255, 300}}

\* identity contents by NIBBLE structure (TS 24.501 9.11.3.4: type of identity and odd/even indication in the first octet,
\* then BCD digits two per octet, 0xF as filler): every type x odd/even x a decimal / zero high half, at the exact
\* and exact+1 lengths of the layouts, all octets decimal digits, and ONE octet replaced by a non-decimal low nibble, a
\* non-decimal high nibble, a filler in either half, both - at every position.  Code that computes with digits
\* (check digits, digit counts, table look-ups by digit) meets its corner here, not under random octets.
IdentityHelpers == GetterNames \cup {"SuciToStringWithError", "SuciToString", "NaiToString", "GutiToStringWithError", "GutiToString",
                                     "PeiToStringWithError", "PeiToString"}
NibFirst == {ty + 8 * odd + 16 * hi : ty \in 0..7, odd \in 0..1, hi \in {0, 9}}
NibLens(x) == IF x \in GetterNames THEN {4, 8, 11} ELSE {g + d : g \in Guards(x) \cap 3..12, d \in 0..1} \cup {8}
NibBases == {33, 9}                            \* 0x21, 0x09
NibForeign == {10, 160, 15, 171}               \* 0x0A, 0xA0, 0x0F, 0xAB
NibbleCases(x) ==
  IF x \notin IdentityHelpers THEN {}
  ELSE UNION {{<<f>> \o Fill(p, len - 1)} \cup {[(<<f>> \o Fill(p, len - 1)) EXCEPT ![i] = q] : i \in 2..len, q \in NibForeign}
              : f \in NibFirst, p \in NibBases, len \in NibLens(x)}

\* SUCI contents by the structure of TS 24.501 9.11.3.4 / TS 33.501 Annex C: SUPI format x type, PLMN, routing indicator,
\* protection scheme identifier (null, ECIES profile A, profile B, reserved, proprietary), home network public key identifier,
\* and a scheme output that begins like an elliptic-curve point (02/03 compressed, 04 uncompressed) or not, at the lengths
\* where the profiles' parts begin and end (ephemeral key 32 / 33 / 65 octets, MAC tag 8 octets, MSIN up to 5 octets).
SuciHelpers == {"SuciToStringWithError", "SuciToString", "GetSUCI", "GetMobileIdentity", "NaiToString"}
SuciSchemeLens == {0, 1, 8, 9, 32, 33, 39, 40, 41, 42, 45, 46, 47, 64, 65, 72, 73, 74, 78, 100}
SuciCases(x) ==
  IF x \notin SuciHelpers THEN {}
  ELSE {<<fmt * 16 + 1, 2, 248, 57, 240, 255, sch, pki>> \o (IF n = 0 THEN <<>> ELSE <<first>> \o Fill(fillv, n - 1))
        : fmt \in {0, 1, 2}, sch \in {0, 1, 2, 3, 12, 15}, pki \in {0, 255}, first \in {2, 3, 4, 0}, fillv \in {33, 255}, n \in SuciSchemeLens}

\* DNN contents from the vocabulary of TS 23.003 9.1 / 9A (operator identifier mnc<MNC>.mcc<MCC>.gprs, the 3gppnetwork.org
\* realm) in every combination of up to four labels, upper and lower case, with the empty label: code that looks for these
\* words meets its corner cases (the word alone, too few labels before it, repeated) here.
Vocab == << <<103, 112, 114, 115>>, <<71, 80, 82, 83>>, <<109, 110, 99, 48, 48, 49>>, <<109, 99, 99, 48, 48, 49>>,
           <<111, 114, 103>>, <<51, 103, 112, 112, 110, 101, 116, 119, 111, 114, 107>>, <<97>>, <<>>, <<77, 67, 67>>, <<109, 110, 99>> >>
Label(k) == <<Len(Vocab[k])>> \o Vocab[k]
VocabCases(x) ==
  IF x # "DNN.GetDNN" THEN {}
  ELSE LET V == 1..Len(Vocab) IN
       {Label(a) : a \in V} \cup {Label(a) \o Label(b) : a, b \in V} \cup {Label(a) \o Label(b) \o Label(c) : a, b, c \in V}
       \cup {Label(a) \o Label(b) \o Label(c) \o Label(d) : a, b \in V, c, d \in 1..5}

\* texts: boundary lengths beyond the exhaustive sweep, one foreign character at chosen positions
TextBase == {48, 57, 97, 70}
TextLens == {7, 8, 10, 12, 18, 19, 20, 21, 24}
TextCases ==
  UNION {{Fill(b, len)} \cup {[Fill(b, len) EXCEPT ![i] = c] : c \in {103, 233, 97}, i \in {1, 3, 5, 6, 7, len - 8, len - 7, len} \cap (1..len)}
         : b \in TextBase, len \in TextLens}

CasesOf(x) ==
  IF x \in TextHelpers THEN {[h |-> x, text |-> TRUE, wf |-> FALSE, in |-> SubSeq(s, 1, Len(s))] : s \in TextCases}   \* SubSeq: force a tuple
  ELSE IF x \in LoopHelpers
       THEN {[h |-> x, text |-> FALSE, wf |-> FALSE, in |-> s] : s \in (LoopCases(x) \cup VocabCases(x)) \ ManyCases(x)}
            \cup {[h |-> x, text |-> FALSE, wf |-> TRUE, in |-> s] : s \in ManyCases(x)}
       ELSE {[h |-> x, text |-> FALSE, wf |-> FALSE, in |-> SubSeq(s, 1, Len(s))] : s \in FixedCases(x) \cup LongFixed(x) \cup NibbleCases(x) \cup SuciCases(x)}
ClassOfCase(c) == IF c.text THEN TextClass(c.h, c.in) ELSE ByteClass(c.h, c.in)

\* The cases of one helper are printed while the invariant is evaluated on that helper's state; the state graph is
\* root -> group -> helper so that TLC's workers share the helpers (initial states are generated by one thread only).
Groups == <<{"RequestedNssaiToModels"}, {"LadnToModels"}, {"DNN.GetDNN"}, TextHelpers, GetterNames,
            AllHelpers \ (LoopHelpers \cup TextHelpers \cup GetterNames)>>
GenInit == case = <<"root">>
GenNext ==
  \/ case[1] = "root" /\ case' \in {<<"g", i>> : i \in 1..Len(Groups)}
  \/ case[1] = "g" /\ case' \in {<<"h", x>> : x \in Groups[case[2]]}
GenSpec == GenInit /\ [][GenNext]_case
\* each case is printed with the class the specification gives it; then the number of cases of the helper
Emit ==
  case[1] = "h" =>
    /\ \A c \in CasesOf(case[2]) : PrintT(ToJson([h |-> c.h, text |-> c.text, in |-> c.in, cls |-> ClassOfCase(c)]))
    /\ PrintT(<<"COUNT", case[2], Cardinality(CasesOf(case[2]))>>)
\* a well-formed list is a value whatever the number of entries (the empty list is the empty result)
WellFormedIsValue == case[1] = "h" => \A c \in CasesOf(case[2]) : c.wf => ClassOfCase(c) = (IF Len(c.in) = 0 THEN "empty" ELSE "val")
GenTotal == case[1] = "h" => \A c \in CasesOf(case[2]) : ClassOfCase(c) \in Classes
=============================================================================
