------------------------------- MODULE MC_X02 -------------------------------
(* Stage A for X02, the finite tables: one enumeration variable x.
     MC_X02.cfg       x in 0..65535: the laws of PDU session type, ngKSI, 5G-S-TMSI text, hexadecimal
                      text, header octets for EVERY octet / octet pair / (AMF set id, AMF pointer)
     MC_X02_plmn.cfg  x = 1000 * mcc + mnc: GetPlmnDigit's oracle inverts the PLMN octets of C18
                      (11 MCC rows; MC_X02_plmn_all.cfg: all 1 000 000 pairs) *)
EXTENDS MiscConvert
CONSTANTS Mccs
VARIABLE x
Init == x \in 0..65535
InitPlmn == x \in {1000 * m + n : m \in Mccs, n \in 0..999}
InitPlmnAll == x \in 0..999999          \* every MCC 0..999 with every MNC 0..999
Next == UNCHANGED x

hi == x \div 256
lo == x % 256
\* ---- PDU session type: total on every octet; the five assigned values and the five names are inverse
PduLaws == /\ McPduName(lo) \in McPduNames \cup {"?"}
           /\ lo \in McPduAssigned => McPduValue(McPduName(lo)) = lo
           /\ lo \in McPduUnused => McPduName(lo) = "IPV4V6"
           /\ (lo % 8 = lo /\ lo # 7) => McPduName(lo) \in McPduNames        \* every 3-bit value except the reserved one has a meaning
           /\ \A n \in McPduNames : McPduName(McPduValue(n)) = n /\ McPduValue(n) \in McPduAssigned
\* ---- ngKSI: the spare half octet is ignored, the two directions are inverse on the half octet
KsiLaws == /\ McKsiOfOctet(lo) \in McKsiModels
           /\ McOctetOfKsi(McKsiOfOctet(lo)) = lo % 16
           /\ McKsiOfOctet(lo) = McKsiOfOctet(lo % 16)
           /\ \A m \in McKsiModels : McKsiOfOctet(McOctetOfKsi(m)) = m /\ McOctetOfKsi(m) \in 0..15
           /\ McKsiOfOctet(lo).tsc = "MAPPED" <=> McBit(lo, 3) = 1
\* ---- 5G-S-TMSI: x = AMF set id (10 bits) || AMF pointer (6 bits); the first 16 bits of the text are x
TmsiLaws == LET set == x \div 64 ptr == x % 64
                t == <<lo, hi, (lo + hi) % 256, 255 - lo>>
                o == McTmsiOctets(set, ptr, t)
                txt == McTmsiText(<<244>> \o o) IN
            /\ Len(o) = 6 /\ o[1] * 256 + o[2] = x
            /\ Len(txt) = 12 /\ McIsHex(txt) /\ McUnhex(txt) = o
            /\ \A i \in 1..12 : txt[i] \in 48..57 \cup 97..102               \* lower case
\* ---- hexadecimal text
HexLaws == /\ McUnhex(McHex(<<hi, lo>>)) = <<hi, lo>>
           /\ McHexVal(McHexDigit(lo % 16)) = lo % 16
           /\ (McHexVal(lo) >= 0) <=> (lo \in 48..57 \cup 65..70 \cup 97..102)
\* ---- header octets: the security header type is a 4-bit value that does not depend on the spare half octet
HdrLaws == LET b == <<hi, lo, 0>> IN
           /\ McEpd(b) = hi
           /\ McSecHdrType(b) \in 0..15
           /\ McSecHdrType(b) = McSecHdrType(<<hi, lo % 16, 0>>)
\* ---- static facts
ASSUME McKnownCauses \subseteq 0..255 /\ Cardinality(McKnownCauses) = 37
ASSUME \A r \in BOOLEAN, a \in BOOLEAN : McUpuHeader(r, a) \in {0, 2, 4, 6} /\ McBit(McUpuHeader(r, a), 2) = (IF r THEN 1 ELSE 0)
                                         /\ McBit(McUpuHeader(r, a), 1) = (IF a THEN 1 ELSE 0) /\ McBit(McUpuHeader(r, a), 0) = 0
ASSUME McTmsiTypeName = <<53, 71, 45, 83, 45, 84, 77, 83, 73>>

\* ---- PLMN: octets -> (mcc, mnc) inverts (mcc, mnc) -> octets on the whole domain of the API
PlmnLaws == LET mcc == x \div 1000 mnc == x % 1000 o == UePlmnToOctets(mcc, mnc) IN
            /\ UePlmnWellFormed(o)
            /\ McPlmnOf(o) = <<mcc, mnc>>
            /\ UePlmnToOctets(McPlmnOf(o)[1], McPlmnOf(o)[2]) = o
=============================================================================
