SPECIFICATION Spec
CONSTANTS Cells = {1} Algs = {0, 1, 4} Keys = {1} Counts = {7} Bearers = {31, 32} Dirs = {1}
          Sym = {0, 1} MaxLen = 1 Pats <- OnePat MacVals <- TwoMacs MaxRes = 2 MacTop = 1 Nil = Nil MaxPoints = 1 WithNil = TRUE
INVARIANTS TypeOK Accounting LengthPreserved Involution ResultOwned
PROPERTIES ErrUntouched GuardExact NullIdentity MacShape MacPure MacFresh
CHECK_DEADLOCK FALSE
