SPECIFICATION Spec
CONSTANTS MinLo = 0 MaxLo = 2 MaxSize = 5 ArgSlack = 2
INVARIANTS InBounds Fresh FailOnlyWhenFull NoHang OffsetInRange UsedInRange FreedIsReusable
PROPERTY Refines
CHECK_DEADLOCK FALSE
