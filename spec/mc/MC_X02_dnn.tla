----------------------------- MODULE MC_X02_dnn -----------------------------
(* Stage A for the DNN coding of MiscConvert (TS 23.003 9.1): the laws over every list of at most
   MaxLabels labels drawn from Labels (label lengths at the boundaries 0, 1, 62, 63, 64; letters,
   hyphen, a non-LDH octet, the operator-identifier labels), and the text laws over every text of
   at most MaxText characters over TextAlphabet (dots anywhere).
   Stage B (MC_X02_dnn_gen.cfg): the same domains printed as cases for the real SetDNN / GetDNN. *)
EXTENDS MiscConvert, Json
CONSTANTS MaxLabels, MaxText, TextAlphabet, BufAlphabet, MaxBuf
VARIABLES ls, s
Fill(c, n) == [i \in 1..n |-> c]
LabA(n) == [i \in 1..n |-> IF i = 1 THEN 97 ELSE IF i = n THEN 57 ELSE IF i % 7 = 0 THEN 45 ELSE 98 + (i % 24)]    \* a...9 with hyphens inside: well formed for n in 1..62
LabelsAll == {LabA(n) : n \in {1, 2, 3, 36, 37, 61, 62, 63, 64}} \cup
             {<< >>, <<45>>, <<45, 97>>, <<97, 45>>, <<97, 95, 98>>, <<195, 169>>, <<65, 90>>,
              McLabelGprs, <<109, 110, 99, 48, 57, 51>>, <<109, 99, 99, 50, 48, 56>>}
LabelsSmall == {LabA(1), LabA(2), LabA(62), LabA(63), << >>, <<97, 45>>, <<65, 90>>}
CONSTANT Labels
\* names with an operator identifier: network identifier + mnc093.mcc208.gprs
Oi == <<<<109, 110, 99, 48, 57, 51>>, <<109, 99, 99, 50, 48, 56>>, McLabelGprs>>
WithOi == {<<LabA(n)>> \o Oi : n \in {1, 61, 62, 63}} \cup {<<LabA(30), LabA(31)>> \o Oi, <<LabA(30), LabA(32)>> \o Oi,
           <<LabA(40), LabA(36)>> \o Oi, <<LabA(40), LabA(37)>> \o Oi, Oi, <<LabA(5)>> \o SubSeq(Oi, 2, 3)}
Lists == UNION {[1..n -> Labels] : n \in 0..MaxLabels} \cup WithOi
Texts == UNION {[1..n -> TextAlphabet] : n \in 0..MaxText}
InitLabels == ls \in Lists /\ s = << >>
InitTexts  == ls = << >> /\ s \in Texts
InitBufs   == ls = << >> /\ s \in UNION {[1..n -> BufAlphabet] : n \in 0..MaxBuf}
Next == UNCHANGED <<ls, s>>

RECURSIVE Size(_)
Size(x) == IF x = << >> THEN 0 ELSE 1 + Len(Head(x)) + Size(Tail(x))
b == McDnnEncode(ls)
NoDot(l) == \A i \in 1..Len(l) : l[i] # McDot
\* decoding inverts encoding for every label list; lengths add up
DnnRoundTrip == Len(b) = Size(ls) /\ McDnnLabels(b, 1) = ls /\ McDnnExact(b, 1, 0, 255 + 64)
\* text: joining with dots and splitting at dots are inverse (labels hold no dot; no labels = no text, which splits into one empty label)
DnnText == (ls # << >> /\ \A k \in 1..Len(ls) : NoDot(ls[k])) => McSplit(McJoin(ls)) = ls
\* a well-formed name: no zero length octet anywhere (in particular no terminating one), labels <= 62, <= 100 octets, the standard's encoding
DnnWellFormedShape == McDnnWellFormed(ls) => /\ McDnnExactStd(b) /\ Len(b) \in 2..100 /\ \A i \in 1..Len(b) : b[i] # 0
                                             /\ \A k \in 1..Len(ls) : Len(ls[k]) \in 1..62
                                             /\ McDnnClass(ls) = "well-formed"
DnnClassTotal == McDnnClass(ls) \in {"well-formed", "empty-name", "empty-label", "label-over-63", "label-63", "over-100", "network-id-over-63", "not-LDH"}
\* the boundary the standard draws: one label of 62 octets is a name, one of 63 is not (network identifier 64 octets > 63)
ASSUME McDnnWellFormed(<<LabA(62)>>) /\ ~McDnnWellFormed(<<LabA(63)>>) /\ McDnnClass(<<LabA(63)>>) = "label-63"
ASSUME McDnnWellFormed(<<LabA(62)>> \o Oi) /\ McDnnWellFormed(<<LabA(30), LabA(31)>> \o Oi) /\ ~McDnnWellFormed(<<LabA(30), LabA(32)>> \o Oi)
ASSUME McDnnWellFormed(<<LabA(40), LabA(36)>> \o Oi) = FALSE /\ McDnnClass(<<LabA(40), LabA(36)>> \o Oi) = "network-id-over-63"
ASSUME McDnnEncode(<<<<105, 110, 116, 101, 114, 110, 101, 116>>>>) = <<8, 105, 110, 116, 101, 114, 110, 101, 116>>
\* every text: split then join gives the text back; the number of labels is the number of dots + 1
Dots(t) == Cardinality({i \in 1..Len(t) : t[i] = McDot})
TextLaws == McJoin(McSplit(s)) = s /\ Len(McSplit(s)) = Dots(s) + 1 /\ \A k \in 1..Len(McSplit(s)) : NoDot(McSplit(s)[k])
\* every octet string that is an exact label sequence is the encoding of its labels
BufLaws == McDnnExact(s, 1, 0, 255) => McDnnEncode(McDnnLabels(s, 1)) = s

EmitName == ls = << >> \/ PrintT(ToJson([kind |-> "dnn", name |-> McJoin(ls)]))
EmitText == PrintT(ToJson([kind |-> "dnn", name |-> s]))
EmitBuf  == PrintT(ToJson([kind |-> "dnnbuf", buf |-> s]))
=============================================================================
