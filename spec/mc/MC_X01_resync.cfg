SPECIFICATION Spec
CONSTANTS SqnMod = 4 OvfMod = 3 Ctx <- CtxSec Msgs = {1} Starts <- AllCounts NetCap = 2 MaxSent = 4 EnvBudget = 4
          Env <- EnvSkip Skips = {1, 2, 3} MaxLead = 3 AllowWrap = FALSE Bits <- BitsSmall ReflectCounts <- NoCounts RefuseWrap = FALSE
INVARIANTS TypeOK NoReject NeverDesynced AcceptWindow
CHECK_DEADLOCK FALSE
