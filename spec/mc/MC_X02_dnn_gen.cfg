INIT InitLabels
NEXT Next
CONSTANTS MaxLabels = 3 MaxText = 0 TextAlphabet = {46} BufAlphabet = {0} MaxBuf = 0 Labels <- LabelsSmall
INVARIANTS EmitName
CHECK_DEADLOCK FALSE
