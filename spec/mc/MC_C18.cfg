SPECIFICATION MSpec
CONSTANTS
  MaxSub = 2
  MaxIns = 2
  MaxPart = 2
  MaxRes = 2
  MachSub = 2
  MachIns = 2
  MachPart = 1
  MachRes = 2
  FullPlmn = FALSE
INVARIANTS MeasureNat StepBound AgreesWithSpec Canonical
PROPERTY MeasureDecreases
