--------------------------- MODULE MC_C19sec_gen ---------------------------
(* Generator for family f08 of C19: the calls of the security API that never reach a cipher - the NULL algorithms and
   every refusal (bearer above 31, direction above 1, unknown algorithm identity) - in the case format of harness/cmd/sec.
   All goroutines make them at the same time: a refusal path or the NULL path that reports through shared state (an error
   value, a log record, a counter) is shared state like any other.  One state = one case; what the specification says
   about each is SecurityApi's guard (GuardOK) and NULL laws, evaluated on the observations by Trace_C19sec. *)
EXTENDS Integers, Sequences, TLC, Json
VARIABLE d
Ops == {"NASEncrypt", "NASMacCalculate"}
Lens == {0, 1, 5, 16, 33, 64}
GuardOK(alg, bearer, dir) == bearer <= 31 /\ dir <= 1 /\ alg \in 0..3
Points ==
  {<<op, 0, b, dr, n>> : op \in Ops, b \in {0, 1, 17, 31}, dr \in {0, 1}, n \in Lens}                           \* NULL algorithms
  \cup {<<op, a, b, dr, n>> : op \in Ops, a \in {4, 5, 7, 8, 127, 128, 255}, b \in {0, 31}, dr \in {0, 1}, n \in {0, 5, 33}}   \* unknown identities
  \cup {<<op, a, b, dr, n>> : op \in Ops, a \in 0..3, b \in {32, 33, 64, 255}, dr \in {0, 1}, n \in {0, 5, 33}}  \* bearer beyond 5 bits
  \cup {<<op, a, b, dr, n>> : op \in Ops, a \in 0..3, b \in {0, 31}, dr \in {2, 3, 128, 255}, n \in {0, 5, 33}}  \* direction beyond 1 bit
Fill(n, k) == SubSeq([i \in 1..n |-> (i * 29 + k * 7 + 3) % 256], 1, n)
CaseOf(p) ==
  [op |-> p[1], alg |-> p[2], bearer |-> p[3], dir |-> p[4], nbits |-> 8 * p[5], dpat |-> 2,
   key |-> Fill(16, p[2] + p[3]), cnt |-> Fill(4, p[4] + p[5]), data |-> Fill(p[5], p[2] + p[3] + p[4]), grp |-> 0, seq |-> 0]
Init == d \in Points
Next == UNCHANGED d
Spec == Init /\ [][Next]_d
\* every generated call is one that never reaches a cipher
Sane == ~GuardOK(d[2], d[3], d[4]) \/ d[2] = 0
Emit == PrintT(ToJson(CaseOf(d)))
=============================================================================
