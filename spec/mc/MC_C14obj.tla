------------------------------ MODULE MC_C14obj ------------------------------
(* Stage A for the reused-value model (HelperObject) and the generator of reuse histories:
   every ordered pair of contents of the pools x every pair of ways of storing them.  Each state of
   the exhaustive model carries the last two Set actions; PairEmit prints the pair when the second
   Set has just happened.  The orchestrator expands a pair into
   Set c1; every getter; Set c2; every getter  on ONE value. *)
EXTENDS HelperObject, TLC, Json
VARIABLE prev          \* history variable: contents c and mode m of the previous Set, mode cm of the current one
Init == OInit /\ prev = [c |-> <<>>, m |-> "new", cm |-> "new"]
Next ==
  \/ /\ Set(PoolOf(kind))
     /\ prev' = [c |-> contents, m |-> prev.cm, cm |-> last'.g]
  \/ Get /\ UNCHANGED prev
Spec == Init /\ [][Next]_<<ovars, prev>>
PairEmit ==
  last.op = "Set" /\ prev.m \in SetModes =>
    PrintT(ToJson([obj |-> kind, c1 |-> prev.c, m1 |-> prev.m, c2 |-> contents, m2 |-> last.g]))
=============================================================================
