INIT PsiInit
NEXT PsiNext
INVARIANTS OctetsRoundTrip BitLaw BitmapRoundTrip
CHECK_DEADLOCK FALSE
